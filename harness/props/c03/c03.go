// Package c03: printing then reading gives back an equal object of the same
// type. Exhaustive enumeration of objects (leaf inventory x container shapes,
// structurally enumerated trees, every Unicode scalar) x printer
// configurations documented to keep the output readable; each case is printed
// and re-read by the REAL slip through three routes and compared with the
// harness' own value model.
package c03

import (
	"bytes"
	"fmt"
	"hash/crc32"
	"math"
	"math/big"
	"regexp"
	"sort"
	"strings"
	"unicode"
	"unicode/utf8"

	"github.com/ohler55/slip"
	"github.com/ohler55/slip/pkg/swank"

	"verif/engine"
	"verif/lisp"
)

func init() {
	engine.Register(&engine.Prop{
		ID:    "C03",
		Level: "exploration",
		Rule: "every object of the inventory (leaf x container shape, every structurally enumerated tree, every Unicode scalar as " +
			"#\\c and as a one-character string) x every enumerated printer configuration with *print-readably* t, *print-escape* t, " +
			"*print-array* t; objects are built in Go, printed and re-read by slip through three routes " +
			"(write-to-string keywords + read-from-string; let-bound *print-...* + prin1-to-string + read-from-string; " +
			"Printer.Append + slip.Read), converted back by Go type switch (arrays through Get(indexes)) and compared exactly; " +
			"with *print-pretty* t the flat rendering is re-read too and both read-backs compared; swank " +
			"ReadWireMessage(WriteWireMessage(m)) for message-shaped lists. A case is non-trivial when its rendering needs more than " +
			"plain decimal/lower-case tokens in one flat list: a radix marker, |quoting|, a string or character escape, a float " +
			"marker, a bignum/ratio, a dotted tail, vector/array syntax, a case conversion or a line break",
		Assumptions: []string{
			"configurations that count as 'documented to keep output readable': *print-readably* t with *print-escape* t and *print-array* t (clpkg.go doc of *print-readably*; every Readably method says that with p.Readably false the output 'may or may not be readable'); *print-readably* nil is run for Go faults only",
			"*print-base* other than 10 only together with *print-radix* t; the text is re-read with *read-base* 10 and the default float format",
			"slip symbols are case-insensitive: names are compared with strings.EqualFold (Symbol.Equal)",
			"long-floats have no fixed precision in slip: read-back must be numerically equal or within 2 ulp of the original's precision",
			"symbols named nil / t, keywords whose name needs |quoting|, rank-0 arrays and arrays with a zero dimension are not enumerated (slip cannot construct or denote them)",
		},
		Enumerate: enumerate,
		Exec:      exec,
		Required: []string{"api-wts", "api-let", "api-go", "bignum", "ratio", "single-float", "double-float", "long-float",
			"radix-marker", "symbol-piped", "string-escaped", "char-named", "char-nonascii", "case-converted",
			"pretty-wrapped", "pretty-vs-flat", "dotted", "vector", "array-multidim", "wire", "type-of-compared", "pair"},
		Bound:    bound,
		Selftest: selftest,
	})
}

func bound(tier string) string {
	if tier == engine.Thorough {
		return fmt.Sprintf("%d leaves at top level (integers/ratios x base 2..36 with radix + base 10 without, x 3 cases x pretty on/off; floats, strings, symbols incl. every printable ASCII character at 3 positions, characters U+0000..U+017F) ; %d core leaves x %d container shapes x {3 cases x 7 base/radix settings x (flat + right margins 1..200)}; full grid (36 base/radix x 3 cases x (flat + margins 1..200)) on a %d-object core; every ordered pair of %d leaves as (a b), #(a b), (a . b) x 6 configurations and every ordered pair of the wire leaves in 2 message shapes; all list/dotted/vector trees of depth <= 2 (width <= 3 / <= 2) over 4 leaves x (flat + every margin 1..flat length+2); every Unicode scalar value (1,112,064) as #\\c and as a one-character string; swank wire round trip of %d message shapes x %d leaves; *print-readably* nil observed for Go faults",
			len(topLeaves()), len(coreLeaves(false)), len(shapeNames), len(fullCore()), len(pairLeaves()), len(wireShapes), len(wireLeaves()))
	}
	return fmt.Sprintf("%d leaves at top level (integers/ratios x base 2..36 with radix + base 10 without; floats x 5 base/radix settings; strings, symbols incl. every printable ASCII character at 3 positions, characters U+0000..U+017F x 3 cases x pretty on/off); %d core leaves x %d container shapes x {3 cases x 4 base/radix settings x (flat + margins 1,2,3,5,8,13,20,40,80,200)}; every ordered pair of %d leaves as (a b), #(a b), (a . b) under the flat baseline configuration and every ordered pair of the wire leaves in 2 message shapes; all list/dotted/vector trees of depth <= 2 (width <= 2) over 3 leaves x (flat + 8 margins); Unicode scalars U+0180..U+33FF and every plane/encoding boundary block as #\\c and one-character string; swank wire round trip of %d message shapes x %d leaves; *print-readably* nil observed for Go faults",
		len(topLeaves()), len(coreLeaves(true)), len(shapeNames), len(pairLeaves()), len(wireShapes), len(wireLeaves()))
}

// ------------------------------------------------------------------ leaves

type leaf struct {
	label string
	v     *val
}

func pow2(n uint) *big.Int { return new(big.Int).Lsh(big.NewInt(1), n) }

func bigOf(s string) *big.Int {
	n, ok := new(big.Int).SetString(s, 0)
	if !ok {
		panic(s)
	}
	return n
}

func intLeaves() []leaf {
	var out []leaf
	add := func(n *big.Int) {
		label := "fixnum"
		switch {
		case !n.IsInt64() && n.Sign() < 0:
			label = "bignum-neg"
		case !n.IsInt64():
			label = "bignum"
		case n.Int64() == math.MinInt64:
			label = "fixnum-min"
		case n.Int64() == math.MaxInt64:
			label = "fixnum-max"
		case n.Sign() < 0:
			label = "fixnum-neg"
		}
		out = append(out, leaf{label, vInt(n)})
	}
	for _, i := range []int64{0, 1, -1, 2, 3, 7, 10, -10, 35, 36, 37, 255, -255, 1295, 1296} {
		add(big.NewInt(i))
	}
	add(pow2(31))
	add(pow2(32))
	add(new(big.Int).Add(pow2(53), big.NewInt(1)))
	add(pow2(62))
	add(new(big.Int).Sub(pow2(63), big.NewInt(1)))
	add(new(big.Int).Neg(pow2(63)))
	add(pow2(63))
	add(new(big.Int).Neg(new(big.Int).Add(pow2(63), big.NewInt(1))))
	add(pow2(64))
	add(new(big.Int).Add(pow2(64), big.NewInt(1)))
	add(new(big.Int).Neg(pow2(64)))
	add(bigOf("1000000000000000000000000000000"))
	add(bigOf("-1000000000000000000000000000000"))
	add(bigOf("1234567890123456789012345678901234567890123456789012345678901"))
	add(bigOf("0xfedcba9876543210fedcba9876543210fedcba9876543210ff"))
	return out
}

func ratLeaves() []leaf {
	var out []leaf
	add := func(n, d *big.Int) {
		r := new(big.Rat).SetFrac(n, d)
		label := "ratio"
		switch {
		case !r.Num().IsInt64() || !r.Denom().IsInt64():
			label = "ratio-big"
		case r.Sign() < 0:
			label = "ratio-neg"
		}
		out = append(out, leaf{label, &val{k: kRatio, r: r}})
	}
	b := big.NewInt
	add(b(1), b(2))
	add(b(-2), b(3))
	add(b(10), b(7))
	add(b(35), b(36))
	add(b(-1), b(36))
	add(b(255), b(256))
	add(pow2(31), b(3))
	add(new(big.Int).Sub(pow2(63), b(1)), b(2))
	add(new(big.Int).Add(pow2(64), b(1)), pow2(63))
	add(bigOf("-1000000000000000000000000000000"), b(7))
	add(b(1), pow2(64))
	// the representation boundaries on both sides of the bar: numerators and denominators around 2^63 and 2^64
	// (a reader or printer shortcut for "ratio of fixnums" has its edge exactly there)
	one := b(1)
	nums := []*big.Int{b(1), b(-1), b(3), new(big.Int).Sub(pow2(63), one), new(big.Int).Neg(new(big.Int).Sub(pow2(63), one)),
		new(big.Int).Add(pow2(63), one), new(big.Int).Neg(new(big.Int).Add(pow2(63), one)), new(big.Int).Sub(pow2(64), one)}
	dens := []*big.Int{new(big.Int).Add(pow2(62), one), new(big.Int).Sub(pow2(63), b(2)), pow2(63), new(big.Int).Add(pow2(63), b(2)),
		new(big.Int).Sub(pow2(64), b(3)), pow2(64), new(big.Int).Add(pow2(64), b(3))}
	for _, n := range nums {
		for _, d := range dens {
			add(n, d)
		}
	}
	return out
}

const piDigits = "3.14159265358979323846264338327950288419716939937510582097494459230781640628620899862803482534211706798214808651"

func longOf(text string, prec uint) *val {
	f, _, err := big.ParseFloat(text, 10, prec, big.ToNearestEven)
	if err != nil {
		panic(err)
	}
	return &val{k: kLong, lf: f}
}

func floatLeaves() []leaf {
	var out []leaf
	s := func(label string, f float32) { out = append(out, leaf{label, &val{k: kSingle, f: float64(f)}}) }
	d := func(label string, f float64) { out = append(out, leaf{label, &val{k: kDouble, f: f}}) }
	s("single", 0)
	s("single-negzero", float32(math.Copysign(0, -1)))
	s("single", 1.5)
	s("single", -1.5)
	s("single", 1e10)
	s("single", 1e-7)
	s("single", 1e21)
	s("single", 0.1)
	s("single", 16777216)
	s("single", float32(math.Pi))
	s("single-extreme", math.MaxFloat32)
	s("single-extreme", 1.17549435e-38)
	s("single-subnormal", math.SmallestNonzeroFloat32)
	d("double", 0)
	d("double-negzero", math.Copysign(0, -1))
	d("double", 1.5)
	d("double", -1.5)
	d("double", 1e10)
	d("double", 1e-7)
	d("double", 1e21)
	d("double", 1e22)
	d("double", 1e23)
	d("double", 0.1)
	d("double", 123456789012345680)
	d("double", math.Pi)
	d("double-extreme", math.MaxFloat64)
	d("double-extreme", 2.2250738585072014e-308)
	d("double-subnormal", math.SmallestNonzeroFloat64)
	l := func(label, text string, prec uint) { out = append(out, leaf{label, longOf(text, prec)}) }
	l("long-exact", "1.5", 53)
	l("long-exact", "-2.5", 53)
	l("long-exact", "0.75", 53)
	l("long-exact", "1024", 53)
	l("long-exact", "0", 53)
	l("long-decimal", "0.1", 53)
	l("long-decimal", "1e10", 53)
	l("long-decimal", "1e-7", 53)
	l("long-decimal", "1e21", 64)
	l("long-decimal", "1e100", 128)
	l("long-full", piDigits, 53)
	l("long-full", piDigits, 64)
	l("long-full", piDigits, 100)
	l("long-full", piDigits, 256)
	l("long-full", "-0.33333333333333333333333333333333333333333333333333333333333333333333333333", 200)
	return out
}

func stringLeaves() []leaf {
	var out []leaf
	a := func(label, s string) { out = append(out, leaf{label, vStr(s)}) }
	a("string-empty", "")
	a("string-plain", "abc")
	a("string-plain", "Hello World")
	a("string-quote", `a"b`)
	a("string-quote", `"`)
	a("string-quote", `""`)
	a("string-backslash", `a\b`)
	a("string-backslash", `\`)
	a("string-backslash", `a\`)
	a("string-backslash", `\n`)
	a("string-backslash", `\"`)
	a("string-backslash", `c:\u0041`)
	a("string-newline-tab", "l1\nl2")
	a("string-newline-tab", "a\tb")
	a("string-newline-tab", "a\r\nb")
	a("string-control", "a\x00b")
	a("string-control", "\x01\x1f")
	a("string-control", "a\x7fb")
	a("string-control", "\b\f")
	a("string-unicode", "é")
	a("string-unicode", "😀")
	a("string-unicode", "日本語 text")
	a("string-unicode", "a\u2028b")
	a("string-unicode", "\ufeffx")
	a("string-syntax", "|")
	a("string-syntax", "(a . b)")
	a("string-syntax", "; not a comment")
	a("string-syntax", `#\a #| x |#`)
	a("string-syntax", "'`,@")
	return out
}

func catName(r rune) string {
	switch {
	case unicode.IsLetter(r):
		return "letter"
	case unicode.IsMark(r):
		return "mark"
	case unicode.IsNumber(r):
		return "number"
	case unicode.IsPunct(r):
		return "punct"
	case unicode.IsSymbol(r):
		return "symbol"
	case unicode.IsSpace(r):
		return "space"
	case unicode.Is(unicode.Cc, r):
		return "control"
	case unicode.Is(unicode.Cf, r):
		return "format"
	case unicode.Is(unicode.Co, r):
		return "private"
	}
	return "unassigned"
}

// charClass: ASCII characters are their own class (the reader's tables are
// per byte), everything else is classed by UTF-8 length and general category.
func charClass(r rune) string {
	if r < 0x80 {
		return fmt.Sprintf("U+%04X", r)
	}
	return fmt.Sprintf("utf8x%d-%s", utf8.RuneLen(r), catName(r))
}

var extraChars = []rune{0x2028, 0x3000, 0xfeff, 0xfffd, 0xd7ff, 0xe000, 0xffff, 0x10000, 0x1f600, 0x10ffff}

func charLeaves() []leaf {
	var out []leaf
	for r := rune(0); r < 0x180; r++ {
		out = append(out, leaf{"char:" + charClass(r), vChar(r)})
	}
	for _, r := range extraChars {
		out = append(out, leaf{"char:" + charClass(r), vChar(r)})
	}
	return out
}

func string1Leaves() []leaf {
	var out []leaf
	for r := rune(0); r < 0x180; r++ {
		out = append(out, leaf{"string1:" + charClass(r), vStr(string(r))})
	}
	for _, r := range extraChars {
		out = append(out, leaf{"string1:" + charClass(r), vStr(string(r))})
	}
	return out
}

func symbolLeaves() []leaf {
	var out []leaf
	a := func(label string, names ...string) {
		for _, n := range names {
			out = append(out, leaf{label, vSym(n)})
		}
	}
	a("symbol-plain", "abc", "a-b", "*x*", "a.b", "+", "-", "1+", "<=", "a1", "x")
	a("symbol-mixedcase", "Foo", "FOO", "fooBar")
	a("symbol-piped", "a b", "A b", "two words here")
	a("symbol-empty", "")
	a("symbol-numberlike", "1", "-1", "+1", "1.", "1.5", "1/2", "1e3", "1d0", "1.5s2", "007")
	a("symbol-dot", ".")
	a("symbol-dots", "..", "...")
	a("symbol-nonascii", "é", "aé", "λx", "日本", "😀")
	a("symbol-nonascii-case", "ı", "ß", "ǅ")
	a("symbol-package-marker", "a:b", "a::b")
	for _, pos := range []string{"mid", "first", "last"} {
		for r := rune(0x20); r < 0x7f; r++ {
			if unicode.IsLetter(r) || unicode.IsDigit(r) {
				continue
			}
			if r == ':' && pos == "first" {
				continue
			}
			var name string
			switch pos {
			case "mid":
				name = "a" + string(r) + "b"
			case "first":
				name = string(r) + "a"
			default:
				name = "a" + string(r)
			}
			if name == "a.b" || name == "a:b" {
				continue
			}
			out = append(out, leaf{fmt.Sprintf("symbol-char:U+%04X@%s", r, pos), vSym(name)})
		}
	}
	// every ordered pair of characters that are not letters or digits in one name: what the printer does for
	// the second one must not depend on what it met first (a bar or a backslash after a space, a bracket ...)
	for r1 := rune(0x20); r1 < 0x7f; r1++ {
		for r2 := rune(0x20); r2 < 0x7f; r2++ {
			if unicode.IsLetter(r1) || unicode.IsDigit(r1) || unicode.IsLetter(r2) || unicode.IsDigit(r2) || r1 == ':' || r2 == ':' {
				continue
			}
			out = append(out, leaf{fmt.Sprintf("symbol-char2:U+%04X,U+%04X", r1, r2), vSym("a" + string(r1) + "b" + string(r2) + "c")})
		}
	}
	a("symbol-char:U+0009@mid", "a\tb")
	a("symbol-char:U+000A@mid", "a\nb")
	a("symbol-char:U+007F@mid", "a\x7fb")
	a("keyword", ":abc", ":a-b", ":a.b", ":k1")
	a("keyword-mixedcase", ":Foo", ":FOO")
	a("keyword-digit", ":1")
	return out
}

func constLeaves() []leaf {
	return []leaf{{"nil", &val{k: kNil}}, {"t", &val{k: kT}}}
}

func topLeaves() []leaf {
	var out []leaf
	out = append(out, constLeaves()...)
	out = append(out, intLeaves()...)
	out = append(out, ratLeaves()...)
	out = append(out, floatLeaves()...)
	out = append(out, stringLeaves()...)
	out = append(out, symbolLeaves()...)
	out = append(out, charLeaves()...)
	out = append(out, string1Leaves()...)
	return out
}

// coreLeaves: the leaves placed into every container shape.
func coreLeaves(quick bool) []leaf {
	out := []leaf{
		{"fixnum", vI(7)},
		{"fixnum-neg", vI(-5)},
		{"fixnum", vI(255)},
		{"bignum", vInt(pow2(64))},
		{"ratio", &val{k: kRatio, r: big.NewRat(2, 3)}},
		{"single", &val{k: kSingle, f: 1.5}},
		{"double", &val{k: kDouble, f: 1e21}},
		{"long-full", longOf(piDigits, 64)},
		{"string-plain", vStr("abc")},
		{"string-empty", vStr("")},
		{"string-escape", vStr(`a"b\c`)},
		{"string-newline-tab", vStr("l1\nl2")},
		{"string-unicode", vStr("é😀")},
		{"string-syntax", vStr(") ; (")},
		{"char-alnum", vChar('a')},
		{"char-named", vChar(' ')},
		{"char-named", vChar('\n')},
		{"char-nonascii", vChar('é')},
		{"char-nonascii", vChar(0x1f600)},
		{"char-punct", vChar('#')},
		{"char-punct-paren", vChar('(')},
		{"symbol-plain", vSym("abc")},
		{"symbol-mixedcase", vSym("Foo")},
		{"symbol-piped", vSym("a b")},
		{"symbol-piped", vSym("a(b")},
		{"symbol-piped", vSym("a;b")},
		{"symbol-piped", vSym("a\"b")},
		{"symbol-piped", vSym("a'b")},
		{"symbol-empty", vSym("")},
		{"symbol-numberlike", vSym("1")},
		{"symbol-nonascii", vSym("é")},
		{"keyword", vSym(":key")},
		{"nil", &val{k: kNil}},
		{"t", &val{k: kT}},
	}
	if !quick {
		out = append(out,
			leaf{"bignum-neg", vInt(bigOf("-1000000000000000000000000000000"))},
			leaf{"ratio-big", &val{k: kRatio, r: new(big.Rat).SetFrac(new(big.Int).Add(pow2(64), big.NewInt(1)), pow2(63))}},
			leaf{"double-subnormal", &val{k: kDouble, f: math.SmallestNonzeroFloat64}},
			leaf{"string-control", vStr("a\x00b")},
		)
	}
	return out
}

// ------------------------------------------------------------------ shapes

var shapeNames = []string{"list1", "vec1", "dotted", "arr22", "list3", "listhead", "dotted3", "dottedhead", "nested", "deep",
	"vec3", "vec-in-list", "list-in-vec", "arr23", "arr122", "arr-in-list", "list-in-arr", "vec-in-arr"}

// reductsOf: the minimal shapes CONTAINED in a shape; a container failure is
// attributed to the first of them that fails the same way (keeps one defect
// from producing one signature per shape).
func reductsOf(shape string) []string {
	switch shape {
	case "list3", "listhead", "nested", "deep":
		return []string{"list1"}
	case "dotted3", "dottedhead":
		return []string{"list1", "dotted"}
	case "dotted":
		return []string{"list1"}
	case "vec1":
		return []string{"list1"}
	case "vec3", "vec-in-list", "list-in-vec":
		return []string{"list1", "vec1"}
	case "arr22":
		return []string{"list1"}
	case "arr23", "arr122", "arr-in-list", "list-in-arr":
		return []string{"list1", "arr22"}
	case "vec-in-arr":
		return []string{"list1", "vec1", "arr22"}
	}
	return nil
}

func buildShape(name string, h *val) *val {
	a, one := vSym("a"), vI(1)
	switch name {
	case "top", "tree":
		return h
	case "list1":
		return vList(h)
	case "list3":
		return vList(a, h, one)
	case "listhead":
		return vList(h, a)
	case "dotted":
		return vDot(h, a)
	case "dotted3":
		return vDot(h, a, one)
	case "dottedhead":
		return vDot(a, h)
	case "nested":
		return vList(a, vList(h), one)
	case "deep":
		return vList(vList(a, vList(h, one)))
	case "vec1":
		return vVec(h)
	case "vec3":
		return vVec(a, h, one)
	case "vec-in-list":
		return vList(a, vVec(h))
	case "list-in-vec":
		return vVec(vList(h), a)
	case "arr22":
		return vArr([]int{2, 2}, h, a, one, h)
	case "arr23":
		return vArr([]int{2, 3}, h, a, one, vI(2), vSym("b"), h)
	case "arr122":
		return vArr([]int{1, 2, 2}, h, a, one, h)
	case "arr-in-list":
		return vList(a, vArr([]int{1, 1}, h))
	case "list-in-arr":
		return vArr([]int{1, 2}, vList(h), vDot(one, a))
	case "vec-in-arr":
		return vArr([]int{2, 1}, vVec(h), a)
	}
	panic("unknown shape " + name)
}

// ------------------------------------------------------------------- trees

// trees enumerates every list / dotted list / vector of the given width over
// the element alphabet.
func containersOver(elems []*val, maxWidth int, tails []*val) []*val {
	var out []*val
	var tuples func(w int, cur []*val, f func([]*val))
	tuples = func(w int, cur []*val, f func([]*val)) {
		if w == 0 {
			f(append([]*val{}, cur...))
			return
		}
		for _, e := range elems {
			tuples(w-1, append(cur, e), f)
		}
	}
	for w := 1; w <= maxWidth; w++ {
		tuples(w, nil, func(t []*val) {
			out = append(out, vList(t...))
			out = append(out, vVec(t...))
			if w < maxWidth || w == 1 {
				for _, tl := range tails {
					out = append(out, vDot(tl, t...))
				}
			}
		})
	}
	return out
}

func treeObjects(quick bool) []*val {
	leaves := []*val{vI(1), vSym("abc"), vStr("s t")}
	w1, w2 := 2, 2
	if !quick {
		leaves = append(leaves, &val{k: kNil})
		w1, w2 = 3, 2
	}
	tails := []*val{vI(1), vSym("abc")}
	d1 := containersOver(leaves, w1, tails)
	out := append([]*val{}, d1...)
	out = append(out, vVec()) // the empty vector
	// depth 2: elements are leaves or depth-1 containers of width <= 2
	var small []*val
	for _, c := range d1 {
		if len(c.e) <= 2 {
			small = append(small, c)
		}
	}
	elems := append(append([]*val{}, leaves...), small...)
	for _, c := range containersOver(elems, w2, tails) {
		deep := false
		for _, e := range c.e {
			if e.k == kList || e.k == kVec {
				deep = true
			}
		}
		if deep {
			out = append(out, c)
		}
	}
	return out
}

func treeLabel(v *val) string {
	f := map[string]bool{}
	v.walk(func(n *val) {
		switch n.k {
		case kList:
			f["list"] = true
			if n.tail != nil {
				f["dotted"] = true
			}
		case kVec:
			f["vector"] = true
		case kStr:
			f["string"] = true
		case kNil:
			f["nil"] = true
		}
	})
	var names []string
	for n := range f {
		names = append(names, n)
	}
	sort.Strings(names)
	return "tree:" + strings.Join(names, "+")
}

// -------------------------------------------------------------- enumeration

var quickMargins = []int{1, 2, 3, 5, 8, 13, 20, 40, 80, 200}

type baseRadix struct {
	base  int
	radix bool
}

func allBaseRadix() []baseRadix {
	out := []baseRadix{{10, false}, {10, true}}
	for b := 2; b <= 36; b++ {
		if b != 10 {
			out = append(out, baseRadix{b, true})
		}
	}
	return out
}

func fullCore() []leaf {
	// 60 objects: 20 leaves x {top, list3, arr23}
	l := coreLeaves(true)
	pick := []int{0, 3, 4, 5, 6, 7, 8, 10, 11, 12, 14, 15, 17, 21, 22, 23, 28, 31, 32, 33}
	var out []leaf
	for _, i := range pick {
		out = append(out, l[i])
	}
	return out
}

func rtSpec(c cfg, shape, label string, v *val) string {
	return "rt " + c.String() + " " + shape + " " + label + " " + v.spec()
}

func enumerate(tier string, emit func(string)) {
	quick := tier != engine.Thorough
	top := topLeaves()
	cases := []byte{'d', 'u', 'c'}

	// 1. every leaf alone under the baseline configuration (simplest first)
	for _, l := range top {
		emit(rtSpec(baseline, "top", l.label, l.v))
	}
	// 2. leaves alone x the dimensions their rendering can depend on
	for _, l := range top {
		k := l.v.k
		switch {
		case k == kInt || k == kRatio:
			cs := []byte{'d'}
			ps := []bool{false}
			if !quick {
				cs, ps = cases, []bool{false, true}
			}
			for _, br := range allBaseRadix() {
				for _, cas := range cs {
					for _, p := range ps {
						emit(rtSpec(cfg{br.base, br.radix, cas, p, 120}, "top", l.label, l.v))
					}
				}
			}
		case k == kSingle || k == kDouble || k == kLong:
			for _, br := range []baseRadix{{10, false}, {10, true}, {2, true}, {16, true}, {36, true}} {
				emit(rtSpec(cfg{br.base, br.radix, 'd', false, 120}, "top", l.label, l.v))
				if !quick {
					emit(rtSpec(cfg{br.base, br.radix, 'u', true, 120}, "top", l.label, l.v))
				}
			}
		default:
			for _, br := range []baseRadix{{10, false}, {16, true}} {
				for _, cas := range cases {
					for _, p := range []bool{false, true} {
						emit(rtSpec(cfg{br.base, br.radix, cas, p, 120}, "top", l.label, l.v))
					}
				}
			}
		}
	}
	// 3. core leaves in every container shape
	margins := quickMargins
	brs := []baseRadix{{10, false}, {10, true}, {16, true}, {7, true}}
	if !quick {
		margins = nil
		for m := 1; m <= 200; m++ {
			margins = append(margins, m)
		}
		brs = []baseRadix{{10, false}, {10, true}, {2, true}, {8, true}, {16, true}, {7, true}, {36, true}}
	}
	core := coreLeaves(quick)
	grid := func(shape string, l leaf) {
		for _, br := range brs {
			for _, cas := range cases {
				emit(rtSpec(cfg{br.base, br.radix, cas, false, 120}, shape, l.label, l.v))
				for _, m := range margins {
					emit(rtSpec(cfg{br.base, br.radix, cas, true, m}, shape, l.label, l.v))
				}
			}
		}
	}
	for _, shape := range shapeNames {
		for _, l := range core {
			emit(rtSpec(baseline, shape, l.label, l.v))
		}
	}
	for _, shape := range shapeNames {
		for _, l := range core {
			grid(shape, l)
		}
	}
	// 3b. every ORDERED PAIR of leaves side by side (state carried by the
	// printer or the reader from one element to the next)
	pls := pairLeaves()
	pcfgs := []cfg{baseline}
	if !quick {
		pcfgs = append(pcfgs, cfg{16, true, 'u', false, 120}, cfg{10, true, 'c', false, 120}, cfg{7, true, 'd', false, 120},
			cfg{10, false, 'd', true, 120}, cfg{10, false, 'd', true, 5})
	}
	for _, pc := range pcfgs {
		for _, shape := range pairShapes {
			for _, a := range pls {
				for _, b := range pls {
					emit(pairSpec("pair", pc.String()+" "+shape, a, b))
				}
			}
		}
	}
	for _, shape := range wirePairShapes {
		for _, a := range wireLeaves() {
			for _, b := range wireLeaves() {
				emit(pairSpec("wirepair", shape, a, b))
			}
		}
	}
	// 4. structurally enumerated trees x margins
	for _, t := range treeObjects(quick) {
		label := treeLabel(t)
		emit(rtSpec(baseline, "tree", label, t))
		flat := len(refFlat(t, baseline, &mutant{}, false))
		if quick {
			for _, m := range []int{1, 2, 3, 5, 8, 13, 20, 40} {
				emit(rtSpec(cfg{10, false, 'd', true, m}, "tree", label, t))
			}
		} else {
			for m := 1; m <= flat+2; m++ {
				emit(rtSpec(cfg{10, false, 'd', true, m}, "tree", label, t))
			}
			emit(rtSpec(cfg{10, false, 'd', true, 200}, "tree", label, t))
		}
	}
	// 5. swank wire round trip
	for _, shape := range wireShapes {
		for _, l := range wireLeaves() {
			emit("wire " + shape + " " + l.label + " " + l.v.spec())
		}
	}
	// 6. *print-readably* nil: observed, Go faults only
	for _, l := range top {
		if l.v.k == kChar && 0x80 <= l.v.c || strings.HasPrefix(l.label, "string1:") {
			continue
		}
		emit("obs " + baseline.String() + " top " + l.label + " " + l.v.spec())
	}
	for _, shape := range []string{"list3", "arr23"} {
		for _, l := range core {
			emit("obs " + cfg{10, false, 'c', true, 5}.String() + " " + shape + " " + l.label + " " + l.v.spec())
		}
	}
	// 7. Unicode scalar blocks (characters below U+0180 are leaves above)
	const blk = 0x100
	if quick {
		for lo := rune(0x180); lo < 0x3400; lo += blk {
			emit(fmt.Sprintf("blk %x %x", lo, lo+blk-1))
		}
		for _, lo := range []rune{0x700, 0xd700, 0xe000, 0xfe00, 0xff00, 0x10000, 0x1f600, 0x2ff00, 0xe0000, 0xf0000, 0x10ff00} {
			emit(fmt.Sprintf("blk %x %x", lo, lo+blk-1))
		}
	} else {
		for lo := rune(0x100); lo <= unicode.MaxRune; lo += blk {
			if 0xd800 <= lo && lo < 0xe000 {
				continue
			}
			emit(fmt.Sprintf("blk %x %x", lo, lo+blk-1))
		}
	}
	// 8. thorough: the full grid on the 60-object core
	if !quick {
		all := allBaseRadix()
		for _, shape := range []string{"top", "list3", "arr23"} {
			for _, l := range fullCore() {
				for _, br := range all {
					for _, cas := range cases {
						emit(rtSpec(cfg{br.base, br.radix, cas, false, 120}, shape, l.label, l.v))
						for m := 1; m <= 200; m++ {
							emit(rtSpec(cfg{br.base, br.radix, cas, true, m}, shape, l.label, l.v))
						}
					}
				}
			}
		}
	}
}

// -------------------------------------------------------------------- exec

type verdict struct {
	kind   string // "" = round trip held
	detail string
	text   string // what slip printed
}

var apis = []string{"wts", "let", "go"}

func caseKeyword(c byte) string {
	switch c {
	case 'u':
		return ":upcase"
	case 'c':
		return ":capitalize"
	}
	return ":downcase"
}

func lispBool(b bool) string {
	if b {
		return "t"
	}
	return "nil"
}

func newPrinter(c cfg, readably bool) *slip.Printer {
	p := *slip.DefaultPrinter()
	p.ANSI = false
	p.Array = true
	p.Base = uint(c.base)
	p.Case = slip.Symbol(caseKeyword(c.cas))
	p.Circle = false
	p.Escape = true
	p.Gensym = true
	p.Lambda = false
	p.Length = math.MaxInt
	p.Level = math.MaxInt
	p.Lines = math.MaxInt
	p.MiserWidth = 0
	p.Pretty = c.pretty
	p.Radix = c.radix
	p.Readably = readably
	p.ReadablyError = true
	p.RightMargin = uint(c.margin)
	p.Prec = -1
	return &p
}

func goPrint(o slip.Object, c cfg, readably bool) (text string, err *lisp.Err) {
	defer func() {
		if rec := recover(); rec != nil {
			err = lisp.ErrFromRecovered(rec)
		}
	}()
	return string(newPrinter(c, readably).Append(nil, o, 0)), nil
}

func goRead(text string) (obj slip.Object, n int, err *lisp.Err) {
	defer func() {
		if rec := recover(); rec != nil {
			err = lisp.ErrFromRecovered(rec)
		}
	}()
	code := slip.Read([]byte(text), slip.NewScope())
	if 0 < len(code) {
		obj = code[0]
	}
	return obj, len(code), nil
}

func printSrc(api string, c cfg) string {
	if api == "wts" {
		return fmt.Sprintf("(write-to-string x :readably t :escape t :array t :base %d :radix %s :case %s :pretty %s :right-margin %d)",
			c.base, lispBool(c.radix), caseKeyword(c.cas), lispBool(c.pretty), c.margin)
	}
	return fmt.Sprintf("(let ((*print-readably* t) (*print-escape* t) (*print-array* t) (*print-base* %d) (*print-radix* %s) "+
		"(*print-case* %s) (*print-pretty* %s) (*print-right-margin* %d)) (prin1-to-string x))",
		c.base, lispBool(c.radix), caseKeyword(c.cas), lispBool(c.pretty), c.margin)
}

var (
	rxPos   = regexp.MustCompile(`\s+at \d+:\d+`)
	rxHexCh = regexp.MustCompile(`\s*\(0x[0-9a-f]+\)`)
	rxAddr  = regexp.MustCompile(`[0-9a-f]{8,}`)
	rxNum   = regexp.MustCompile(`\d+`)
	rxBlank = regexp.MustCompile(`[\s]+`)
)

// reason normalises an error message into a short stable word sequence
// (positions, addresses and numbers removed) so that two different causes of
// "could not be read" never share a signature.
func reason(msg string) string {
	m := strings.ToLower(msg)
	m = rxPos.ReplaceAllString(m, "")
	m = rxHexCh.ReplaceAllString(m, "")
	m = rxAddr.ReplaceAllString(m, "X")
	m = rxNum.ReplaceAllString(m, "N")
	m = strings.TrimSpace(m)
	// ASCII only, no quotes: a non-ASCII byte echoed by the reader becomes ~
	var b strings.Builder
	last := rune(0)
	for _, r := range m {
		switch {
		case r == '"':
			continue
		case 0x7f <= r || r < 0x20:
			r = '~'
		}
		if r == '~' && last == '~' {
			continue
		}
		b.WriteRune(r)
		last = r
	}
	m = b.String()
	if 48 < len(m) {
		m = m[:48]
	}
	return rxBlank.ReplaceAllString(m, "-")
}

func errKind(prefix string, e *lisp.Err) string {
	if e.GoFault {
		return prefix + "-go-fault:" + reason(e.Message)
	}
	return prefix + "-error:" + reason(e.Message)
}

// refOpinion (degraded mode, S9): when slip's reader rejects the text, the
// harness' own reader still judges the PRINTER half, so that a known reader
// defect does not hide a printer defect on the same objects. "" = the text
// denotes the original object for the reference reader.
func refOpinion(text string, v *val) string {
	back, err := refRead(text)
	if err != nil {
		return "/text-unreadable-for-reference-reader-too"
	}
	if k, _ := diff(v, back); k != "" {
		return "/text-denotes-another-object:" + k
	}
	return ""
}

func clip(s string) string {
	if 300 < len(s) {
		return s[:300] + "…"
	}
	return s
}

// roundTrip prints o under c through one route, reads the text back through
// the matching route and compares with v.
func roundTrip(api string, o slip.Object, v *val, c cfg, res *engine.Result) (vd verdict, back *val) {
	var (
		text  string
		perr  *lisp.Err
		obj2  slip.Object
		scope *slip.Scope
	)
	if api == "go" {
		text, perr = goPrint(o, c, true)
	} else {
		scope = slip.NewScope()
		scope.Let(slip.Symbol("x"), o)
		var out slip.Object
		out, perr = lisp.EvalIn(scope, printSrc(api, c))
		if perr == nil {
			s, ok := out.(slip.String)
			if !ok {
				return verdict{kind: "print-not-a-string", detail: fmt.Sprintf("%s returned %s", api, lisp.Show(out))}, nil
			}
			text = string(s)
		}
	}
	if perr != nil {
		return verdict{kind: errKind("print", perr), detail: "printing raised " + perr.String()}, nil
	}
	vd.text = text
	if api == "go" {
		var n int
		var rerr *lisp.Err
		obj2, n, rerr = goRead(text)
		if rerr != nil {
			vd.kind, vd.detail = errKind("read", rerr)+refOpinion(text, v), fmt.Sprintf("printed %q; reading it back raised %s", clip(text), rerr.String())
			return vd, nil
		}
		if n != 1 {
			vd.kind, vd.detail = "form-count", fmt.Sprintf("printed %q; reading it back gave %d objects", clip(text), n)
			return vd, nil
		}
	} else {
		scope.Let(slip.Symbol("s"), slip.String(text))
		out, rerr := lisp.EvalIn(scope, "(read-from-string s)")
		if rerr != nil {
			vd.kind, vd.detail = errKind("read", rerr)+refOpinion(text, v), fmt.Sprintf("printed %q; reading it back raised %s", clip(text), rerr.String())
			return vd, nil
		}
		if vs, ok := out.(slip.Values); ok {
			if len(vs) == 0 {
				vd.kind, vd.detail = "form-count", fmt.Sprintf("printed %q; read-from-string returned no value", clip(text))
				return vd, nil
			}
			out = vs[0]
		}
		obj2 = out
	}
	got, cerr := fromSlip(obj2)
	if cerr != nil {
		vd.kind, vd.detail = "wrong-type:unconvertible", fmt.Sprintf("printed %q; read back %s: %v", clip(text), lisp.Show(obj2), cerr)
		return vd, nil
	}
	if k, d := diff(v, got); k != "" {
		vd.kind, vd.detail = k, fmt.Sprintf("printed %q; %s", clip(text), d)
		return vd, got
	}
	if api == "wts" {
		// same type-of, asked of slip itself
		scope.Let(slip.Symbol("y"), obj2)
		tv, terr := lisp.EvalIn(scope, "(list (type-of x) (type-of y))")
		if terr == nil {
			if l, ok := tv.(slip.List); ok && len(l) == 2 {
				res.Hit("type-of-compared")
				if !strings.EqualFold(lisp.Show(l[0]), lisp.Show(l[1])) {
					vd.kind = "type-of-differs"
					vd.detail = fmt.Sprintf("printed %q; (type-of original) = %s, (type-of read-back) = %s", clip(text), lisp.Show(l[0]), lisp.Show(l[1]))
				}
			}
		}
	}
	return vd, got
}

// allRoutes runs the three routes and, with pretty on, the pretty-vs-flat
// comparison. The result is the vector of failure kinds per route.
func allRoutes(o slip.Object, v *val, c cfg, res *engine.Result) (vds map[string]verdict) {
	if res == nil {
		res = &engine.Result{}
	}
	vds = map[string]verdict{}
	var goBack *val
	for _, api := range apis {
		vd, back := roundTrip(api, o, v, c, res)
		vds[api] = vd
		if api == "go" {
			goBack = back
		}
	}
	if c.pretty {
		fc := c
		fc.pretty = false
		fvd, fback := roundTrip("go", o, v, fc, res)
		pv := vds["go"]
		if fback != nil && goBack != nil {
			// both renderings could be read: they must denote equal objects
			res.Hit("pretty-vs-flat")
			if k, d := diff(fback, goBack); k != "" && pv.kind == "" {
				vds["go"] = verdict{kind: "pretty-differs-from-flat:" + k, text: pv.text,
					detail: fmt.Sprintf("pretty %q vs flat %q: %s", clip(pv.text), clip(fvd.text), d)}
			}
		}
	}
	return
}

func kindsOf(vds map[string]verdict) string {
	var b strings.Builder
	for _, api := range apis {
		b.WriteString(api)
		b.WriteByte('=')
		b.WriteString(vds[api].kind)
		b.WriteByte(';')
	}
	return b.String()
}

func anyFail(vds map[string]verdict) bool {
	for _, vd := range vds {
		if vd.kind != "" {
			return true
		}
	}
	return false
}

// minimise resets configuration dimensions to their baseline value as long as
// the same failure vector is observed, so that the signature names only the
// dimensions the failure needs.
func minimise(o slip.Object, v *val, c cfg, want string) cfg {
	scratch := &engine.Result{}
	same := func(cc cfg) bool { return kindsOf(allRoutes(o, v, cc, scratch)) == want }
	if c.pretty && c.margin != baseline.margin {
		cc := c
		cc.margin = baseline.margin
		if same(cc) {
			c = cc
		}
	}
	if c.pretty {
		cc := c
		cc.pretty, cc.margin = false, baseline.margin
		if same(cc) {
			c = cc
		}
	}
	if c.cas != baseline.cas {
		cc := c
		cc.cas = baseline.cas
		if same(cc) {
			c = cc
		}
	}
	if c.radix || c.base != 10 {
		cc := c
		cc.base, cc.radix = 10, false
		if same(cc) {
			c = cc
		} else if c.base != 10 {
			cc.radix = true
			if same(cc) {
				c = cc
			}
		}
	}
	return c
}

func cfgSig(c cfg) string {
	var parts []string
	if c.radix {
		switch c.base {
		case 10:
			parts = append(parts, "radix-10")
		case 2, 8, 16:
			parts = append(parts, "radix-box")
		default:
			parts = append(parts, "radix-NrN")
		}
	}
	switch c.cas {
	case 'u':
		parts = append(parts, "upcase")
	case 'c':
		parts = append(parts, "capitalize")
	}
	if c.pretty {
		if c.margin != baseline.margin {
			parts = append(parts, "pretty-narrow")
		} else {
			parts = append(parts, "pretty")
		}
	}
	if len(parts) == 0 {
		return "baseline"
	}
	return strings.Join(parts, ",")
}

var printerSnapshot = *slip.DefaultPrinter()

// memo of failure vectors per (shape, leaf, configuration): only a cache of a
// pure function, used while naming a failure.
var memo = map[string]string{}

func kindsFor(shape string, lv *val, c cfg) string {
	key := shape + "\x00" + lv.spec() + "\x00" + c.String()
	if k, ok := memo[key]; ok {
		return k
	}
	v := buildShape(shape, lv)
	k := kindsOf(allRoutes(toSlip(v), v, c, nil))
	if 200000 < len(memo) {
		memo = map[string]string{}
	}
	memo[key] = k
	return k
}

// projections: baseline, then every one-dimension projection of c.
func projections(c cfg) []cfg {
	out := []cfg{baseline}
	if c.radix {
		cc := baseline
		cc.radix = true
		out = append(out, cc)
		if c.base != 10 {
			cc.base = c.base
			out = append(out, cc)
		}
	}
	if c.cas != baseline.cas {
		cc := baseline
		cc.cas = c.cas
		out = append(out, cc)
	}
	if c.pretty {
		cc := baseline
		cc.pretty = true
		out = append(out, cc)
		if c.margin != baseline.margin {
			cc.margin = c.margin
			out = append(out, cc)
		}
	}
	return out
}

func exec(spec string) (res engine.Result) {
	defer func() {
		if *slip.DefaultPrinter() != printerSnapshot {
			*slip.DefaultPrinter() = printerSnapshot
			res.Hit("global-printer-restored")
		}
	}()
	fields := strings.SplitN(spec, " ", 5)
	switch fields[0] {
	case "rt", "obs":
		if len(fields) != 5 {
			res.Fail("harness:bad-spec", spec)
			return
		}
		c, err := parseCfg(fields[1])
		if err != nil {
			res.Fail("harness:bad-spec", err.Error())
			return
		}
		lv, err := parseSpec(fields[4])
		if err != nil {
			res.Fail("harness:bad-spec", err.Error())
			return
		}
		if fields[0] == "obs" {
			return execObs(c, fields[2], fields[3], lv)
		}
		return execRT(c, fields[2], fields[3], lv)
	case "pair":
		if len(fields) != 5 {
			res.Fail("harness:bad-spec", spec)
			return
		}
		c, err := parseCfg(fields[1])
		if err != nil {
			res.Fail("harness:bad-spec", err.Error())
			return
		}
		la, lb, a, b, err := parsePair(fields[3], fields[4])
		if err != nil {
			res.Fail("harness:bad-spec", err.Error())
			return
		}
		return execPair(c, fields[2], la, lb, a, b)
	case "wirepair":
		f := strings.SplitN(spec, " ", 4)
		if len(f) != 4 {
			res.Fail("harness:bad-spec", spec)
			return
		}
		la, lb, a, b, err := parsePair(f[2], f[3])
		if err != nil {
			res.Fail("harness:bad-spec", err.Error())
			return
		}
		return execWirePair(f[1], la, lb, a, b)
	case "wire":
		f := strings.SplitN(spec, " ", 4)
		if len(f) != 4 {
			res.Fail("harness:bad-spec", spec)
			return
		}
		lv, err := parseSpec(f[3])
		if err != nil {
			res.Fail("harness:bad-spec", err.Error())
			return
		}
		return execWire(f[1], f[2], lv)
	case "blk":
		var lo, hi rune
		if _, err := fmt.Sscanf(spec, "blk %x %x", &lo, &hi); err != nil {
			res.Fail("harness:bad-spec", spec)
			return
		}
		return execBlock(lo, hi)
	}
	res.Fail("harness:bad-spec", spec)
	return
}

func countFeatures(v *val, c cfg, text string, res *engine.Result) {
	v.walk(func(n *val) {
		switch n.k {
		case kInt:
			if n.rep == "bignum" {
				res.Hit("bignum")
				res.Nontrivial = true
			}
			if c.radix {
				res.Hit("radix-marker")
			}
		case kRatio:
			res.Hit("ratio")
			res.Nontrivial = true
		case kSingle:
			res.Hit("single-float")
			res.Nontrivial = true
		case kDouble:
			res.Hit("double-float")
			res.Nontrivial = true
		case kLong:
			res.Hit("long-float")
			res.Nontrivial = true
		case kStr:
			if strings.ContainsAny(n.s, "\"\\\n\t\r\x00\x01\x1f\x7f") {
				res.Hit("string-escaped")
				res.Nontrivial = true
			}
		case kChar:
			res.Nontrivial = true
			if _, ok := refCharNames[n.c]; ok {
				res.Hit("char-named")
			}
			if 0x80 <= n.c {
				res.Hit("char-nonascii")
			}
		case kSym:
			if strings.Contains(refSymbol(n.s, baseline, &mutant{}, false), "|") {
				res.Hit("symbol-piped")
				res.Nontrivial = true
			}
			if c.cas != 'd' || strings.ToLower(n.s) != n.s {
				res.Hit("case-converted")
				res.Nontrivial = true
			}
		case kList:
			if n.tail != nil {
				res.Hit("dotted")
				res.Nontrivial = true
			}
		case kVec:
			res.Hit("vector")
			res.Nontrivial = true
		case kArr:
			res.Nontrivial = true
			if 1 < len(n.dims) {
				res.Hit("array-multidim")
			}
		}
	})
	if c.radix {
		res.Nontrivial = true
	}
	if c.pretty && strings.Contains(text, "\n") {
		res.Hit("pretty-wrapped")
		res.Nontrivial = true
	}
}

func execRT(c cfg, shape, label string, lv *val) (res engine.Result) {
	v := buildShape(shape, lv)
	o := toSlip(v)
	res.Hit("api-wts")
	res.Hit("api-let")
	res.Hit("api-go")
	vds := allRoutes(o, v, c, &res)
	countFeatures(v, c, vds["go"].text, &res)
	res.Outcome = fmt.Sprintf("%s|%s", vds["go"].text, kindsOf(vds))
	if !anyFail(vds) {
		return
	}
	sigShape := shape
	if shape != "top" && shape != "tree" {
		// S3: a container is only blamed for what its leaf survives alone
		lo := toSlip(lv)
		lvds := allRoutes(lo, lv, c, nil)
		masked := 0
		for _, api := range apis {
			if vds[api].kind != "" && lvds[api].kind != "" {
				vd := vds[api]
				vd.kind = ""
				vds[api] = vd
				masked++
			}
		}
		if 0 < masked {
			res.Hit("masked-by-leaf")
		}
		if !anyFail(vds) {
			res.Outcome += "|masked-by-leaf"
			return
		}
	}
	want := kindsOf(vds)
	sigLabel := label
	container := shape != "top" && shape != "tree"
	plain := vSym("x")
	mc := c
	found := false
	// fast path: the most reduced reproducers first (memoised per process):
	// baseline and one-dimension projections of the configuration x minimal
	// shapes x {plain symbol, this leaf}
	shapes := []string{shape}
	if container {
		shapes = append(append([]string{}, reductsOf(shape)...), shape)
	}
search:
	for _, cc := range projections(c) {
		for _, sh := range shapes {
			if container && kindsFor(sh, plain, cc) == want {
				sigShape, sigLabel, mc, found = sh, "any", cc, true
				break search
			}
			if kindsFor(sh, lv, cc) == want {
				sigShape, mc, found = sh, cc, true
				break search
			}
		}
	}
	if !found {
		// slow path: greedy reduction of shape, leaf, then configuration
		cur := lv
		if container {
			for _, r := range shapes {
				if kindsFor(r, lv, c) == want {
					sigShape = r
					break
				}
			}
			if kindsFor(sigShape, plain, c) == want {
				sigLabel, cur = "any", plain
			}
		}
		rv := buildShape(sigShape, cur)
		mc = minimise(toSlip(rv), rv, c, want)
	}
	// one signature per case: the set of failing routes and the failure kind
	// of the most direct one (go, then wts, then let)
	var failing []string
	for _, api := range apis {
		if vds[api].kind != "" {
			failing = append(failing, api)
		}
	}
	routes := strings.Join(failing, "+")
	if len(failing) == len(apis) {
		routes = "all"
	}
	lead := failing[0]
	for _, api := range []string{"go", "wts", "let"} {
		if vds[api].kind != "" {
			lead = api
			break
		}
	}
	var per []string
	for _, api := range failing {
		per = append(per, api+": "+vds[api].kind)
	}
	res.Fail(fmt.Sprintf("leaf=%s shape=%s cfg=%s api=%s kind=%s", sigLabel, sigShape, cfgSig(mc), routes, vds[lead].kind),
		fmt.Sprintf("object %s under %s (attributed to leaf=%s shape=%s, needs only cfg=%s; per route: %s): %s",
			buildShape(shape, lv).show(), c, sigLabel, sigShape, cfgSig(mc), strings.Join(per, ", "), vds[lead].detail))
	return
}

// ------------------------------------------------------------------- pairs

var pairShapes = []string{"list2", "vec2", "cons"}
var wirePairShapes = []string{"list2", "return2"}

// pairLeaves: the core leaves plus every string leaf (strings are what makes
// the reader switch to its un-escape buffer).
func pairLeaves() []leaf {
	out := append([]leaf{}, coreLeaves(false)...)
	seen := map[string]bool{}
	for _, l := range out {
		seen[l.v.spec()] = true
	}
	for _, l := range stringLeaves() {
		if !seen[l.v.spec()] {
			seen[l.v.spec()] = true
			out = append(out, l)
		}
	}
	for _, l := range []leaf{{"symbol-piped", vSym("needs quoting")}, {"symbol-char:U+005C@mid", vSym(`a\b`)}, {"keyword-mixedcase", vSym(":Foo")}} {
		if !seen[l.v.spec()] {
			out = append(out, l)
		}
	}
	return out
}

func pairSpec(family, mid string, a, b leaf) string {
	return family + " " + mid + " " + a.label + "," + b.label + " (" + a.v.spec() + " " + b.v.spec() + ")"
}

func parsePair(labels, objs string) (la, lb string, a, b *val, err error) {
	i := strings.IndexByte(labels, ',')
	if i < 0 {
		return "", "", nil, nil, fmt.Errorf("bad pair labels %q", labels)
	}
	la, lb = labels[:i], labels[i+1:]
	v, err := parseSpec(objs)
	if err != nil {
		return
	}
	if v.k != kList || len(v.e) != 2 || v.tail != nil {
		return "", "", nil, nil, fmt.Errorf("bad pair objects %q", objs)
	}
	return la, lb, v.e[0], v.e[1], nil
}

func buildPair(shape string, a, b *val) *val {
	switch shape {
	case "list2":
		return &val{k: kList, e: []*val{a, b}}
	case "vec2":
		return vVec(a, b)
	case "cons":
		return vDot(b, a)
	}
	panic("unknown pair shape " + shape)
}

// singlesOf: the one-leaf containers each member of a pair must survive alone
// before the PAIR is blamed (S3).
func singlesOf(shape string, first bool) []string {
	switch shape {
	case "vec2":
		return []string{"list1", "vec1"}
	case "cons":
		if first {
			return []string{"list1", "dottedhead"}
		}
		return []string{"list1", "dotted"}
	}
	return []string{"list1"}
}

func addFailures(res *engine.Result, more []engine.Failure) {
	for _, f := range more {
		dup := false
		for _, g := range res.Failures {
			if g.Sig == f.Sig {
				dup = true
			}
		}
		if !dup {
			res.Failures = append(res.Failures, f)
		}
	}
}

func execPair(c cfg, shape, la, lb string, a, b *val) (res engine.Result) {
	v := buildPair(shape, a, b)
	o := toSlip(v)
	res.Hit("api-wts")
	res.Hit("api-let")
	res.Hit("api-go")
	res.Hit("pair")
	vds := allRoutes(o, v, c, &res)
	countFeatures(v, c, vds["go"].text, &res)
	res.Nontrivial = true
	res.Outcome = fmt.Sprintf("%s|%s", vds["go"].text, kindsOf(vds))
	if !anyFail(vds) {
		return
	}
	// S3: the pair is blamed only for what each member survives alone, bare
	// and inside the one-element containers of the same kind. What a member
	// fails alone is reported under the signature of that smaller case.
	members := []struct {
		label string
		v     *val
		first bool
	}{{la, a, true}, {lb, b, false}}
	for _, m := range members {
		alone := allRoutes(toSlip(m.v), m.v, c, nil)
		for _, api := range apis {
			if vds[api].kind != "" && alone[api].kind != "" {
				vd := vds[api]
				vd.kind = ""
				vds[api] = vd
				res.Hit("masked-by-leaf")
			}
		}
		for _, sh := range singlesOf(shape, m.first) {
			sv := buildShape(sh, m.v)
			single := allRoutes(toSlip(sv), sv, c, nil)
			hit := false
			for _, api := range apis {
				if single[api].kind != "" {
					hit = true
					if vds[api].kind != "" {
						vd := vds[api]
						vd.kind = ""
						vds[api] = vd
					}
				}
			}
			if hit {
				res.Hit("pair-masked-by-single")
				r := execRT(c, sh, m.label, m.v)
				addFailures(&res, r.Failures)
			}
		}
	}
	if !anyFail(vds) {
		res.Outcome += "|masked"
		return
	}
	want := kindsOf(vds)
	// the raw vector of this very case (masking only blanks entries)
	raw := kindsOf(allRoutes(o, v, c, nil))
	sigShape := shape
	if shape != "list2" {
		lv := buildPair("list2", a, b)
		if kindsOf(allRoutes(toSlip(lv), lv, c, nil)) == raw {
			sigShape = "list2"
			v, o = lv, toSlip(lv)
		}
	}
	mc := minimise(o, v, c, raw)
	var failing, per []string
	for _, api := range apis {
		if vds[api].kind != "" {
			failing = append(failing, api)
			per = append(per, api+": "+vds[api].kind)
		}
	}
	routes := strings.Join(failing, "+")
	if len(failing) == len(apis) {
		routes = "all"
	}
	lead := failing[0]
	for _, api := range []string{"go", "wts", "let"} {
		if vds[api].kind != "" {
			lead = api
			break
		}
	}
	_ = want
	res.Fail(fmt.Sprintf("pair=%s,%s shape=%s cfg=%s api=%s kind=%s", la, lb, sigShape, cfgSig(mc), routes, vds[lead].kind),
		fmt.Sprintf("object %s under %s (each member round-trips alone and in a one-element container; needs only cfg=%s; per route: %s): %s",
			buildPair(shape, a, b).show(), c, cfgSig(mc), strings.Join(per, ", "), vds[lead].detail))
	return
}

func buildWirePair(shape string, a, b *val) *val {
	if shape == "return2" {
		return &val{k: kList, e: []*val{vSym(":return"), a, b, vI(7)}}
	}
	return &val{k: kList, e: []*val{a, b}}
}

func execWirePair(shape, la, lb string, a, b *val) (res engine.Result) {
	res.Hit("wire")
	res.Hit("pair")
	res.Nontrivial = true
	v := buildWirePair(shape, a, b)
	vd := wireTrip(v)
	res.Outcome = vd.text + "|" + vd.kind
	if vd.kind == "" {
		return
	}
	masked := false
	for _, m := range []struct {
		label string
		v     *val
	}{{la, a}, {lb, b}} {
		if wireTrip(m.v).kind != "" {
			masked = true
			res.Hit("masked-by-leaf")
			continue
		}
		if wireTrip(buildWire("write-string", m.v)).kind != "" {
			masked = true
			res.Hit("pair-masked-by-single")
			r := execWire("write-string", m.label, m.v)
			addFailures(&res, r.Failures)
		}
	}
	if masked {
		res.Outcome += "|masked"
		return
	}
	sigShape := shape
	if shape != "list2" && wireTrip(buildWirePair("list2", a, b)).kind == vd.kind {
		sigShape = "list2"
	}
	res.Fail(fmt.Sprintf("wire pair=%s,%s shape=%s kind=%s", la, lb, sigShape, vd.kind),
		fmt.Sprintf("message %s (each member round-trips alone and inside (:write-string x)): %s", v.show(), vd.detail))
	return
}

// execObs: *print-readably* nil is documented as "may or may not be
// readable": the round trip is observed (Outcome) but only a Go fault fails.
func execObs(c cfg, shape, label string, lv *val) (res engine.Result) {
	v := buildShape(shape, lv)
	o := toSlip(v)
	text, perr := goPrint(o, c, false)
	if perr != nil {
		_, rerr := goPrint(o, c, true)
		if perr.GoFault && (rerr == nil || !rerr.GoFault) {
			res.Fail(fmt.Sprintf("leaf=%s shape=%s readably=nil kind=print-go-fault", label, shape), fmt.Sprintf("object %s under %s: %s", v.show(), c, perr))
		}
		res.Outcome = "print-error:" + perr.Class
		return
	}
	obj2, n, rerr := goRead(text)
	switch {
	case rerr != nil && rerr.GoFault:
		res.Fail(fmt.Sprintf("leaf=%s shape=%s readably=nil kind=read-go-fault", label, shape), fmt.Sprintf("printed %q: %s", clip(text), rerr))
		res.Outcome = text + "|read-go-fault"
	case rerr != nil:
		res.Outcome = text + "|read-error"
	case n != 1:
		res.Outcome = text + "|form-count"
	default:
		if got, cerr := fromSlip(obj2); cerr == nil {
			k, _ := diff(v, got)
			res.Outcome = text + "|" + k
		} else {
			res.Outcome = text + "|unconvertible"
		}
	}
	res.Hit("readably-nil-observed")
	return
}

// ------------------------------------------------------------- scalar blocks

func execBlock(lo, hi rune) (res engine.Result) {
	res.Hit("api-go")
	p := newPrinter(baseline, true)
	scope := slip.NewScope()
	type agg struct {
		count  int
		detail string
	}
	fails := map[string]*agg{}
	var order []string
	fail := func(sig, detail string) {
		a := fails[sig]
		if a == nil {
			a = &agg{detail: detail}
			fails[sig] = a
			order = append(order, sig)
		}
		a.count++
	}
	crc := crc32.NewIEEE()
	n := 0
	one := func(label string, o slip.Object, v *val) {
		var text string
		var got *val
		kind, detail := "", ""
		func() {
			defer func() {
				if rec := recover(); rec != nil {
					e := lisp.ErrFromRecovered(rec)
					if text == "" {
						kind = errKind("print", e)
					} else {
						kind = errKind("read", e) + refOpinion(text, v)
					}
					detail = fmt.Sprintf("printed %q; raised %s", text, e.String())
				}
			}()
			text = string(p.Append(nil, o, 0))
			_, _ = crc.Write([]byte(text))
			code := slip.Read([]byte(text), scope)
			if len(code) != 1 {
				kind, detail = "form-count", fmt.Sprintf("printed %q; reading it back gave %d objects", text, len(code))
				return
			}
			var cerr error
			if got, cerr = fromSlip(code[0]); cerr != nil {
				kind, detail = "wrong-type:unconvertible", fmt.Sprintf("printed %q: %v", text, cerr)
				return
			}
			if k, d := diff(v, got); k != "" {
				kind, detail = k, fmt.Sprintf("printed %q; %s", text, d)
			}
		}()
		if kind != "" {
			fail(fmt.Sprintf("leaf=%s shape=top cfg=baseline api=go kind=%s", label, kind), fmt.Sprintf("object %s: %s", v.show(), detail))
		}
	}
	for r := lo; r <= hi && r <= unicode.MaxRune; r++ {
		if 0xd800 <= r && r < 0xe000 {
			continue
		}
		n++
		cls := charClass(r)
		one("char:"+cls, slip.Character(r), vChar(r))
		one("string1:"+cls, slip.String(string(r)), vStr(string(r)))
		res.Hit("char-nonascii")
	}
	res.Nontrivial = true
	for _, sig := range order {
		a := fails[sig]
		res.Fail(sig, fmt.Sprintf("%s (%d code points of block U+%04X..U+%04X fail this way)", a.detail, a.count, lo, hi))
	}
	res.Outcome = fmt.Sprintf("blk %x n=%d crc=%08x fails=%d", lo, n, crc.Sum32(), len(order))
	return
}

// --------------------------------------------------------------------- wire

var wireShapes = []string{"top", "write-string", "return-ok", "emacs-rex", "long"}

func wireLeaves() []leaf {
	return []leaf{
		{"fixnum", vI(42)},
		{"fixnum-neg", vI(-7)},
		{"bignum", vInt(pow2(64))},
		{"double", &val{k: kDouble, f: 1.5}},
		{"string-plain", vStr("hello")},
		{"string-empty", vStr("")},
		{"string-quote", vStr(`say "hi"`)},
		{"string-backslash", vStr(`c:\dir`)},
		{"string-newline-tab", vStr("l1\nl2")},
		{"string-unicode", vStr("é😀")},
		{"string-syntax", vStr("(+ 1 2) ; x")},
		{"symbol-plain", vSym("abc")},
		{"symbol-package-marker", vSym("swank:connection-info")},
		{"symbol-piped", vSym("a b")},
		{"keyword", vSym(":ok")},
		{"nil", &val{k: kNil}},
		{"t", &val{k: kT}},
	}
}

func buildWire(shape string, h *val) *val {
	switch shape {
	case "top":
		return h
	case "write-string":
		return vList(vSym(":write-string"), h)
	case "return-ok":
		return vList(vSym(":return"), vList(vSym(":ok"), h), vI(3))
	case "emacs-rex":
		return vList(vSym(":emacs-rex"), vList(vSym("swank:interactive-eval"), h), vStr("cl-user"), &val{k: kT}, vI(12))
	case "long":
		// longer than the default right margin of 120 so that the default (pretty) printer wraps it
		e := []*val{vSym(":return")}
		var items []*val
		for i := 0; i < 30; i++ {
			items = append(items, vList(vStr(fmt.Sprintf("completion-%02d", i)), h))
		}
		e = append(e, vList(vSym(":ok"), vList(items...)), vI(99))
		return vList(e...)
	}
	panic("unknown wire shape " + shape)
}

func wireTrip(v *val) (vd verdict) {
	o := toSlip(v)
	var buf bytes.Buffer
	var werr error
	func() {
		defer func() {
			if rec := recover(); rec != nil {
				e := lisp.ErrFromRecovered(rec)
				vd.kind, vd.detail = errKind("write", e), "WriteWireMessage raised "+e.String()
			}
		}()
		werr = swank.WriteWireMessage(&buf, o)
	}()
	if vd.kind != "" {
		return
	}
	if werr != nil {
		return verdict{kind: "write-error", detail: "WriteWireMessage: " + werr.Error()}
	}
	raw := buf.Bytes()
	vd.text = string(raw)
	if len(raw) < 6 {
		return verdict{kind: "bad-header", detail: fmt.Sprintf("wrote %q", raw), text: vd.text}
	}
	var n int
	if _, err := fmt.Sscanf(string(raw[:6]), "%06X", &n); err != nil || n != len(raw)-6 {
		return verdict{kind: "bad-header", detail: fmt.Sprintf("header %q, payload is %d bytes", raw[:6], len(raw)-6), text: vd.text}
	}
	var (
		obj2 slip.Object
		rerr error
	)
	func() {
		defer func() {
			if rec := recover(); rec != nil {
				e := lisp.ErrFromRecovered(rec)
				vd.kind, vd.detail = errKind("read", e), fmt.Sprintf("wrote %q; ReadWireMessage raised %s", clip(vd.text), e.String())
			}
		}()
		obj2, rerr = swank.ReadWireMessage(bytes.NewReader(raw), slip.NewScope())
	}()
	if vd.kind != "" {
		return
	}
	if rerr != nil {
		kind := "read-error:" + reason(rerr.Error())
		if lisp.IsGoFault(rerr.Error()) {
			kind = "read-go-fault:" + reason(rerr.Error())
		}
		return verdict{kind: kind, detail: fmt.Sprintf("wrote %q; ReadWireMessage: %v", clip(vd.text), rerr), text: vd.text}
	}
	got, cerr := fromSlip(obj2)
	if cerr != nil {
		return verdict{kind: "wrong-type:unconvertible", detail: fmt.Sprintf("wrote %q; read back %s: %v", clip(vd.text), lisp.Show(obj2), cerr), text: vd.text}
	}
	if k, d := diff(v, got); k != "" {
		return verdict{kind: k, detail: fmt.Sprintf("wrote %q; %s", clip(vd.text), d), text: vd.text}
	}
	return
}

func execWire(shape, label string, lv *val) (res engine.Result) {
	res.Hit("wire")
	res.Nontrivial = true
	v := buildWire(shape, lv)
	vd := wireTrip(v)
	res.Outcome = vd.text + "|" + vd.kind
	if vd.kind == "" {
		return
	}
	sigShape := shape
	if shape != "top" {
		if lvd := wireTrip(lv); lvd.kind != "" {
			res.Hit("masked-by-leaf")
			res.Outcome += "|masked-by-leaf"
			return
		}
		if shape != "write-string" {
			if rvd := wireTrip(buildWire("write-string", lv)); rvd.kind == vd.kind {
				sigShape = "write-string"
			}
		}
	}
	res.Fail(fmt.Sprintf("wire leaf=%s shape=%s kind=%s", label, sigShape, vd.kind),
		fmt.Sprintf("message %s (shape %s): %s", v.show(), shape, vd.detail))
	return
}

// ---------------------------------------------------------------- self-test

// selftest (S6): the enumerated case set of the quick tier, pushed through the
// reference printer/reader pair, must (a) hold for the correct reference and
// (b) expose every mutated reference through the very comparison exec uses.
func selftest(tier string) (killed, total int, notes []string) {
	total = len(mutants)
	zero := &mutant{}
	caught := make([]string, len(mutants))
	refFails := 0
	cases := 0
	check := func(v *val, c cfg, m *mutant) string {
		text := refPrint(v, c, m)
		back, err := refReadWith(text, m.readerLeaksEscBuf)
		if err != nil {
			return fmt.Sprintf("%s under %s printed %q: read error %v", v.show(), c, text, err)
		}
		if k, d := diff(v, back); k != "" {
			return fmt.Sprintf("%s under %s printed %q: %s %s", v.show(), c, text, k, d)
		}
		if c.pretty && m == zero {
			fc := c
			fc.pretty = false
			if strings.Join(strings.Fields(text), "") != strings.Join(strings.Fields(refPrint(v, fc, m)), "") && !hasBlankInside(v) {
				return fmt.Sprintf("%s under %s: pretty and flat differ in more than white space", v.show(), c)
			}
		}
		return ""
	}
	one := func(v *val, c cfg) {
		cases++
		if why := check(v, c, zero); why != "" {
			refFails++
			if refFails <= 3 {
				notes = append(notes, "REFERENCE FAILS: "+why)
			}
		}
		for i := range mutants {
			if caught[i] == "" {
				if why := check(v, c, &mutants[i]); why != "" {
					caught[i] = why
				}
			}
		}
	}
	enumerate(engine.Quick, func(spec string) {
		fields := strings.SplitN(spec, " ", 5)
		switch fields[0] {
		case "rt":
			c, err1 := parseCfg(fields[1])
			lv, err2 := parseSpec(fields[4])
			if err1 != nil || err2 != nil {
				refFails++
				notes = append(notes, "unparsable spec "+spec)
				return
			}
			one(buildShape(fields[2], lv), c)
		case "pair":
			c, err1 := parseCfg(fields[1])
			_, _, a, b, err2 := parsePair(fields[3], fields[4])
			if err1 != nil || err2 != nil {
				refFails++
				notes = append(notes, "unparsable spec "+spec)
				return
			}
			one(buildPair(fields[2], a, b), c)
		case "blk":
			var lo, hi rune
			_, _ = fmt.Sscanf(spec, "blk %x %x", &lo, &hi)
			for r := lo; r <= hi && r <= unicode.MaxRune; r += 37 {
				if 0xd800 <= r && r < 0xe000 {
					continue
				}
				one(vChar(r), baseline)
				one(vStr(string(r)), baseline)
			}
		}
	})
	for i, why := range caught {
		if why != "" {
			killed++
			notes = append(notes, fmt.Sprintf("mutant %q caught: %s", mutants[i].name, clip(why)))
		} else {
			notes = append(notes, fmt.Sprintf("mutant %q SURVIVED", mutants[i].name))
		}
	}
	notes = append(notes, fmt.Sprintf("reference printer/reader pair held on %d cases (failures: %d)", cases, refFails))
	if 0 < refFails {
		killed = 0
	}
	return
}

func hasBlankInside(v *val) bool {
	found := false
	v.walk(func(n *val) {
		if (n.k == kStr || n.k == kSym) && strings.ContainsAny(n.s, " \t\n\r\f") {
			found = true
		}
		if n.k == kChar {
			found = true
		}
	})
	return found
}
