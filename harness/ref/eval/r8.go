package eval

// r8.go (round 8): what the families of props/c07/r8*.go need beyond the body-bearing forms.
//
//   - built-in higher-order functions that call a function argument (mapcar, mapc, maplist, mapl, mapcan, mapcon, map,
//     map-into, every, some, notany, notevery, reduce, the -if searches, find / position / count / remove / member /
//     assoc / substitute with :test and :key, sort / stable-sort with a predicate and a :key, maphash, format ~/fn/,
//     funcall / apply of a function designator of one of them). Written from the language definition on Go slices;
//     an exit that leaves the called function is a Go panic that simply passes through these loops, so "the elements
//     before the exit are processed, none after" holds by construction.
//   - forms with value positions only (the, time, nth-value, multiple-value-list, multiple-value-call,
//     multiple-value-setq, setf) and a few functions the error-class family raises its conditions with.
//
// Nothing here knows about exit markers.

import (
	"strings"
)

// Builtin is the value of (function name) for a function of this evaluator.
type Builtin struct{ Name string }

// HashTable is what maphash iterates over (insertion order; the harness does not compare the order).
type HashTable struct {
	Keys []Value
	Vals []Value
}

var builtinNames = func() map[string]bool {
	m := map[string]bool{}
	for _, n := range strings.Fields(`+ - * / 1+ 1- = < > <= >= eql eq not null identity list car cdr error funcall apply
		mapcar mapc maplist mapl mapcan mapcon map map-into every some notany notevery reduce find-if position-if count-if
		remove-if member-if assoc-if find position count remove member assoc substitute sort stable-sort maphash format
		values tr`) {
		m[n] = true
	}
	return m
}()

func isBuiltinName(n string) bool { return builtinNames[n] }

// value evaluates a form that sits in a value position of the named kind.
func (in *Interp) value(pos string, n Node, e *env) Value {
	if in.Mut.ValueSwallow != "" && in.Mut.ValueSwallow == pos {
		return in.swallowExit(n, e)
	}
	return in.eval(n, e)
}

// applyAny calls a function designator: a closure, a built-in, or the name of one of them.
func (in *Interp) applyAny(f Value, args []Value) Value {
	switch t := f.(type) {
	case *Closure:
		return in.apply(t, args)
	case *Builtin:
		return in.callValues(t.Name, args)
	case Sym:
		if fn := in.Funcs[string(t)]; fn != nil {
			return in.apply(fn, args)
		}
		if isBuiltinName(string(t)) {
			return in.callValues(string(t), args)
		}
		in.signal("undefined-function", "function %s is undefined", t)
	}
	in.signal("type-error", "%s is not a function", Show(f))
	return nil
}

// hofCall is the call a built-in higher-order function makes to its function argument.
func (in *Interp) hofCall(hof string, f Value, args ...Value) (v Value) {
	if in.Mut.HOFSwallows == hof || in.Mut.HOFSwallows == "*" || in.Mut.ClassLostInHOF {
		defer func() {
			if r := recover(); r != nil {
				switch t := r.(type) {
				case *blockExit, *goExit:
					if in.Mut.HOFSwallows == hof || in.Mut.HOFSwallows == "*" {
						v = T // the marker object is taken for the function's value
						return
					}
				case *Condition:
					if in.Mut.ClassLostInHOF {
						panic(&Condition{Class: "error", Message: t.Message})
					}
				}
				panic(r)
			}
		}()
	}
	return primary(in.applyAny(f, args))
}

func listOf(v Value) []Value {
	l, _ := v.([]Value)
	return l
}

func (in *Interp) needList(name string, v Value) []Value {
	if v == nil {
		return nil
	}
	l, ok := v.([]Value)
	if !ok {
		in.signal("type-error", "%s needs a list, not %s", name, Show(v))
	}
	return l
}

// keyArgs splits (required... &key ...) arguments.
func keyArgs(args []Value, required int) (req []Value, keys map[string]Value) {
	keys = map[string]Value{}
	if len(args) < required {
		return args, keys
	}
	req = args[:required]
	for i := required; i+1 < len(args); i += 2 {
		if k, ok := args[i].(Sym); ok {
			if _, dup := keys[string(k)]; !dup {
				keys[string(k)] = args[i+1]
			}
		}
	}
	return
}

func listValue(l []Value) Value {
	if len(l) == 0 {
		return nil
	}
	return l
}

func valuesEqual(a, b Value) bool {
	switch x := a.(type) {
	case []Value:
		y, ok := b.([]Value)
		if !ok || len(x) != len(y) {
			return false
		}
		for i := range x {
			if !valuesEqual(x[i], y[i]) {
				return false
			}
		}
		return true
	}
	return a == b
}

// seqTester bundles :test and :key of the searching functions.
type seqTester struct {
	in   *Interp
	name string
	test Value
	key  Value
}

func (st *seqTester) keyOf(x Value) Value {
	if st.key == nil {
		return x
	}
	return st.in.hofCall(st.name, st.key, x)
}

func (st *seqTester) match(item, elt Value) bool {
	k := st.keyOf(elt)
	if st.test == nil {
		return valuesEqual(item, k)
	}
	return truthy(st.in.hofCall(st.name, st.test, item, k))
}

func less(in *Interp, name string, pred, key Value, a, b Value) bool {
	if key != nil {
		a, b = in.hofCall(name, key, a), in.hofCall(name, key, b)
	}
	return truthy(in.hofCall(name, pred, a, b))
}

// callR8 holds the functions of this file (ok=false: not one of them).
func (in *Interp) callR8(name string, args []Value) (Value, bool) {
	switch name {
	case "car", "cdr":
		if len(args) != 1 {
			in.signal("arg-count", "%s takes one argument", name)
		}
		return nil, false
	case "mapcar", "mapc", "maplist", "mapl", "mapcan", "mapcon":
		if len(args) < 2 {
			in.signal("program-error", "%s needs a function and a list", name)
		}
		lists := make([][]Value, len(args)-1)
		n := -1
		for i, a := range args[1:] {
			lists[i] = in.needList(name, a)
			if n < 0 || len(lists[i]) < n {
				n = len(lists[i])
			}
		}
		var out []Value
		for i := 0; i < n; i++ {
			fargs := make([]Value, len(lists))
			for j, l := range lists {
				if name == "mapcar" || name == "mapc" || name == "mapcan" {
					fargs[j] = l[i]
				} else {
					fargs[j] = append([]Value(nil), l[i:]...)
				}
			}
			r := in.hofCall(name, args[0], fargs...)
			switch name {
			case "mapcar", "maplist":
				out = append(out, r)
			case "mapcan", "mapcon":
				out = append(out, in.needList(name, r)...)
			}
		}
		if name == "mapc" || name == "mapl" {
			return args[1], true
		}
		return listValue(out), true
	case "map":
		if len(args) < 3 {
			in.signal("program-error", "map needs a type, a function and a sequence")
		}
		var out []Value
		for _, x := range in.needList(name, args[2]) {
			out = append(out, in.hofCall(name, args[1], x))
		}
		if args[0] == nil {
			return nil, true
		}
		return listValue(out), true
	case "map-into":
		target := in.needList(name, args[0])
		src := in.needList(name, args[2])
		for i := 0; i < len(target) && i < len(src); i++ {
			target[i] = in.hofCall(name, args[1], src[i])
		}
		return args[0], true
	case "every", "some", "notany", "notevery":
		for _, x := range in.needList(name, args[1]) {
			r := in.hofCall(name, args[0], x)
			switch {
			case name == "every" && !truthy(r):
				return nil, true
			case name == "some" && truthy(r):
				return r, true
			case name == "notany" && truthy(r):
				return nil, true
			case name == "notevery" && !truthy(r):
				return T, true
			}
		}
		return boolValue(name == "every" || name == "notany"), true
	case "reduce":
		req, keys := keyArgs(args, 2)
		l := in.needList(name, req[1])
		var acc Value
		if iv, has := keys[":initial-value"]; has {
			acc = iv
		} else {
			if len(l) == 0 {
				return in.hofCall(name, req[0]), true
			}
			acc, l = l[0], l[1:]
		}
		for _, x := range l {
			acc = in.hofCall(name, req[0], acc, x)
		}
		return acc, true
	case "find-if", "position-if", "count-if", "remove-if", "member-if", "assoc-if":
		l := in.needList(name, args[1])
		var kept []Value
		cnt := int64(0)
		for i, x := range l {
			arg := x
			if name == "assoc-if" {
				arg = nil
				if p := listOf(x); 0 < len(p) {
					arg = p[0]
				}
			}
			hit := truthy(in.hofCall(name, args[0], arg))
			switch {
			case name == "remove-if":
				if !hit {
					kept = append(kept, x)
				}
			case name == "count-if":
				if hit {
					cnt++
				}
			case hit && (name == "find-if" || name == "assoc-if"):
				return x, true
			case hit && name == "position-if":
				return int64(i), true
			case hit && name == "member-if":
				return listValue(append([]Value(nil), l[i:]...)), true
			}
		}
		switch name {
		case "remove-if":
			return listValue(kept), true
		case "count-if":
			return cnt, true
		}
		return nil, true
	case "find", "position", "count", "remove", "member", "assoc":
		req, keys := keyArgs(args, 2)
		st := &seqTester{in: in, name: name, test: keys[":test"], key: keys[":key"]}
		l := in.needList(name, req[1])
		var kept []Value
		cnt := int64(0)
		for i, x := range l {
			elt := x
			if name == "assoc" {
				elt = nil
				if p := listOf(x); 0 < len(p) {
					elt = p[0]
				}
			}
			hit := st.match(req[0], elt)
			switch {
			case name == "remove":
				if !hit {
					kept = append(kept, x)
				}
			case name == "count":
				if hit {
					cnt++
				}
			case hit && (name == "find" || name == "assoc"):
				return x, true
			case hit && name == "position":
				return int64(i), true
			case hit && name == "member":
				return listValue(append([]Value(nil), l[i:]...)), true
			}
		}
		switch name {
		case "remove":
			return listValue(kept), true
		case "count":
			return cnt, true
		}
		return nil, true
	case "substitute":
		req, keys := keyArgs(args, 3)
		st := &seqTester{in: in, name: name, test: keys[":test"], key: keys[":key"]}
		var out []Value
		for _, x := range in.needList(name, req[2]) {
			if st.match(req[1], x) {
				out = append(out, req[0])
			} else {
				out = append(out, x)
			}
		}
		return listValue(out), true
	case "sort", "stable-sort":
		req, keys := keyArgs(args, 2)
		l := in.needList(name, req[0])
		for i := 1; i < len(l); i++ { // insertion sort, stable
			for j := i; 0 < j && less(in, name, req[1], keys[":key"], l[j], l[j-1]); j-- {
				l[j], l[j-1] = l[j-1], l[j]
			}
		}
		return req[0], true
	case "maphash":
		h, ok := args[1].(*HashTable)
		if !ok {
			in.signal("type-error", "maphash needs a hash table")
		}
		for i := range h.Keys {
			in.hofCall(name, args[0], h.Keys[i], h.Vals[i])
		}
		return nil, true
	case "format":
		// only what the harness writes: (format nil "~/name/" arg)
		ctl, _ := args[1].(string)
		if strings.HasPrefix(ctl, "~/") && strings.HasSuffix(ctl, "/") && 2 < len(ctl) {
			var arg Value
			if 2 < len(args) {
				arg = args[2]
			}
			in.hofCall(name, Sym(strings.ToLower(ctl[2:len(ctl)-1])), &Opaque{"output-stream"}, arg, nil, nil)
			return "", true
		}
		in.signal("error", "format: unsupported control string")
	case "warn":
		return nil, true // written to *error-output*, control carries on
	case "panic":
		if c, ok := args[0].(*Condition); ok {
			panic(&Condition{Class: c.Class, Message: c.Message})
		}
		in.signal("error", "%s", Show(args[0]))
	case "make-condition":
		cls, _ := args[0].(Sym)
		return &Condition{Class: string(cls)}, true
	case "open":
		if p, _ := args[0].(string); strings.HasPrefix(p, "/nonexistent") {
			in.signal("file-error", "failed to open %s", p)
		}
		return &Opaque{"file-stream"}, true
	case "read-from-string":
		if s, _ := args[0].(string); s == "#<" {
			in.signal("parse-error", "illegal sharp macro character")
		}
		return nil, true
	case "read-char":
		in.signal("stream-error", "read failed")
	case "export":
		in.signal("package-error", "package does not exist")
	case "write-string":
		s, _ := args[0].(string)
		if len(args) < 2 {
			return s, true
		}
		if st, ok := args[1].(*Stream); ok {
			if !st.Open {
				in.signal("stream-error", "stream is closed")
			}
			st.Written += s
		}
		return s, true
	case "open-stream-p":
		if st, ok := args[0].(*Stream); ok {
			return boolValue(st.Open), true
		}
		return T, true
	}
	return nil, false
}

// evalR8 holds the special forms of this file (ok=false: not one of them).
func (in *Interp) evalR8(name string, args List, e *env) (Value, bool) {
	switch name {
	case "the":
		return in.value("value", args[1], e), true
	case "time":
		return in.value("value", args[0], e), true
	case "nth-value":
		n, _ := primary(in.eval(args[0], e)).(int64)
		v := in.value("value", args[1], e)
		if IsWild(v) {
			return Wild, true // the values of an ignore-errors that caught an error are not pinned down
		}
		if m, ok := v.(multi); ok {
			if int(n) < len(m) {
				return m[n], true
			}
			return nil, true
		}
		if n == 0 {
			return v, true
		}
		return nil, true
	case "multiple-value-list":
		v := in.value("value", args[0], e)
		if m, ok := v.(multi); ok {
			return listValue(append([]Value(nil), m...)), true
		}
		return []Value{v}, true
	case "multiple-value-call":
		f := primary(in.eval(args[0], e))
		var all []Value
		for _, a := range args[1:] {
			v := in.value("value", a, e)
			if m, ok := v.(multi); ok {
				all = append(all, m...)
			} else {
				all = append(all, v)
			}
		}
		return in.applyAny(f, all), true
	case "multiple-value-setq":
		v := in.value("value", args[1], e)
		vals := []Value{v}
		if m, ok := v.(multi); ok {
			vals = m
		}
		if args[0] != nil {
			for i, s := range args[0].(List) {
				var x Value
				if i < len(vals) {
					x = vals[i]
				}
				in.assign(symName(s), x, e)
			}
		}
		return primary(v), true
	case "setf":
		var v Value
		for i := 0; i+1 < len(args); i += 2 {
			switch place := args[i].(type) {
			case Sym:
				v = primary(in.value("setq", args[i+1], e))
				in.assign(symName(place), v, e)
			case List:
				// (car x): the subform of the place first, then the value
				target := primary(in.eval(place[1], e))
				v = primary(in.value("setq", args[i+1], e))
				if l, ok := target.([]Value); ok && 0 < len(l) && symName(place[0]) == "car" {
					l[0] = v
				}
			}
		}
		return v, true
	case "make-instance":
		if q, ok := args[0].(List); ok && len(q) == 2 {
			if s, isSym := q[1].(Sym); isSym && strings.HasSuffix(strings.ToLower(string(s)), "-nope") {
				in.signal("class-not-found", "class %s not found", s)
			}
		}
	}
	return nil, false
}

func (in *Interp) assign(name string, v Value, e *env) {
	if c := e.lookup(name); c != nil {
		c.v = v
	} else {
		in.global.vars[name] = &cell{v}
	}
}

// HasWild reports whether v is, or holds, a value that comparisons must not pin down.
func HasWild(v Value) bool {
	switch t := v.(type) {
	case wildType:
		return true
	case []Value:
		for _, x := range t {
			if HasWild(x) {
				return true
			}
		}
	case multi:
		for _, x := range t {
			if HasWild(x) {
				return true
			}
		}
	}
	return false
}
