package c13

import (
	"fmt"

	"verif/engine"
)

// Oracle-sensitivity self-test (S6). A simulated implementation — the
// reference transition function and visibility rule, or one with a realistic
// bug — is explored with the same operation alphabet (small configuration to
// its fixpoint, full configuration to a small depth) and every transition is
// judged by the real oracle exactly as a slip transition is: the graph of the
// pre-state, the operation, the observations after it. A mutated reference is
// killed when some explored transition is flagged; the unmutated one must pass
// everywhere (which also checks that the oracle accepts its own reference).

type simMutant struct {
	name string
	m    mut
	r    rules
	ext  bool // a mutant of the further families: explored on the configurations that have them
}

var simMutants = []simMutant{
	{"unuse-package drops the own definitions of the unusing package", mut{unuseDropsOwn: true}, rules{}, false},
	{"unexport leaves the definition exported (stale visibility in users)", mut{unexportNoEffect: true}, rules{}, false},
	{"export has no effect (users never see the definition)", mut{exportNoEffect: true}, rules{}, false},
	{"makunbound also removes the same-named own variable of every user", mut{makunboundInUsers: true}, rules{}, false},
	{"fmakunbound removes nothing (stale function)", mut{fmakunboundNothing: true}, rules{}, false},
	{"defun also overwrites the same-named function of the used packages", mut{defunInUsed: true}, rules{}, false},
	{"unexported definitions of used packages are visible", mut{}, rules{privateInherited: true}, false},
	{"p:n reaches unexported definitions", mut{}, rules{extIgnoresExport: true}, false},
	{"an exported definition of a used package shadows the own one", mut{}, rules{usedShadowsOwn: true}, false},
	// the further families (explored on the configurations that have them)
	{"a name imported through the Go interface does not resolve in the importer", mut{}, rules{importInvisible: true}, true},
	{"an imported name resolves only when its definition is exported", mut{}, rules{importExportOnly: true}, true},
	{"delete-package leaves the use edges of the deleted package", mut{deleteKeepsEdges: true}, rules{}, true},
	{"a function defined through Package.Define is not exported to the users", mut{godefNotExported: true}, rules{}, true},
}

// simObserve: what the simulated implementation shows in state g.
func simObserve(g *graph, r rules, slots []slot) []observation {
	obs := make([]observation, len(slots))
	for i, sl := range slots {
		switch sl.form {
		case "uses", "users":
			for k := range g.expected(rules{}, sl) {
				obs[i].val = k
			}
			continue
		}
		if g.p[sl.c].deleted {
			obs[i].val = "D"
			continue
		}
		if g.p[sl.q].deleted {
			obs[i].val = "U"
			continue
		}
		v := "U"
		switch sl.form {
		case "unq":
			v = simResolve(g, r, sl.c, sl.kind, sl.name)
		case "ext":
			if d := g.tab(sl.q, sl.kind)[sl.name]; d != nil && d.val != unboundVal && (d.exp || r.extIgnoresExport) {
				v = valStr(d.val)
			}
		case "int":
			if d := g.tab(sl.q, sl.kind)[sl.name]; d != nil && d.val != unboundVal {
				v = valStr(d.val)
			}
		}
		if sl.probe == "boundp" || sl.probe == "fboundp" {
			if v == "U" {
				v = "N"
			} else {
				v = "T"
			}
		}
		obs[i].val = v
	}
	return obs
}

func simResolve(g *graph, r rules, p int, kind byte, n string) string {
	used := func() string {
		for _, q := range g.p[p].uses {
			if d := g.tab(q, kind)[n]; d != nil && (d.exp || r.privateInherited) && d.val != unboundVal {
				return valStr(d.val)
			}
		}
		return "U"
	}
	if r.usedShadowsOwn {
		if v := used(); v != "U" {
			return v
		}
	}
	if own := g.tab(p, kind)[n]; own != nil {
		return valStr(own.val)
	}
	if m := g.p[p].imports[n]; m != nil && m.kind == kind && !r.importInvisible && !g.p[m.from].deleted {
		if d := g.tab(m.from, kind)[n]; d != nil && d.val != unboundVal && (d.exp || !r.importExportOnly) {
			return valStr(d.val)
		}
	}
	return used()
}

// simExplore returns the first flagged transition ("" if none) and the number
// of transitions judged.
func simExplore(cfg *config, sm simMutant, maxDepth, maxTransitions int) (flag string, transitions int) {
	slots := cfg.slots()
	root := newGraph(cfg)
	seen := map[string]bool{root.String(): true}
	frontier := []*graph{root}
	var ops []op
	for _, s := range cfg.ops(0) {
		o, _ := parseOp(s)
		ops = append(ops, o)
	}
	for depth := 1; depth <= maxDepth && 0 < len(frontier); depth++ {
		var next []*graph
		for _, g := range frontier {
			for _, o := range ops {
				alts, _ := g.step(sm.m, o)
				ng := alts[0]
				obs := simObserve(ng, sm.r, slots)
				transitions++
				refAlts, _ := g.step(mut{}, o)
				ok := false
				var why mismatch
				for _, a := range refAlts {
					ms := mismatches(a, rules{}, slots, obs, nil)
					if len(ms) == 0 {
						ok = true
						break
					}
					why = ms[0]
				}
				if !ok {
					return fmt.Sprintf("%s in state %s: %s => %s, acceptable %s", o, g, describeSlot(cfg, why.sl), why.got.val, why.want), transitions
				}
				if maxTransitions <= transitions {
					return "", transitions
				}
				k := ng.String()
				if !seen[k] {
					seen[k] = true
					next = append(next, ng)
				}
			}
		}
		frontier = next
	}
	return "", transitions
}

func selftest(tier string) (killed, total int, notes []string) {
	fullD := 2
	if tier == engine.Thorough {
		fullD = 3
	}
	// the unmutated simulation must be accepted everywhere
	for _, c := range []struct {
		cfg   *config
		depth int
	}{{smallCfg, 64}, {fullCfg, fullD}, {lispCfg, 2}, {goCfg, 2}} {
		flag, n := simExplore(c.cfg, simMutant{}, c.depth, 400000)
		if flag != "" {
			notes = append(notes, "the oracle rejects its own reference: "+flag)
			return 0, len(simMutants) + 1, notes
		}
		notes = append(notes, fmt.Sprintf("reference simulation accepted on %d transitions (configuration %c)", n, c.cfg.tag))
	}
	for _, sm := range simMutants {
		total++
		flag := ""
		if sm.ext {
			if flag, _ = simExplore(goCfg, sm, 3, 400000); flag == "" {
				flag, _ = simExplore(lispCfg, sm, 3, 400000)
			}
		} else if flag, _ = simExplore(smallCfg, sm, 64, 400000); flag == "" {
			flag, _ = simExplore(fullCfg, sm, 3, 400000)
		}
		if flag != "" {
			killed++
			notes = append(notes, "killed: "+sm.name+" — "+flag)
		} else {
			notes = append(notes, "NOT distinguished: "+sm.name)
		}
	}
	return
}
