package c08

// tree.go: family "tree" - nested forward-reference trees. The expression under test is an expression TREE whose
// inner nodes are calls of one or two functions that may not exist yet when the tree is compiled (a unary @u, a
// binary @b) and of built-ins (a unary (* 3 e), a binary (- e1 e2)); its leaves are traced, numbered from left to right,
// so that a dropped, doubled or reordered evaluation shows in the trace and a swapped argument in the value (every
// operator is injective and not commutative). Every tree of the bound is placed in every call context, and the program
// made of the caller and the late functions is run in every order of its definitions and in the modes of its mode set.
//
// Further dimensions (cross-sections, see enumTrees): how the late call is SPELLED (direct, funcall / apply / mapcar of
// #'f, (function f) or 'f, send to a flavor instance) and what KIND of definition the late callee is (defun, defgeneric +
// defmethod, defmethod alone, a flavors method, defmacro).

import (
	"fmt"
	"strings"
	"sync"

	"verif/engine"
)

// ---------------------------------------------------------------- trees

type tnode struct {
	k    byte // 'x' leaf, 'u' late unary, 'b' late binary, 'p' built-in unary, 'q' built-in binary
	kids []*tnode
}

var treeMemo = map[[2]int][]string{}

// treesExact: every tree of depth <= d with exactly n call nodes, prefix notation, deterministic order.
func treesExact(d, n int) []string {
	if n == 0 {
		return []string{"x"}
	}
	if d == 0 {
		return nil
	}
	key := [2]int{d, n}
	if out, has := treeMemo[key]; has {
		return out
	}
	var out []string
	for _, k := range []string{"u", "p"} {
		for _, sub := range treesExact(d-1, n-1) {
			out = append(out, k+sub)
		}
	}
	for _, k := range []string{"b", "q"} {
		for i := 0; i <= n-1; i++ {
			for _, l := range treesExact(d-1, i) {
				for _, r := range treesExact(d-1, n-1-i) {
					out = append(out, k+l+r)
				}
			}
		}
	}
	treeMemo[key] = out
	return out
}

func treeLate(enc string) int { return strings.Count(enc, "u") + strings.Count(enc, "b") }

func treeNodes(enc string) int { return len(enc) - strings.Count(enc, "x") }

// treeSet: the trees of depth <= d with minN..maxN call nodes of which at least one is a late call, fewest nodes first.
func treeSet(d, minN, maxN int) (out []string) {
	for n := minN; n <= maxN; n++ {
		for _, t := range treesExact(d, n) {
			if 0 < treeLate(t) {
				out = append(out, t)
			}
		}
	}
	return
}

func parseTree(enc string) (t *tnode, err error) {
	i := 0
	var rec func() *tnode
	rec = func() *tnode {
		if len(enc) <= i {
			err = fmt.Errorf("tree %q ends early", enc)
			return &tnode{k: 'x'}
		}
		k := enc[i]
		i++
		switch k {
		case 'x':
			return &tnode{k: k}
		case 'u', 'p':
			return &tnode{k: k, kids: []*tnode{rec()}}
		case 'b', 'q':
			l := rec()
			return &tnode{k: k, kids: []*tnode{l, rec()}}
		}
		err = fmt.Errorf("bad node %q in tree %q", k, enc)
		return &tnode{k: 'x'}
	}
	t = rec()
	if err == nil && i != len(enc) {
		err = fmt.Errorf("tree %q has trailing nodes", enc)
	}
	return
}

func (t *tnode) depth() int {
	d := 0
	for _, k := range t.kids {
		if kd := k.depth() + 1; d < kd {
			d = kd
		}
	}
	return d
}

func (t *tnode) has(k byte) bool {
	if t.k == k {
		return true
	}
	for _, c := range t.kids {
		if c.has(k) {
			return true
		}
	}
	return false
}

// nestClass: how the late calls of the tree relate. self: a late call has a call of the SAME late function somewhere
// in its arguments; other: of the other late function only; sibling: several late calls, none inside another; single.
func (t *tnode) nestClass() string {
	self, other := false, false
	var walk func(n *tnode)
	walk = func(n *tnode) {
		if n.k == 'u' || n.k == 'b' {
			o := byte('u' + 'b' - n.k)
			for _, c := range n.kids {
				if c.has(n.k) {
					self = true
				}
				if c.has(o) {
					other = true
				}
			}
		}
		for _, c := range n.kids {
			walk(c)
		}
	}
	walk(t)
	switch {
	case self:
		return "self"
	case other:
		return "other"
	}
	n := 0
	var count func(*tnode)
	count = func(x *tnode) {
		if x.k == 'u' || x.k == 'b' {
			n++
		}
		for _, c := range x.kids {
			count(c)
		}
	}
	count(t)
	if 1 < n {
		return "sibling"
	}
	return "single"
}

// ---------------------------------------------------------------- rendering

var treeSpells = []string{"direct", "funcall-fn", "funcall-function", "funcall-sym", "apply-fn", "apply-sym", "mapcar-fn", "mapcar-sym", "send"}

func spellCall(spell, fn string, args []string) string {
	name := "@" + fn
	a := strings.Join(args, " ")
	switch spell {
	case "direct":
		return "(" + name + " " + a + ")"
	case "funcall-fn":
		return "(funcall #'" + name + " " + a + ")"
	case "funcall-function":
		return "(funcall (function " + name + ") " + a + ")"
	case "funcall-sym":
		return "(funcall '" + name + " " + a + ")"
	case "apply-fn", "apply-sym":
		d := "#'"
		if spell == "apply-sym" {
			d = "'"
		}
		// the last argument travels in the list, the others are spread arguments
		return "(apply " + d + name + " " + strings.Join(append(append([]string(nil), args[:len(args)-1]...), "(list "+args[len(args)-1]+")"), " ") + ")"
	case "mapcar-fn", "mapcar-sym":
		d := "#'"
		if spell == "mapcar-sym" {
			d = "'"
		}
		var ls []string
		for _, x := range args {
			ls = append(ls, "(list "+x+")")
		}
		return "(car (mapcar " + d + name + " " + strings.Join(ls, " ") + "))"
	case "send":
		return "(send *@o* :" + fn + " " + a + ")"
	}
	panic("harness: unknown spelling " + spell)
}

// renderTree writes the tree as Lisp; leaf(i) renders the i-th leaf (1-based, left to right).
func renderTree(t *tnode, spell string, leaf func(i int) string) string {
	n := 0
	var rec func(t *tnode) string
	rec = func(t *tnode) string {
		switch t.k {
		case 'x':
			n++
			return leaf(n)
		case 'p':
			return "(* 3 " + rec(t.kids[0]) + ")"
		case 'q':
			l := rec(t.kids[0])
			return "(- " + l + " " + rec(t.kids[1]) + ")"
		case 'u':
			return spellCall(spell, "u", []string{rec(t.kids[0])})
		}
		l := rec(t.kids[0])
		return spellCall(spell, "b", []string{l, rec(t.kids[1])})
	}
	return rec(t)
}

// ---------------------------------------------------------------- contexts

// treeCtxNames: where the tree sits. The first group wraps the tree inside the body of the caller (defun @f1 (pa) ..),
// the contexts of the calls family; then a lambda / lambda in head position, the default form of an &optional / &key
// parameter, the argument of a macro call and the template of a macro (the tree reaches the code through the
// expansion), the top level (the main expression IS the tree), and the tree as DATA: quoted and handed to eval, held
// in a global variable and handed to eval, returned by a function and handed to eval - the data is part of the result.
var treeCtxNames = []string{"body", "arg", "trarg", "seq", "if", "iftest", "letinit", "letbody", "progn", "cond", "when", "setq", "and",
	"lambda", "lambda-head", "optdefault", "keydefault", "macarg", "macbody", "top", "evalq", "evalvar", "evalfn"}

// treeCtxCore: the contexts of the reduced cross (big trees): the two strict positions, a lazily compiled one, a lambda,
// a macro expansion and the top level.
var treeCtxCore = []string{"body", "arg", "if", "lambda", "macarg", "top"}

// treeCtxMain: one context of every kind (thorough, trees of four call nodes); treeCtxCore4: the big trees of the thorough tier.
var treeCtxMain = []string{"body", "arg", "if", "letinit", "cond", "progn", "lambda", "optdefault", "keydefault", "macarg", "macbody", "top", "evalvar"}
var treeCtxCore4 = []string{"body", "arg", "if", "top"}

func isDataCtx(ctx string) bool { return strings.HasPrefix(ctx, "eval") }

var lateBodies = map[string][2]string{
	"u": {"(tr 'u (+ 1 (* 2 ua)))", "(tr 'u2 (+ 7 (* 2 va)))"},
	"b": {"(tr 'b (+ 1 (* 3 ba) (* 5 bb)))", "(tr 'b2 (+ 7 (* 3 ca) (* 5 cb)))"},
}

var lateParams = map[string][2][]string{
	"u": {{"ua"}, {"va"}},
	"b": {{"ba", "bb"}, {"ca", "cb"}},
}

var treeKinds = []string{"defun", "generic", "method", "flavor", "macro"}

// lateDef: the definition of late function fn ("u" / "b") of the given kind; variant 1 is the redefinition (other
// parameter names, other value, other trace key).
func lateDef(kind, fn string, variant int) string {
	ps := lateParams[fn][variant]
	body := lateBodies[fn][variant]
	switch kind {
	case "defun":
		return "(defun @" + fn + " (" + strings.Join(ps, " ") + ") " + body + ")"
	case "generic", "method":
		sp := append([]string{"(" + ps[0] + " fixnum)"}, ps[1:]...)
		return "(defmethod @" + fn + " (" + strings.Join(sp, " ") + ") " + body + ")"
	case "flavor":
		return "(defmethod (@fl :" + fn + ") (" + strings.Join(ps, " ") + ") " + body + ")"
	case "macro":
		// inside a backquote template the trace key is a keyword: slip evaluates 'u inside a backquote as the variable u
		// (a defect of backquote, the same in every order and mode: not this property's business)
		b := strings.Replace(body, "(tr '", "(tr :", 1)
		for _, p := range ps {
			b = strings.ReplaceAll(b, " "+p+")", " ,"+p+")")
		}
		return "(defmacro @" + fn + " (" + strings.Join(ps, " ") + ") `" + b + ")"
	}
	panic("harness: unknown kind " + kind)
}

var (
	treeMu   sync.Mutex
	treeLast *program // the orders and modes of one program follow each other in most uses
)

// treeProgram builds the program tree:<enc>:<ctx>:<spell>:<kind> (a pure function of the id).
func treeProgram(id string) (*program, error) {
	treeMu.Lock()
	defer treeMu.Unlock()
	if treeLast != nil && treeLast.id == id {
		return treeLast, nil
	}
	parts := strings.Split(id, ":")
	if len(parts) != 5 || parts[0] != "tree" {
		return nil, fmt.Errorf("bad tree program id %q", id)
	}
	enc, ctx, spell, kind := parts[1], parts[2], parts[3], parts[4]
	t, err := parseTree(enc)
	if err != nil {
		return nil, err
	}
	okSpell, okKind := false, false
	for _, s := range treeSpells {
		okSpell = okSpell || s == spell
	}
	for _, k := range treeKinds {
		okKind = okKind || k == kind
	}
	if !okSpell || !okKind || (spell == "send") != (kind == "flavor") {
		return nil, fmt.Errorf("bad spelling / kind in %q", id)
	}
	leafVar := func(v string) func(int) string {
		return func(i int) string { return fmt.Sprintf("(tr 'k%d (+ %s %d))", i, v, i) }
	}
	// constant leaves: the trace key is a keyword (a quoted symbol inside quoted data is not a list in slip: the reader's
	// own business, C01/C02) - the data contexts show the tree as data
	leafConst := func(i int) string { return fmt.Sprintf("(tr :k%d %d)", i, 10+i) }
	inBody := renderTree(t, spell, leafVar("pa"))
	p := &program{fam: "tree", id: id, main: "(@f1 2)"}
	caller := func(body string) { p.defs = append(p.defs, "(defun @f1 (pa) "+body+")") }
	switch ctx {
	case "lambda":
		caller("(funcall (lambda (q) " + inBody + ") 0)")
	case "lambda-head":
		caller("((lambda (q) " + inBody + ") 0)")
	case "optdefault":
		p.defs = append(p.defs, "(defun @f1 (pa &optional (po "+inBody+")) (+ 1000 po))")
	case "keydefault":
		p.defs = append(p.defs, "(defun @f1 (pa &key (po "+inBody+")) (+ 1000 po))")
	case "macarg":
		p.defs = append(p.defs, "(defmacro @m1 (ma) `(+ 1000 ,ma))")
		caller("(@m1 " + inBody + ")")
		p.before = append(p.before, [2]int{0, 1})
	case "macbody":
		p.defs = append(p.defs, "(defmacro @m1 (mx) `"+renderTree(t, spell, func(i int) string { return fmt.Sprintf("(tr :k%d (+ ,mx %d))", i, i) })+")")
		caller("(+ 1000 (@m1 pa))")
		p.before = append(p.before, [2]int{0, 1})
	case "top":
		p.main = renderTree(t, spell, leafConst)
	case "evalq":
		caller("(eval '" + renderTree(t, spell, leafConst) + ")")
		p.main = "(list (@f1 2) (@f1 3))"
	case "evalvar":
		p.defs = append(p.defs, "(defvar *@d* '"+renderTree(t, spell, leafConst)+")")
		caller("(eval *@d*)")
		p.main = "(list (@f1 2) *@d* (@f1 3))"
	case "evalfn":
		p.defs = append(p.defs, "(defun @f2 () '"+renderTree(t, spell, leafConst)+")")
		caller("(eval (@f2))")
		p.main = "(list (@f1 2) (@f2) (@f1 3))"
	default:
		c := ctxByName(ctx)
		if c == nil || c.wrap == nil {
			return nil, fmt.Errorf("unknown tree context in %q", id)
		}
		caller(c.wrap(inBody))
	}
	if isDataCtx(ctx) {
		if spell != "direct" {
			return nil, fmt.Errorf("data contexts take the direct spelling only: %q", id)
		}
		p.feats = append(p.feats, "code-as-data", "tree-data-evaluated-and-inspected")
	}
	for range p.defs {
		p.alts = append(p.alts, "")
	}
	if kind == "flavor" {
		fl := len(p.defs)
		// setq, not defvar: Code.Compile evaluates defvar (not defflavor) when the code is compiled, before the flavor exists
		p.defs = append(p.defs, "(defflavor @fl () ())", "(setq *@o* (make-instance '@fl))")
		p.alts = append(p.alts, "", "")
		p.before = append(p.before, [2]int{fl, fl + 1})
		p.flavorDef = fl
	}
	for _, fn := range []string{"u", "b"} {
		if !t.has(fn[0]) {
			continue
		}
		if kind == "generic" {
			p.regen = append(p.regen, len(p.defs))
			p.defs = append(p.defs, "(defgeneric @"+fn+" ("+strings.Join(lateParams[fn][0], " ")+"))")
			p.alts = append(p.alts, "")
			p.before = append(p.before, [2]int{len(p.defs) - 1, len(p.defs)})
		}
		if kind == "flavor" {
			p.before = append(p.before, [2]int{p.flavorDef, len(p.defs)})
		}
		if kind == "macro" {
			p.macroDefs = append(p.macroDefs, len(p.defs))
		}
		if kind == "defun" {
			p.unbind = append(p.unbind, len(p.defs))
		}
		p.defs = append(p.defs, lateDef(kind, fn, 0))
		p.alts = append(p.alts, lateDef(kind, fn, 1))
	}
	if kind == "macro" {
		p.macroTop = ctx == "top"
	}
	nest := t.nestClass()
	p.sigx = " nest=" + nest
	if spell != "direct" {
		p.sigx += " call=" + spell
		p.feats = append(p.feats, "tree-call-"+spell, "function-designator")
	}
	if kind != "defun" {
		p.sigx += " def=" + kind
		p.feats = append(p.feats, "tree-late-"+kind)
	}
	p.feats = append(p.feats, "tree-cases", "tree-nest-"+nest, "tree-ctx-"+ctx, fmt.Sprintf("tree-depth-%d", t.depth()))
	treeLast = p
	return p, nil
}

// ---------------------------------------------------------------- enumeration

// mode sets of the tree family
var (
	treeModes6 = []string{"each", "comp", "load", "rep", "early", "compearly"}
	treeModes4 = []string{"each", "comp", "early", "compearly"}
)

// treeAllModes: every base mode, the redefinition pair of every late function, the fmakunbound pair of every late
// defun, the two early modes.
func treeAllModes(p *program) (out []string) {
	out = append(out, baseModes...)
	for i, alt := range p.alts {
		if alt != "" {
			out = append(out, fmt.Sprintf("redef:%d", i), fmt.Sprintf("compredef:%d", i))
		}
	}
	for _, i := range p.unbind {
		out = append(out, fmt.Sprintf("unbind:%d", i), fmt.Sprintf("compunbind:%d", i))
	}
	out = append(out, treeExtraModes(p)...)
	return append(out, "early", "compearly")
}

// treeExtraModes: the modes a reduced mode set still gets - a generic function defined again (defgeneric a second time,
// then the method).
func treeExtraModes(p *program) (out []string) {
	for _, i := range p.regen {
		out = append(out, fmt.Sprintf("regen:%d", i), fmt.Sprintf("compregen:%d", i))
	}
	return
}

type treeSection struct {
	name                 string
	depth, minN, maxN    int
	ctxs, spells, kinds  []string
	modes                []string // nil = treeAllModes
}

var nonDirectSpells = treeSpells[1:]

// treeSections: the cross-sections of trees x contexts x spellings x kinds x modes that make up a tier (all orders of
// the definitions always). Later sections never repeat a case of an earlier one (engine deduplicates specs anyway).
func treeSections(tier string) []treeSection {
	direct, defun := []string{"direct"}, []string{"defun"}
	secs := []treeSection{
		// every tree of <= 2 call nodes in every context, every mode
		{"small-all-modes", 3, 1, 2, treeCtxNames, direct, defun, nil},
		// every tree of depth <= 3 with 3 call nodes (the smallest shapes with a late call nested THROUGH a built-in) in every context
		{"three-nodes", 3, 3, 3, treeCtxNames, direct, defun, treeModes6},
		// every tree of depth <= 3 with 4 call nodes in the core contexts
		{"four-nodes-core", 3, 4, 4, treeCtxCore, direct, defun, treeModes4},
		// every other spelling of the late call (function designators handed to funcall / apply / mapcar)
		{"spellings", 3, 1, 2, []string{"body", "arg", "if", "letinit", "lambda", "optdefault", "macarg", "top"}, nonDirectSpells[:7], defun, treeModes6},
		{"send", 3, 1, 2, []string{"body", "arg", "if", "letinit", "lambda", "optdefault", "macarg", "top"}, []string{"send"}, []string{"flavor"}, treeModes6},
		// every other kind of late callee
		{"kinds", 3, 1, 2, treeCtxNames[:20], direct, []string{"generic", "method", "macro"}, treeModes6},
	}
	if tier == engine.Thorough {
		secs = []treeSection{
			{"three-nodes-all-modes", 4, 1, 3, treeCtxNames, direct, defun, nil},
			{"four-nodes", 4, 4, 4, treeCtxMain, direct, defun, treeModes6},
			{"depth3-complete-core", 3, 6, 7, treeCtxCore4, direct, defun, treeModes4}, // (5 call nodes: part of the next section)
			{"depth4-five-nodes-core", 4, 5, 5, treeCtxCore4, direct, defun, treeModes4},
			{"spellings", 4, 1, 3, []string{"body", "arg", "if", "letinit", "lambda", "optdefault", "macarg", "top"}, nonDirectSpells[:7], defun, treeModes6},
			{"send", 4, 1, 3, []string{"body", "arg", "if", "letinit", "lambda", "optdefault", "macarg", "top"}, []string{"send"}, []string{"flavor"}, treeModes6},
			{"kinds", 4, 1, 3, treeCtxNames[:20], direct, []string{"generic", "method", "macro"}, treeModes6},
		}
	}
	return secs
}

// treeBound describes the cross-sections of the tier.
func treeBound(tier string) string {
	var parts []string
	for _, sec := range treeSections(tier) {
		modes := "every mode"
		if sec.modes != nil {
			modes = "modes " + strings.Join(sec.modes, ",")
		}
		cases := 0
		progs := enumTreeSection(sec, 0, 0, func(string) { cases++ })
		parts = append(parts, fmt.Sprintf("[%s: all %d trees of depth <= %d with %d..%d call nodes (>= 1 late call) x %d contexts x spellings {%s} x callee kinds {%s} x every order x %s = %d programs, %d cases]",
			sec.name, len(treeSet(sec.depth, sec.minN, sec.maxN)), sec.depth, sec.minN, sec.maxN, len(sec.ctxs), strings.Join(sec.spells, ","), strings.Join(sec.kinds, ","), modes, progs, cases))
	}
	return strings.Join(parts, " ")
}

// enumTrees emits the tree cases; maxNodes > 0 restricts the trees and perSection > 0 the cases of a section (self-test scan).
func enumTrees(tier string, maxNodes, perSection int, emit func(string)) (programs int) {
	for _, sec := range treeSections(tier) {
		programs += enumTreeSection(sec, maxNodes, perSection, emit)
	}
	return
}

func enumTreeSection(sec treeSection, maxNodes, perSection int, emit func(string)) (programs int) {
	{
		emitted := 0
		maxN := sec.maxN
		if 0 < maxNodes && maxNodes < maxN {
			maxN = maxNodes
		}
		for _, enc := range treeSet(sec.depth, sec.minN, maxN) {
			for _, ctx := range sec.ctxs {
				for _, spell := range sec.spells {
					for _, kind := range sec.kinds {
						if isDataCtx(ctx) && spell != "direct" {
							continue
						}
						id := "tree:" + enc + ":" + ctx + ":" + spell + ":" + kind
						p, err := treeProgram(id)
						if err != nil {
							panic("harness: " + err.Error())
						}
						programs++
						modes := sec.modes
						if modes == nil {
							modes = treeAllModes(p)
						} else {
							// a reduced mode set still gets: defgeneric a second time; the redefinition pair of a late MACRO (a
							// main compiled between two redefinitions)
							modes = append(append([]string(nil), modes...), treeExtraModes(p)...)
							for _, i := range p.macroDefs {
								modes = append(modes, fmt.Sprintf("redef:%d", i), fmt.Sprintf("compredef:%d", i))
							}
						}
						if 0 < perSection && perSection <= emitted {
							continue
						}
						for _, perm := range perms(len(p.defs), p.before) {
							ps := permString(perm)
							for _, mode := range modes {
								emit(id + "|" + ps + "|" + mode)
								emitted++
							}
						}
					}
				}
			}
		}
	}
	return
}
