package engine

import (
	"fmt"
	"os"
	"strings"
	"time"
)

// ProcCPU returns the processor time (user + system, all threads) a process has used so far: fields 14 and 15 of
// /proc/<pid>/stat at 100 ticks per second. ok is false when the process cannot be read any more.
func ProcCPU(pid int) (d time.Duration, ok bool) {
	b, err := os.ReadFile(fmt.Sprintf("/proc/%d/stat", pid))
	if err != nil {
		return 0, false
	}
	s := string(b)
	if i := strings.LastIndexByte(s, ')'); 0 <= i {
		s = s[i+1:]
	}
	f := strings.Fields(s) // f[0] is field 3 (state)
	if len(f) < 13 {
		return 0, false
	}
	var ut, st int64
	_, _ = fmt.Sscan(f[11], &ut)
	_, _ = fmt.Sscan(f[12], &st)
	return time.Duration(ut+st) * 10 * time.Millisecond, true
}

// WaitBounded waits for done (the child's exit or answer) and reports false when the child must be considered not to
// come back. The clock that decides is the CHILD'S OWN processor time, not the wall (S1: no short wall-clock oracle, a
// verdict must not depend on what else runs on the machine): when `wall` has passed and the child has had less than
// `cpu` of processor time since `cpu0` (it was starved, not spinning), the wait goes on, in steps of one second, until
// it has had that much or `wallMax` has passed. A child that blocks without using the processor costs wallMax.
// extended, if not nil, is called once when the wait goes beyond `wall`.
func WaitBounded[T any](pid int, done <-chan T, wall, cpu, wallMax time.Duration, extended func()) (v T, ok bool) {
	start := time.Now()
	cpu0, _ := ProcCPU(pid)
	timer := time.NewTimer(wall)
	defer timer.Stop()
	for {
		select {
		case v = <-done:
			return v, true
		case <-timer.C:
			used, alive := ProcCPU(pid)
			if !alive {
				// the child is gone: its exit (or the end of its pipe) is about to be delivered
				select {
				case v = <-done:
					return v, true
				case <-time.After(10 * time.Second):
					return v, false
				}
			}
			if cpu <= used-cpu0 || wallMax <= time.Since(start) {
				// last chance: the answer may have arrived together with the timer
				select {
				case v = <-done:
					return v, true
				default:
				}
				return v, false
			}
			if extended != nil {
				extended()
				extended = nil
			}
			timer.Reset(time.Second)
		}
	}
}
