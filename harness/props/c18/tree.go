//go:build verif

package c18

import (
	"encoding/json"
	"fmt"
	"math"
	"math/big"
	"reflect"
	"sort"
	"strconv"
	"strings"
	"time"
	"unicode"
	"unsafe"

	"github.com/ohler55/slip"
)

// Trees are plain Go data: nil, bool, int64, float64, json.Number (what
// encoding/json gives the model, and what ojg gives for integers that do not
// fit), string, time.Time, []any, map[string]any.

func copyTree(v any) any {
	switch tv := v.(type) {
	case []any:
		out := make([]any, len(tv))
		for i, e := range tv {
			out[i] = copyTree(e)
		}
		return out
	case map[string]any:
		out := make(map[string]any, len(tv))
		for k, e := range tv {
			out[k] = copyTree(e)
		}
		return out
	}
	return v
}

func sortedKeys(m map[string]any) []string {
	ks := make([]string, 0, len(m))
	for k := range m {
		ks = append(ks, k)
	}
	sort.Strings(ks)
	return ks
}

// ---------------------------------------------------------------- numbers

type num struct {
	rat     *big.Rat
	isFloat bool    // a float64 value
	f       float64 // when isFloat
	decText bool    // decimal text with a fraction or exponent (not an integer literal)
	text    string
	ok      bool
}

func toNum(v any) num {
	switch tv := v.(type) {
	case int64:
		return num{rat: new(big.Rat).SetInt64(tv), ok: true}
	case int:
		return num{rat: new(big.Rat).SetInt64(int64(tv)), ok: true}
	case float64:
		if math.IsInf(tv, 0) || math.IsNaN(tv) {
			return num{isFloat: true, f: tv, ok: true}
		}
		return num{rat: new(big.Rat).SetFloat64(tv), isFloat: true, f: tv, ok: true}
	case json.Number:
		s := string(tv)
		r, ok := new(big.Rat).SetString(s)
		if !ok {
			return num{}
		}
		return num{rat: r, decText: strings.ContainsAny(s, ".eE"), text: s, ok: true}
	}
	return num{}
}

func isNumber(v any) bool {
	switch v.(type) {
	case int64, int, float64, json.Number:
		return true
	}
	return false
}

// numEqual: exact rational comparison, except that a float64 is compared with
// a decimal text (fraction / exponent form) by parsing the text to the
// nearest float64 — 0.1 in a document and the float64 0.1 are the same number.
func numEqual(a, b any) bool {
	x, y := toNum(a), toNum(b)
	if !x.ok || !y.ok {
		return false
	}
	if x.isFloat && y.decText {
		f, err := strconv.ParseFloat(y.text, 64)
		return err == nil && f == x.f
	}
	if y.isFloat && x.decText {
		f, err := strconv.ParseFloat(x.text, 64)
		return err == nil && f == y.f
	}
	if x.rat == nil || y.rat == nil { // Inf / NaN
		return x.isFloat && y.isFloat && x.f == y.f
	}
	return x.rat.Cmp(y.rat) == 0
}

func numText(v any) string {
	n := toNum(v)
	if !n.ok {
		return fmt.Sprintf("?%v", v)
	}
	if n.rat == nil {
		return strconv.FormatFloat(n.f, 'g', -1, 64)
	}
	if n.rat.IsInt() {
		return n.rat.Num().String()
	}
	if n.isFloat {
		return strconv.FormatFloat(n.f, 'g', -1, 64)
	}
	return n.rat.RatString()
}

// ---------------------------------------------------------------- dumps

// dump renders a tree canonically (sorted keys, numbers by value). With
// modEmpty, empty arrays, empty objects and null all render as null (the Lisp
// view: there is one nil).
func dump(v any, modEmpty bool) string {
	var b strings.Builder
	dumpTo(&b, v, modEmpty)
	return b.String()
}

func dumpTo(b *strings.Builder, v any, modEmpty bool) {
	switch tv := v.(type) {
	case nil:
		b.WriteString("null")
	case bool:
		if tv {
			b.WriteString("true")
		} else {
			b.WriteString("false")
		}
	case int64, int, float64, json.Number:
		b.WriteString(numText(v))
	case string:
		b.WriteString(strconv.Quote(tv))
	case time.Time:
		b.WriteString("@" + tv.UTC().Format(time.RFC3339Nano))
	case []any:
		if len(tv) == 0 && modEmpty {
			b.WriteString("null")
			return
		}
		b.WriteByte('[')
		for i, e := range tv {
			if 0 < i {
				b.WriteByte(',')
			}
			dumpTo(b, e, modEmpty)
		}
		b.WriteByte(']')
	case map[string]any:
		if len(tv) == 0 && modEmpty {
			b.WriteString("null")
			return
		}
		b.WriteByte('{')
		for i, k := range sortedKeys(tv) {
			if 0 < i {
				b.WriteByte(',')
			}
			b.WriteString(strconv.Quote(k))
			b.WriteByte(':')
			dumpTo(b, tv[k], modEmpty)
		}
		b.WriteByte('}')
	default:
		fmt.Fprintf(b, "<%T %v>", v, v)
	}
}

// aliasDump is dump plus the sharing structure: every container with an
// identity (any non-nil map, any slice with a backing store) is numbered in
// traversal order and a container reached a second time (the same
// map, or a slice with the same backing store) is rendered as ^n. Two
// histories that produce equal-looking trees with different sharing therefore
// get different state keys. It also returns whether any sharing was seen.
func aliasDump(v any) (string, bool) {
	var b strings.Builder
	ids := map[uintptr]int{}
	shared := false
	var walk func(v any)
	walk = func(v any) {
		switch tv := v.(type) {
		case []any:
			if cap(tv) == 0 {
				b.WriteString("[]")
				return
			}
			p := uintptr(unsafe.Pointer(unsafe.SliceData(tv)))
			if id, has := ids[p]; has {
				shared = true
				fmt.Fprintf(&b, "^%d", id)
				return
			}
			ids[p] = len(ids) + 1
			b.WriteByte('[')
			for i, e := range tv {
				if 0 < i {
					b.WriteByte(',')
				}
				walk(e)
			}
			b.WriteByte(']')
		case map[string]any:
			if tv == nil {
				b.WriteString("{}")
				return
			}
			p := reflect.ValueOf(tv).Pointer()
			if id, has := ids[p]; has {
				shared = true
				fmt.Fprintf(&b, "^%d", id)
				return
			}
			ids[p] = len(ids) + 1
			b.WriteByte('{')
			for i, k := range sortedKeys(tv) {
				if 0 < i {
					b.WriteByte(',')
				}
				b.WriteString(strconv.Quote(k))
				b.WriteByte(':')
				walk(tv[k])
			}
			b.WriteByte('}')
		default:
			dumpTo(&b, v, false)
		}
	}
	walk(v)
	return b.String(), shared
}

// ---------------------------------------------------------------- kinds

// kindOf names the kind of a value for signatures.
func kindOf(v any) string {
	switch tv := v.(type) {
	case nil:
		return "null"
	case bool:
		if tv {
			return "true"
		}
		return "false"
	case int64:
		if -(1<<53) <= tv && tv <= 1<<53 {
			return "int"
		}
		return "int>2^53"
	case int:
		return "int"
	case float64:
		return "float"
	case json.Number:
		n := toNum(tv)
		if n.ok && n.rat.IsInt() && !n.decText {
			if n.rat.Num().IsInt64() {
				i := n.rat.Num().Int64()
				if -(1<<53) <= i && i <= 1<<53 {
					return "int"
				}
				if i == math.MaxInt64 || i == math.MinInt64 {
					return "int64-limit"
				}
				return "int>2^53"
			}
			return "bigint"
		}
		return "float"
	case string:
		return stringKind(tv)
	case time.Time:
		return "time"
	case []any:
		if len(tv) == 0 {
			return "empty-array"
		}
		return "array"
	case map[string]any:
		if len(tv) == 0 {
			return "empty-object"
		}
		return "object"
	}
	return fmt.Sprintf("go:%T", v)
}

func stringKind(s string) string {
	switch {
	case s == "":
		return "string-empty"
	case s == "true" || s == "false" || s == "null":
		return "string-keywordlike"
	}
	if _, err := strconv.ParseFloat(s, 64); err == nil {
		return "string-numberlike"
	}
	if s[0] == '-' || s[0] == '+' || '0' <= s[0] && s[0] <= '9' {
		return "string-numberprefix"
	}
	esc, nonASCII, punct := false, false, false
	for _, r := range s {
		switch {
		case r < 0x20 || r == '"' || r == '\\' || r == 0x7f:
			esc = true
		case 0x7f < r:
			nonASCII = true
		case !unicode.IsLetter(r) && !unicode.IsDigit(r):
			punct = true
		}
	}
	switch {
	case esc:
		return "string-escape"
	case nonASCII:
		return "string-nonascii"
	case punct:
		return "string-punct"
	}
	return "string"
}

// classOf names what a value turned into.
func classOf(v any, present bool) string {
	if !present {
		return "absent"
	}
	switch tv := v.(type) {
	case nil:
		return "null"
	case bool:
		if tv {
			return "true"
		}
		return "false"
	case int64, int:
		return "int"
	case float64:
		return "float"
	case json.Number:
		return "number-text"
	case string:
		return "string"
	case time.Time:
		return "time"
	case []any:
		return "array"
	case map[string]any:
		return "object"
	}
	return fmt.Sprintf("go:%T", v)
}

// ---------------------------------------------------------------- diff

type mismatch struct {
	loc  string
	kind string // kind of the expected value
	got  string // class of what is there instead
	what string
}

// diffTrees compares want (the original) with got. Numbers are compared by
// value whatever their Go type; a number and a string are different; with
// modEmpty, null, [] and {} are the same thing.
func diffTrees(want, got any, modEmpty bool, loc string, out *[]mismatch) {
	add := func(present bool) {
		*out = append(*out, mismatch{loc: loc, kind: kindOf(want), got: classOf(got, present),
			what: fmt.Sprintf("at %s: had %s, now %s", loc, trunc(dump(want, false), 80), trunc(dump(got, false), 80))})
	}
	isEmpty := func(v any) bool {
		switch tv := v.(type) {
		case nil:
			return true
		case []any:
			return len(tv) == 0
		case map[string]any:
			return len(tv) == 0
		}
		return false
	}
	if modEmpty && isEmpty(want) && isEmpty(got) {
		return
	}
	switch tw := want.(type) {
	case nil:
		if got != nil {
			add(true)
		}
	case bool:
		if g, ok := got.(bool); !ok || g != tw {
			add(true)
		}
	case int64, int, float64, json.Number:
		if !isNumber(got) || !numEqual(want, got) {
			add(true)
		}
	case string:
		if g, ok := got.(string); !ok || g != tw {
			add(true)
		}
	case time.Time:
		if g, ok := got.(time.Time); !ok || !g.Equal(tw) {
			add(true)
		}
	case []any:
		g, ok := got.([]any)
		if !ok {
			add(true)
			return
		}
		if len(g) != len(tw) {
			*out = append(*out, mismatch{loc: loc, kind: kindOf(want), got: "array-of-other-length",
				what: fmt.Sprintf("at %s: had %s, now %s", loc, trunc(dump(want, false), 80), trunc(dump(got, false), 80))})
			return
		}
		for i := range tw {
			diffTrees(tw[i], g[i], modEmpty, fmt.Sprintf("%s[%d]", loc, i), out)
		}
	case map[string]any:
		g, ok := got.(map[string]any)
		if !ok {
			add(true)
			return
		}
		for _, k := range sortedKeys(tw) {
			gv, has := g[k]
			if !has {
				*out = append(*out, mismatch{loc: loc + "." + k, kind: "key:" + stringKind(k), got: "absent",
					what: fmt.Sprintf("at %s: member %q is gone", loc, k)})
				continue
			}
			diffTrees(tw[k], gv, modEmpty, loc+"."+k, out)
		}
		for _, k := range sortedKeys(g) {
			if _, has := tw[k]; !has {
				*out = append(*out, mismatch{loc: loc + "." + k, kind: "absent", got: "extra-member",
					what: fmt.Sprintf("at %s: member %q appeared", loc, k)})
			}
		}
	default:
		if !reflect.DeepEqual(want, got) {
			add(true)
		}
	}
}

func equalTrees(a, b any, modEmpty bool) bool {
	var ms []mismatch
	diffTrees(a, b, modEmpty, "$", &ms)
	return len(ms) == 0
}

func trunc(s string, n int) string {
	if len(s) <= n {
		return s
	}
	return s[:n] + "…"
}

// ---------------------------------------------------------------- text

// jsonText renders a model tree (json.Number numbers) as compact JSON.
func jsonText(v any) string {
	var b strings.Builder
	var w func(v any)
	w = func(v any) {
		switch tv := v.(type) {
		case nil:
			b.WriteString("null")
		case bool:
			b.WriteString(strconv.FormatBool(tv))
		case json.Number:
			b.WriteString(string(tv))
		case int64:
			b.WriteString(strconv.FormatInt(tv, 10))
		case float64:
			b.WriteString(strconv.FormatFloat(tv, 'g', -1, 64))
		case string:
			b.WriteString(jsonString(tv))
		case []any:
			b.WriteByte('[')
			for i, e := range tv {
				if 0 < i {
					b.WriteByte(',')
				}
				w(e)
			}
			b.WriteByte(']')
		case map[string]any:
			b.WriteByte('{')
			for i, k := range sortedKeys(tv) {
				if 0 < i {
					b.WriteByte(',')
				}
				b.WriteString(jsonString(k))
				b.WriteByte(':')
				w(tv[k])
			}
			b.WriteByte('}')
		}
	}
	w(v)
	return b.String()
}

func jsonString(s string) string {
	var b strings.Builder
	b.WriteByte('"')
	for _, r := range s {
		switch {
		case r == '"':
			b.WriteString(`\"`)
		case r == '\\':
			b.WriteString(`\\`)
		case r == '\n':
			b.WriteString(`\n`)
		case r == '\t':
			b.WriteString(`\t`)
		case r < 0x20:
			fmt.Fprintf(&b, `\u%04x`, r)
		default:
			b.WriteRune(r)
		}
	}
	b.WriteByte('"')
	return b.String()
}

// senText renders the model in SEN style: no commas, bare keys and bare
// strings where they are plain lower-case words (never true/false/null),
// everything else quoted exactly as in JSON.
func senText(v any) string {
	var b strings.Builder
	bare := func(s string) bool {
		if s == "" || s == "true" || s == "false" || s == "null" {
			return false
		}
		for _, r := range s {
			if !('a' <= r && r <= 'z') && r != 'é' {
				return false
			}
		}
		return true
	}
	str := func(s string) string {
		if bare(s) {
			return s
		}
		return jsonString(s)
	}
	var w func(v any)
	w = func(v any) {
		switch tv := v.(type) {
		case string:
			b.WriteString(str(tv))
		case []any:
			b.WriteByte('[')
			for i, e := range tv {
				if 0 < i {
					b.WriteByte(' ')
				}
				w(e)
			}
			b.WriteByte(']')
		case map[string]any:
			b.WriteByte('{')
			for i, k := range sortedKeys(tv) {
				if 0 < i {
					b.WriteByte(' ')
				}
				b.WriteString(str(k))
				b.WriteByte(':')
				w(tv[k])
			}
			b.WriteByte('}')
		default:
			b.WriteString(jsonText(v))
		}
	}
	w(v)
	return b.String()
}

// decodeJSON parses text with encoding/json (numbers kept as text).
func decodeJSON(text string) (any, error) {
	dec := json.NewDecoder(strings.NewReader(text))
	dec.UseNumber()
	var v any
	if err := dec.Decode(&v); err != nil {
		return nil, err
	}
	if dec.More() {
		return nil, fmt.Errorf("trailing data")
	}
	return v, nil
}

// ---------------------------------------------------------------- lisp -> tree

// lispToTree reads a native Lisp value back into a tree by a Go type switch
// (never through slip's own converters): a list whose every element is a
// dotted pair with a string/symbol car is an object, any other list an array.
func lispToTree(o slip.Object) any {
	switch tv := o.(type) {
	case nil:
		return nil
	case slip.Fixnum:
		return int64(tv)
	case slip.Octet:
		return int64(tv)
	case slip.DoubleFloat:
		return float64(tv)
	case slip.SingleFloat:
		return float64(tv)
	case *slip.Bignum:
		return json.Number((*big.Int)(tv).String())
	case slip.String:
		return string(tv)
	case slip.Symbol:
		if strings.EqualFold(string(tv), ":false") {
			return false
		}
		return "sym:" + string(tv)
	case slip.Time:
		return time.Time(tv)
	case slip.List:
		if len(tv) == 0 {
			return nil
		}
		isMap := true
		for _, e := range tv {
			pair, ok := e.(slip.List)
			if !ok || len(pair) != 2 {
				isMap = false
				break
			}
			if _, ok = pair[1].(slip.Tail); !ok {
				isMap = false
				break
			}
			if _, ok = pair[0].(slip.String); !ok {
				isMap = false
				break
			}
		}
		if isMap {
			m := map[string]any{}
			for _, e := range tv {
				pair := e.(slip.List)
				m[string(pair[0].(slip.String))] = lispToTree(pair[1].(slip.Tail).Value)
			}
			return m
		}
		out := make([]any, len(tv))
		for i, e := range tv {
			out[i] = lispToTree(e)
		}
		return out
	}
	if o == slip.True {
		return true
	}
	return fmt.Sprintf("<lisp %T>", o)
}
