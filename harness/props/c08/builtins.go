package c08

// builtins.go: family "builtin" - the model-free re-evaluation check of the reeval family carried from the special
// operators to EVERY exported built-in FUNCTION of every package. "Evaluated for the first or the hundredth time":
// a built-in that keeps something of one evaluation in its function object (the object of the call site), or a
// compiler that folds a call into a constant, gives results that depend on earlier evaluations of the same code.
//
// For each function F, each number of arguments the documented lambda list allows (required; +1 when there are
// optional or rest parameters; +2 with &rest) and each assignment of argument KINDS taken from the documented
// parameter types (a typed value table: fixnum / bignum / ratio / float / string / list / vector / symbol / character /
// function; an untyped parameter tries the kinds in turn) two argument tuples T1, T2 are built from fresh values, and
// the code is held in ONE function object in two ways:
//
//	params  (lambda (a b) (F a b))            called with T1, T2, T1
//	inline  (lambda () (F <T1 expressions>))   called three times
//
// Differential oracle, against fresh copies of the form evaluated once in a fresh scope (a tuple is judged only when
// two such fresh evaluations agree and give a value: random, gensym, the clock, fresh identities drop out):
//
//	(a) the n-th result prints (lisp.Show) like the fresh copy for the same arguments;
//	(b) the FIRST result, looked at again after the later calls, still prints the same;
//	(c) when result 1 is a list / vector / string, destructively changing its first element must not change result 2,
//	    result 3 or the result of a further call.
//
// In the inline holder the non-atomic arguments are made by constructor calls ((list 1 2 3), (vector ..), (copy-seq ..));
// each constructor expression is first checked on its own the same way - if IT does not make a fresh object per
// evaluation the case reports that (signature names the constructor) and stops, so that a compile-level defect does
// not show under the name of every function.

import (
	"fmt"
	"regexp"
	"sort"
	"strings"
	"sync"

	"github.com/ohler55/slip"

	"verif/engine"
	"verif/lisp"
)

var biKinds = []string{"fixnum", "bignum", "ratio", "float", "string", "list", "vector", "symbol", "character", "function", "alist"}

// three fresh values per kind (expressions: evaluated anew for every call)
var biValues = map[string][3]string{
	"fixnum":    {"3", "70", "80"},
	"bignum":    {"(expt 2 70)", "(expt 3 50)", "(- (expt 2 64))"},
	"ratio":     {"2/3", "5/7", "-7/2"},
	"float":     {"1.5", "2.25", "-0.5"},
	"string":    {`(copy-seq "abc")`, `(copy-seq "hello world")`, `(copy-seq "Zq")`},
	"list":      {"(list 1 2 3)", "(list 4 5)", "(list (list 1 2) (list 3))"},
	"vector":    {"(vector 1 2 3)", "(vector 4 5)", "(vector 9)"},
	"symbol":    {"'c8alpha", "'c8beta", "'car"},
	"character": {`#\a`, `#\B`, `#\7`},
	"function":  {"#'1+", "#'list", "#'identity"},
	"alist":     {"(list (cons 1 2) (cons 3 4))", "(list (cons 'c8alpha 1) (cons 'c8beta 2))", "(list (list 1 2) (list 3 4))"},
}

var biConstructed = map[string]bool{"string": true, "list": true, "vector": true, "alist": true}

// kinds tried for a parameter whose documented type says nothing
var biUntyped = []string{"fixnum", "list", "string", "symbol", "vector", "character", "float", "function", "bignum", "ratio", "alist"}

// biKindsForType maps a documented parameter type to the kinds to try.
func biKindsForType(typ string) []string {
	t := strings.ToLower(strings.TrimSpace(typ))
	has := func(words ...string) bool {
		for _, w := range words {
			if strings.Contains(t, w) {
				return true
			}
		}
		return false
	}
	switch {
	case t == "" || has("object", "any") || t == "t":
		return biUntyped
	case has("function", "lambda"):
		return []string{"function", "symbol"}
	case has("fixnum", "integer", "unsigned", "byte", "octet") && !has("octets"):
		return []string{"fixnum", "bignum"}
	case has("rational"):
		return []string{"fixnum", "ratio", "bignum"}
	case has("float"):
		return []string{"float", "fixnum"}
	case has("number", "real"):
		return []string{"fixnum", "bignum", "ratio", "float"}
	case has("string", "pathname", "filepath"):
		return []string{"string"}
	case has("sequence", "sequemce"):
		return []string{"list", "vector", "string"}
	case has("association", "alist"):
		return []string{"alist"}
	case has("list", "cons", "tree"):
		return []string{"list", "alist"}
	case has("vector", "array"):
		return []string{"vector"}
	case has("symbol", "name"):
		return []string{"symbol"}
	case has("character"):
		return []string{"character"}
	}
	return biUntyped
}

// functions that block, reach outside the process, or change the process for good (C09's and C04's exclusion lists,
// C14's mapdirect list); packages whose functions talk to the outside
var biDeny = map[string]string{
	"common-lisp:sleep": "sleeps", "gi:send-signal": "signals processes", "gi:signal-wait": "waits for a signal", "gi:run": "spawns",
	"gi:make-app": "builds an application", "test:benchmark": "runs for seconds", "common-lisp:read": "reads standard input",
	"common-lisp:read-line": "reads standard input", "common-lisp:read-char": "reads standard input", "common-lisp:y-or-n-p": "reads standard input",
	"common-lisp:yes-or-no-p": "reads standard input", "gi:setenv": "edits the environment", "gi:unsetenv": "edits the environment",
	"gi:clearenv": "edits the environment", "common-lisp:delete-package": "removes packages", "common-lisp:in-package": "changes the current package",
	"common-lisp:comma-at": "backquote marker", "common-lisp:comma": "backquote marker", "common-lisp:backquote": "backquote marker",
	"common-lisp:use-package": "edits packages", "common-lisp:unuse-package": "edits packages", "common-lisp:set": "assigns globals",
	"common-lisp:trace": "global tracing", "common-lisp:untrace": "global tracing", "common-lisp:delete-file": "deletes files",
	"common-lisp:rename-file": "renames files", "common-lisp:ensure-directories-exist": "creates directories", "common-lisp:open": "creates files",
	"common-lisp:load": "evaluates a file", "common-lisp:require": "loads plugins", "common-lisp:dribble": "redirects the standard streams",
	"gi:snapshot": "dumps the image", "gi:encrypt-file": "writes files", "gi:decrypt-file": "writes files", "gi:select": "blocks on channels",
	"gi:channel-pop": "blocks", "gi:channel-push": "blocks", "gi:range": "blocks", "gi:read-push": "starts a goroutine", "gi:time-ticker": "starts a goroutine",
	"gi:time-after": "starts a timer", "gi:lock-package": "locks a package", "gi:gc": "forces a garbage collection", "bag:load-bag": "reads a file",
	"common-lisp:fmakunbound": "removes functions", "common-lisp:makunbound": "removes variables", "common-lisp:unintern": "removes symbols",
	"common-lisp:unexport": "edits packages", "common-lisp:export": "edits packages", "common-lisp:import": "edits packages",
	"common-lisp:shadow": "edits packages", "common-lisp:rename-package": "edits packages", "common-lisp:make-package": "edits packages",
	"common-lisp:random": "random (two fresh evaluations agree by chance)", "common-lisp:make-random-state": "random", "common-lisp:gensym": "fresh names", "common-lisp:gentemp": "fresh names",
	"common-lisp:proclaim": "global declarations", "common-lisp:remprop": "edits property lists", "common-lisp:eval": "evaluates its argument again (checked by the quoted / mutdata families)",
}

var biDenyPkgs = map[string]bool{"swank": true, "net": true, "repl": true, "watch": true, "common-lisp-user": true, "keyword": true}

var biDangerous = regexp.MustCompile(`^(exit|quit|bye|halt|kill|shutdown|reboot|fork|exec|spawn|daemon|shell|system)($|-)`)

var biDestructiveDoc = regexp.MustCompile(`(?i)destructive`)

type biFunc struct {
	name   string // pkg:name
	arity  []int
	params []*slip.DocArg // positional parameters (required, optional), then the rest parameter repeated
}

var (
	biOnce sync.Once
	biList []biFunc
	biByID = map[string]*biFunc{}
)

func biFunctions() []biFunc {
	biOnce.Do(func() {
		for _, p := range slip.AllPackages() {
			if biDenyPkgs[p.Name] {
				continue
			}
			p := p
			p.EachFuncInfo(func(fi *slip.FuncInfo) {
				if fi.Pkg != p || !fi.Export || fi.Doc == nil {
					return
				}
				name := p.Name + ":" + fi.Name
				if biDeny[name] != "" || biDangerous.MatchString(fi.Name) || strings.ContainsAny(fi.Name, "|\"()';`, #") || biDestructiveDoc.MatchString(fi.Doc.Text) {
					return
				}
				if strings.HasPrefix(fi.Name, "c08-") || fi.Name == "tr" {
					return
				}
				macro := false
				func() {
					defer func() { _ = recover() }()
					if f, ok := fi.Create(nil).(interface{ SkipArgEval(i int) bool }); ok {
						for i := 0; i < 4; i++ {
							macro = macro || f.SkipArgEval(i)
						}
					}
				}()
				if macro {
					return
				}
				f := biFunc{name: name}
				req, opt, rest := 0, 0, false
				var restArg *slip.DocArg
				mode := "req"
				for _, a := range fi.Doc.Args {
					switch strings.ToLower(a.Name) {
					case slip.AmpOptional:
						mode = "opt"
						continue
					case slip.AmpRest, slip.AmpBody:
						mode = "rest"
						continue
					case slip.AmpKey, slip.AmpAux, slip.AmpAllowOtherKeys:
						mode = "key"
						continue
					}
					switch mode {
					case "req":
						req++
						f.params = append(f.params, a)
					case "opt":
						opt++
						f.params = append(f.params, a)
					case "rest":
						rest = true
						if restArg == nil {
							restArg = a
						}
					}
				}
				if 4 < req {
					return
				}
				f.arity = []int{req}
				if 0 < opt || rest {
					f.arity = append(f.arity, req+1)
				}
				if rest && req+opt < 2 {
					f.arity = append(f.arity, req+opt+2)
				}
				for len(f.params) < 4 {
					if restArg != nil {
						f.params = append(f.params, restArg)
					} else {
						f.params = append(f.params, &slip.DocArg{Name: "x", Type: "object"})
					}
				}
				biList = append(biList, f)
			})
		}
		sort.Slice(biList, func(i, j int) bool { return biList[i].name < biList[j].name })
		for i := range biList {
			biByID[biList[i].name] = &biList[i]
		}
	})
	return biList
}

var biHolders = []string{"params", "inline"}

// biAssignments: the kind assignments of n parameters, the product of the kinds of each parameter's documented type,
// capped (the cap is part of the bound: see biCap).
func biAssignments(f *biFunc, n, limit int) (out [][]string) {
	if n == 0 {
		return [][]string{{}}
	}
	choices := make([][]string, n)
	for i := 0; i < n; i++ {
		choices[i] = biKindsForType(f.params[i].Type)
	}
	// diagonal first (the same index into every parameter's kind list), then the full product
	seen := map[string]bool{}
	add := func(a []string) {
		k := strings.Join(a, ",")
		if !seen[k] && len(out) < limit {
			seen[k] = true
			out = append(out, append([]string(nil), a...))
		}
	}
	for d := 0; d < len(biUntyped); d++ {
		a := make([]string, n)
		for i := range a {
			a[i] = choices[i][d%len(choices[i])]
		}
		add(a)
	}
	idx := make([]int, n)
	for {
		a := make([]string, n)
		for i := range a {
			a[i] = choices[i][idx[i]]
		}
		add(a)
		i := n - 1
		for ; 0 <= i; i-- {
			idx[i]++
			if idx[i] < len(choices[i]) {
				break
			}
			idx[i] = 0
		}
		if i < 0 || limit <= len(out) {
			break
		}
	}
	return
}

func biCap(tier string) int {
	if tier == engine.Thorough {
		return 120
	}
	return 24
}

func enumBuiltins(tier string, emit func(string)) {
	for _, f := range biFunctions() {
		f := f
		for _, n := range f.arity {
			if 4 < n {
				continue
			}
			for _, a := range biAssignments(&f, n, biCap(tier)) {
				for _, h := range biHolders {
					if h == "inline" && n == 0 {
						continue // the same as params
					}
					emit("builtin|" + f.name + "|" + h + "|" + strings.Join(a, ","))
				}
			}
		}
	}
}

func biBound(tier string) string {
	fns, combos := 0, 0
	for _, f := range biFunctions() {
		f := f
		fns++
		for _, n := range f.arity {
			if n <= 4 {
				combos += len(biAssignments(&f, n, biCap(tier)))
			}
		}
	}
	return fmt.Sprintf("%d exported functions (every package except %d that talk to the outside; %d blocking / process-changing functions and the ones documented destructive excluded) x the argument counts of the documented lambda list x "+
		"<= %d kind assignments per count from the documented parameter types = %d function x tuple shapes, each with two tuples T1, T2, held as (lambda (a b) (F a b)) called with T1,T2,T1 and as (lambda () (F T1)) called three times",
		fns, len(biDenyPkgs), len(biDeny), biCap(tier), combos)
}

const biSink = "(let ((*standard-output* (make-string-output-stream)) (*error-output* (make-string-output-stream))) "

func execBuiltin(spec string) (res engine.Result) {
	parts := strings.Split(spec, "|")
	if len(parts) != 4 {
		res.Fail("harness:bad-spec", spec)
		return
	}
	biFunctions()
	fn, holder := parts[1], parts[2]
	if biByID[fn] == nil {
		res.Fail("harness:bad-spec", spec+": unknown function")
		return
	}
	var kinds []string
	if parts[3] != "" {
		kinds = strings.Split(parts[3], ",")
	}
	for _, k := range kinds {
		if _, ok := biValues[k]; !ok {
			res.Fail("harness:bad-spec", spec+": unknown kind "+k)
			return
		}
	}
	tuple := func(i int) []string {
		out := make([]string, len(kinds))
		for j, k := range kinds {
			out[j] = biValues[k][(i+j)%3]
		}
		return out
	}
	// the three rotations of the value table; T1 and T2 are the first two that the function accepts (below)
	var t2 []string
	var w2 string
	form := func(args []string) string { return "(" + fn + strings.Join(append([]string{""}, args...), " ") + ")" }
	showOf := func(obj slip.Object) string { return lisp.Show(primary(obj)) }
	// fresh copies: evaluated twice, each in a fresh scope; judged only when both give the same value
	fresh := func(args []string) (string, bool) {
		var got [3]string
		for i := range got {
			obj, err := lisp.Eval(biSink + form(args) + ")")
			if err != nil {
				return "", false
			}
			got[i] = showOf(obj)
		}
		return got[0], got[0] == got[1] && got[1] == got[2] && !strings.Contains(got[0], "#<")
	}
	var accepted [][]string
	var acceptedShow []string
	for r := 0; r < 3 && len(accepted) < 2; r++ {
		if len(kinds) == 0 && 0 < r {
			break
		}
		if w, ok := fresh(tuple(r)); ok {
			accepted = append(accepted, tuple(r))
			acceptedShow = append(acceptedShow, w)
		}
	}
	if len(accepted) == 0 {
		res.Hit("builtin-tuple-not-accepted-or-not-deterministic")
		res.Outcome = "not judged"
		return
	}
	t1, w1 := accepted[0], acceptedShow[0]
	t2, w2 = t1, w1
	if 1 < len(accepted) && holder != "inline" {
		t2, w2 = accepted[1], acceptedShow[1]
		res.Hit("builtin-two-different-tuples")
	}
	prefix := uniqPrefix(spec)
	uniq := func(s string) string { return strings.ReplaceAll(s, "@", prefix) }
	scope := slip.NewScope()
	sig := func(name, kind string) string { return fmt.Sprintf("builtin fn=%s holder=%s kind=%s", name, holder, kind) }
	run := func(src string) (slip.Object, *lisp.Err) { return lisp.EvalIn(scope, uniq(src)) }
	show := func(v string) string {
		obj, err := run(v)
		if err != nil {
			return "error " + err.Class
		}
		return showOf(obj)
	}
	// the destructive change of result 1 (check c)
	modify := func(v, shown string) string {
		switch {
		case strings.HasPrefix(shown, "(") && shown != "()":
			return "(setf (car " + v + ") 'c8changed)"
		case strings.HasPrefix(shown, "#(") && shown != "#()":
			return "(setf (aref " + v + " 0) 'c8changed)"
		case strings.HasPrefix(shown, `"`) && shown != `""`:
			return "(setf (char " + v + ` 0) #\~)`
		}
		return ""
	}
	if holder == "inline" {
		// the constructor expressions on their own
		for j, k := range kinds {
			if !biConstructed[k] {
				continue
			}
			if _, err := run("(setq @c (lambda () " + t1[j] + "))"); err != nil {
				res.Fail("harness:constructor", spec+": "+err.String())
				return
			}
			_, e1 := run("(setq @c1 (funcall @c))")
			_, e2 := run("(setq @c2 (funcall @c))")
			if e1 != nil || e2 != nil {
				res.Fail("harness:constructor", spec+": "+t1[j])
				return
			}
			before := show("@c2")
			if m := modify("@c1", show("@c1")); m != "" {
				if _, err := run(m); err == nil && show("@c2") != before {
					ctor := t1[j][1:strings.IndexByte(t1[j], ' ')]
					res.Fail(sig("common-lisp:"+ctor, "argument-constructor-gives-the-same-object-again"),
						fmt.Sprintf("%s: (lambda () %s) called twice: after %s on result 1, result 2 reads %s (was %s)", spec, t1[j], m, show("@c2"), before))
					return
				}
			}
		}
	}
	var def string
	var calls [4]string
	if holder == "inline" {
		def = "(setq @f (lambda () " + form(t1) + "))"
		for i := range calls {
			calls[i] = "(funcall @f)"
		}
	} else {
		ps := []string{"a", "b", "c", "d"}[:len(kinds)]
		def = "(setq @f (lambda (" + strings.Join(ps, " ") + ") " + form(ps) + "))"
		sp := func(t []string) string { return strings.Join(append([]string{""}, t...), " ") }
		calls = [4]string{"(funcall @f" + sp(t1) + ")", "(funcall @f" + sp(t2) + ")", "(funcall @f" + sp(t1) + ")", "(funcall @f" + sp(t1) + ")"}
	}
	if _, err := run(def); err != nil {
		res.Fail(sig(fn, "holder-error"), spec+": "+def+" => "+err.String())
		return
	}
	want := [4]string{w1, w2, w1, w1}
	var got [3]string
	detail := func(what string) string {
		return fmt.Sprintf("%s: %s; calls %s ; %s ; %s: %s", spec, def, calls[0], calls[1], calls[2], what)
	}
	for i := 0; i < 3; i++ {
		obj, err := run(biSink + "(setq " + fmt.Sprintf("@r%d ", i+1) + calls[i] + "))")
		switch {
		case err != nil && err.GoFault:
			res.Fail(sig(fn, "go-fault"), detail(fmt.Sprintf("call #%d => %s", i+1, err.String())))
			return
		case err != nil:
			res.Fail(sig(fn, "error-where-a-fresh-copy-gives-a-value"), detail(fmt.Sprintf("call #%d => %s; a fresh copy of the form gives %s", i+1, err.String(), want[i])))
			return
		}
		got[i] = showOf(obj)
		if got[i] != want[i] {
			kind := "differs-from-fresh-copy"
			if 0 < i && got[i] == got[i-1] && want[i] != want[i-1] {
				kind = "keeps-the-previous-result"
			}
			res.Fail(sig(fn, kind), detail(fmt.Sprintf("call #%d => %s; a fresh copy of the form, evaluated once with the same arguments, gives %s", i+1, got[i], want[i])))
			return
		}
		// (b) every earlier result, looked at again after this call
		for j := 0; j < i; j++ {
			if again := show(fmt.Sprintf("(progn @r%d)", j+1)); again != want[j] {
				res.Fail(sig(fn, "held-result-changed-by-a-later-call"), detail(fmt.Sprintf("result %d was %s; looked at again after call #%d it reads %s", j+1, want[j], i+1, again)))
				return
			}
		}
	}
	res.Outcome = strings.Join(got[:], " ; ")
	res.Nontrivial = true
	res.Hit("builtin-cases")
	res.Hit("builtin-holder-" + holder)
	if strings.HasPrefix(want[0], "B") || strings.HasPrefix(want[0], "R") || strings.HasPrefix(want[0], "(") || strings.HasPrefix(want[0], "#(") || strings.HasPrefix(want[0], `"`) {
		res.Hit("builtin-result-held-by-reference")
	}
	// (c) destructive change of result 1
	m := modify("@r1", want[0])
	if m == "" {
		return
	}
	if _, err := run(m); err != nil {
		return // result 1 cannot be changed that way (e.g. a dotted pair): nothing to compare
	}
	res.Hit("builtin-result-1-modified")
	for i := 1; i < 3; i++ {
		if after := show(fmt.Sprintf("(progn @r%d)", i+1)); after != want[i] {
			res.Fail(sig(fn, "changing-result-1-changes-a-later-result"), detail(fmt.Sprintf("after %s result %d reads %s (was %s)", m, i+1, after, want[i])))
			return
		}
	}
	if obj, err := run(biSink + calls[3] + ")"); err == nil {
		if after := showOf(obj); after != want[3] {
			res.Fail(sig(fn, "changing-result-1-changes-the-next-call"), detail(fmt.Sprintf("after %s a further call gives %s; a fresh copy of the form gives %s", m, after, want[3])))
		}
	}
	return
}
