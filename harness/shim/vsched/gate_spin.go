//go:build verif && race

package vsched

import (
	"runtime"
	"time"
)

// gate (race build): a counting hand-off cell that is a PLAIN word, read and written only in
// //go:norace functions, waited for by spinning with runtime.Gosched() under GOMAXPROCS(1).
// It creates no happens-before edge the race detector can see, so the detector's vector clocks
// contain exactly the program's own synchronisation (the real mutex and channel operations) and
// it reports unsynchronised conflicting accesses on every explored schedule even though the
// threads are in fact strictly serialised.
type gate struct{ n int }

//go:norace
func newGate() *gate { return &gate{} }

//go:norace
func (g *gate) signal() { g.n++ }

//go:norace
func (g *gate) wait(d time.Duration) bool {
	var start time.Time
	for i := 0; g.n <= 0; i++ {
		runtime.Gosched()
		if 0 < d && i&0xfff == 0xfff {
			if start.IsZero() {
				start = time.Now()
			} else if d < time.Since(start) {
				return false
			}
		}
	}
	g.n--
	return true
}

// RaceBuild reports whether this is the race-detector variant.
const RaceBuild = true
