//go:build verif

// Package c17: channels, mutexes and synchronised objects under concurrency,
// decided by exhaustive exploration of the thread schedules of small closed
// Lisp programs running on the REAL interpreter goroutines under the
// cooperative scheduler vsched (all schedules up to a preemption bound).
package c17

import (
	"fmt"
	"os"
	"runtime"
	"sort"
	"strconv"
	"strings"
	"sync"

	"github.com/ohler55/slip"
	"github.com/ohler55/slip/pkg/gi"
	"github.com/ohler55/slip/vsched"
	syncshim "github.com/ohler55/slip/vsync"

	"verif/engine"
	"verif/engine/sched"
	"verif/lisp"
)

// scenario is one closed concurrent Lisp program plus its oracles.
type scenario struct {
	name  string
	group string // a channels | b mutex | c synchronized | d interpreter tables | e negative control
	src   string
	yield bool // Lisp-level scheduling points at every call boundary
	// check applies the scenario-specific invariants to one execution.
	check func(o *obs) []string
	// canon reduces the observation to what must equal some serial execution.
	canon func(o *obs) string
	// negative: the scenario is intentionally broken; some schedule MUST fail check.
	negative   bool
	raceQuick0 bool // quick tier: the race pass runs the non-preemptive schedules only (4-thread scenarios: 1 preemption costs minutes at race-build speed)
	// bounds[tier]: preemption bound (-1 = unbounded)
	quick, thorough int
	raceThorough    int // thorough tier: cap of the race pass's preemption bound (0 = the default 2)
	// shards, shardsThorough: cases the schedule tree is dealt to in the quick / thorough tier (0 = 16). A case costs a
	// process (a second of start-up in the race build): small scenarios use 1-4.
	shards, shardsThorough int
}

func (sc *scenario) nShards(tier string) int {
	n := sc.shards
	if tier == engine.Thorough {
		n = sc.shardsThorough
	}
	if 0 < n {
		return n
	}
	return nShards
}

// raceBound: the race pass runs every schedule with <= 1 (quick) / <= 2 (thorough) preemptions, never more than the
// scenario's own bound.
func (sc *scenario) raceBound(tier string) int {
	b := 1
	if tier == engine.Thorough {
		b = 2
		if 0 < sc.raceThorough {
			b = sc.raceThorough
		}
	}
	if 0 <= bound(sc, tier) && bound(sc, tier) < b {
		b = bound(sc, tier)
	}
	if sc.raceQuick0 && tier != engine.Thorough {
		b = 0
	}
	return b
}

type obs struct {
	val   string
	err   *lisp.Err
	trace []string
	env   *env
	x     *sched.Execution
}

// gfCounter gives every execution its own generic function (slip keeps functions in process-global tables).
var gfCounter int

// freshNames: "@X" in a scenario source becomes the name c17-x<N>, N unique per execution in this process: generic
// functions @G, functions @F @H, packages @P @Q, classes @C @K, flavors @L, structure types @T, global variables @V @W,
// symbol names @S.
var freshNames = []string{"G", "F", "H", "P", "Q", "C", "K", "L", "T", "V", "W", "S"}

// cleanupForms are evaluated (outside the scheduler) before the next execution of this process starts.
var cleanupForms []string

type env struct {
	src   string
	scope *slip.Scope
	val   slip.Object
	err   *lisp.Err
}

// ---------------------------------------------------------------- scenario table

func multisetFIFO(expectItems []string, producers map[string][]string) func(o *obs) []string {
	return func(o *obs) []string {
		var bad []string
		if o.err != nil {
			return []string{"error: " + o.err.String()}
		}
		got := strings.Fields(strings.Trim(o.val, "()"))
		if o.val == "nil" {
			got = nil
		}
		g := append([]string{}, got...)
		e := append([]string{}, expectItems...)
		sort.Strings(g)
		sort.Strings(e)
		if strings.Join(g, " ") != strings.Join(e, " ") {
			bad = append(bad, fmt.Sprintf("exactly-once: received %v, pushed %v", got, expectItems))
		}
		for p, seq := range producers {
			idx := 0
			for _, item := range got {
				for j, s := range seq {
					if s == item {
						if j < idx {
							bad = append(bad, fmt.Sprintf("per-producer-fifo: producer %s item %s received after a later one: %v", p, item, got))
						}
						idx = j
					}
				}
			}
		}
		return bad
	}
}

func sortedVal(o *obs) string {
	if o.err != nil {
		return "error:" + o.err.Class
	}
	f := strings.Fields(strings.Trim(o.val, "()"))
	sort.Strings(f)
	return strings.Join(f, " ")
}

func rawVal(o *obs) string {
	if o.err != nil {
		return "error:" + o.err.Class
	}
	return o.val
}

// critical sections must not interleave: the trace is a sequence of enter-i ... leave-i blocks.
func noOverlap(o *obs) []string {
	var bad []string
	in := ""
	for _, t := range o.trace {
		switch {
		case strings.HasPrefix(t, "enter-"):
			if in != "" {
				bad = append(bad, fmt.Sprintf("mutual-exclusion: %s while %s is inside: %v", t, in, o.trace))
			}
			in = strings.TrimPrefix(t, "enter-")
		case strings.HasPrefix(t, "leave-"):
			if in != strings.TrimPrefix(t, "leave-") {
				bad = append(bad, fmt.Sprintf("mutual-exclusion: %s but inside is %q: %v", t, in, o.trace))
			}
			in = ""
		case strings.HasPrefix(t, "mid-"):
			if in != strings.TrimPrefix(t, "mid-") {
				bad = append(bad, fmt.Sprintf("mutual-exclusion: %s but inside is %q: %v", t, in, o.trace))
			}
		}
	}
	return bad
}

func mutexFree(o *obs) []string {
	m, ok := o.env.scope.Get(slip.Symbol("the-mutex")).(*gi.Mutex)
	if !ok {
		return []string{"harness: the-mutex not bound"}
	}
	if !(*syncshim.Mutex)(m).TryLock() {
		return []string{"mutex-held-after: the mutex is still locked after every routine finished"}
	}
	(*syncshim.Mutex)(m).Unlock()
	return nil
}

func expectVal(want string) func(o *obs) []string {
	return func(o *obs) []string {
		if o.err != nil {
			return []string{"error: " + o.err.String()}
		}
		if o.val != want {
			return []string{fmt.Sprintf("final-value: got %s, expected %s (trace %v)", o.val, want, o.trace)}
		}
		return nil
	}
}

func all(fs ...func(o *obs) []string) func(o *obs) []string {
	return func(o *obs) []string {
		var bad []string
		for _, f := range fs {
			bad = append(bad, f(o)...)
		}
		return bad
	}
}

var scenarios = []*scenario{
	// ---- (a) channels
	{name: "a1-buffered1-close-range", group: "a", quick: 4, thorough: 7,
		src: `(let ((c (make-channel 1)) (out nil))
  (run (progn (channel-push c 'p1) (channel-push c 'p2) (channel-push c 'p3) (channel-close c)))
  (range (lambda (x) (setq out (add out x))) c)
  out)`,
		check: all(expectVal("(p1 p2 p3)")), canon: rawVal},
	{name: "a2-two-producers-cap2", group: "a", quick: 2, thorough: 4,
		src: `(let ((c (make-channel 2)) (out nil))
  (run (progn (channel-push c 'a1) (channel-push c 'a2)))
  (run (progn (channel-push c 'b1) (channel-push c 'b2)))
  (dotimes (i 4) (setq out (add out (channel-pop c))))
  out)`,
		check: multisetFIFO([]string{"a1", "a2", "b1", "b2"}, map[string][]string{"a": {"a1", "a2"}, "b": {"b1", "b2"}}), canon: sortedVal},
	{name: "a3-unbuffered-two-producers", group: "a", quick: 3, thorough: 5,
		src: `(let ((c (make-channel 0)) (out nil))
  (run (progn (channel-push c 'a1) (channel-push c 'a2)))
  (run (channel-push c 'b1))
  (dotimes (i 3) (setq out (add out (channel-pop c))))
  out)`,
		check: multisetFIFO([]string{"a1", "a2", "b1"}, map[string][]string{"a": {"a1", "a2"}}), canon: sortedVal},
	{name: "a4-two-consumers", group: "a", quick: 2, thorough: 3,
		src: `(let ((c (make-channel 1)) (r (make-channel 4)) (out nil))
  (run (dotimes (i 2) (channel-push r (channel-pop c))))
  (run (dotimes (i 2) (channel-push r (channel-pop c))))
  (channel-push c 'p1) (channel-push c 'p2) (channel-push c 'p3) (channel-push c 'p4)
  (dotimes (i 4) (setq out (add out (channel-pop r))))
  out)`,
		check: multisetFIFO([]string{"p1", "p2", "p3", "p4"}, nil), canon: sortedVal},
	{name: "a5-unbuffered-close-range-two-consumers", group: "a", quick: 2, thorough: 3,
		src: `(let ((c (make-channel 0)) (r (make-channel 4)) (d (make-channel 2)) (out nil))
  (run (progn (range (lambda (x) (channel-push r x)) c) (channel-push d t)))
  (run (progn (range (lambda (x) (channel-push r x)) c) (channel-push d t)))
  (channel-push c 'p1) (channel-push c 'p2) (channel-push c 'p3)
  (channel-close c)
  (channel-pop d) (channel-pop d)
  (dotimes (i 3) (setq out (add out (channel-pop r))))
  out)`,
		check: multisetFIFO([]string{"p1", "p2", "p3"}, nil), canon: sortedVal},
	// select: the explorer decides which ready clause fires (vsched.Select); two consumers evaluate ONE select form
	// (the body of a shared function), and one consumer selects over an unbuffered and a buffered channel
	{name: "a8-select-form-shared-by-two-consumers", group: "a", yield: true, quick: 2, thorough: 4,
		src: `(let* ((c (make-channel 1)) (r (make-channel 4)) (out nil)
       (worker (lambda () (select (c x (channel-push r x))))))
  (channel-push c 'p0) (funcall worker) (channel-pop r) ; warm-up: from here on the compiled select form is shared
  (run (funcall worker))
  (run (funcall worker))
  (channel-push c 'p1) (channel-push c 'p2)
  (setq out (add out (channel-pop r)))
  (setq out (add out (channel-pop r)))
  out)`,
		check: multisetFIFO([]string{"p1", "p2"}, nil), canon: sortedVal},
	{name: "a9-select-over-unbuffered-and-buffered", group: "a", quick: 2, thorough: 3,
		src: `(let ((c1 (make-channel 0)) (c2 (make-channel 1)) (out nil))
  (run (progn (channel-push c1 'a1) (channel-push c1 'a2)))
  (run (progn (channel-push c2 'b1) (channel-push c2 'b2)))
  (dotimes (i 4) (select (c1 x (setq out (add out x))) (c2 y (setq out (add out y)))))
  out)`,
		check: multisetFIFO([]string{"a1", "a2", "b1", "b2"}, map[string][]string{"a": {"a1", "a2"}, "b": {"b1", "b2"}}), canon: sortedVal},
	// ---- (b) mutex
	{name: "b1-mutex-counter-2", group: "b", yield: true, quick: 3, thorough: 5,
		src: `(let ((n 0) (d (make-channel 2)))
  (run (progn (with-mutex-lock the-mutex (tr 'enter-1) (let ((v n)) (tr 'mid-1) (setq n (+ v 1))) (tr 'leave-1)) (channel-push d t)))
  (with-mutex-lock the-mutex (tr 'enter-0) (let ((v n)) (tr 'mid-0) (setq n (+ v 1))) (tr 'leave-0))
  (channel-pop d)
  n)`,
		check: all(expectVal("2"), noOverlap, mutexFree), canon: rawVal},
	{name: "b2-mutex-counter-3", group: "b", yield: true, quick: 2, thorough: 3,
		src: `(let ((n 0) (d (make-channel 2)))
  (run (progn (with-mutex-lock the-mutex (tr 'enter-1) (let ((v n)) (tr 'mid-1) (setq n (+ v 1))) (tr 'leave-1)) (channel-push d t)))
  (run (progn (with-mutex-lock the-mutex (tr 'enter-2) (let ((v n)) (tr 'mid-2) (setq n (+ v 1))) (tr 'leave-2)) (channel-push d t)))
  (with-mutex-lock the-mutex (tr 'enter-0) (let ((v n)) (tr 'mid-0) (setq n (+ v 1))) (tr 'leave-0))
  (channel-pop d) (channel-pop d)
  n)`,
		check: all(expectVal("3"), noOverlap, mutexFree), canon: rawVal},
	{name: "b3-mutex-return-from", group: "b", yield: true, quick: 3, thorough: 5,
		src: `(let ((n 0) (d (make-channel 2)))
  (run (progn (block b (with-mutex-lock the-mutex (tr 'enter-1) (setq n (+ n 1)) (tr 'leave-1) (return-from b nil))) (channel-push d t)))
  (block c (with-mutex-lock the-mutex (tr 'enter-0) (setq n (+ n 1)) (tr 'leave-0) (return-from c nil)))
  (channel-pop d)
  n)`,
		check: all(expectVal("2"), noOverlap, mutexFree), canon: rawVal},
	{name: "b4-mutex-error-inside", group: "b", yield: true, quick: 3, thorough: 5,
		src: `(let ((n 0) (d (make-channel 2)))
  (run (progn (ignore-errors (with-mutex-lock the-mutex (tr 'enter-1) (setq n (+ n 1)) (tr 'leave-1) (error "boom"))) (channel-push d t)))
  (ignore-errors (with-mutex-lock the-mutex (tr 'enter-0) (setq n (+ n 1)) (tr 'leave-0) (/ 1 0)))
  (channel-pop d)
  n)`,
		check: all(expectVal("2"), noOverlap, mutexFree), canon: rawVal},
	// the lock belongs to the routine that took it, not to the code or the scope: routines STARTED inside a
	// with-mutex-lock body, and a closure MADE there and called from routines later, must still exclude each other
	{name: "b5-routines-started-under-the-lock", group: "b", yield: true, quick: 2, thorough: 3,
		src: `(let ((n 0) (d (make-channel 2)))
  (with-mutex-lock the-mutex
    (run (progn (with-mutex-lock the-mutex (tr 'enter-1) (let ((v n)) (tr 'mid-1) (setq n (+ v 1))) (tr 'leave-1)) (channel-push d t)))
    (run (progn (with-mutex-lock the-mutex (tr 'enter-2) (let ((v n)) (tr 'mid-2) (setq n (+ v 1))) (tr 'leave-2)) (channel-push d t)))
    (tr 'enter-0) (let ((v n)) (tr 'mid-0) (setq n (+ v 1))) (tr 'leave-0))
  (channel-pop d) (channel-pop d)
  n)`,
		check: all(expectVal("3"), noOverlap, mutexFree), canon: rawVal},
	{name: "b6-closure-made-under-the-lock", group: "b", yield: true, quick: 2, thorough: 3,
		src: `(let ((n 0) (d (make-channel 2)) (bump nil))
  (with-mutex-lock the-mutex
    (setq bump (lambda (en mi le) (with-mutex-lock the-mutex (tr en) (let ((v n)) (tr mi) (setq n (+ v 1))) (tr le)))))
  (run (progn (funcall bump 'enter-1 'mid-1 'leave-1) (channel-push d t)))
  (run (progn (funcall bump 'enter-2 'mid-2 'leave-2) (channel-push d t)))
  (funcall bump 'enter-0 'mid-0 'leave-0)
  (channel-pop d) (channel-pop d)
  n)`,
		check: all(expectVal("3"), noOverlap, mutexFree), canon: rawVal},
	{name: "b7-compiled-critical-section-shared-by-routines", group: "b", yield: true, quick: 2, thorough: 3,
		// as b6, but the closure was called once before the routines start: every form of its body is compiled by then
		// and the SAME function objects (with-mutex-lock, let, setq) are evaluated by both routines
		src: `(let ((n 0) (d (make-channel 2))
      (bump nil))
  (setq bump (lambda (en mi le) (with-mutex-lock the-mutex (tr en) (let ((v n)) (tr mi) (setq n (+ v 1))) (tr le))))
  (funcall bump 'enter-w 'mid-w 'leave-w)
  (run (progn (funcall bump 'enter-1 'mid-1 'leave-1) (channel-push d t)))
  (run (progn (funcall bump 'enter-2 'mid-2 'leave-2) (channel-push d t)))
  (channel-pop d) (channel-pop d)
  n)`,
		check: all(expectVal("3"), noOverlap, mutexFree), canon: rawVal},
	{name: "a10-compiled-pop-push-worker-shared-by-two-consumers", group: "a", yield: true, quick: 2, thorough: 3,
		// the worker was called once before the routines start (see b7): channel-pop / channel-push / let of the shared
		// compiled body are evaluated by both consumers
		src: `(let* ((c (make-channel 1)) (r (make-channel 4)) (out nil)
       (worker (lambda () (let ((x (channel-pop c))) (channel-push r x)))))
  (channel-push c 'p0) (funcall worker) (channel-pop r)
  (run (funcall worker))
  (run (funcall worker))
  (channel-push c 'p1) (channel-push c 'p2)
  (setq out (add out (channel-pop r)))
  (setq out (add out (channel-pop r)))
  out)`,
		check: multisetFIFO([]string{"p1", "p2"}, nil), canon: sortedVal},
	{name: "a6-two-producers-consumer-thread", group: "a", raceQuick0: true, quick: 1, thorough: 1,
		src: `(let ((c (make-channel 1)) (r (make-channel 4)) (out nil))
  (run (progn (channel-push c 'a1) (channel-push c 'a2)))
  (run (progn (channel-push c 'b1) (channel-push c 'b2)))
  (run (dotimes (i 4) (channel-push r (channel-pop c))))
  (dotimes (i 4) (setq out (add out (channel-pop r))))
  out)`,
		check: multisetFIFO([]string{"a1", "a2", "b1", "b2"}, map[string][]string{"a": {"a1", "a2"}, "b": {"b1", "b2"}}), canon: sortedVal},
	{name: "a7-buffered-close-range-two-consumers", group: "a", quick: 2, thorough: 3,
		src: `(let ((c (make-channel 2)) (r (make-channel 8)) (d (make-channel 2)) (out nil))
  (run (progn (range (lambda (x) (channel-push r x)) c) (channel-push d t)))
  (run (progn (range (lambda (x) (channel-push r x)) c) (channel-push d t)))
  (channel-push c 'p1) (channel-push c 'p2) (channel-push c 'p3)
  (channel-close c)
  (channel-pop d) (channel-pop d)
  (channel-close r)
  (range (lambda (x) (setq out (add out x))) r)
  out)`,
		check: multisetFIFO([]string{"p1", "p2", "p3"}, nil), canon: sortedVal},
	// ---- (c) synchronised objects / hash of counters
	{name: "c1-hash-of-counters", group: "c", yield: true, quick: 3, thorough: 4,
		src: `(let ((h (make-hash-table)) (d (make-channel 2)))
  (setf (gethash 'k h) 0)
  (run (progn (dotimes (i 2) (with-mutex-lock the-mutex (setf (gethash 'k h) (+ (gethash 'k h) 1)))) (channel-push d t)))
  (dotimes (i 2) (with-mutex-lock the-mutex (setf (gethash 'k h) (+ (gethash 'k h) 1))))
  (channel-pop d)
  (+ 0 (gethash 'k h)))`,
		check: all(expectVal("4"), mutexFree), canon: rawVal},
	{name: "c2-synchronized-instance", group: "c", yield: true, quick: 3, thorough: 4,
		src: `(progn
  (defclass c17-box () ((a :initform 0 :accessor box-a) (b :initform 0 :accessor box-b)))
  (let ((inst (make-instance 'c17-box)) (d (make-channel 2)))
    (set-synchronized inst t)
    (run (progn (setf (slot-value inst 'a) 1) (with-mutex-lock the-mutex (setf (slot-value inst 'b) (+ (slot-value inst 'b) 1))) (channel-push d t)))
    (with-mutex-lock the-mutex (setf (slot-value inst 'b) (+ (slot-value inst 'b) 1)))
    (channel-pop d)
    (list (slot-value inst 'a) (slot-value inst 'b))))`,
		check: all(expectVal("(1 2)"), mutexFree), canon: rawVal},
	{name: "c3-synchronized-flavor-instance", group: "c", yield: true, quick: 3, thorough: 4,
		src: `(progn
  (defflavor c17-cell ((x 0) (y 0)) () :gettable-instance-variables :settable-instance-variables)
  (let ((inst (make-instance 'c17-cell)) (d (make-channel 2)))
    (set-synchronized inst t)
    (run (progn (send inst :set-x 1) (with-mutex-lock the-mutex (send inst :set-y (+ (send inst :y) 1))) (channel-push d t)))
    (with-mutex-lock the-mutex (send inst :set-y (+ (send inst :y) 1)))
    (channel-pop d)
    (list (send inst :x) (send inst :y))))`,
		check: all(expectVal("(1 2)"), mutexFree), canon: rawVal},
	// (set-synchronized inst t) evaluated AGAIN, by both routines, while the other one uses the already synchronized
	// instance: slot a is written by the routine only, slot b by both under the-mutex. Every serial execution gives
	// (t 1 2); the instance must keep ONE mutex (a second one makes Lock and Unlock of one slot access hit different
	// mutexes: fatal "unlock of unlocked mutex", or two holders at once).
	{name: "c4-set-synchronized-again-defclass-instance", group: "c", yield: true, quick: 3, thorough: 4,
		src: `(progn
  (defclass @C () ((a :initform 0) (b :initform 0)))
  (let ((inst (make-instance '@C)) (d (make-channel 2)))
    (set-synchronized inst t)
    (run (progn (set-synchronized inst t) (setf (slot-value inst 'a) 1)
                (with-mutex-lock the-mutex (setf (slot-value inst 'b) (+ (slot-value inst 'b) 1)))
                (channel-push d t)))
    (with-mutex-lock the-mutex (setf (slot-value inst 'b) (+ (slot-value inst 'b) 1)))
    (set-synchronized inst t)
    (channel-pop d)
    (list (synchronizedp inst) (slot-value inst 'a) (slot-value inst 'b))))`,
		check: all(expectVal("(t 1 2)"), mutexFree), canon: rawVal},
	{name: "c5-set-synchronized-again-flavor-instance", group: "c", yield: true, quick: 3, thorough: 4,
		src: `(progn
  (defflavor @L ((x 0) (y 0)) () :gettable-instance-variables :settable-instance-variables)
  (let ((inst (make-instance '@L)) (d (make-channel 2)))
    (set-synchronized inst t)
    (run (progn (set-synchronized inst t) (send inst :set-x 1)
                (with-mutex-lock the-mutex (send inst :set-y (+ (send inst :y) 1)))
                (channel-push d t)))
    (with-mutex-lock the-mutex (send inst :set-y (+ (send inst :y) 1)))
    (set-synchronized inst t)
    (channel-pop d)
    (list (synchronizedp inst) (send inst :x) (send inst :y))))`,
		check: all(expectVal("(t 1 2)"), mutexFree), canon: rawVal},
	{name: "c6-set-synchronized-again-structure-object", group: "c", yield: true, quick: 3, thorough: 4,
		src: `(progn
  (defstruct @T (a 0) (b 0))
  (let ((inst (make-@T)) (d (make-channel 2)))
    (set-synchronized inst t)
    (run (progn (set-synchronized inst t) (setf (@T-a inst) 1)
                (with-mutex-lock the-mutex (setf (@T-b inst) (+ (@T-b inst) 1)))
                (channel-push d t)))
    (with-mutex-lock the-mutex (setf (@T-b inst) (+ (@T-b inst) 1)))
    (set-synchronized inst t)
    (channel-pop d)
    (list (synchronizedp inst) (@T-a inst) (@T-b inst))))`,
		check: all(expectVal("(t 1 2)"), mutexFree), canon: rawVal},
	// ---- (d) the interpreter's own tables
	{name: "d1-concurrent-defvar", group: "d", yield: true, quick: 3, thorough: 5,
		src: `(let ((d (make-channel 2)))
  (run (progn (defvar c17-v1 11) (channel-push d t)))
  (defvar c17-v2 22)
  (channel-pop d)
  (list (boundp 'c17-v1) (boundp 'c17-v2) c17-v1 c17-v2))`,
		check: all(expectVal("(t t 11 22)")), canon: rawVal},
	{name: "d2-concurrent-pretty-print", group: "d", yield: false, quick: 2, thorough: 3,
		src: `(let ((d (make-channel 2)) (r1 nil) (r2 nil))
  (run (progn (setq r1 (write-to-string '(alpha (beta gamma) delta) :pretty t :right-margin 12)) (channel-push d t)))
  (setq r2 (write-to-string '(one (two three (four five)) six) :pretty t :right-margin 10))
  (channel-pop d)
  (list r1 r2))`,
		check: nil, canon: rawVal},
	{name: "d3-defmethod-vs-first-call", group: "d", yield: false, quick: 3, thorough: 5,
		src: `(progn
  (defgeneric @G (a))
  (defmethod @G ((a real)) 'real-method)
  (let ((d (make-channel 2)) (r1 nil))
    (run (progn (defmethod @G ((a fixnum)) 'fixnum-method) (channel-push d t)))
    (setq r1 (@G 1))
    (channel-pop d)
    (list r1 (@G 1) (@G 1.5))))`,
		check: func(o *obs) []string {
			if o.err != nil {
				return []string{"error: " + o.err.String()}
			}
			switch o.val {
			case "(real-method fixnum-method real-method)", "(fixnum-method fixnum-method real-method)":
				return nil
			}
			return []string{"stale-dispatch: after defmethod completed the calls gave " + o.val + "; (real|fixnum fixnum real) required"}
		},
		canon: func(o *obs) string { return "completed" }},
	{name: "d4-remove-method-vs-call", group: "d", yield: false, quick: 3, thorough: 5,
		src: `(progn
  (defgeneric @G (a))
  (defmethod @G ((a real)) 'real-method)
  (defmethod @G ((a fixnum)) 'fixnum-method)
  (let ((d (make-channel 2)) (r1 nil))
    (run (progn (remove-method #'@G (find-method #'@G '() '(fixnum))) (channel-push d t)))
    (setq r1 (@G 1))
    (channel-pop d)
    (list r1 (@G 1) (@G 1.5))))`,
		check: func(o *obs) []string {
			if o.err != nil {
				return []string{"error: " + o.err.String()}
			}
			switch o.val {
			case "(real-method real-method real-method)", "(fixnum-method real-method real-method)":
				return nil
			}
			return []string{"stale-dispatch: after remove-method completed the calls gave " + o.val + "; (real|fixnum real real) required"}
		},
		canon: func(o *obs) string { return "completed" }},
	{name: "d5-before-daemon-vs-call", group: "d", yield: false, quick: 3, thorough: 5,
		src: `(progn
  (defgeneric @G (a))
  (defmethod @G ((a real)) (tr 'primary) 'real-method)
  (let ((d (make-channel 2)) (r1 nil))
    (run (progn (defmethod @G :before ((a fixnum)) (tr 'before)) (channel-push d t)))
    (setq r1 (@G 1))
    (channel-pop d)
    (tr 'joined)
    (list r1 (@G 1))))`,
		check: func(o *obs) []string {
			if o.err != nil {
				return []string{"error: " + o.err.String()}
			}
			if o.val != "(real-method real-method)" {
				return []string{"final-value: got " + o.val}
			}
			// first call: (primary) or (before primary); after the join: before primary
			t := strings.Join(o.trace, " ")
			if t != "primary joined before primary" && t != "before primary joined before primary" {
				return []string{"stale-dispatch: trace " + t + "; after the :before daemon was defined the call must run it"}
			}
			return nil
		},
		canon: func(o *obs) string { return "completed" }},
	{name: "d6-two-callers-and-defmethod", group: "d", yield: false, quick: 3, thorough: 4,
		src: `(progn
  (defgeneric @G (a))
  (defmethod @G ((a real)) 'real-method)
  (let ((d (make-channel 3)) (r1 nil) (r2 nil))
    (run (progn (defmethod @G ((a fixnum)) 'fixnum-method) (channel-push d t)))
    (run (progn (setq r2 (@G 2)) (channel-push d t)))
    (setq r1 (@G 1))
    (channel-pop d) (channel-pop d)
    (list (@G 1) (@G 2) (@G 1.5))))`,
		check: func(o *obs) []string {
			if o.err != nil {
				return []string{"error: " + o.err.String()}
			}
			if o.val != "(fixnum-method fixnum-method real-method)" {
				return []string{"stale-dispatch: after defmethod completed the calls gave " + o.val + "; (fixnum fixnum real) required"}
			}
			return nil
		},
		canon: func(o *obs) string { return "completed" }},
	{name: "d7-two-routines-exit-from-the-same-function-body", group: "d", yield: true, quick: 3, thorough: 4,
		// the compiled body of a function is shared by every routine that calls it: an exit that is on its way to its
		// block in one routine (it is running the cleanup form) while another routine exits from the same form must
		// still deliver its own value
		src: `(progn
  (defun @F (x)
    (block done
      (unwind-protect (return-from done x)
        (tr 'cleanup))))
  (@F 'warm)
  (let ((d (make-channel 2)) (r1 nil) (r2 nil))
    (run (progn (setq r2 (@F 'second)) (channel-push d t)))
    (setq r1 (@F 'first))
    (channel-pop d)
    (list r1 r2)))`,
		check: all(expectVal("(first second)")), canon: rawVal},
	{name: "d8-closure-frame-shared-by-a-routine-started-in-the-closure", group: "d", yield: true, quick: 2, thorough: 3,
		// the frame a closure closes over is not an ancestor of the scope it is called from; the closure starts a routine
		// that writes one variable of that frame while the caller writes another one; the calling scope was already
		// shared with an unrelated earlier routine. Every frame the new routine can reach must be protected.
		src: `(progn
  (defun @F (d)
    (let ((a 0) (b 0))
      (lambda (k)
        (cond ((eq k 'get) (list a b))
              (t (run (progn (setq a (+ k 1)) (channel-push d t)))
                 (setq b (+ k 2)))))))
  (let ((d (make-channel 2)) (d0 (make-channel 1)))
    (let ((f (@F d)))
      (run (channel-push d0 t))
      (channel-pop d0)
      (funcall f 10)
      (channel-pop d)
      (funcall f 'get))))`,
		check: all(expectVal("(11 12)")), canon: rawVal},
	// ---- (e) negative control: an unsynchronised read-modify-write MUST be caught
	{name: "e1-unsynchronised-counter", group: "e", yield: true, negative: true, quick: 2, thorough: 2,
		src: `(let ((n 0) (d (make-channel 2)))
  (run (progn (let ((v n)) (tr 'mid-1) (setq n (+ v 1))) (channel-push d t)))
  (let ((v n)) (tr 'mid-0) (setq n (+ v 1)))
  (channel-pop d)
  n)`,
		check: all(expectVal("2")), canon: rawVal},
}

func findScenario(name string) *scenario {
	for _, sc := range scenarios {
		if sc.name == name {
			return sc
		}
	}
	return nil
}

// ---------------------------------------------------------------- running

func (sc *scenario) build() *sched.Scenario {
	return &sched.Scenario{
		Name: sc.name,
		Setup: func() any {
			lisp.ResetTrace()
			scope := slip.NewScope()
			var m syncshim.Mutex
			scope.Let(slip.Symbol("the-mutex"), (*gi.Mutex)(&m))
			// names defined by a previous execution in this process
			for _, v := range []string{"c17-v1", "c17-v2"} {
				_, _ = lisp.EvalIn(scope, "(makunbound '"+v+")")
			}
			_, _ = lisp.EvalIn(scope, "(undefflavor 'c17-cell)")
			if sc.yield {
				scope.InterruptCheck = yieldPoint
			}
			// process-global interpreter state a previous execution may have left behind
			for _, f := range cleanupForms {
				_, _ = lisp.EvalIn(scope, f)
			}
			cleanupForms = cleanupForms[:0]
			_, _ = lisp.EvalIn(scope, "(setq *gensym-counter* 100)")
			_, _ = lisp.EvalIn(scope, "(setq *print-base* 10)")
			_, _ = lisp.EvalIn(scope, "(setq *print-radix* nil)")
			gfCounter++
			src := sc.src
			for _, k := range freshNames {
				src = strings.ReplaceAll(src, "@"+k, fmt.Sprintf("c17-%s%d", strings.ToLower(k), gfCounter))
			}
			if strings.Contains(sc.src, "@P") || strings.Contains(sc.src, "@Q") {
				cleanupForms = append(cleanupForms,
					fmt.Sprintf("(ignore-errors (delete-package 'c17-q%d))", gfCounter),
					fmt.Sprintf("(ignore-errors (delete-package 'c17-p%d))", gfCounter))
			}
			return &env{scope: scope, src: src}
		},
		Main: func(e any) {
			en := e.(*env)
			en.val, en.err = lisp.EvalIn(en.scope, en.src)
		},
	}
}

// yieldPoint is the Lisp-level scheduling point (Scope.InterruptCheck, called at the top of every Function.Eval). When
// the scheduler gives an execution up (deadlock, step horizon) it releases every parked thread with a panic. The
// interpreter turns a foreign panic into a Lisp condition at every call level (normalAfter -> ErrorNew -> make-instance
// -> generic call -> Lock -> the same panic again -> ...), which never ends: each deadlocked execution then costs the
// scheduler's whole grace period and leaves goroutines behind that recurse until the stack limit. The first call
// boundary reached after the release therefore ends the goroutine with runtime.Goexit: deferred unlocks still run,
// recover() in the interpreter's handlers sees nothing, the thread is gone at once.
func yieldPoint() {
	defer func() {
		if r := recover(); r != nil {
			if fmt.Sprintf("%T", r) == "vsched.abortSentinel" {
				runtime.Goexit()
			}
			panic(r)
		}
	}()
	vsched.Yield()
}

func observe(x *sched.Execution) *obs {
	en := x.Env.(*env)
	o := &obs{env: en, err: en.err, trace: lisp.Trace(), x: x}
	if en.err == nil {
		o.val = lisp.Show(en.val)
	}
	return o
}

var (
	serialMu    sync.Mutex
	serialCache = map[string]map[string]bool{}
)

// serialOutcomes: the observable outcomes of all SEQUENTIAL schedules of the scenario on the real interpreter = "some
// sequential execution": a routine runs until it blocks or finishes (no preemption), and where a routine starts another
// one either the starter goes on or the new routine runs first (the only switch away from a routine that could go on
// is to a routine that has just been started, at the starter's first scheduling point after the start). Before round 8
// only the first half was there (every non-preemptive schedule), which is every serial order for scenarios whose outcome
// does not depend on who goes first, but not for "define X here, use X there" scenarios.
func serialOutcomes(sc *scenario) map[string]bool {
	serialMu.Lock()
	defer serialMu.Unlock()
	if s, ok := serialCache[sc.name]; ok {
		return s
	}
	set := map[string]bool{}
	n := 0
	var rec func(prefix []int)
	rec = func(prefix []int) {
		x, allowed := runSerial(sc, prefix)
		n++
		if !x.Deadlock && !x.Livelock && !x.Stuck {
			set[sc.canon(observe(x))] = true
		}
		if 2000 < n {
			return
		}
		for i := len(prefix); i < len(x.Choices); i++ {
			for _, alt := range allowed[i] {
				rec(append(append(make([]int, 0, i+1), x.Choices[:i]...), alt))
			}
		}
	}
	rec(nil)
	serialCache[sc.name] = set
	return set
}

// runSerial executes one schedule under the sequential policy and returns, per scheduling point, the alternative
// choices the policy allows there.
func runSerial(sc *scenario, prefix []int) (x *sched.Execution, allowed [][]int) {
	x = &sched.Execution{}
	b := sc.build()
	s := vsched.New()
	s.MaxSteps = 20000
	offered := map[int]bool{}
	s.Choose = func(enabled []vsched.Transition, prevEnabled bool) int {
		i := len(x.Choices)
		var alts []int
		for k := 1; k < len(enabled); k++ {
			if !prevEnabled || (enabled[k].Op() == vsched.OpStart && !offered[enabled[k].T.ID]) {
				alts = append(alts, k)
			}
		}
		for _, tr := range enabled {
			if tr.Op() == vsched.OpStart {
				offered[tr.T.ID] = true
			}
		}
		c := 0
		if i < len(prefix) && prefix[i] < len(enabled) {
			c = prefix[i]
		}
		x.Choices = append(x.Choices, c)
		allowed = append(allowed, alts)
		return c
	}
	env := b.Setup()
	x.Env = env
	s.Run(func() { b.Main(env) })
	x.Deadlock, x.Livelock, x.Stuck = s.Deadlock, s.Livelock, s.Stuck
	return
}

// verdicts applies every oracle to one execution.
func verdicts(sc *scenario, x *sched.Execution, serial map[string]bool) (fails []engine.Failure, canon string) {
	spec := "replay|" + sc.name + "|" + x.Schedule()
	add := func(kind, detail string) {
		fails = append(fails, engine.Failure{Sig: "scenario=" + sc.name + " oracle=" + kind, Detail: detail + " | schedule " + x.Schedule(), Spec: spec})
	}
	if x.Diverged != "" {
		fails = append(fails, engine.Failure{Sig: "harness:replay-diverged scenario=" + sc.name, Detail: x.Diverged, Spec: spec})
		return
	}
	if x.Stuck {
		fails = append(fails, engine.Failure{Sig: "harness:thread-stuck-outside-scheduler scenario=" + sc.name, Detail: "a released thread neither parked nor finished in 20 s", Spec: spec})
		return
	}
	o := observe(x)
	canon = sc.canon(o)
	if x.Deadlock {
		add("deadlock", fmt.Sprintf("no enabled thread but not all finished; trace %v", o.trace))
		return
	}
	if x.Livelock {
		add("livelock", "step horizon reached")
		return
	}
	for _, p := range x.ThreadPanics {
		add("routine-panic", p)
	}
	if sc.check != nil {
		for _, b := range sc.check(o) {
			kind := b
			if i := strings.Index(b, ":"); 0 < i {
				kind = b[:i]
			}
			add(kind, b)
		}
	}
	if !serial[canon] {
		var s []string
		for k := range serial {
			s = append(s, k)
		}
		sort.Strings(s)
		add("not-serialisable", fmt.Sprintf("outcome %q is not the outcome of any non-preemptive (sequential) execution %q", canon, s))
	}
	return
}

const nShards = 16

func bound(sc *scenario, tier string) int {
	if tier == engine.Thorough {
		return sc.thorough
	}
	return sc.quick
}

func enumerate(tier string, emit func(string)) {
	for _, sc := range scenarios {
		for sh := 0; sh < sc.nShards(tier); sh++ {
			emit(fmt.Sprintf("explore|%s|%d|%d|%d", sc.name, bound(sc, tier), sh, sc.nShards(tier)))
		}
	}
	// race-detector pass (second binary): every schedule with <= 1 (quick) / <= 2 (thorough) preemptions
	for _, sc := range scenarios {
		for sh := 0; sh < sc.nShards(tier); sh++ {
			emit(fmt.Sprintf("race|%s|%d|%d|%d", sc.name, sc.raceBound(tier), sh, sc.nShards(tier)))
		}
	}
}

func execCase(spec string) (res engine.Result) {
	if vsched.RaceBuild {
		runtime.GOMAXPROCS(1)
	}
	p := strings.Split(spec, "|")
	if p[0] == "race" && !vsched.RaceBuild {
		return execRace(spec)
	}
	sc := findScenario(p[1])
	if sc == nil {
		res.Fail("harness:bad-spec", spec)
		return
	}
	if !vsched.RaceBuild && !isInner() {
		// one child process per case: a fatal Go error inside an execution is a failure of the scenario (isolate.go)
		return execIsolated(sc, spec)
	}
	if jf := os.Getenv(locateEnv); jf != "" && p[0] == "explore" {
		b, _ := strconv.Atoi(p[2])
		return locateSearch(sc, b, jf)
	}
	serial := serialOutcomes(sc)
	switch p[0] {
	case "replay":
		prefix := sched.ParseSchedule(p[2])
		// determinism: the same schedule twice must give identical observations
		x1 := sched.RunOnce(sc.build(), prefix, true)
		f1, c1 := verdicts(sc, x1, serial)
		x2 := sched.RunOnce(sc.build(), prefix, true)
		_, c2 := verdicts(sc, x2, serial)
		if c1 != c2 || x1.Schedule() != x2.Schedule() {
			res.Fail("harness:nondeterministic-replay scenario="+sc.name, fmt.Sprintf("%q vs %q", c1, c2))
			return
		}
		res.Failures = f1
		if sc.negative {
			res.Failures = nil
		}
		res.Outcome = c1 + " " + strings.Join(x1.Trace, " ")
		return
	case "explore":
		b, _ := strconv.Atoi(p[2])
		sh, _ := strconv.Atoi(p[3])
		n, _ := strconv.Atoi(p[4])
		outcomes := map[string]int{}
		sigSeen := map[string]bool{}
		negHit := 0
		st := sched.Explore(sc.build(), b, sh, n, func(x *sched.Execution) bool {
			fails, canon := verdicts(sc, x, serial)
			outcomes[canon+" <= "+observe(x).val]++
			if sc.negative {
				for _, f := range fails {
					if strings.HasPrefix(f.Sig, "harness:") {
						res.Failures = append(res.Failures, f)
					} else {
						negHit++
					}
				}
				return true
			}
			for _, f := range fails {
				if !sigSeen[f.Sig] { // first (= fewest deviations on this shard) per signature
					sigSeen[f.Sig] = true
					res.Failures = append(res.Failures, f)
				}
			}
			return true
		})
		res.Counters = map[string]int{
			"executions":            st.Owned,
			"executions-run":        st.Executions,
			"points":                st.Points,
			"branching-points":      st.Branching,
			"executions-preempted":  st.Preempted,
			"bound-pruned-branches": st.BoundPruned,
			"group-" + sc.group:     st.Owned,
		}
		if sc.negative {
			res.Counters["negative-control-detected"] = negHit
		}
		if 0 < st.Preempted {
			res.Nontrivial = true
		}
		var keys []string
		for k, v := range outcomes {
			keys = append(keys, fmt.Sprintf("%s x%d", k, v))
		}
		sort.Strings(keys)
		res.Outcome = sc.name + ":" + strings.Join(keys, ";")
		if sh == 0 {
			res.Counters["serial-outcomes-"+sc.name] = len(serial)
			res.Counters["max-points-"+sc.name] = st.MaxPoints
		}
		return
	}
	res.Fail("harness:bad-spec", spec)
	return
}

// GenericScenarioSpecs returns the case specs (plain exploration shards + race pass) of the scenarios
// about generic function dispatch under concurrency, for the concurrent half of C10.
func GenericScenarioSpecs(tier string) []string {
	var specs []string
	for _, sc := range scenarios {
		if !strings.HasPrefix(sc.name, "d3-") && !strings.HasPrefix(sc.name, "d4-") && !strings.HasPrefix(sc.name, "d5-") && !strings.HasPrefix(sc.name, "d6-") {
			continue
		}
		for sh := 0; sh < sc.nShards(tier); sh++ {
			specs = append(specs, fmt.Sprintf("explore|%s|%d|%d|%d", sc.name, bound(sc, tier), sh, sc.nShards(tier)))
		}
		for sh := 0; sh < sc.nShards(tier); sh++ {
			specs = append(specs, fmt.Sprintf("race|%s|%d|%d|%d", sc.name, sc.raceBound(tier), sh, sc.nShards(tier)))
		}
	}
	return specs
}

// ExecSpec runs one explore / replay / race spec (used by C10's concurrent half).
func ExecSpec(spec string) engine.Result { return execCase(spec) }

// RaceBinary names the property whose -race binary runs the race pass (C17 by default).
var RaceBinary = "C17"

func init() {
	engine.Register(&engine.Prop{
		ID:    "C17",
		Level: "model_checking",
		Rule: "stateless model checking of the implementation: for every scenario (closed Lisp program of 2-4 routines over channels, " +
			"mutexes, synchronised objects, the interpreter's own tables - packages, function / class / flavor / generic function tables, " +
			"name generator, printer state -) EVERY schedule of the real goroutines up to the scenario's preemption " +
			"bound is executed under a cooperative scheduler whose scheduling points are generated from /repo's working tree " +
			"(every Lock, channel send/receive/close/range/select, go statement; plus every Lisp call boundary where marked); each execution " +
			"is checked (exactly-once, per-producer FIFO, mutual exclusion, mutex free, no lost update, no deadlock, no fatal Go error, the " +
			"scenario's own statement of what every serial execution gives, and outcome equals the outcome of some sequential execution " +
			"of the same program on the real interpreter); a second pass runs every schedule with <= 1 (quick) / <= 2 (thorough) preemptions " +
			"under the race detector; a case is one shard of a scenario's schedule tree and is non-trivial when it contains executions " +
			"with at least one preemption",
		Assumptions: []string{
			"sequentially consistent interleaving semantics at the granularity of synchronisation operations (and Lisp call boundaries); weak-memory effects and races on unsynchronised data are the race-detector pass's business",
			"sequential execution = no routine is switched away from while it can go on, except that a routine that starts another one may let the new routine run first",
			"time channels and sleeps are outside the scenario alphabet; slip has no gentemp",
			"the negative controls (unsynchronised counter; synchronization switched off and on while in use -> fatal Go error) must be reported on every run, else the run is a harness error",
		},
		Enumerate: enumerate,
		Exec:      execCase,
		Required:  []string{"executions-preempted", "negative-control-detected", "negative-control-fatal-detected", "group-a", "group-b", "group-c", "group-d", "group-p", "branching-points", "race-executions", "race-negative-control-detected", "race-group-a", "race-group-b", "race-group-c", "race-group-d", "race-group-p"},
		Bound: func(tier string) string {
			var s []string
			for _, sc := range scenarios {
				b := bound(sc, tier)
				bs := "all schedules"
				if 0 <= b {
					bs = fmt.Sprintf("<=%d preemptions", b)
				}
				s = append(s, sc.name+": "+bs)
			}
			return strings.Join(s, "; ")
		},
		Coverage: func(tier string, c map[string]int) map[string]any {
			return map[string]any{
				"states":                        c["points"],
				"transitions":                   c["points"],
				"traces_validated_against_impl": c["executions"],
				"schedules_explored":            c["executions"],
				"schedules_with_preemption":     c["executions-preempted"],
				"race_pass_schedules":           c["race-executions"],
				"race_reports_in_interpreter":   c["race-reports-in-interpreter"],
				"explanation":                   "states = scheduling points visited over all explored executions (stateless search: not deduplicated); transitions = steps fired; every explored schedule IS an execution of the real implementation",
			}
		},
		CaseDeadlineS: 400,
		RoundRobin:    true,
	})
}
