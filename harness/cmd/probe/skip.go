package main

import (
	"fmt"
	"reflect"
	"sort"

	"github.com/ohler55/slip"
)

// listSkipEval prints every function of every package whose Function has a SkipEval vector (special operators).
func listSkipEval() {
	var out []string
	for _, p := range slip.AllPackages() {
		p.EachFuncInfo(func(fi *slip.FuncInfo) {
			if fi.Pkg != p {
				return
			}
			func() {
				defer func() { _ = recover() }()
				obj := fi.Create(slip.List{})
				v := reflect.ValueOf(obj)
				if v.Kind() == reflect.Ptr {
					v = v.Elem()
				}
				if v.Kind() != reflect.Struct {
					return
				}
				f := v.FieldByName("Function")
				if !f.IsValid() {
					return
				}
				se := f.FieldByName("SkipEval")
				if se.IsValid() && 0 < se.Len() {
					out = append(out, fmt.Sprintf("%s:%s %v", p.Name, fi.Name, se.Interface()))
				}
			}()
		})
	}
	sort.Strings(out)
	for _, o := range out {
		fmt.Println(o)
	}
}
