package c09

// size.go: the RESOURCE side of the property for single calls.
//
// Family z (size arguments): every built-in parameter that is a count, size, index, dimension, width, radix, bit
// position ... (table sizeTemplates, one template per parameter x kind of sequence; the table is compared with the
// FuncDoc texts: every parameter documented as fixnum / integer must be covered, see sizeCoverage) is given each of
// the values of sizeValues while every other argument is valid. The call runs in a helper process (8 s, 3 GiB
// address space): the outcome must be a value of sane size (no more than array-dimension-limit elements / bits) or
// a Lisp condition; never a Go fault, never a dead or hung process.
//
// Family g (ranges): every function that takes a start / end pair (keywords or positional) x every pair (s, e) over
// {-1 0 1 3 5 6 nil} on a sequence of length 5 x {list, vector, string}: inverted, negative and beyond-the-end ranges.
// Runs inside the worker (the values are small: nothing can be allocated).
//
// spec: z|<fn>|<arg>|<value name>|<form with $ for the value>
//       g|<fn>|<kind>|<s>|<e>|<form with $s and $e>

import (
	"fmt"
	"math/big"
	"os"
	"sort"
	"strings"

	"github.com/ohler55/slip"

	"verif/engine"
)

type sizeValue struct{ name, lit string }

// sizeValues: the first is the benign one (it shows that the other arguments of the template are valid).
var sizeValues = []sizeValue{
	{"2", "2"},
	{"0", "0"},
	{"-1", "-1"},
	{"2^31", "2147483648"},
	{"2^32", "4294967296"},
	{"2^62", "4611686018427387904"},
	{"2^63-1", "9223372036854775807"},
	{"-2^63", "-9223372036854775808"},
	{"2^64", "18446744073709551616"},
	{"10^30", "1000000000000000000000000000000"},
}

// productValues: only for templates with more than one hole (the PRODUCT of the dimensions is what matters there:
// 2^16 x 2^16 elements, (2^21)^3 = 2^63 wraps negative, (2^16)^4 = 2^64 wraps to 0).
var productValues = []sizeValue{
	{"2^16", "65536"},
	{"2^21", "2097152"},
}

type sizeTmpl struct {
	fn   string // function (or variable / directive) the template is about
	arg  string // parameter name (as in the FuncDoc where there is one)
	form string // Lisp text, `$` = the value
}

var seqKinds = []struct{ name, seq, item string }{
	{"list", "(list 1 2 3 4)", "1"},
	{"vector", "(vector 1 2 3 4)", "1"},
	{"string", `(copy-seq "abcd")`, `#\a`},
}

var sizeTemplates = buildSizeTemplates()

func buildSizeTemplates() (out []sizeTmpl) {
	add := func(fn, arg, form string) {
		if strings.Contains(form, "{S2}") {
			for _, k := range seqKinds[:2] {
				f := strings.ReplaceAll(strings.ReplaceAll(form, "{S2}", k.seq), "{I}", k.item)
				out = append(out, sizeTmpl{fn, arg, f})
			}
			return
		}
		if strings.Contains(form, "{S}") {
			for _, k := range seqKinds {
				f := strings.ReplaceAll(strings.ReplaceAll(form, "{S}", k.seq), "{I}", k.item)
				out = append(out, sizeTmpl{fn, arg, f})
			}
			return
		}
		out = append(out, sizeTmpl{fn, arg, form})
	}
	// keys adds one template per keyword: base + " :key $)"
	keys := func(fn, base string, ks ...string) {
		for _, k := range ks {
			add(fn, k, base+" :"+k+" $)")
		}
	}
	// ---- constructors
	add("make-list", "size", "(make-list $)")
	add("make-list", "size", "(make-list $ :initial-element 1)")
	add("make-string", "size", "(make-string $)")
	add("make-string", "size", `(make-string $ :initial-element #\a)`)
	add("make-array", "dimensions", "(make-array $)")
	add("make-array", "dimensions", "(make-array (list $))")
	add("make-array", "dimensions", "(make-array (list $ 2))")
	add("make-array", "dimensions", "(make-array (list 2 $))")
	add("make-array", "dimensions", "(make-array (list $ $))")
	add("make-array", "dimensions", "(make-array (list $ $ $))")
	add("make-array", "dimensions", "(make-array (list $ $ $ $))")
	add("make-array", "dimensions", "(make-array $ :initial-element 0)")
	add("make-array", "dimensions", "(make-array $ :element-type 'bit)")
	add("make-array", "dimensions", "(make-array $ :element-type 'character)")
	add("make-array", "dimensions", "(make-array $ :element-type 'octet)")
	add("make-array", "dimensions", "(make-array $ :fill-pointer 0 :adjustable t)")
	add("make-array", "fill-pointer", "(make-array 4 :fill-pointer $)")
	add("make-array", "displaced-index-offset", "(make-array 2 :displaced-to (make-array 8) :displaced-index-offset $)")
	add("adjust-array", "dimensions", "(adjust-array (make-array 4 :adjustable t) $)")
	add("adjust-array", "dimensions", "(adjust-array (make-array 4 :adjustable t :fill-pointer 0) $)")
	add("adjust-array", "dimensions", "(adjust-array (make-array (list 3 3) :adjustable t) (list $ 2))")
	add("adjust-array", "dimensions", "(adjust-array (make-array (list 3 3) :adjustable t) (list $ $))")
	add("adjust-array", "fill-pointer", "(adjust-array (make-array 4 :adjustable t :fill-pointer 1) 4 :fill-pointer $)")
	add("adjust-array", "displaced-index-offset", "(adjust-array (make-array 2 :adjustable t) 2 :displaced-to (make-array 8) :displaced-index-offset $)")
	add("make-sequence", "size", "(make-sequence 'list $)")
	add("make-sequence", "size", "(make-sequence 'vector $)")
	add("make-sequence", "size", "(make-sequence 'string $)")
	add("make-sequence", "size", "(make-sequence 'octets $)")
	add("make-sequence", "size", "(make-sequence 'bit-vector $)")
	add("make-sequence", "size", "(make-sequence 'list $ :initial-element 1)")
	add("make-sequence", "size", `(make-sequence 'string $ :initial-element #\a)`)
	add("make-hash-table", "size", "(make-hash-table :size $)")
	add("make-hash-table", "rehash-size", "(make-hash-table :rehash-size $)")
	add("make-hash-table", "rehash-threshold", "(make-hash-table :rehash-threshold $)")
	add("make-octets", "size", "(make-octets $)")
	add("make-octets", "size", "(make-octets $ 7)")
	add("make-octets", "initial-element", "(make-octets 2 $)")
	add("make-channel", "size", "(make-channel $)")
	add("string-repeat", "count", `(string-repeat "ab" $)`)
	add("string-repeat", "count", `(string-repeat "" $)`)
	add("gensym", "x", "(gensym $)")
	add("make-string-input-stream", "start", `(make-string-input-stream "abcd" $)`)
	add("make-string-input-stream", "end", `(make-string-input-stream "abcd" 0 $)`)
	// ---- integers as amounts
	add("ash", "shift", "(ash 1 $)")
	add("ash", "shift", "(ash -1 $)")
	add("ash", "shift", "(ash 18446744073709551617 $)")
	add("ash", "integer", "(ash $ 3)")
	add("expt", "power", "(expt 2 $)")
	add("expt", "power", "(expt -3 $)")
	add("expt", "power", "(expt 1 $)")
	add("expt", "power", "(expt -1 $)")
	add("expt", "power", "(expt 0 $)")
	add("expt", "power", "(expt 1/2 $)")
	add("expt", "power", "(expt 1.5d0 $)")
	add("expt", "power", "(expt 18446744073709551617 $)")
	add("expt", "power", "(expt #C(1 1) $)")
	add("expt", "base", "(expt $ 3)")
	add("expt", "base", "(expt $ 1/2)")
	add("scale-float", "integer", "(scale-float 1.5d0 $)")
	add("scale-float", "integer", "(scale-float 1.5f0 $)")
	add("scale-float", "integer", "(scale-float 1.5l0 $)")
	add("byte", "size", "(ldb (byte $ 0) -1)")
	add("byte", "position", "(ldb (byte 2 $) -1)")
	add("byte", "size", "(dpb 1 (byte $ 0) 0)")
	add("byte", "position", "(dpb 1 (byte 2 $) 0)")
	add("byte", "size", "(mask-field (byte $ 1) -1)")
	add("byte", "position", "(deposit-field -1 (byte 2 $) 0)")
	add("byte", "size", "(ldb-test (byte $ 0) 5)")
	add("byte", "size", "(byte-size (byte $ 0))")
	add("byte", "position", "(byte-position (byte 1 $))")
	add("ldb", "integer", "(ldb (byte 4 2) $)")
	add("dpb", "newbyte", "(dpb $ (byte 4 2) 0)")
	add("dpb", "integer", "(dpb 1 (byte 4 2) $)")
	add("deposit-field", "newbyte", "(deposit-field $ (byte 4 2) 0)")
	add("mask-field", "integer", "(mask-field (byte 4 2) $)")
	add("deposit-field", "integer", "(deposit-field 1 (byte 4 2) $)")
	add("ldb-test", "integer", "(ldb-test (byte 4 2) $)")
	add("logbitp", "index", "(logbitp $ 5)")
	add("logbitp", "index", "(logbitp $ -5)")
	add("logbitp", "index", "(logbitp $ 18446744073709551617)")
	add("logbitp", "integer", "(logbitp 3 $)")
	add("integer-length", "integer", "(integer-length $)")
	add("logcount", "integer", "(logcount $)")
	add("lognot", "integer", "(lognot $)")
	add("boole", "integer-1", "(boole boole-xor $ 5)")
	add("boole", "integer-2", "(boole boole-and 5 $)")
	for _, f := range []string{"logand", "logior", "logxor", "logeqv", "gcd", "lcm"} {
		add(f, "integers", "("+f+" $ 12)")
		add(f, "integers", "("+f+" 12 $)")
	}
	for _, f := range []string{"lognand", "lognor", "logandc1", "logandc2", "logorc1", "logorc2", "logtest"} {
		add(f, "integer-1", "("+f+" $ 12)")
		add(f, "integer-2", "("+f+" 12 $)")
	}
	add("evenp", "number", "(evenp $)")
	add("oddp", "number", "(oddp $)")
	add("isqrt", "number", "(isqrt $)")
	add("digit-char", "weight", "(digit-char $)")
	add("digit-char", "radix", "(digit-char 1 $)")
	add("digit-char-p", "radix", `(digit-char-p #\1 $)`)
	add("code-char", "code", "(code-char $)")
	add("random", "limit", "(random $)")
	add("float", "number", "(float $)")
	add("float", "number", "(float $ 1.0f0)")
	add("coerce", "object", "(coerce $ 'single-float)")
	add("coerce", "object", "(coerce $ 'character)")
	add("sqrt", "number", "(sqrt $)")
	add("exp", "number", "(exp $)")
	add("log", "number", "(log 8 $)")
	add("sin", "radians", "(sin $)")
	add("cis", "radians", "(cis $)")
	add("sinh", "number", "(sinh $)")
	add("atan", "number2", "(atan 1 $)")
	for _, f := range []string{"floor", "ceiling", "truncate", "round", "ffloor", "fceiling", "ftruncate", "fround", "mod", "rem"} {
		add(f, "divisor", "("+f+" 7 $)")
		add(f, "divisor", "("+f+" 7.5d0 $)")
		add(f, "number", "("+f+" $ 3)")
	}
	add("*", "numbers", "(* $ $)")
	add("*", "numbers", "(* $ $ $ $)")
	add("+", "numbers", "(+ $ $)")
	add("-", "numbers", "(- $ 1)")
	add("/", "numbers", "(/ 1 $)")
	add("1+", "number", "(1+ $)")
	add("1-", "number", "(1- $)")
	add("abs", "number", "(abs $)")
	add("parse-integer", "radix", `(parse-integer "11" :radix $)`)
	add("parse-integer", "start", `(parse-integer "1111" :start $)`)
	add("parse-integer", "end", `(parse-integer "1111" :end $)`)
	// ---- time
	add("make-time", "year", "(make-time $ 1 2)")
	add("make-time", "month", "(make-time 2024 $ 2)")
	add("make-time", "day", "(make-time 2024 1 $)")
	add("make-time", "hour", "(make-time 2024 1 2 $)")
	add("make-time", "minute", "(make-time 2024 1 2 3 $)")
	add("make-time", "second", "(make-time 2024 1 2 3 4 $)")
	add("make-time", "nanosecond", "(make-time 2024 1 2 3 4 5 $)")
	add("encode-universal-time", "second", "(encode-universal-time $ 1 1 1 1 2000)")
	add("encode-universal-time", "minute", "(encode-universal-time 1 $ 1 1 1 2000)")
	add("encode-universal-time", "hour", "(encode-universal-time 1 1 $ 1 1 2000)")
	add("encode-universal-time", "date", "(encode-universal-time 1 1 1 $ 1 2000)")
	add("encode-universal-time", "month", "(encode-universal-time 1 1 1 1 $ 2000)")
	add("encode-universal-time", "year", "(encode-universal-time 1 1 1 1 1 $)")
	add("encode-universal-time", "time-zone", "(encode-universal-time 1 1 1 1 1 2000 $)")
	add("decode-universal-time", "time", "(decode-universal-time $)")
	add("decode-universal-time", "time-zone", "(decode-universal-time 1 $)")
	add("universal-to-time", "universal-time", "(universal-to-time $)")
	add("unix-time", "seconds", "(unix-time $)")
	add("unix-time", "seconds", "(unix-time $ :nanosecond)")
	add("time-add", "duration", "(time-add (make-time 2024 1 2) $)")
	// ---- list positions
	add("nth", "n", "(nth $ (list 1 2 3 4))")
	add("nthcdr", "n", "(nthcdr $ (list 1 2 3 4))")
	add("nth", "n", "(let ((l (list 1 2 3 4))) (setf (nth $ l) 9) l)")
	add("butlast", "n", "(butlast (list 1 2 3 4) $)")
	add("nbutlast", "n", "(nbutlast (list 1 2 3 4) $)")
	add("last", "n", "(last (list 1 2 3 4) $)")
	add("nth-value", "n", "(nth-value $ (values 1 2 3))")
	add("elt", "index", "(elt {S} $)")
	add("elt", "index", "(let ((s {S2})) (setf (elt s $) {I}) s)")
	add("subseq", "tree-start", "(subseq {S} $)")
	add("subseq", "end", "(subseq {S} 0 $)")
	add("subseq", "end", "(subseq {S} 2 $)")
	add("subseq", "tree-start", "(let ((s {S2})) (setf (subseq s $) {S2}) s)")
	add("subseq", "end", "(let ((s {S2})) (setf (subseq s 0 $) {S2}) s)")
	add("char", "index", `(char "abcd" $)`)
	add("schar", "index", `(schar "abcd" $)`)
	add("svref", "index", "(svref (vector 1 2 3 4) $)")
	add("svref", "index", "(let ((v (vector 1 2 3 4))) (setf (svref v $) 9) v)")
	add("aref", "subscripts", "(aref (vector 1 2 3 4) $)")
	add("aref", "subscripts", "(aref (make-array (list 3 3) :initial-element 0) $ 0)")
	add("aref", "subscripts", "(aref (make-array (list 3 3) :initial-element 0) 0 $)")
	add("aref", "subscripts", "(aref (make-array (list 3 3) :initial-element 0) $ $)")
	add("aref", "subscripts", "(let ((a (make-array (list 3 3) :initial-element 0))) (setf (aref a $ 0) 9) a)")
	add("aref", "subscripts", "(let ((a (make-array 4 :fill-pointer 2))) (setf (aref a $) 9) a)")
	add("aref", "subscripts", "(aref (make-octets 4 1) $)")
	add("row-major-aref", "index", "(row-major-aref (make-array (list 3 3) :initial-element 0) $)")
	add("row-major-aref", "index", "(let ((a (make-array (list 3 3) :initial-element 0))) (setf (row-major-aref a $) 9) a)")
	add("array-dimension", "axis-number", "(array-dimension (make-array (list 3 3)) $)")
	add("array-in-bounds-p", "subscripts", "(array-in-bounds-p (make-array (list 3 3)) $ 0)")
	add("array-in-bounds-p", "subscripts", "(array-in-bounds-p (make-array (list 3 3)) 0 $)")
	add("array-row-major-index", "subscripts", "(array-row-major-index (make-array (list 3 3)) $ 0)")
	add("array-row-major-index", "subscripts", "(array-row-major-index (make-array (list 3 3)) 0 $)")
	add("bit", "subscripts", "(bit (make-array 4 :element-type 'bit) $)")
	add("sbit", "subscripts", "(sbit (make-array 4 :element-type 'bit) $)")
	add("bit", "subscripts", "(let ((b (make-array 4 :element-type 'bit))) (setf (bit b $) 1) b)")
	add("fill-pointer", "fill-pointer", "(let ((v (make-array 4 :fill-pointer 2))) (setf (fill-pointer v) $) v)")
	add("write-byte", "byte", "(write-byte $ (make-string-output-stream))")
	// ---- sequence functions: start / end / count
	keys("count", "(count {I} {S}", "start", "end")
	keys("count-if", "(count-if (lambda (x) x) {S}", "start", "end")
	keys("find", "(find {I} {S}", "start", "end")
	keys("find-if", "(find-if (lambda (x) x) {S}", "start", "end")
	keys("position", "(position {I} {S}", "start", "end")
	keys("position-if", "(position-if (lambda (x) x) {S}", "start", "end")
	keys("remove", "(remove {I} {S}", "start", "end", "count")
	keys("remove-if", "(remove-if (lambda (x) x) {S}", "start", "end", "count")
	keys("delete", "(delete {I} {S}", "start", "end", "count")
	keys("delete-if", "(delete-if (lambda (x) x) {S}", "start", "end", "count")
	keys("remove-duplicates", "(remove-duplicates {S}", "start", "end")
	keys("delete-duplicates", "(delete-duplicates {S}", "start", "end")
	keys("substitute", "(substitute {I} {I} {S}", "start", "end", "count")
	keys("substitute-if", "(substitute-if {I} (lambda (x) x) {S}", "start", "end", "count")
	keys("nsubstitute", "(nsubstitute {I} {I} {S}", "start", "end", "count")
	keys("nsubstitute-if", "(nsubstitute-if {I} (lambda (x) x) {S}", "start", "end", "count")
	keys("fill", "(fill {S} {I}", "start", "end")
	keys("reduce", "(reduce #'list {S}", "start", "end")
	keys("replace", "(replace {S} {S}", "start1", "end1", "start2", "end2")
	keys("mismatch", "(mismatch {S} {S}", "start1", "end1", "start2", "end2")
	keys("search", "(search {S} {S}", "start1", "end1", "start2", "end2")
	keys("write-sequence", "(write-sequence (list 1 2 3 4) (make-string-output-stream)", "start", "end")
	keys("write-sequence", `(write-sequence "abcd" (make-string-output-stream)`, "start", "end")
	keys("char-length", `(char-length "abcd"`, "start", "end")
	// ---- strings
	for _, f := range []string{"string-upcase", "string-downcase", "string-capitalize", "nstring-upcase", "nstring-downcase", "nstring-capitalize"} {
		keys(f, "("+f+` (copy-seq "abcd")`, "start", "end")
	}
	for _, f := range []string{"string=", "string/=", "string<", "string<=", "string>", "string>=", "string-equal", "string-not-equal",
		"string-lessp", "string-not-lessp", "string-greaterp", "string-not-greaterp"} {
		keys(f, "("+f+` "abcd" "abce"`, "start1", "end1", "start2", "end2")
	}
	keys("read-from-string", `(read-from-string "(a) b c" nil nil`, "start", "end")
	keys("write-string", `(write-string "abcd" (make-string-output-stream)`, "start", "end")
	keys("write-line", `(write-line "abcd" (make-string-output-stream)`, "start", "end")
	keys("octet-length", `(octet-length "abcd"`, "start", "end")
	keys("string-to-octets", `(string-to-octets "abcd"`, "start", "end")
	keys("octets-to-string", "(octets-to-string (make-octets 4 65)", "start", "end")
	keys("octets-to-string", "(octets-to-string (list 65 66 67 68)", "start", "end")
	keys("parse-float", `(parse-float "1.25"`, "start", "end")
	keys("split", `(split "a,b,c,d" ","`, "limit")
	keys("regex-find-all", `(regex-find-all "a" "aaaa"`, "limit")
	add("zip", "level", "(zip (make-octets 4 65) $)")
	keys("save", "(save (list 1 2) (make-string-output-stream)", "buffer-size")
	// ---- printer
	for _, k := range []string{"base", "length", "level", "lines", "miser-width", "right-margin"} {
		add("write-to-string", k, "(write-to-string (list 1 (list 2 (list 3)) 255) :"+k+" $)")
		add("write-to-string", k, "(write-to-string (list 1 (list 2 (list 3)) 255) :pretty t :"+k+" $)")
		add("write", k, "(write (list 1 (list 2 (list 3)) 255) :stream (make-string-output-stream) :"+k+" $)")
	}
	for _, v := range []string{"*print-base*", "*print-length*", "*print-level*", "*print-lines*", "*print-miser-width*", "*print-right-margin*", "*read-base*"} {
		add(v, "value", "(let (("+v+" $)) (princ-to-string (list 1 (list 2 (list 3)) 255)))")
		add(v, "value", "(let (("+v+" $) (*print-pretty* t)) (prin1-to-string (list 1 (list 2 (list 3)) 255)))")
		add(v, "value", "(let (("+v+` $)) (format nil "~A ~S ~D ~W" (list 1 (list 2)) "x" 255 (list 3)))`)
	}
	add("*read-base*", "value", `(let ((*read-base* $)) (read-from-string "11"))`)
	add("*gensym-counter*", "value", "(let ((*gensym-counter* $)) (gensym))")
	keys("bag-write", `(bag-write (make-bag "{a:1 b:[1 2 {c:3}]}") nil`, "depth", "right-margin")
	keys("bag-write", `(bag-write (make-bag "{a:1 b:[1 2 {c:3}]}") nil :pretty t`, "depth", "right-margin")
	// ---- bag paths with an index
	add("bag-get", "path", `(bag-get (make-bag "{a:1 b:[1 2 3]}") "b[$]")`)
	add("bag-has", "path", `(bag-has (make-bag "{a:1 b:[1 2 3]}") "b[$]")`)
	add("bag-set", "path", `(bag-native (bag-set (make-bag "{a:1 b:[1 2 3]}") 9 "b[$]"))`)
	add("bag-set", "path", `(bag-native (bag-set (make-bag "{a:1}") 9 "c[$]"))`)
	add("bag-remove", "path", `(bag-native (bag-remove (make-bag "{a:1 b:[1 2 3]}") "b[$]"))`)
	add("bag-get-all", "path", `(bag-get-all (make-bag "{a:1 b:[1 2 3]}") "b[$:]")`)
	add("bag-get-all", "path", `(bag-get-all (make-bag "{a:1 b:[1 2 3]}") "b[0:$]")`)
	add("bag-get-all", "path", `(bag-get-all (make-bag "{a:1 b:[1 2 3]}") "b[0:3:$]")`)
	add("make-bag-path", "path", `(make-bag-path "b[$]")`)
	add("make-bag", "value", `(bag-native (make-bag "$"))`)
	add("make-bag", "value", "(bag-native (make-bag $))")
	add("json-parse", "input", `(let ((r nil)) (json-parse (lambda (x) (setq r x)) "[$]") r)`)
	// ---- format: every directive with the value as 1st, 2nd and 3rd prefix parameter (through v)
	for _, c := range directiveChars {
		if c == '\n' {
			continue
		}
		for pos, pre := range []string{"~v", "~1,v", "~1,1,v"} {
			ctrl := pre + string(c)
			switch c {
			case '(':
				ctrl += "x~)"
			case '[':
				ctrl += "x~;y~]"
			case '{':
				ctrl += "~A~}"
			case '<':
				ctrl += "x~>"
			case ')', ']', '}', '>', ';':
				continue // closers take their parameters from the opener
			}
			add("format "+dirName("~"+string(c)), fmt.Sprintf("parameter-%d", pos+1),
				fmt.Sprintf("(format nil %s $ (list 1 2) 3.5d0)", lispString(ctrl)))
			if pos == 0 && (c == 'D' || c == 'R' || c == 'F' || c == 'E' || c == 'G' || c == '$' || c == 'A' || c == 'C') {
				arg := map[byte]string{'D': "255", 'R': "255", 'F': "3.5d0", 'E': "3.5d0", 'G': "3.5d0", '$': "3.5d0", 'A': `"x"`, 'C': `#\a`}[c]
				for pos2, pre2 := range []string{"~v", "~1,v", "~1,1,v", "~1,1,1,v"} {
					add("format ~"+string(c), fmt.Sprintf("parameter-%d", pos2+1),
						fmt.Sprintf("(format nil %s $ %s)", lispString(pre2+string(c)), arg))
				}
			}
		}
	}
	add("format ~R", "argument", `(format nil "~R" $)`)
	add("format ~R", "argument", `(format nil "~:R" $)`)
	add("format ~R", "argument", `(format nil "~@R" $)`)
	add("format ~D", "argument", `(format nil "~:D" $)`)
	add("format ~F", "argument", `(format nil "~F" $)`)
	add("format ~E", "argument", `(format nil "~E" $)`)
	add("format ~C", "argument", `(format nil "~C" (code-char $))`)
	add("format ~P", "argument", `(format nil "~P" $)`)
	add("format ~T", "parameter-1", `(format nil "abc~$T")`)
	add("format ~T", "parameter-2", `(format nil "abc~1,$T")`)
	add("format ~T", "parameter-1", `(format nil "abc~$@T")`)
	add("format ~<", "parameter-1", `(format nil "~$<a~;b~>")`)
	add("format ~*", "parameter-1", `(format nil "~$*~A" 1 2 3)`)
	add("format ~*", "parameter-1", `(format nil "~$@*~A" 1 2 3)`)
	add("format ~*", "parameter-1", `(format nil "~A~$:*~A" 1 2 3)`)
	add("format ~[", "parameter-1", `(format nil "~$[a~;b~:;c~]")`)
	add("format ~{", "parameter-1", `(format nil "~${~A~}" (list 1 2 3))`)
	add("format ~^", "parameter-1", `(format nil "~{~A~$^~}" (list 1 2 3))`)
	// ---- loops that run for their count BY CONTRACT are not here (dotimes, loop repeat, sleep): only their zero /
	// negative side
	return
}

func lispString(s string) string {
	return `"` + strings.ReplaceAll(strings.ReplaceAll(s, `\`, `\\`), `"`, `\"`) + `"`
}

// byContractUnbounded: (template, value) combinations that are not run because the call is DEFINED to take time or
// space in proportion to the value.
func sizeExcluded(t *sizeTmpl, v *sizeValue) string {
	return ""
}

func holes(form string) int { return strings.Count(form, "$") }

func enumSize(tier string, emit func(string)) {
	for _, vals := range [][]sizeValue{sizeValues, productValues} {
		for vi := range vals {
			v := &vals[vi]
			for ti := range sizeTemplates {
				t := &sizeTemplates[ti]
				if &vals[0] == &productValues[0] && holes(t.form) < 2 {
					continue
				}
				emit("z|" + t.fn + "|" + t.arg + "|" + v.name + "|" + t.form)
			}
		}
	}
}

func sizeValueByName(name string) *sizeValue {
	for i := range sizeValues {
		if sizeValues[i].name == name {
			return &sizeValues[i]
		}
	}
	for i := range productValues {
		if productValues[i].name == name {
			return &productValues[i]
		}
	}
	return nil
}

// saneLimit: slip's own array-dimension-limit; a result with more elements / bytes / bits than that is not "a value
// of sane size" for arguments that are all beyond it or tiny.
const saneLimit = slip.ArrayMaxDimension

// objectSize: the number of elements / bytes / bits of a result (top level only).
func objectSize(v slip.Object) int {
	switch tv := v.(type) {
	case slip.List:
		return len(tv)
	case slip.String:
		return len(tv)
	case slip.Octets:
		return len(tv)
	case slip.Symbol:
		return len(tv)
	case *slip.Vector:
		return tv.Length()
	case *slip.Array:
		return tv.Length()
	case *slip.BitVector:
		return tv.Length()
	case *slip.Bignum:
		return (*big.Int)(tv).BitLen()
	case slip.Values:
		n := 0
		for _, x := range tv {
			n += objectSize(x)
		}
		return n
	}
	return 0
}

func execSize(spec string) (res engine.Result) {
	parts := strings.SplitN(spec, "|", 5)
	if len(parts) != 5 {
		res.Fail("harness:bad-spec", spec)
		return
	}
	fn, arg, vname, form := parts[1], parts[2], parts[3], parts[4]
	v := sizeValueByName(vname)
	if v == nil {
		res.Fail("harness:bad-spec", spec)
		return
	}
	src := strings.ReplaceAll(form, "$", v.lit)
	sigPrefix := "size fn=" + fn + " arg=" + arg
	if os.Getenv("C09_CHILD") == "" {
		return isolatedCase(spec, sigPrefix, src, "size-cases", false)
	}
	res.Hit("size-cases")
	if strings.Contains(src, selftestPkgName) {
		defineSelftestFunctions()
	}
	leave := enter(false)
	defer leave()
	scope := slip.NewScope()
	o := observe(func() slip.Object { return slip.ReadString(src, scope).Eval(scope, nil) })
	res.Outcome = o.outcome()
	res.Nontrivial = true
	switch o.kind {
	case "value":
		res.Hit("size-value")
		if vname == "2" {
			res.Hit("size-template-valid")
		}
		if n := objectSize(o.val); saneLimit < n {
			res.Hit("faults")
			res.Fail(sigPrefix+" kind=unbounded", fmt.Sprintf("%s => a result of %d elements (array-dimension-limit is %d)", src, n, saneLimit))
		}
	case "condition":
		res.Hit("size-condition")
		if vname == "2" {
			res.Hit("size-template-invalid")
			logLine("SIZE-TEMPLATE-INVALID\t" + src + "\t" + o.describe())
		}
	}
	if o.catchAll {
		res.Hit("catch-all-conversions")
	}
	if fc := realClassifier.classify(o); fc != "" {
		res.Hit("faults")
		res.Fail(fmt.Sprintf("%s fault=%s at=%s", sigPrefix, fc, o.site), src+" => "+o.describe())
	} else if o.catchAll {
		res.Hit("catch-all-accepted")
		logAccepted(sigPrefix, o)
	}
	return
}

// isolatedCase runs the case in the helper process (helper.go) and makes sure the family counter is hit even when
// the helper died.
func isolatedCase(spec, sigPrefix, what, counter string, fresh bool) engine.Result {
	r := runIsolated(spec, sigPrefix, what, fresh)
	if r.Counters[counter] == 0 {
		r.Hit(counter)
	}
	return r
}

// ---------------------------------------------------------------- coverage of the FuncDoc texts

// sizeCoverage compares the template table with the FuncDoc texts: every parameter of an exported function whose
// documented type mentions fixnum or integer should have a template. Returns covered, total and the uncovered ones.
func sizeCoverage() (covered, total int, missing []string) {
	have := map[string]bool{}
	for _, t := range sizeTemplates {
		have[t.fn+"/"+t.arg] = true
		have[t.fn] = true
	}
	for _, p := range slip.AllPackages() {
		if ownPkgs[p.Name] {
			continue
		}
		p.EachFuncInfo(func(fi *slip.FuncInfo) {
			if fi.Pkg != p || !fi.Export || fi.Doc == nil {
				return
			}
			for _, a := range fi.Doc.Args {
				ty := strings.ToLower(a.Type)
				if !strings.Contains(ty, "fixnum") && !strings.Contains(ty, "integer") {
					continue
				}
				total++
				if have[fi.Name+"/"+a.Name] || sizeCoveredElsewhere[fi.Name+"/"+a.Name] != "" {
					covered++
				} else {
					missing = append(missing, p.Name+":"+fi.Name+"/"+a.Name)
				}
			}
		})
	}
	sort.Strings(missing)
	return
}

// sizeCoveredElsewhere: documented integer parameters that have no template of their own, with the reason.
var sizeCoveredElsewhere = map[string]string{
	"go/tag":                              "a tag, not an amount",
	"open/permission":                     "file mode bits, reaches outside the process",
	"ensure-directories-exist/permission": "file mode bits, reaches outside the process",
	"encrypt-file/perm":                   "file mode bits, reaches outside the process",
	"decrypt-file/perm":                   "file mode bits, reaches outside the process",
	"file-position/position":              "needs a file stream: covered by the function sweep",
	"send-signal/pid":                     "excluded: would signal real processes",
	"send-signal/signal":                  "excluded: would signal real processes",
	"signal-wait/signal":                  "excluded: waits for a signal by contract",
	"make-socket/socket":                  "a file descriptor: reaches outside the process",
	"socket-listen/backlog":               "needs a bound socket",
	"socket-receive/length":               "needs a connected socket",
	"socket-send/length":                  "needs a connected socket",
	"socket-send/offset":                  "needs a connected socket",
	"socket-bind/address":                 "reaches outside the process",
	"socket-connect/address":              "reaches outside the process",
	"create-server/port":                  "excluded: opens a listening socket",
	"restart-server/port":                 "excluded: opens a listening socket",
	"setup-server/port":                   "excluded: opens a listening socket",
	"start-server/port":                   "excluded: opens a listening socket",
	"stop-server/port":                    "excluded with the other swank server functions",
	"swank-server/port":                   "excluded: opens a listening socket",
	"benchmark/iterations":                "runs for its count by contract",
}
