//go:build verif

package c19

// The extended session menu (A2): what the statement's list "user variables,
// functions, flavors, classes and generic functions" covers and the basic menu
// did not have - macros and the functions using them in both name orders,
// closures, every lambda-list keyword slip takes, documentation strings that
// wrap, structures, conditions, user packages with definitions inside and
// export / use relations, special variables holding every load-formable kind
// (shared substructure, instances referring to each other, hash tables,
// adjustable / fill-pointer / multi-dimensional arrays, bags, time values)
// and values that have no load form at all (streams, channels, mutexes: the
// snapshot must skip or refuse them without losing the rest of the session).

import (
	"regexp"
	"strings"
)

type extBuilder struct {
	it   *item
	meta *itemMeta
}

var extItems []*item

func ext(id string, src ...string) *extBuilder {
	it := &item{id: id, src: src}
	m := &itemMeta{accept: map[int]*regexp.Regexp{}}
	itemMetas[id] = m
	extItems = append(extItems, it)
	for _, s := range src {
		if n := rawDefinedName(s); n != "" {
			userNames[n] = true
		}
	}
	return &extBuilder{it, m}
}

// probe: compared strictly (same rendering in the session and after the reload).
func (b *extBuilder) probe(name, src string) *extBuilder {
	b.it.probes = append(b.it.probes, src)
	b.meta.pnames = append(b.meta.pnames, name)
	return b
}

// lenient: the reloaded process may also answer with something matching re (S2: the statement does not demand more).
func (b *extBuilder) lenient(name, src, re string) *extBuilder {
	b.meta.accept[len(b.it.probes)] = regexp.MustCompile(re)
	return b.probe(name, src)
}

// defines: definitions that must be present in the snapshot text although no session form has them as its head.
func (b *extBuilder) defines(keys ...string) *extBuilder {
	b.meta.defines = append(b.meta.defines, keys...)
	for _, k := range keys {
		f := strings.Fields(strings.Trim(k, "()"))
		if len(f) == 2 {
			userNames[f[1]] = true
		}
	}
	return b
}

// mayOmit: variables whose value has no load form; the snapshot may leave them out.
func (b *extBuilder) mayOmit(names ...string) *extBuilder {
	b.meta.mayOmit = append(b.meta.mayOmit, names...)
	return b
}

// rawDefinedName: the name a defining form defines, without package prefix ("" for other forms).
func rawDefinedName(src string) string {
	f := strings.Fields(strings.NewReplacer("(", " ( ", ")", " ) ", "\n", " ").Replace(strings.TrimSpace(src)))
	if len(f) < 3 || f[0] != "(" {
		return ""
	}
	switch strings.ToLower(f[1]) {
	case "defvar", "defparameter", "defconstant", "defun", "defmacro", "defflavor", "defclass", "defgeneric", "defpackage", "define-condition", "defstruct":
	default:
		return ""
	}
	n := strings.ToLower(strings.TrimPrefix(f[2], ":"))
	if n == "(" && 3 < len(f) {
		n = strings.ToLower(f[3])
	}
	if i := strings.LastIndex(n, "::"); 0 <= i {
		n = n[i+2:]
	}
	return n
}

const extLongDoc = `one two three four five six seven eight nine ten eleven twelve thirteen fourteen fifteen sixteen seventeen eighteen nineteen twenty twenty-one twenty-two twenty-three twenty-four.`

var unencodable = map[string]bool{}

// solo: items whose snapshot faults on the tree as it is (a session holding one would hide everything else): sessions of
// their own only.
var solo = map[string]bool{}

// thoroughOnly: extended items of the thorough tier only (slow: the process dies of a stack overflow after some seconds).
var thoroughOnly = map[string]bool{}

func init() {
	// ------------------------------------------------ macros and their users
	ext("macro-user-sorts-first",
		`(defmacro zz-quote (a) (list 'quote a))`,
		`(defun aa-user (y) (list (zz-quote (no-such-fn y)) y))`).
		probe("function-using-macro", `(aa-user 2)`).probe("macro", `(zz-quote (no-such-fn 1))`)
	ext("macro-user-sorts-last",
		`(defmacro ab-quote (a) (list 'quote a))`,
		`(defun zy-user (y) (list (ab-quote (no-such-fn y)) y))`).
		probe("function-using-macro", `(zy-user 2)`).probe("macro", `(ab-quote (no-such-fn 1))`)
	ext("macro-used-in-macro-body",
		`(defmacro zx-inner (a) (list 'quote a))`,
		`(defmacro ac-outer (b) (list 'length (list 'quote (zx-inner (a b c)))))`,
		`(defun ad-caller (y) (list (ac-outer y) y))`).
		probe("macro-using-macro", `(ac-outer 1)`).probe("function-using-macro", `(ad-caller 2)`)
	ext("macro-with-body",
		`(defmacro ae-twice (&body body) (list 'progn (cons 'progn body) (cons 'progn body)))`,
		`(defvar *ae-count* 0)`,
		`(defun af-bump () (ae-twice (setq *ae-count* (+ *ae-count* 1))) *ae-count*)`).
		probe("function-using-macro", `(progn (setq *ae-count* 0) (af-bump))`)
	// ---------------------------------------- calls a pretty printer layout has to cope with
	solo["inplace-lambda-call"] = true
	ext("inplace-lambda-call",
		`(defun il-fun (y) ((lambda (x) (+ x y)) 1))`,
		`(defvar *il-after* 5)`).
		probe("result", `(il-fun 2)`).probe("variable-after", `*il-after*`)
	solo["generic-empty-method-body"] = true
	ext("generic-empty-method-body",
		`(defgeneric em-gen (a))`, `(defmethod em-gen ((a fixnum)))`, `(defmethod em-gen ((a string)) (list a))`, `(defun em-fun ())`).
		probe("result", `(list (em-gen 1) (em-gen "s") (em-fun))`)
	// ------------------------------------------ generic functions: one lambda list per method
	ext("generic-qualifier-defaults",
		`(defvar *gd-trace* nil)`,
		`(defgeneric gd-gen (a &optional b))`,
		`(defmethod gd-gen ((a fixnum) &optional (b 7)) (setq *gd-trace* (cons (list 'primary b) *gd-trace*)) (list a b))`,
		`(defmethod gd-gen :before ((a fixnum) &optional (b 9)) (setq *gd-trace* (cons (list 'before b) *gd-trace*)))`,
		`(defmethod gd-gen :after ((a fixnum) &optional (b 11)) (setq *gd-trace* (cons (list 'after b) *gd-trace*)))`,
		`(defmethod gd-gen ((a string) &optional (b 8)) (list 'string a b))`).
		probe("defaults-of-every-qualifier", `(progn (setq *gd-trace* nil) (list (gd-gen 1) *gd-trace*))`).
		probe("argument-given", `(progn (setq *gd-trace* nil) (list (gd-gen 1 2) *gd-trace*))`).probe("other-method", `(gd-gen "s")`)
	ext("generic-qualifier-parameter-names",
		`(defvar *gn-trace* nil)`,
		`(defgeneric gn-gen (a))`,
		`(defmethod gn-gen ((a fixnum)) (list 'primary a))`,
		`(defmethod gn-gen :before ((x fixnum)) (setq *gn-trace* (list 'before x)))`,
		`(defmethod gn-gen ((p string)) (list 'string p))`).
		probe("qualifier-with-own-parameter-name", `(progn (setq *gn-trace* nil) (list (gn-gen 1) *gn-trace*))`).probe("other-method", `(gn-gen "s")`)
	ext("generic-accessor-and-user-method",
		`(defclass ga-class () ((s :initform 1 :accessor ga-acc :reader ga-read)))`,
		`(defmethod ga-acc ((x string)) (list 'string x))`,
		`(defmethod ga-read ((x fixnum)) (list 'fixnum x))`).
		probe("accessor-method", `(ga-acc (make-instance 'ga-class))`).probe("user-method", `(ga-acc "a")`).
		probe("setf-accessor", `(let ((i (make-instance 'ga-class))) (setf (ga-acc i) 4) (ga-acc i))`).
		probe("reader-method", `(ga-read (make-instance 'ga-class))`).probe("user-method-on-reader", `(ga-read 5)`)
	// --------------------------------------------------------------- closures
	// slip documents nothing about closures in a snapshot (docs/, design/generics.md "snapshot", the snapshot FuncDoc: "Objects
	// that can not be encoded such as streams are excluded"): a lambda's load form has no environment. Demanded: the function
	// is not lost (still defined, same lambda list); its result may be the unbound-variable error of the lost environment.
	ext("closure-defun", `(let ((n 10)) (defun clo-counter () (setq n (+ n 1))))`).
		defines("(defun clo-counter)").
		probe("closure-still-defined", `(fboundp 'clo-counter)`).
		lenient("closure-call", `(clo-counter)`, `^ERR unbound-variable$`)
	ext("closure-in-variable",
		`(defvar *clo-add* (let ((k 5)) (lambda (x) (+ x k))))`,
		`(defvar *plain-lambda* (lambda (x &optional (y 2)) (* x y)))`).
		probe("lambda-in-variable", `(funcall *plain-lambda* 4)`).probe("lambda-in-variable", `(funcall *plain-lambda* 4 5)`).
		probe("closure-still-a-function", `(functionp *clo-add*)`).
		lenient("closure-call", `(funcall *clo-add* 1)`, `^ERR unbound-variable$`)
	// --------------------------------------------------- lambda-list keywords
	ext("lambda-list-keywords",
		`(defun ll-opt (a &optional (b 2) c) (list a b c))`,
		`(defun ll-rest (a &rest r) (list a r))`,
		`(defun ll-key (a &key (k 1) j) (list a k j))`,
		`(defun ll-aok (a &key k &allow-other-keys) (list a k))`,
		`(defun ll-aux (a &aux (b (* a 2)) c) (list a b c))`,
		`(defun ll-opt-rest (a &optional (b 2) &rest r) (list a b r))`,
		`(defun ll-opt-key (a &optional (b 2) &key (k 3)) (list a b k))`,
		`(defun ll-none () 'none)`,
		`(defmacro ll-body (a &body body) (list 'list a (list 'quote body)))`,
		`(defmacro ll-mrest (a &rest r) (list 'list a (list 'quote r)))`,
		`(defmacro ll-mkey (a &key (k 5)) (list 'list a k))`).
		probe("optional", `(list (ll-opt 1) (ll-opt 1 5) (ll-opt 1 5 6))`).probe("rest", `(list (ll-rest 1) (ll-rest 1 2 3))`).
		probe("key", `(list (ll-key 1) (ll-key 1 :j 2) (ll-key 1 :k 3 :j 4))`).probe("allow-other-keys", `(list (ll-aok 1 :z 2 :k 3) (ll-aok 1))`).
		probe("aux", `(ll-aux 2)`).probe("optional-rest", `(list (ll-opt-rest 1) (ll-opt-rest 1 5 6 7))`).
		probe("optional-key", `(list (ll-opt-key 1) (ll-opt-key 1 5 :k 6))`).probe("no-arguments", `(ll-none)`).
		probe("macro-body", `(ll-body 1 x y)`).probe("macro-rest", `(ll-mrest 1 x)`).probe("macro-key", `(list (ll-mkey 1) (ll-mkey 1 :k 2))`).
		probe("too-many-arguments", `(ll-opt 1 2 3 4)`).probe("unknown-key", `(ll-key 1 :zz 2)`)
	// ------------------------------------------------------------- docstrings
	ext("doc-long",
		`(defun dl-fun (x) "Doc of dl-fun `+extLongDoc+`" (* x x))`,
		`(defmacro dl-mac (x) "Doc of dl-mac `+extLongDoc+`" (list '* x x))`,
		`(defvar *dl-var* 1 "Doc of dl-var `+extLongDoc+`")`,
		`(defconstant +dl-const+ 2 "Doc of dl-const `+extLongDoc+`")`,
		`(defflavor dl-flavor ((a 1)) () (:documentation "Doc of dl-flavor `+extLongDoc+`"))`,
		`(defclass dl-class () ((a :initform 1 :documentation "Doc of slot a `+extLongDoc+`")) (:documentation "Doc of dl-class `+extLongDoc+`"))`,
		`(defgeneric dl-gen (a) (:documentation "Doc of dl-gen `+extLongDoc+`"))`,
		`(defmethod dl-gen ((a fixnum)) "Doc of the method `+extLongDoc+`" (* a 2))`,
		`(defmethod (dl-flavor :m) () "Doc of the flavor method `+extLongDoc+`" a)`).
		probe("documentation", `(documentation 'dl-fun 'function)`).probe("documentation", `(documentation 'dl-mac 'function)`).
		probe("documentation", `(documentation '*dl-var* 'variable)`).probe("documentation", `(documentation '+dl-const+ 'variable)`).
		probe("documentation", `(documentation 'dl-flavor 'type)`).probe("documentation", `(documentation 'dl-class 'type)`).
		probe("documentation", `(documentation 'dl-gen 'function)`).probe("result", `(list (dl-fun 3) (dl-mac 3) (dl-gen 3) (send (make-instance 'dl-flavor) :m))`)
	ext("doc-paragraphs",
		"(defun dp-fun (x) \"Doc first line.\nSecond line here.\n\nThird paragraph.\" x)",
		"(defvar *dp-var* 1 \"Doc first line.\nSecond line here.\n\nThird paragraph.\")").
		probe("documentation", `(documentation 'dp-fun 'function)`).probe("documentation", `(documentation '*dp-var* 'variable)`).probe("result", `(dp-fun 1)`)
	ext("doc-empty",
		`(defun de-fun (x) "" (list x))`, `(defvar *de-var* 1 "")`, `(defmacro de-mac (x) "" (list 'list x))`).
		probe("documentation", `(documentation 'de-fun 'function)`).probe("documentation", `(documentation '*de-var* 'variable)`).
		probe("result", `(list (de-fun 1) (de-mac 2) *de-var*)`)
	// ------------------------------------------------------------- structures
	ext("defstruct",
		`(defstruct spt (x 1) (y nil) z)`,
		`(defstruct (spt3 (:include spt)) (w 4))`).
		probe("constructor-and-accessor", `(list (spt-x (make-spt)) (spt-y (make-spt :y 2)) (spt-z (make-spt)))`).
		probe("included-structure", `(list (spt3-w (make-spt3)) (spt3-x (make-spt3 :x 9)) (spt-p (make-spt3)))`).
		probe("copier-and-predicate", `(let ((s (make-spt :x 7))) (list (spt-x (copy-spt s)) (spt-p s) (spt-p 5)))`)
	ext("struct-instance-in-variable",
		`(defstruct svp (x 1) y)`,
		`(defvar *svp* (make-svp :x 5 :y '(1 "two")))`).
		probe("value", `(list (svp-x *svp*) (svp-y *svp*))`).probe("new-structure", `(svp-x (make-svp))`)
	// ------------------------------------------------------------- conditions
	ext("condition-instance-in-variable",
		`(define-condition cvc (error) ((x :initarg :x :initform 0) (note :initform nil)))`,
		`(defvar *cvc* (make-condition 'cvc :x 3))`).
		probe("value", `(list (slot-value *cvc* 'x) (slot-value *cvc* 'note) (typep *cvc* 'error))`).
		probe("new-condition", `(let ((c (make-condition 'cvc))) (list (slot-value c 'x) (slot-value c 'note)))`)
	// --------------------------------------------------------------- packages
	ext("user-package-definitions",
		`(defpackage :upa (:use :cl) (:export :a-fn :a-var))`,
		`(in-package :upa)`,
		`(defun a-fn (x) (* x 3))`,
		`(defvar a-var 5)`,
		`(defun a-internal (x) (+ x 1))`,
		`(in-package :cl-user)`).
		probe("exported-function", `(upa:a-fn 2)`).probe("exported-variable", `upa:a-var`).probe("internal-function", `(upa::a-internal 1)`).
		probe("not-in-user-package", `(fboundp 'a-internal)`).probe("export-status", `(multiple-value-list (find-symbol "a-fn" (find-package 'upa)))`)
	ext("user-package-uses-user-package",
		`(defpackage :upb (:use :cl) (:export :b-fn))`,
		`(in-package :upb)`,
		`(defun b-fn (x) (* x 3))`,
		`(in-package :cl-user)`,
		`(defpackage :upc (:use :cl :upb))`,
		`(in-package :upc)`,
		`(defun c-fn (x) (b-fn (+ x 1)))`,
		`(in-package :cl-user)`).
		probe("function-using-other-package", `(upc::c-fn 1)`).probe("use-list", `(mapcar 'package-name (package-use-list (find-package 'upc)))`)
	// the using package sorts before the package it uses
	ext("user-package-uses-later-package",
		`(defpackage :zzlib (:use :cl) (:export :lib-fn))`,
		`(in-package :zzlib)`,
		`(defun lib-fn (x) (* x 5))`,
		`(in-package :cl-user)`,
		`(defpackage :aaapp (:use :cl :zzlib))`,
		`(in-package :aaapp)`,
		`(defun app-fn (x) (lib-fn (+ x 1)))`,
		`(in-package :cl-user)`).
		probe("function-using-other-package", `(aaapp::app-fn 1)`).probe("use-list", `(mapcar 'package-name (package-use-list (find-package 'aaapp)))`)
	ext("use-package-into-user",
		`(defpackage :upd (:use :cl) (:export :d-val))`,
		`(defvar upd::d-val 9)`,
		`(use-package :upd)`).
		probe("inherited-symbol", `d-val`).probe("use-list", `(if (member "upd" (mapcar 'package-name (package-use-list (find-package 'cl-user))) :test 'equal) 'used 'not-used)`)
	ext("export-after-definition",
		`(defpackage :upe (:use :cl))`,
		`(in-package :upe)`,
		`(defvar e-var 3)`,
		`(export 'e-var)`,
		`(in-package :cl-user)`).
		probe("export-status", `(multiple-value-list (find-symbol "e-var" (find-package 'upe)))`).probe("value", `upe::e-var`)
	// ------------------------------------------------ variables of every kind
	ext("vars-scalars",
		`(defvar *sc-nil* nil)`, `(defvar *sc-t* t)`, `(defvar *sc-zero* 0)`, `(defvar *sc-empty* "")`, `(defvar *sc-char* #\a)`,
		`(defvar *sc-space* #\Space)`, `(defvar *sc-big* 18446744073709551617)`, `(defvar *sc-ratio* -2/3)`, `(defvar *sc-dbl* 0.1)`,
		`(defvar *sc-sgl* 2.5s0)`, `(defvar *sc-cplx* #C(1 2))`, `(defvar *sc-key* :key)`, `(defvar *sc-sym* 'some-symbol)`,
		`(defvar *sc-quote* '(quote x))`, `(defvar *sc-str* "a \"q\" \\ b")`, `(defvar *sc-unbound*)`, `(defparameter *sc-param-nil* nil)`).
		probe("nil", `*sc-nil*`).probe("t", `*sc-t*`).probe("zero", `*sc-zero*`).probe("empty-string", `*sc-empty*`).probe("character", `*sc-char*`).
		probe("character", `*sc-space*`).probe("bignum", `*sc-big*`).probe("ratio", `*sc-ratio*`).probe("double", `*sc-dbl*`).probe("single", `*sc-sgl*`).
		probe("complex", `*sc-cplx*`).probe("keyword", `*sc-key*`).probe("symbol", `*sc-sym*`).probe("quote-form", `*sc-quote*`).probe("string", `*sc-str*`).
		probe("unbound-variable", `(boundp '*sc-unbound*)`).probe("nil", `(list (boundp '*sc-param-nil*) *sc-param-nil*)`).
		mayOmit("*sc-unbound*")
	ext("vars-shared-structure",
		`(defvar *sh1* (list 1 (list 2 3) "s"))`, `(defvar *sh2* *sh1*)`, `(defvar *sh3* (cdr *sh1*))`,
		`(defvar *sh4* (let ((v (vector 1 2))) (list v v)))`).
		probe("value", `*sh1*`).probe("value", `*sh2*`).probe("value", `*sh3*`).probe("value", `*sh4*`).probe("equal", `(list (equal *sh1* *sh2*) (equal (cdr *sh2*) *sh3*))`)
	ext("vars-hash-tables",
		`(defvar *hq* (let ((h (make-hash-table :test 'equal :size 50))) (setf (gethash "a" h) 1) (setf (gethash 'sym h) '(1 2)) (setf (gethash 3 h) 'val) (setf (gethash :k h) nil) (setf (gethash #\c h) t) h))`,
		`(defvar *hn* (let ((h (make-hash-table)) (g (make-hash-table))) (setf (gethash 1 g) "inner") (setf (gethash :g h) g) (setf (gethash :l h) (list g 2)) h))`,
		`(defvar *h0* (make-hash-table))`).
		probe("entries", `(list (gethash "a" *hq*) (gethash 'sym *hq*) (gethash 3 *hq*) (multiple-value-list (gethash :k *hq*)) (gethash #\c *hq*) (hash-table-count *hq*))`).
		probe("test", `(hash-table-test *hq*)`).probe("nested-table", `(list (gethash 1 (gethash :g *hn*)) (gethash 1 (car (gethash :l *hn*))) (hash-table-count *hn*))`).
		probe("empty-table", `(list (hash-table-p *h0*) (hash-table-count *h0*))`)
	ext("vars-vectors",
		`(defvar *va-adj* (make-array 3 :adjustable t :initial-contents '(1 2 3)))`,
		`(defvar *va-fix* (make-array 3 :adjustable nil :initial-contents '(1 2 3)))`,
		`(defvar *va-fill* (make-array 5 :fill-pointer 2 :initial-contents '(1 2 3 4 5)))`,
		`(defvar *va-type* (make-array 3 :element-type 'fixnum :initial-contents '(1 2 3)))`,
		`(defvar *va-empty* (vector))`, `(defvar *va-oct* (coerce '(1 2 255) 'octets))`, `(defvar *va-bit* #*10110)`,
		`(defvar *va-mixed* (vector 1 "a" 'sym '(1 2) #\c nil))`).
		probe("adjustable", `(list *va-adj* (adjustable-array-p *va-adj*))`).probe("not-adjustable", `(list *va-fix* (adjustable-array-p *va-fix*))`).
		probe("fill-pointer", `(list *va-fill* (fill-pointer *va-fill*) (array-dimension *va-fill* 0))`).probe("fill-pointer", `(progn (vector-push 9 *va-fill*) *va-fill*)`).
		probe("element-type", `(list *va-type* (array-element-type *va-type*))`).probe("empty", `*va-empty*`).
		probe("octets", `*va-oct*`).probe("bit-vector", `*va-bit*`).probe("mixed-elements", `*va-mixed*`)
	ext("vars-arrays",
		`(defvar *ar-22* (make-array '(2 2) :initial-contents '((1 a) ("s" 4))))`,
		`(defvar *ar-232* (make-array '(2 3 2) :initial-contents '(((1 2) (3 4) (5 6)) ((7 8) (9 10) (11 12)))))`,
		`(defvar *ar-adj* (make-array '(2 2) :adjustable t :initial-contents '((1 2) (3 4))))`,
		`(defvar *ar-fix* (make-array '(2 2) :element-type 'fixnum :initial-contents '((1 2) (3 4))))`).
		probe("two-dimensional", `(list (aref *ar-22* 0 1) (aref *ar-22* 1 0) (array-dimensions *ar-22*))`).
		probe("three-dimensional", `(list (aref *ar-232* 1 2 1) (array-dimensions *ar-232*))`).
		probe("adjustable", `(list (aref *ar-adj* 1 1) (adjustable-array-p *ar-adj*))`).probe("element-type", `(list (aref *ar-fix* 1 0) (array-element-type *ar-fix*))`)
	ext("vars-flavor-instances-linked",
		`(defflavor lnode ((next nil) (val 0)) () :gettable-instance-variables :settable-instance-variables :inittable-instance-variables)`,
		`(defvar *ln1* (make-instance 'lnode :val 1))`,
		`(defvar *ln2* (make-instance 'lnode :val 2 :next *ln1*))`,
		`(defvar *ln-list* (list *ln1* (make-instance 'lnode :val 3)))`).
		probe("value", `(list (send *ln1* :val) (send *ln1* :next) (send *ln2* :val))`).probe("instance-in-instance", `(send (send *ln2* :next) :val)`).
		probe("instance-in-list", `(mapcar (lambda (i) (send i :val)) *ln-list*)`).probe("new-instance", `(let ((i (make-instance 'lnode))) (list (send i :next) (send i :val)))`)
	ext("vars-clos-instances-linked",
		`(defclass cnode () ((next :initform nil :initarg :next) (val :initform 0 :initarg :val)))`,
		`(defvar *cn1* (make-instance 'cnode :val 1))`,
		`(defvar *cn2* (make-instance 'cnode :val 2 :next *cn1*))`,
		`(defvar *cn-list* (list *cn1* (make-instance 'cnode :val 3)))`).
		probe("value", `(list (slot-value *cn1* 'val) (slot-value *cn1* 'next) (slot-value *cn2* 'val))`).
		probe("instance-in-instance", `(slot-value (slot-value *cn2* 'next) 'val)`).
		probe("instance-in-list", `(mapcar (lambda (i) (slot-value i 'val)) *cn-list*)`).
		probe("new-instance", `(let ((i (make-instance 'cnode))) (list (slot-boundp i 'next) (slot-value i 'next) (slot-value i 'val)))`)
	ext("vars-bag",
		`(defvar *bg* (make-bag "{a:1 b:[1 2 true null] c:{d:\"x\"}}"))`,
		`(defvar *bg-after* 77)`).
		probe("bag-content", `(bag-write *bg*)`).probe("bag-content", `(bag-get *bg* "b[1]")`).probe("variable-after", `*bg-after*`)
	ext("vars-time",
		`(defvar *tm* (make-time 2024 1 2 3 4 5))`,
		`(defvar *tm-list* (list (make-time 2001 2 3 4 5 6) "s"))`).
		probe("time-value", `(format nil "~A" *tm*)`).probe("time-in-list", `(format nil "~A" *tm-list*)`)
	ext("vars-nested-special",
		`(defvar *ns-fill* (list 'a (make-array 4 :fill-pointer 2 :initial-contents '(1 2 3 4))))`,
		`(defvar *ns-hash* (list 'b (let ((h (make-hash-table))) (setf (gethash :k h) 1) h)))`,
		`(defvar *ns-arr* (vector 1 (make-array '(2 2) :initial-contents '((1 2) (3 4)))))`,
		`(defvar *ns-cons* (cons 1 (cons "two" 'three)))`).
		probe("fill-pointer-in-list", `(list (cadr *ns-fill*) (fill-pointer (cadr *ns-fill*)))`).probe("table-in-list", `(gethash :k (cadr *ns-hash*))`).
		probe("array-in-vector", `(aref (aref *ns-arr* 1) 1 0)`).probe("dotted-list", `*ns-cons*`)
	ext("vars-functions",
		`(defun vf-double (x) (* x 2))`,
		`(defvar *vf-name* 'vf-double)`,
		`(defvar *vf-fn* (function vf-double))`,
		`(defvar *vf-builtin* (function car))`).
		probe("function-name-in-variable", `(funcall *vf-name* 4)`).probe("function-in-variable", `(funcall *vf-fn* 4)`).probe("builtin-in-variable", `(funcall *vf-builtin* '(1 2))`)
	// instances that refer to each other in a cycle: the snapshot recurses without end on the tree as it is (a fatal Go
	// stack overflow, the process dies): sessions of their own
	solo["vars-flavor-instances-cyclic"] = true
	ext("vars-flavor-instances-cyclic",
		`(defflavor ynode ((next nil) (val 0)) () :gettable-instance-variables :settable-instance-variables :inittable-instance-variables)`,
		`(defvar *yn1* (make-instance 'ynode :val 1))`,
		`(defvar *yn2* (make-instance 'ynode :val 2 :next *yn1*))`,
		`(send *yn1* :set-next *yn2*)`).
		probe("cycle", `(list (send *yn1* :val) (send (send *yn1* :next) :val) (send (send (send *yn1* :next) :next) :val))`).
		probe("cycle-closed", `(eq (send (send *yn1* :next) :next) *yn1*)`)
	solo["vars-clos-instances-cyclic"] = true
	thoroughOnly["vars-clos-instances-cyclic"] = true
	ext("vars-clos-instances-cyclic",
		`(defclass ycn () ((next :initform nil :initarg :next) (val :initform 0 :initarg :val)))`,
		`(defvar *yc1* (make-instance 'ycn :val 1))`,
		`(defvar *yc2* (make-instance 'ycn :val 2 :next *yc1*))`,
		`(setf (slot-value *yc1* 'next) *yc2*)`).
		probe("cycle", `(list (slot-value *yc1* 'val) (slot-value (slot-value *yc1* 'next) 'val))`).
		probe("cycle-closed", `(eq (slot-value (slot-value *yc1* 'next) 'next) *yc1*)`)
	// ------------------------- values without a load form: skipped or refused, the rest of the session kept
	noForm := func(id, mk string) {
		v := "*nf-" + id + "*"
		unencodable["vars-unencodable-"+id] = true
		b := ext("vars-unencodable-"+id,
			`(defvar *nf-before-`+id+`* 11)`,
			`(defvar `+v+` `+mk+`)`,
			`(defvar *nf-list-`+id+`* (list 1 `+mk+`))`,
			`(defun nf-fun-`+id+` (x) (+ x 1))`,
			`(defvar *zz-after-`+id+`* 77)`).
			mayOmit(v, "*nf-list-"+id+"*").
			probe("variable-before", `*nf-before-`+id+`*`).probe("variable-after", `*zz-after-`+id+`*`).probe("function", `(nf-fun-`+id+` 1)`).
			lenient("value-without-load-form", `(if (boundp '`+v+`) 'bound 'unbound)`, `^unbound$`).
			lenient("value-without-load-form", `(if (boundp '*nf-list-`+id+`*) 'bound 'unbound)`, `^unbound$`)
		// one defect whatever the kind of the value: the kind is not part of the signature
		b.meta.sig = "vars-unencodable"
	}
	noForm("stream", `(make-string-output-stream)`)
	noForm("channel", `(make-channel 2)`)
	noForm("mutex", `(make-mutex)`)
	noForm("input-stream", `(make-string-input-stream "abc")`)
}

// extPlain: the extended menu without the items whose values have no load form.
func extPlain() (out []*item) {
	for _, it := range extItems {
		if !unencodable[it.id] && !solo[it.id] {
			out = append(out, it)
		}
	}
	return
}

// extAll: the extended menu without the solo items.
func extAll() (out []*item) {
	for _, it := range extItems {
		if !solo[it.id] {
			out = append(out, it)
		}
	}
	return
}

func idsOf(its []*item) (ids []string) {
	for _, it := range its {
		ids = append(ids, it.id)
	}
	return
}
