package eval

// more.go: the remaining body-bearing forms an exit can cross. Each is written out the boring way, from the
// language definition (CLHS: case/ecase/typecase/etypecase, and, or, prog, prog*, prog1, prog2, progv,
// multiple-value-bind, multiple-value-prog1, the simple loop, do-symbols, do-external-symbols, with-output-to-string,
// with-input-from-string, with-open-stream, with-standard-io-syntax, with-slots, defmethod) or from the FuncDoc text
// of the slip-only forms (dovector, with-input-from-octets, with-zip-reader, with-zip-writer, defflavor, the flavors
// defmethod, defwhopper, send, continue-whopper). Nothing here knows about exit markers: an exit is a Go panic that
// simply passes through these functions (a cleanup, where one is defined, is a defer).

import (
	"strings"
)

// Opaque is a value of which only the kind matters here (a stream, octets, an instance).
type Opaque struct{ Kind string }

// Package is what do-symbols and do-external-symbols iterate over.
type Package struct {
	Name     string
	Symbols  []string // all symbols, sorted
	External []string // the exported ones, sorted
}

// Instance is the result of make-instance.
type Instance struct{ Class string }

// multi is the result of (values ...); only multiple-value-bind looks inside.
type multi []Value

func primary(v Value) Value {
	if m, ok := v.(multi); ok {
		if len(m) == 0 {
			return nil
		}
		return m[0]
	}
	return v
}

type whopFrame struct {
	primary *Closure
	args    []Value
}

// body evaluates the body forms of the named form (an implicit progn).
func (in *Interp) body(form string, forms []Node, e *env) (v Value) {
	if in.Mut.SwallowIn != form {
		return in.progn(forms, e)
	}
	for _, f := range forms {
		v = in.swallowExit(f, e)
	}
	return
}

// loopBody evaluates the body of an iteration form once (an implicit tagbody).
func (in *Interp) loopBody(form string, stmts []Node, e *env) {
	if in.Mut.DropsGo != form {
		in.tagbody(stmts, e)
		return
	}
	// mutated: as tagbody, but a go to a tag of an enclosing tagbody is dropped
	fr := &tagFrame{tags: map[string]int{}, active: true}
	for i, s := range stmts {
		if _, isList := s.(List); isList {
			continue
		}
		if tt, ok := tagText(s); ok {
			if _, dup := fr.tags[tt]; !dup {
				fr.tags[tt] = i
			}
		}
	}
	ne := &env{parent: e, tags: fr}
	defer func() { fr.active = false }()
	for pc := 0; pc < len(stmts); {
		pc = in.droppingSegment(stmts, pc, ne, fr)
	}
}

func (in *Interp) droppingSegment(stmts []Node, pc int, e *env, fr *tagFrame) (next int) {
	defer func() {
		if r := recover(); r != nil {
			if g, ok := r.(*goExit); ok {
				if g.frame == fr {
					next = g.index
				} else {
					next = pc + 1
				}
				return
			}
			panic(r)
		}
	}()
	if l, isList := stmts[pc].(List); isList {
		in.eval(l, e)
	}
	return pc + 1
}

// sameKey compares a case key with the value of the key form (numbers, symbols, strings, nil).
func sameKey(a, b Value) bool {
	switch x := a.(type) {
	case nil:
		l, isList := b.([]Value)
		return b == nil || (isList && len(l) == 0)
	case int64:
		y, ok := b.(int64)
		return ok && x == y
	case Sym:
		y, ok := b.(Sym)
		return ok && x == y
	case string:
		y, ok := b.(string)
		return ok && x == y
	case tType:
		_, ok := b.(tType)
		return ok
	}
	return false
}

func symName(n Node) string { return strings.ToLower(string(n.(Sym))) }

// bindings evaluates a let-style binding list into a new environment.
func (in *Interp) bindings(spec Node, e *env, sequential bool) *env {
	ne := &env{parent: e, vars: map[string]*cell{}}
	if spec == nil {
		return ne
	}
	for _, b := range spec.(List) {
		var name string
		var init Node
		switch bt := b.(type) {
		case Sym:
			name = symName(bt)
		case List:
			name = symName(bt[0])
			if 1 < len(bt) {
				init = bt[1]
			}
		}
		if sequential {
			ne.vars[name] = &cell{primary(in.eval(init, ne))}
		} else {
			ne.vars[name] = &cell{primary(in.eval(init, e))}
		}
	}
	return ne
}

func typeMatches(typ string, v Value) bool {
	switch typ {
	case "t", "otherwise":
		return true
	}
	switch t := v.(type) {
	case nil:
		return typ == "null" || typ == "symbol" || typ == "list" || typ == "sequence"
	case tType:
		return typ == "symbol" || typ == "boolean"
	case int64:
		return typ == "fixnum" || typ == "integer" || typ == "rational" || typ == "real" || typ == "number"
	case string:
		return typ == "string" || typ == "vector" || typ == "array" || typ == "sequence"
	case Sym:
		if strings.HasPrefix(string(t), ":") {
			return typ == "keyword" || typ == "symbol"
		}
		return typ == "symbol"
	case []Value:
		if len(t) == 0 {
			return typ == "null" || typ == "symbol" || typ == "list" || typ == "sequence"
		}
		return typ == "cons" || typ == "list" || typ == "sequence"
	}
	return false
}

// with evaluates a (with-... (var form...) body...) shaped form: the forms after var are evaluated, var is bound
// to an opaque object of the given kind, the body is an implicit progn.
func (in *Interp) with(form, kind string, args []Node, e *env) Value {
	spec := args[0].(List)
	for _, a := range spec[1:] {
		in.eval(a, e)
	}
	ne := &env{parent: e, vars: map[string]*cell{symName(spec[0]): {&Opaque{kind}}}}
	return in.body(form, args[1:], ne)
}

// iterate runs body once per item with var bound to it (a nil block around all of it, the body a tagbody).
func (in *Interp) iterate(form string, spec List, items []Value, body []Node, be *env) Value {
	name := symName(spec[0])
	for _, it := range items {
		ne := &env{parent: be, vars: map[string]*cell{name: {it}}}
		in.loopBody(form, body, ne)
	}
	ne := &env{parent: be, vars: map[string]*cell{name: {nil}}}
	if 2 < len(spec) {
		return in.eval(spec[2], ne)
	}
	return nil
}

func (in *Interp) evalMore(name string, args List, e *env) (Value, bool) {
	switch name {
	case "and":
		var v Value = T
		for i, a := range args {
			if in.Mut.SwallowIn == "and" {
				v = in.swallowExitAs(a, e, T)
			} else {
				v = in.eval(a, e)
			}
			if i == len(args)-1 {
				break // the values of the last form are the values of and, whatever they are
			}
			if !truthy(primary(v)) {
				return nil, true
			}
		}
		return v, true
	case "or":
		for i, a := range args {
			var v Value
			if in.Mut.SwallowIn == "or" {
				v = in.swallowExit(a, e)
			} else {
				v = in.eval(a, e)
			}
			if truthy(primary(v)) || i == len(args)-1 {
				return v, true // the values of the last form are the values of or, whatever they are
			}
		}
		return nil, true
	case "prog1", "multiple-value-prog1":
		var v Value
		if in.Mut.SwallowIn == name {
			v = in.swallowExit(args[0], e)
		} else {
			v = in.eval(args[0], e)
		}
		in.body(name, args[1:], e)
		return v, true
	case "prog2":
		in.body(name, args[:1], e)
		var v Value
		if in.Mut.SwallowIn == name {
			v = in.swallowExit(args[1], e)
		} else {
			v = in.eval(args[1], e)
		}
		in.body(name, args[2:], e)
		return primary(v), true
	case "case", "ecase":
		key := primary(in.eval(args[0], e))
		for _, c := range args[1:] {
			clause := c.(List)
			hit := false
			switch k := clause[0].(type) {
			case List:
				for _, x := range k {
					hit = hit || sameKey(quoteValue(x), key)
				}
			case Sym:
				kn := strings.ToLower(string(k))
				if name == "case" && (kn == "t" || kn == "otherwise") {
					hit = true
				} else {
					hit = sameKey(quoteValue(k), key)
				}
			default:
				hit = sameKey(quoteValue(k), key)
			}
			if hit {
				return in.body(name, clause[1:], e), true
			}
		}
		if name == "ecase" {
			in.signal("type-error", "ecase: no clause for %s", Show(key))
		}
		return nil, true
	case "typecase", "etypecase":
		key := primary(in.eval(args[0], e))
		for _, c := range args[1:] {
			clause := c.(List)
			if typeMatches(symName(clause[0]), key) {
				return in.body(name, clause[1:], e), true
			}
		}
		if name == "etypecase" {
			in.signal("type-error", "etypecase: no clause for %s", Show(key))
		}
		return nil, true
	case "prog", "prog*":
		return in.block("", e, func(be *env) Value {
			ne := in.bindings(args[0], be, name == "prog*")
			in.loopBody(name, args[1:], ne)
			return nil
		}), true
	case "progv":
		syms, _ := in.eval(args[0], e).([]Value)
		vals, _ := in.eval(args[1], e).([]Value)
		ne := &env{parent: e, vars: map[string]*cell{}}
		for i, s := range syms {
			var v Value
			if i < len(vals) {
				v = vals[i]
			}
			ne.vars[string(s.(Sym))] = &cell{v}
		}
		return in.body(name, args[2:], ne), true
	case "values":
		return multi(in.evalArgs(args, e)), true
	case "multiple-value-bind":
		var vals []Value
		switch t := in.eval(args[1], e).(type) {
		case multi:
			vals = t
		default:
			vals = []Value{t}
		}
		ne := &env{parent: e, vars: map[string]*cell{}}
		if args[0] != nil {
			for i, s := range args[0].(List) {
				var v Value
				if i < len(vals) {
					v = vals[i]
				}
				ne.vars[symName(s)] = &cell{v}
			}
		}
		return in.body(name, args[2:], ne), true
	case "loop":
		// the simple loop: a nil block around the forms, over and over
		return in.blockL("", true, e, func(be *env) Value {
			for {
				in.Steps--
				if in.Steps < 0 {
					panic(Budget{})
				}
				if in.Mut.DropsGo == "loop" {
					for _, f := range args {
						in.swallowGo(f, be)
					}
					continue
				}
				in.progn(args, be)
			}
		}), true
	case "dovector":
		spec := args[0].(List)
		return in.blockL("", true, e, func(be *env) Value {
			items, _ := in.eval(spec[1], be).([]Value)
			return in.iterate(name, spec, items, args[1:], be)
		}), true
	case "do-symbols", "do-external-symbols":
		spec := args[0].(List)
		return in.blockL("", true, e, func(be *env) Value {
			pk, ok := in.eval(spec[1], be).(*Package)
			if !ok {
				in.signal("type-error", "%s needs a package", name)
			}
			names := pk.Symbols
			if name == "do-external-symbols" {
				names = pk.External
			}
			items := make([]Value, len(names))
			for i, n := range names {
				items[i] = Sym(n)
			}
			return in.iterate(name, spec, items, args[1:], be)
		}), true
	case "with-output-to-string":
		in.with(name, "string-output-stream", args, e)
		return "", true // nothing is ever written by the programs of this harness
	case "with-input-from-string":
		return in.with(name, "string-input-stream", args, e), true
	case "with-open-stream":
		return in.with(name, "stream", args, e), true
	case "with-input-from-octets":
		return in.with(name, "input-stream", args, e), true
	case "with-zip-reader":
		return in.with(name, "input-stream", args, e), true
	case "with-zip-writer":
		in.with(name, "output-stream", args, e)
		return nil, true
	case "with-standard-io-syntax":
		return in.body(name, args, e), true
	case "with-slots":
		in.eval(args[1], e)
		ne := &env{parent: e, vars: map[string]*cell{}}
		if args[0] != nil {
			for _, en := range args[0].(List) {
				switch t := en.(type) {
				case Sym:
					ne.vars[symName(t)] = &cell{&Opaque{"slot"}}
				case List:
					ne.vars[symName(t[0])] = &cell{&Opaque{"slot"}}
				}
			}
		}
		return in.body(name, args[2:], ne), true
	case "make-string-input-stream", "make-string-output-stream":
		in.evalArgs(args, e)
		return &Opaque{name[5:]}, true
	case "defflavor", "defclass":
		return Sym(symName(args[0])), true
	case "make-instance":
		vals := in.evalArgs(args, e)
		cls, _ := vals[0].(Sym)
		return &Instance{Class: string(cls)}, true
	case "defmethod":
		if spec, isList := args[0].(List); isList {
			// flavors: (defmethod (flavor :message) (params) body...) - no block of its own
			key := "method " + symName(spec[0]) + " " + symName(spec[len(spec)-1])
			in.Funcs[key] = &Closure{Params: paramNames(args[1]), Body: args[2:], env: e}
			return nil, true
		}
		// generic: (defmethod name ((var class)...) body...) - the body is in a block named name
		fname := symName(args[0])
		var params []string
		if args[1] != nil {
			for _, p := range args[1].(List) {
				switch t := p.(type) {
				case Sym:
					params = append(params, symName(t))
				case List:
					params = append(params, symName(t[0]))
				}
			}
		}
		in.Funcs[fname] = &Closure{Name: fname, Params: params, Body: args[2:], env: e}
		return nil, true
	case "defwhopper":
		spec := args[0].(List)
		key := "whopper " + symName(spec[0]) + " " + symName(spec[len(spec)-1])
		in.Funcs[key] = &Closure{Params: paramNames(args[1]), Body: args[2:], env: e}
		return nil, true
	case "send":
		vals := in.evalArgs(args, e)
		inst, ok := vals[0].(*Instance)
		if !ok {
			in.signal("type-error", "send needs an instance")
		}
		msg, _ := vals[1].(Sym)
		prim := in.Funcs["method "+inst.Class+" "+string(msg)]
		if prim == nil {
			in.signal("error", "%s is not a method of %s", msg, inst.Class)
		}
		if wh := in.Funcs["whopper "+inst.Class+" "+string(msg)]; wh != nil {
			in.whoppers = append(in.whoppers, whopFrame{prim, vals[2:]})
			defer func() { in.whoppers = in.whoppers[:len(in.whoppers)-1] }()
			return in.apply(wh, vals[2:]), true
		}
		return in.apply(prim, vals[2:]), true
	case "continue-whopper":
		if len(in.whoppers) == 0 {
			in.signal("error", "continue-whopper outside of a whopper")
		}
		top := in.whoppers[len(in.whoppers)-1]
		cargs := top.args
		if 0 < len(args) {
			cargs = in.evalArgs(args, e)
		}
		// the primary method runs outside of the whopper's own frame
		saved := in.whoppers
		in.whoppers = in.whoppers[:len(in.whoppers)-1]
		defer func() { in.whoppers = saved }()
		return in.apply(top.primary, cargs), true
	}
	return nil, false
}

// swallowExitAs is swallowExit with a chosen value for a swallowed exit.
func (in *Interp) swallowExitAs(f Node, e *env, instead Value) (v Value) {
	defer func() {
		if r := recover(); r != nil {
			switch r.(type) {
			case *blockExit, *goExit:
				v = instead
			default:
				panic(r)
			}
		}
	}()
	return in.eval(f, e)
}

func (in *Interp) swallowGo(f Node, e *env) {
	defer func() {
		if r := recover(); r != nil {
			if _, ok := r.(*goExit); !ok {
				panic(r)
			}
		}
	}()
	in.eval(f, e)
}
