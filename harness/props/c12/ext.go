package c12

import (
	"fmt"
	"strconv"
	"strings"
)

// ext.go: the extended probes of a case with flag x (observation + oracle).
//
//	B|i        (subtypep 'ci 'cj) for every class of the case
//	I|i|sigma  the :after methods of shared-initialize and initialize-instance run by make-instance (one per class, each logs the slots it sees)
//	O|i|slot   slot-makunbound, the reader on the unbound slot, (setf slot-value), with-slots read and setq on one of two instances
//	K|i|slot   a slot whose most specific declaration says :allocation :class: written through one instance, read through another
//	X|i|j      (change-class <instance of ci> 'cj): class-of, typep, dispatch and slots afterwards
//	W|i        the instance of ci made BEFORE the redefinition (warm cases): class-of, its class' precedence list, typep, dispatch
//
// g has, per class, an :around (calls the next method), a :before, a primary and an :after method in these cases.

type judgeCtx struct {
	ext       bool
	redef     int    // the redefined class, -1 if none
	redefKind string // what the redefinition changes
}

func usable(o obsMap, i int) bool { return o[fmt.Sprintf("M|%d|-", i)] == "ok" }

func observeExt(w world, defs []classDef, o obsMap) {
	n := len(defs)
	for i := 0; i < n; i++ {
		if !usable(o, i) {
			continue // reported through P / M
		}
		o[fmt.Sprintf("B|%d", i)] = w.subtypeps(i, n)
		as := accSigma(defs, i)
		for _, sigma := range [][]string{nil, as} {
			key := fmt.Sprintf("I|%d|%s", i, sigmaText(sigma))
			if _, done := o[key]; done {
				continue
			}
			if h, res := w.makeLogged(i, sigma); res == "ok" {
				o[key] = w.initTrace(h)
			}
		}
		for _, sl := range slotNames {
			if !slotExists(defs, i, sl) {
				continue
			}
			hx, r1 := w.make(i, as)
			hy, r2 := w.make(i, as)
			if r1 != "ok" || r2 != "ok" {
				break
			}
			o[fmt.Sprintf("O|%d|%s", i, sl)] = w.slotops(hx, hy, sl)
			if expectSlot(defs, canonPrec(defs, i), sl, nil).shared {
				var others []int
				var js []string
				for j := 0; j < n; j++ {
					if j != i && usable(o, j) {
						if h, res := w.make(j, nil); res == "ok" {
							others = append(others, h)
							js = append(js, strconv.Itoa(j))
						}
					}
				}
				hx, r1 = w.make(i, nil)
				hy, r2 = w.make(i, nil)
				if r1 == "ok" && r2 == "ok" {
					o[fmt.Sprintf("K|%d|%s", i, sl)] = "others=" + strings.Join(js, ",") + ";" + w.share(hx, hy, others, sl, i)
				}
			}
		}
		for j := 0; j < n; j++ {
			if j == i || !usable(o, j) {
				continue
			}
			h, res := w.make(i, as)
			if res != "ok" {
				continue
			}
			before := strings.Join(w.slots(h), ",")
			key := fmt.Sprintf("X|%d|%d", i, j)
			o[key] = "before=" + before + ";" + w.changeClass(h, j, n)
		}
	}
	for i := 0; i < n; i++ {
		h, ok := w.oldInst(i)
		if !ok {
			continue
		}
		cof, prec, tp, sl := w.classOf(h, i), w.precOf(h), w.typeps(h, n), strings.Join(w.slots(h), ",")
		d1 := w.dispatch(h) // the effective method of the class name was computed for an instance made after the redefinition (D|i)
		w.flushDispatch()
		d2 := w.dispatch(h) // ... is computed for this instance
		d3 := "-"
		if usable(o, i) {
			if hn, res := w.make(i, nil); res == "ok" {
				d3 = w.dispatch(hn) // a new instance, called after the old one
			}
		}
		o[fmt.Sprintf("W|%d", i)] = fmt.Sprintf("cof=%s;prec=%s;typep=%s;slots=%s;d1=%s;d2=%s;d3=%s", cof, prec, tp, sl, d1, d2, d3)
	}
}

func fields(obs string) map[string]string {
	f := map[string]string{}
	for _, part := range strings.Split(obs, ";") {
		kv := strings.SplitN(part, "=", 2)
		if len(kv) == 2 {
			f[kv[0]] = kv[1]
		}
	}
	return f
}

// expectedDispatch: what a call of g on an instance whose class has the precedence list `listed` (classes of the case only) gives.
func expectedDispatch(listed []string, ext bool) string {
	if len(listed) == 0 {
		return "val=? trace="
	}
	if !ext {
		return "val=" + listed[0] + " trace=" + strings.Join(listed, ",")
	}
	var tr []string
	for _, c := range listed {
		tr = append(tr, "r-"+c)
	}
	for _, c := range listed {
		tr = append(tr, "b-"+c)
	}
	for k := len(listed) - 1; 0 <= k; k-- {
		tr = append(tr, "a-"+listed[k])
	}
	return "val=" + listed[0] + " trace=" + strings.Join(tr, ",")
}

// caseClasses: the classes of the case in a precedence list, in order.
func caseClasses(prec string) (out []string, ok bool) {
	tok, ok := parsePrec(prec)
	if !ok {
		return nil, false
	}
	for _, t := range tok {
		if len(t) == 2 && t[0] == 'c' && '0' <= t[1] && t[1] <= '9' {
			out = append(out, t)
		}
	}
	return out, true
}

func typepWant(listed []string, n int) string {
	var out []string
	for j := 0; j < n; j++ {
		v := "nil"
		if inList(cname(j), listed) {
			v = "t"
		}
		out = append(out, cname(j)+"="+v)
	}
	return strings.Join(out, " ")
}

func allocText(shared bool) string {
	if shared {
		return "class"
	}
	return "instance"
}

// judgeExt applies the oracle to the extended observations of class i.
func judgeExt(defs []classDef, o obsMap, i int, order []int, pobs string, listedClasses []string, jc judgeCtx,
	add func(key string, cls int, aspect, kind, extra, detail string)) {
	n := len(defs)
	// ---- subtypep agrees with the precedence list
	if bobs, has := o[fmt.Sprintf("B|%d", i)]; has {
		key := fmt.Sprintf("B|%d", i)
		if isErr(bobs) {
			kind := "error"
			if isGoFault(bobs) {
				kind = "go-fault"
			}
			add(key, i, "subtypep", kind, "", fmt.Sprintf("(subtypep '%s ...) => %s", cname(i), bobs))
		} else {
			anc, _ := ancestors(defs, nil, i)
			for _, f := range strings.Fields(bobs) {
				kv := strings.SplitN(f, "=", 2)
				want := "nil"
				if inList(kv[0], listedClasses) {
					want = "t"
				}
				if kv[1] != want {
					j, _ := strconv.Atoi(kv[0][1:])
					kind := "false-for-listed-class"
					if want == "nil" {
						kind = "true-for-unlisted-class"
					}
					add(key, i, "subtypep", kind, "target="+relTo(defs, i, j, anc),
						fmt.Sprintf("(subtypep '%s '%s) => %s but class-precedence of %s = %s", cname(i), kv[0], kv[1], cname(i), pobs))
					break
				}
			}
		}
	}
	// ---- :after methods of shared-initialize and initialize-instance
	var wantInit []string
	for _, p := range []string{"sh-", "in-"} {
		for k := len(listedClasses) - 1; 0 <= k; k-- {
			wantInit = append(wantInit, p+listedClasses[k])
		}
	}
	for _, sigma := range [][]string{nil, accSigma(defs, i)} {
		key := fmt.Sprintf("I|%d|%s", i, sigmaText(sigma))
		iobs, has := o[key]
		if !has {
			continue
		}
		if isErr(iobs) {
			add(key, i, "init-methods", "error", "", fmt.Sprintf("make-instance of %s with :after methods on initialize-instance: %s", cname(i), iobs))
			continue
		}
		p := strings.SplitN(iobs, " saw=", 2)
		var got []string
		if p[0] != "" {
			got = strings.Split(p[0], ",")
		}
		kind := ""
		switch {
		case strings.Join(got, ",") == strings.Join(wantInit, ","):
			if len(p) == 2 && p[1] != "final" {
				kind = "after-method-saw-slots-not-yet-filled"
			}
		case sameSet(got, wantInit):
			kind = "after-methods-order"
		default:
			kind = "after-method-of-listed-class-not-run"
			for _, g := range got {
				if !inList(g, wantInit) {
					kind = "after-method-of-unlisted-class-run"
				}
			}
		}
		if kind != "" {
			add(key, i, "init-methods", kind, "", fmt.Sprintf("(make-instance '%s%s) ran %s; the precedence list %s requires %s, each seeing the slots as make-instance leaves them",
				cname(i), sigmaArgs(sigma), iobs, pobs, strings.Join(wantInit, ",")))
		}
	}
	// ---- slot operations
	for idx, sl := range slotNames {
		key := fmt.Sprintf("O|%d|%s", i, sl)
		oobs, has := o[key]
		if !has || !expectSlot(defs, order, sl, nil).exists {
			continue
		}
		w := expectSlot(defs, order, sl, nil)
		extra := "slot-decl=" + declRel(defs, i, sl)
		if w.shared {
			extra += " allocation=class"
		}
		if kind, detail := judgeSlotops(oobs, idx, w.shared); kind != "" {
			if classAlloc(defs, order, sl) {
				add(key, i, "class-slot", "slot-ops-"+kind, "effective-allocation="+allocText(w.shared),
					fmt.Sprintf("slot %s of an instance of %s: %s (%s)", sl, cname(i), detail, oobs))
			} else {
				add(key, i, "slot-ops", kind, extra, fmt.Sprintf("slot %s of an instance of %s: %s (%s)", sl, cname(i), detail, oobs))
			}
		}
	}
	// ---- class slots
	for idx, sl := range slotNames {
		key := fmt.Sprintf("K|%d|%s", i, sl)
		kobs, has := o[key]
		if !has {
			continue
		}
		w := expectSlot(defs, order, sl, nil)
		if !w.shared {
			continue
		}
		if kind, extra, detail := judgeShare(defs, kobs, idx, sl, w); kind != "" {
			e := "effective-allocation=class"
			if extra != "" {
				e += " " + extra
			}
			add(key, i, "class-slot", kind, e, fmt.Sprintf("slot %s (:allocation :class) of %s: %s (%s)", sl, cname(i), detail, kobs))
		}
	}
	// ---- change-class
	for j := 0; j < n; j++ {
		key := fmt.Sprintf("X|%d|%d", i, j)
		xobs, has := o[key]
		if !has {
			continue
		}
		pj := o[fmt.Sprintf("P|%d", j)]
		if checkPrec(defs, j, pj) != "" {
			continue // the target class is reported as such
		}
		listedJ, _ := caseClasses(pj)
		orderJ := orderFor(defs, j, pj)
		f := fields(xobs)
		anc, _ := ancestors(defs, nil, i)
		rel := "target=" + relTo(defs, i, j, anc)
		what := fmt.Sprintf("(change-class <%s> '%s)", cname(i), cname(j))
		switch {
		case isGoFault(f["res"]):
			add(key, i, "change-class", "go-fault", rel, what+" => "+f["res"])
		case f["res"] != "ok":
			add(key, i, "change-class", "error", rel, what+" => "+f["res"])
		case f["cof"] != "eq=t name="+cname(j):
			add(key, i, "change-class", "class-of-not-the-new-class", rel, what+": class-of afterwards "+f["cof"])
		case !strings.HasPrefix(f["typep"], typepWant(listedJ, n)+" "):
			add(key, i, "change-class", "typep-not-by-the-new-precedence-list", rel, fmt.Sprintf("%s: typep afterwards %s; class-precedence of %s = %s", what, f["typep"], cname(j), pj))
		case f["disp"] != expectedDispatch(listedJ, jc.ext):
			add(key, i, "change-class", "dispatch-not-by-the-new-precedence-list", rel, fmt.Sprintf("%s: generic call afterwards %s; class-precedence of %s = %s requires %s",
				what, f["disp"], cname(j), pj, expectedDispatch(listedJ, jc.ext)))
		default:
			before, after := strings.Split(f["before"], ","), strings.Split(f["after"], ",")
			if len(before) != len(slotNames) || len(after) != len(slotNames) {
				add(key, i, "change-class", "malformed", rel, xobs)
				break
			}
			for idx, sl := range slotNames {
				wj := expectSlot(defs, orderJ, sl, nil)
				if classAlloc(defs, orderJ, sl) || classAlloc(defs, order, sl) {
					if wj.exists && (after[idx] == "none" || isErr(after[idx])) {
						add(key, i, "class-slot", "missing-after-change-class", "effective-allocation="+allocText(wj.shared),
							fmt.Sprintf("%s: slot %s afterwards: %s", what, sl, after[idx]))
					}
					continue
				}
				kind := ""
				switch {
				case wj.exists && (after[idx] == "none" || isErr(after[idx])):
					kind = "slot-of-the-new-class-missing slot-decl-in-new-class=" + declRel(defs, j, sl)
				case !wj.exists && after[idx] != "none":
					kind = "slot-of-the-old-class-kept"
				case wj.exists && before[idx] != "none" && after[idx] != before[idx]:
					kind = "value-of-common-slot-lost"
				case wj.exists && before[idx] == "none":
					// a slot the instance did not have: initialised like a new instance (initform), or left unbound
					alts := append([]string{"unb"}, wj.alts...)
					for _, x := range orderJ {
						if sd, ok := defs[x].slot(x, sl); ok && sd.form != 0 {
							if sd.form == 2 {
								alts = append(alts, "v:nil")
							} else {
								alts = append(alts, "v:"+strconv.Itoa(sd.val))
							}
							break
						}
					}
					if !inList(after[idx], alts) {
						kind = "new-slot-wrong-state got=" + gotClass(after[idx])
					}
				}
				if kind != "" {
					add(key, i, "change-class", kind, "", fmt.Sprintf("%s: slots %s before, %s afterwards (slot %s); a fresh %s has precedence %s",
						what, f["before"], f["after"], sl, cname(j), pj))
					break
				}
			}
		}
	}
	// ---- the instance made before the redefinition
	if wobs, has := o[fmt.Sprintf("W|%d", i)]; has {
		key := fmt.Sprintf("W|%d", i)
		f := fields(wobs)
		lold, ok := caseClasses(f["prec"])
		own := "no"
		if i == jc.redef {
			own = "yes"
		}
		extra := "instance-of-redefined-class=" + own
		what := fmt.Sprintf("the instance of %s made before the redefinition", cname(i))
		switch {
		case !ok:
			add(key, i, "old-instance", "class-without-precedence-list", extra, fmt.Sprintf("%s: (class-precedence (class-of x)) => %s", what, f["prec"]))
		case i != jc.redef && f["cof"] != "eq=t name="+cname(i):
			add(key, i, "old-instance", "subclass-instance-detached-from-its-class", extra, fmt.Sprintf("%s: class-of %s", what, f["cof"]))
		case i != jc.redef && strings.Join(lold, ",") != strings.Join(listedClasses, ","):
			add(key, i, "old-instance", "precedence-list-of-its-class-differs", extra, fmt.Sprintf("%s: %s, but class-precedence of %s = %s", what, f["prec"], cname(i), pobs))
		case !strings.HasPrefix(f["typep"], typepWant(lold, n)+" "):
			add(key, i, "old-instance", "typep-not-by-the-precedence-list-of-its-class", extra,
				fmt.Sprintf("%s: typep %s; (class-precedence (class-of x)) = %s", what, f["typep"], f["prec"]))
		default:
			wantOld, wantNew := expectedDispatch(lold, jc.ext), expectedDispatch(listedClasses, jc.ext)
			for _, d := range []struct{ k, when string }{{"d2", "called-first"}, {"d1", "called-after-a-new-instance"}} {
				if f[d.k] != wantOld {
					kind := "dispatch-not-by-the-precedence-list-of-its-class"
					if f[d.k] == wantNew {
						kind = "dispatches-by-the-list-of-the-new-class-of-that-name"
					}
					add(key, i, "old-instance", kind, extra+" "+d.when, fmt.Sprintf("%s: generic call %s; (class-precedence (class-of x)) = %s requires %s", what, f[d.k], f["prec"], wantOld))
					return
				}
			}
			if f["d3"] != "-" && f["d3"] != wantNew {
				kind := "new-instance-dispatch-wrong-after-call-on-old-instance"
				if f["d3"] == wantOld {
					kind = "new-instance-gets-the-effective-method-of-the-old-instance"
				}
				add(key, i, "old-instance", kind, extra, fmt.Sprintf("a new instance of %s called after %s: %s; class-precedence of %s = %s requires %s",
					cname(i), what, f["d3"], cname(i), pobs, wantNew))
			}
		}
	}
}

func sameSet(a, b []string) bool {
	if len(a) != len(b) {
		return false
	}
	m := map[string]int{}
	for _, x := range a {
		m[x]++
	}
	for _, x := range b {
		m[x]--
	}
	for _, v := range m {
		if v != 0 {
			return false
		}
	}
	return true
}

// judgeSlotops: relative to the observed start state.
func judgeSlotops(obs string, idx int, shared bool) (kind, detail string) {
	if isGoFault(obs) || strings.Contains(obs, ":gofault@") {
		return "go-fault", obs
	}
	if isErr(obs) {
		at := ""
		if k := strings.Index(obs, "@"); 0 <= k {
			at = "-in-" + obs[k+1:]
		}
		return "error" + at, obs
	}
	f := map[string][]string{}
	fs := fields(obs)
	for k, v := range fs {
		f[k] = strings.Split(v, ",")
	}
	for _, k := range []string{"x0", "y0", "x1", "y1", "x2", "y2", "x3", "y3"} {
		if len(f[k]) != len(slotNames) {
			return "malformed", obs
		}
	}
	eq := func(a, b []string) bool { return strings.Join(a, ",") == strings.Join(b, ",") }
	step := func(name string, before, after, other0, other1 []string, want string) (string, string) {
		w := append([]string(nil), before...)
		w[idx] = want
		if after[idx] != want {
			return name + "-no-effect-on-the-slot", fmt.Sprintf("slot is %s afterwards, expected %s", after[idx], want)
		}
		if !eq(after, w) {
			return name + "-changed-other-slot", fmt.Sprintf("slots %v -> %v", before, after)
		}
		if !shared && !eq(other0, other1) {
			return name + "-changed-other-instance", fmt.Sprintf("another instance went %v -> %v", other0, other1)
		}
		return "", ""
	}
	if k, d := step("slot-makunbound", f["x0"], f["x1"], f["y0"], f["y1"], "unb"); k != "" {
		return k, d
	}
	switch rd := fs["rd"]; {
	case rd == "gofault":
		return "reader-on-unbound-slot-go-fault", rd
	case strings.HasPrefix(rd, "v:"):
		return "reader-on-unbound-slot-returns-a-value", rd
	}
	if k, d := step("setf-slot-value", f["x1"], f["x2"], f["y1"], f["y2"], "v:903"); k != "" {
		return k, d
	}
	if fs["ws"] != "v:903" {
		return "with-slots-reads-other-value", fmt.Sprintf("with-slots variable reads %s, slot holds v:903", fs["ws"])
	}
	if k, d := step("with-slots-setq", f["x2"], f["x3"], f["y2"], f["y3"], "v:904"); k != "" {
		return k, d
	}
	return "", ""
}

// judgeShare: a slot whose most specific declaration is :allocation :class.
func judgeShare(defs []classDef, obs string, idx int, slot string, w slotWant) (kind, extra, detail string) {
	if isGoFault(obs) || strings.Contains(obs, ":gofault@") {
		return "go-fault", "", obs
	}
	fs := fields(obs)
	if strings.Contains(obs, ";ERR") || isErr(strings.TrimPrefix(obs, "others="+fs["others"]+";")) {
		return "error-in-sharing-probe", "", obs
	}
	sp := func(k string) []string { return strings.Split(fs[k], ",") }
	for _, k := range []string{"x0", "y0", "x1", "y1", "z", "y2"} {
		if len(sp(k)) != len(slotNames) {
			return "malformed", "", obs
		}
	}
	x0, x1, y1, z, y2 := sp("x0"), sp("x1"), sp("y1"), sp("z"), sp("y2")
	if x1[idx] != "v:905" {
		return "write-not-visible-through-the-writing-instance", "", fmt.Sprintf("slot is %s after (setf slot-value) 905", x1[idx])
	}
	for k := range slotNames {
		if k != idx && x1[k] != x0[k] {
			return "write-changed-other-slot", "", fmt.Sprintf("%v -> %v", x0, x1)
		}
	}
	if y1[idx] != "v:905" {
		return "not-shared-between-instances-of-the-class", "", fmt.Sprintf("a second instance of the class reads %s after 905 was written through the first", y1[idx])
	}
	if fs["others"] != "" {
		for k, js := range strings.Split(fs["others"], ",") {
			j, _ := strconv.Atoi(js)
			ba := strings.SplitN(fs[fmt.Sprintf("o%d", k)], ">", 2)
			if len(ba) != 2 {
				return "malformed", "", obs
			}
			wj := expectSlot(defs, canonPrec(defs, j), slot, nil)
			if wj.exists && wj.shared {
				continue // whether a class slot is shared with sub- or superclasses is not prescribed
			}
			if ba[0] != ba[1] {
				return "write-changes-instance-of-class-with-own-slot", "other-slot-allocation=" + map[bool]string{true: "instance", false: "none"}[wj.exists],
					fmt.Sprintf("an instance of %s went %s -> %s", cname(j), ba[0], ba[1])
			}
		}
	}
	// a further make-instance may re-evaluate the initform (slip) or leave the shared value (Common Lisp)
	if !inList(z[idx], append([]string{"v:905"}, w.alts...)) {
		return "wrong-state-after-further-make-instance", "got=" + gotClass(z[idx]), fmt.Sprintf("slot is %s in a further new instance", z[idx])
	}
	if y2[idx] != z[idx] {
		return "not-shared-with-a-further-new-instance", "", fmt.Sprintf("the new instance reads %s, the older one %s", z[idx], y2[idx])
	}
	return "", "", ""
}
