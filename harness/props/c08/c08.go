// Package c08: meaning does not depend on definition order, compilation or
// re-evaluation. Exhaustive enumeration of program templates x every order of
// the top-level definitions x evaluation modes, each executed on the real slip
// and compared step by step with an order-independent reference evaluator.
package c08

import (
	"crypto/sha256"
	"encoding/hex"
	"fmt"
	"sort"
	"strings"
	"sync/atomic"

	"verif/engine"
)

func init() {
	engine.Register(&engine.Prop{
		ID:    "C08",
		Level: "exploration",
		Rule: "every program of the template alphabet x every order of its top-level definitions (macro definitions stay before their users) x every mode " +
			"{each form read+eval; whole text read, eval; whole text Compile, eval; each form Compile, eval; load; load twice; same main Code evaluated 5x (plain / compiled / mixed); " +
			"whole Code evaluated 3x (plain / compiled); redefine one definition, re-evaluate the same and a fresh main, restore (plain / compiled); main evaluated before any and after " +
			"every definition (plain / compiled; not for programs with mutable state or macros)}; value and (tr ..) trace of every evaluation of main are compared with an independent late-binding reference evaluator; " +
			"a case is non-trivial when a call site or function designator was defined or compiled before its target existed, or when the mode evaluates a Code object more than once, " +
			"compiles it, or redefines a function; family reeval (model-free, differential): every special operator of the interpreter in a pure expression of x that is evaluated " +
			"three times with x = 1,2,1 and 2,1,2 through one function, compiled function, lambda, Code object (plain / compiled), loop body and nested call - the n-th result must equal " +
			"what a fresh copy of the same code gives when evaluated once with that x; the input sequences are a^N and (ab)^N/2 for N in {1,2,3,5,17} and a^(k-1)bab for k<=5 " +
			"(every branch first taken at every position <= 5); family tree: expression trees over calls of a late unary and a late binary function and two built-ins with traced leaves, " +
			"in every call context (body form, argument, if/when/let/cond/progn/setq/and, lambda, &optional/&key default form, macro argument and macro template, top level, quoted data given to eval), " +
			"every order of the definitions, the late call spelled directly or through funcall/apply/mapcar of #'f, (function f), 'f or send, the late callee a defun, generic function, " +
			"flavors method or (differential oracle only) a macro; modes unbind/compunbind: fmakunbound, then defined again; family quoted (model-free): every reeval template as a QUOTED list " +
			"that is evaluated (eval of a variable / of a function's constant / inside one let form / spliced into a macro expansion / twice in one form) and inspected as data - its rendering must not change; " +
			"family mutdata (model-free): a list built at run time is evaluated by ONE (eval d) call site (function, compiled function, lambda, loop body, Code object plain / compiled), changed in place without changing its length " +
			"(operator, argument, element of a nested list, nested list replaced; every single change and every ordered pair), and evaluated again: every evaluation equals a fresh copy of the list at a fresh call site; " +
			"programs var:rebind (a caller rebinds a defvar'd variable with let around the call), var:constant-bare, fbound (fboundp of a name that was only called), case (capital letters in function names), " +
			"struct (constructor and readers made by defstruct as late callees), rec2 (recursion through two late functions); mode regen (defgeneric evaluated a second time, then the method); " +
			"family builtin (model-free): every exported built-in function x argument tuples from its documented parameter types, held in one lambda and called with T1,T2,T1 (and with constant arguments three times): " +
			"every result prints like a fresh copy of the form, the first result still prints the same afterwards, and changing result 1 destructively changes no later result",
		Assumptions: []string{
			"the reference evaluator (props/c08/ref.go, a 600-line late-binding Lisp subset) is the oracle; its own sensitivity is shown by the mutated references",
			"Code.Compile evaluating top-level defun/defvar/defmacro before the other top-level forms is documented (docs/features.md, Read and Eval) and modelled, not reported",
			"macro definitions always precede the code that uses them (Common Lisp leaves the other order undefined; the statement speaks of functions)",
			"what an evaluation returns or signals while a callee is still missing is not constrained (only Go faults are reported); the value of a definition form is not constrained",
			"definition forms have no side effects except a traced defvar/defparameter initial value, which must be evaluated exactly as often as the definition form is (once, or never when a defvar is already bound)",
			"a redefined macro is expected to be seen by functions defined earlier (slip expands at every call; holds on the unchanged tree)",
			"(funcall f) with no further argument is not generated (slip rejects it: C04's finding)",
			"a MACRO that is used before it is defined: Common Lisp leaves it undefined and the statement speaks of functions - only the differential oracle applies (no Go fault, same outcome with and without Code.Compile)",
			"what a call does between (fmakunbound 'f) and the next definition of f is not constrained (slip keeps calling the old body from existing call sites; the statement does not speak of fmakunbound)",
			"flet, labels, (setf (symbol-function ..)) and (setf (fdefinition ..)) are not defined by slip: family inert only demands no Go fault and independence from Code.Compile",
			"a let of a variable that is special (defvar / defparameter) binds it dynamically for the functions called from the body AND is captured by a function defined inside the let (slip's scopes; Common Lisp itself depends on whether the defvar came before that let, so the statement cannot decide between the two)",
			"a structure is never defined twice (the consequences of redefining a defstruct are undefined, CLHS); (funcall #'eval form) is not used (funcall evaluates form, eval evaluates the result again - the same in every order and mode); a quoted symbol 'k is not written inside a backquote template or inside data that is shown (slip evaluates 'k in a template as the variable k and reads 'k inside a quoted list as an object, not a list - the same in every order and mode)",
		},
		Enumerate: enumerate,
		Exec:      exec,
		Required: []string{"fwd-plain-args", "fwd-plain-noargs", "fwd-special-args", "fwd-special-noargs", "fwd-ref", "fwd-var", "compiled", "re-evaluated",
			"redefinition-seen-by-old-caller", "early-failure-then-value", "mutual-recursion", "self-recursion", "self-recursion-guard-clause", "macro-use",
			"macro-expands-to-later-function", "defvar-read", "global-state", "closure", "closure-state", "code-as-data", "function-designator", "two-callers", "re-evaluated-under-new-bindings", "reeval-cases", "keyword-arguments", "generic-function-callee",
			// nested forward-reference trees
			"tree-cases", "tree-nest-self", "tree-nest-other", "tree-nest-sibling", "tree-nest-single", "tree-depth-3",
			"fwd-nested-in-fwd-arg", "fwd-nested-same-function-eager", "fwd-nested-same-function-lazy", "fwd-in-default-form",
			"tree-ctx-body", "tree-ctx-arg", "tree-ctx-if", "tree-ctx-when", "tree-ctx-letinit", "tree-ctx-letbody", "tree-ctx-cond", "tree-ctx-progn",
			"tree-ctx-lambda", "tree-ctx-lambda-head", "tree-ctx-optdefault", "tree-ctx-keydefault", "tree-ctx-macarg", "tree-ctx-macbody", "tree-ctx-top",
			"tree-ctx-evalq", "tree-ctx-evalvar", "tree-ctx-evalfn", "tree-data-evaluated-and-inspected",
			// forward references of other kinds
			"tree-call-funcall-fn", "tree-call-funcall-function", "tree-call-funcall-sym", "tree-call-apply-fn", "tree-call-apply-sym",
			"tree-call-mapcar-fn", "tree-call-mapcar-sym", "tree-call-send", "fwd-send-method-missing",
			"tree-late-generic", "tree-late-method", "tree-late-flavor", "tree-late-macro", "macro-used-before-defined", "macro-forward-differential",
			"fmakunbound-then-redefined", "recursion-through-two-late-functions", "inert-forms",
			// run counts and staged compilation
			"reeval-runs-1", "reeval-runs-2", "reeval-runs-3", "reeval-runs-5", "reeval-runs-17", "reeval-same-input-every-time",
			"reeval-other-branch-first-at-2", "reeval-other-branch-first-at-3", "reeval-other-branch-first-at-4", "reeval-other-branch-first-at-5",
			// code held in data
			"quoted-list-evaluated-and-inspected", "quoted-way-evalvar", "quoted-way-evalfn", "quoted-way-evallet", "quoted-way-macrosplice", "quoted-way-evaltwice",
			"mutdata-cases", "mutdata-change-alters-the-result", "mutdata-site-defun", "mutdata-site-compdefun", "mutdata-site-lambda",
			"mutdata-site-loop", "mutdata-site-code", "mutdata-site-compcode",
			// order / redefinition dependencies reported in round 8
			"special-variable-rebound-by-caller", "special-variable-rebound-by-let", "constant-is-the-body-form", "fboundp-of-a-name-that-was-only-called",
			"mixed-case-function-name", "structure-functions-as-late-callees", "generic-function-defined-again",
			// every built-in function evaluated again
			"builtin-cases", "builtin-holder-params", "builtin-holder-inline", "builtin-result-held-by-reference", "builtin-result-1-modified", "builtin-two-different-tuples"},
		Bound:    bound,
		Selftest: selftest,
	})
}

func bound(tier string) string {
	progs, cases := 0, 0
	fam := map[string]int{}
	famCases := map[string]int{}
	allPrograms()
	enumerate(tier, func(spec string) {
		cases++
		f := spec[:strings.IndexAny(spec, ":|")]
		if p := progByID[spec[:strings.IndexByte(spec, '|')]]; p != nil {
			f = p.fam
		}
		famCases[f]++
	})
	for _, p := range allPrograms() {
		if !p.thorough || tier == engine.Thorough {
			progs++
			fam[p.fam]++
		}
	}
	fam["tree"] = enumTrees(tier, 0, 0, func(string) {})
	progs += fam["tree"]
	var fs, cs []string
	for f, n := range fam {
		fs = append(fs, fmt.Sprintf("%s=%d", f, n))
	}
	for f, n := range famCases {
		cs = append(cs, fmt.Sprintf("%s=%d", f, n))
	}
	sort.Strings(fs)
	sort.Strings(cs)
	shapes := "call graphs chain2, chain3, mutual2, mutual3, fan3, join3, recursive-leaf, self1, self2, selfjoin3, mutual2s (self / back call in the context itself, guard-clause termination) (<= 3 definitions) x 15 of 19 call contexts x 0..3 traced arguments x required/&optional parameters"
	if tier == engine.Thorough {
		shapes = "call graphs chain2..4, mutual2, mutual3, fan3, join3, diamond4, recursive-leaf, self1, self2, selfjoin3, mutual2s, mutual3s (self / back call in the context itself, guard-clause termination) (<= 4 definitions, all 24 orders) x all 19 call contexts x 0..3 traced arguments x " +
			"required/&optional parameters, plus chain3 with every ordered pair of distinct contexts on its two edges"
	}
	return fmt.Sprintf("%d programs (%s): %s; macro / defvar / closure / code-as-data programs; every admissible order of the definitions; %d modes + one redefinition mode pair per "+
		"redefinable definition + one fmakunbound mode pair per late defun; family tree: %s; family reeval: "+reevalOps()+" x 7 ways of holding the code x %d input sequences; "+
		"family quoted: the same templates x %d ways x %d sequences; family builtin: %s; cases per family: %s; %d cases, all executed",
		progs, strings.Join(fs, " "), shapes, len(baseModes)+2, treeBound(tier), len(reOrders), len(quotedWays), len(quotedOrders), biBound(tier), strings.Join(cs, " "), cases)
}

var caseCounter int64

// uniqPrefix: unique function/variable names per execution (slip's function table is process-global).
func uniqPrefix(spec string) string {
	h := sha256.Sum256([]byte(spec))
	n := atomic.AddInt64(&caseCounter, 1) - 1
	return fmt.Sprintf("c8%sn%d-", hex.EncodeToString(h[:4]), n)
}

func parseSpec(spec string) (p *program, perm []int, mode string, err error) {
	parts := strings.Split(spec, "|")
	if len(parts) != 3 {
		return nil, nil, "", fmt.Errorf("spec must be program|order|mode")
	}
	allPrograms()
	if strings.HasPrefix(parts[0], "tree:") {
		if p, err = treeProgram(parts[0]); err != nil {
			return nil, nil, "", err
		}
	} else if p = progByID[parts[0]]; p == nil {
		return nil, nil, "", fmt.Errorf("unknown program %q", parts[0])
	}
	seen := map[int]bool{}
	for _, c := range parts[1] {
		d := int(c - '0')
		if d < 0 || len(p.defs) <= d || seen[d] {
			return nil, nil, "", fmt.Errorf("bad order %q", parts[1])
		}
		seen[d] = true
		perm = append(perm, d)
	}
	if len(perm) != len(p.defs) {
		return nil, nil, "", fmt.Errorf("order %q does not cover the %d definitions", parts[1], len(p.defs))
	}
	return p, perm, parts[2], nil
}

// fwdLabel names the order-shape of a case by its "strongest" forward edge:
// a call site in a strict position (body form, function argument, progn) with
// arguments > the same without arguments > a call site inside a conditional /
// binding special form with / without arguments > a #'function designator >
// a global variable read by a function defined before the defvar.
var fwdPriority = []string{"plain+args", "plain+noargs", "special+args", "special+noargs", "ref", "var"}

func fwdLabel(edges []fwdEdge) string {
	set := map[string]bool{}
	for _, e := range edges {
		set[edgeName(e)] = true
	}
	for _, n := range fwdPriority {
		if set[n] {
			return n
		}
	}
	return "none"
}

// sigMode groups the modes for signatures (the exact mode is in the spec and the detail).
func sigMode(cls string) string {
	switch cls {
	case "each", "whole":
		return "eval"
	case "comp", "compeach", "load", "loadtwice":
		return "compile"
	case "rep", "mixrep", "wholerep":
		return "repeat"
	case "comprep", "compwholerep":
		return "compile-repeat"
	}
	if cls == "redefall" {
		return "redef"
	}
	if cls == "compredefall" {
		return "compredef"
	}
	return cls // redef compredef early compearly unbind compunbind
}

// twinMode: the same history with / without Code.Compile (differential oracle of the macro-before-definition cases).
func twinMode(mode string) string {
	cls, rest := modeClass(mode), ""
	if i := strings.IndexByte(mode, ':'); 0 < i {
		rest = mode[i:]
	}
	twins := map[string]string{"each": "compeach", "compeach": "each", "whole": "comp", "comp": "whole", "rep": "comprep", "comprep": "rep",
		"mixrep": "rep", "wholerep": "compwholerep", "compwholerep": "wholerep", "redef": "compredef", "compredef": "redef", "regen": "compregen", "compregen": "regen",
		"early": "compearly", "compearly": "early", "unbind": "compunbind", "compunbind": "unbind"}
	if t, has := twins[cls]; has {
		return t + rest
	}
	return ""
}

// macroForward: a late callee of the program is a macro and, in this order and mode, code that uses it is defined,
// compiled or evaluated before the macro exists. Common Lisp leaves that undefined and the statement speaks of
// functions: only the differential oracle applies (no Go fault, the outcome does not depend on Code.Compile).
func macroForward(p *program, perm []int, cls string) bool {
	if len(p.macroDefs) == 0 {
		return false
	}
	if p.macroTop && (cls == "early" || cls == "compearly") {
		return true
	}
	isMacro := map[int]bool{}
	for _, d := range p.macroDefs {
		isMacro[d] = true
	}
	seenOther := false
	for _, d := range perm {
		if isMacro[d] {
			if seenOther {
				return true
			}
		} else {
			seenOther = true
		}
	}
	return false
}

// slipEvalDigests runs a history on a fresh machine and returns label=digest of every evaluation step (E / L).
func slipEvalDigests(h []hstep, generic func(string) string) (out []string, fault string) {
	m := newMachine()
	for i, st := range h {
		o, seen := m.do(st.step)
		if !seen {
			continue
		}
		if o.err != nil && o.err.GoFault && fault == "" {
			fault = fmt.Sprintf("step %d (%s) of  %s  => %s", i, st.label, renderHistory(h, i, generic), generic(o.String()))
		}
		if (st.op == 'E' || st.op == 'L') && st.check != chkLenient {
			// evaluations made while a callee may still be missing are not compared (not constrained for functions either)
			out = append(out, st.label+"="+generic(o.digest()))
		}
	}
	return
}

func edgeName(e fwdEdge) string {
	if e.pos == "ref" || e.pos == "var" {
		return e.pos
	}
	if 0 < e.nargs {
		return e.pos + "+args"
	}
	return e.pos + "+noargs"
}

func renderHistory(h []hstep, upto int, generic func(string) string) string {
	var b strings.Builder
	for i, st := range h {
		if upto < i {
			break
		}
		if 0 < i {
			b.WriteString(" ;; ")
		}
		fmt.Fprintf(&b, "%c%d", st.op, st.slot)
		if st.src != "" {
			b.WriteString(" " + strings.ReplaceAll(generic(st.src), "\n", " "))
		}
	}
	return b.String()
}

func sameTrace(a, b []string) bool {
	if len(a) != len(b) {
		return false
	}
	for i := range a {
		if a[i] != b[i] {
			return false
		}
	}
	return true
}

func exec(spec string) (res engine.Result) {
	if strings.HasPrefix(spec, "raw|") {
		m := newMachine()
		r := newRefMachine(mutNone)
		var out []string
		for i, st := range parseRaw(spec[4:]) {
			o, seen := m.do(st)
			ro, _ := r.do(st)
			if seen {
				out = append(out, fmt.Sprintf("#%d %c%d: %s   [ref: %s]", i, st.op, st.slot, o.String(), ro.String()))
			}
		}
		out = append(out, "fwd="+fwdLabel(r.edges))
		res.Outcome = strings.Join(out, "\n")
		return
	}
	if strings.HasPrefix(spec, "bound|") { // development aid: the bound text of a tier
		res.Outcome = bound(spec[6:])
		return
	}
	if strings.HasPrefix(spec, "builtin-census|") { // development aid: builtin-census|<tier>|<pkg:fn or ?>: the judged tuple shapes of one function
		parts := strings.Split(spec, "|")
		shapes, judged := 0, 0
		var names []string
		enumBuiltins(parts[1], func(sp string) {
			fn := strings.Split(sp, "|")[1]
			if len(parts) < 3 || parts[2] == "?" {
				if len(names) == 0 || names[len(names)-1] != fn {
					names = append(names, fn)
				}
				return
			}
			if fn != parts[2] {
				return
			}
			shapes++
			if r := execBuiltin(sp); r.Nontrivial || 0 < len(r.Failures) {
				judged++
			}
		})
		res.Outcome = fmt.Sprintf("%d %d %s", shapes, judged, strings.Join(names, " "))
		return
	}
	if strings.HasPrefix(spec, "reeval|") {
		return execReeval(spec)
	}
	if strings.HasPrefix(spec, "quoted|") {
		return execQuoted(spec)
	}
	if strings.HasPrefix(spec, "inert|") {
		return execInert(spec)
	}
	if strings.HasPrefix(spec, "mutdata|") {
		return execMutdata(spec)
	}
	if strings.HasPrefix(spec, "builtin|") {
		return execBuiltin(spec)
	}
	p, perm, mode, err := parseSpec(spec)
	if err != nil {
		res.Fail("harness:bad-spec", spec+": "+err.Error())
		return
	}
	prefix := uniqPrefix(spec)
	uniq := func(s string) string { return strings.ReplaceAll(s, "@", prefix) }
	generic := func(s string) string { return strings.ReplaceAll(s, prefix, "@") }
	h, err := buildHistory(p, perm, mode, uniq)
	if err != nil {
		res.Fail("harness:bad-spec", spec+": "+err.Error())
		return
	}
	m := newMachine()
	r := newRefMachine(mutNone)
	cls := modeClass(mode)
	defer cleanupNames(prefix, h)
	if macroForward(p, perm, cls) {
		execMacroForward(&res, spec, p, perm, mode, h, generic)
		return
	}
	var digest []string
	evals := map[int]int{}
	earlyFailed := false
	failed := false
	for i, st := range h {
		ro, _ := r.do(st.step)
		if st.check == chkExact && ro.err != nil {
			res.Fail("harness:reference-fails", fmt.Sprintf("%s: reference fails at step %d of %s: %s", spec, i, renderHistory(h, i, generic), ro.String()))
			return
		}
		o, seen := m.do(st.step)
		if st.op == 'E' {
			evals[st.slot]++
			if 1 < evals[st.slot] && st.check == chkExact {
				res.Hit("re-evaluated")
			}
		}
		if st.op == 'C' || st.op == 'L' {
			res.Hit("compiled")
		}
		if !seen {
			continue
		}
		digest = append(digest, st.label+"="+generic(o.digest()))
		sig := func(kind string) string {
			return fmt.Sprintf("mode=%s fam=%s fwd=%s at=%s kind=%s", sigMode(cls), p.fam, fwdLabel(r.edges), st.label, kind) + p.sigx
		}
		detail := func(want string) string {
			return fmt.Sprintf("%s: step %d (%s) of  %s  => %s; %s", spec, i, st.label, renderHistory(h, i, generic), generic(o.String()), want)
		}
		switch {
		case o.err != nil && o.err.GoFault:
			res.Fail(sig("go-fault"), detail("a Go runtime fault"))
			failed = true
		case st.check == chkOK:
			// the value of a definition form is not constrained; its side effects are (a traced defvar initial value)
			if o.err != nil {
				res.Fail(sig("error:"+o.err.Class), detail("a definition / compile step must not fail"))
				failed = true
			} else if !sameTrace(o.trace, ro.trace) {
				res.Fail(sig("wrong-trace"), detail("the reference traces "+strings.Join(ro.trace, ",")))
				failed = true
			}
		case st.check == chkLenient && ro.err != nil:
			earlyFailed = true // callee still missing: outcome not constrained
		case st.check == chkExact || st.check == chkLenient:
			want := "the reference gives " + generic(ro.String())
			switch {
			case o.err != nil:
				res.Fail(sig("error:"+o.err.Class), detail(want))
				failed = true
			case o.val != ro.val || !sameTrace(o.outs, ro.outs):
				res.Fail(sig("wrong-value"), detail(want))
				failed = true
			case !sameTrace(o.trace, ro.trace):
				res.Fail(sig("wrong-trace"), detail(want))
				failed = true
			default:
				if earlyFailed && st.check == chkExact {
					res.Hit("early-failure-then-value")
					if (cls == "unbind" || cls == "compunbind") && st.label == "after-redef" {
						res.Hit("fmakunbound-then-redefined")
					}
				}
				if (cls == "regen" || cls == "compregen") && st.label == "after-redef" {
					res.Hit("generic-function-defined-again")
				}
			}
		}
		if failed {
			break // S3: only the first divergence of a case is reported
		}
	}
	for _, e := range r.edges {
		res.Hit("fwd-" + strings.ReplaceAll(edgeName(e), "+", "-"))
	}
	fl := fwdLabel(r.edges)
	if fl == "plain+args" {
		res.Hit("cases-containing-the-known-trigger-plain+args")
	}
	if r.redefSeen {
		res.Hit("redefinition-seen-by-old-caller")
	}
	for _, f := range p.feats {
		res.Hit(f)
	}
	for name, n := range r.hits {
		if res.Counters == nil {
			res.Counters = map[string]int{}
		}
		res.Counters[name] += n
	}
	res.Nontrivial = fl != "none" || (cls != "each" && cls != "whole")
	res.Outcome = strings.Join(digest, " | ")
	return
}

// execMacroForward: a MACRO used before it is defined. The case and its twin (the same history with / without
// Code.Compile) are run on fresh machines: no step may be a Go fault and the evaluation steps must agree.
func execMacroForward(res *engine.Result, spec string, p *program, perm []int, mode string, h []hstep, generic func(string) string) {
	cls := modeClass(mode)
	sig := func(at, kind string) string {
		return fmt.Sprintf("mode=%s fam=%s fwd=macro at=%s kind=%s", sigMode(cls), p.fam, at, kind) + p.sigx
	}
	own, fault := slipEvalDigests(h, generic)
	res.Outcome = "macro-forward: " + strings.Join(own, " | ")
	res.Nontrivial = true
	res.Hit("macro-used-before-defined")
	for _, f := range p.feats {
		res.Hit(f)
	}
	if fault != "" {
		res.Fail(sig("any", "go-fault"), spec+": "+fault+"; a Go runtime fault")
		return
	}
	tm := twinMode(mode)
	if tm == "" {
		return
	}
	prefix2 := uniqPrefix(spec + "#twin")
	th, err := buildHistory(p, perm, tm, func(s string) string { return strings.ReplaceAll(s, "@", prefix2) })
	if err != nil {
		res.Fail("harness:bad-spec", spec+": twin "+tm+": "+err.Error())
		return
	}
	generic2 := func(s string) string { return strings.ReplaceAll(s, prefix2, "@") }
	twin, fault := slipEvalDigests(th, generic2)
	cleanupNames(prefix2, th)
	if fault != "" {
		return // reported by the twin's own case
	}
	res.Hit("macro-forward-differential")
	if len(own) != len(twin) {
		res.Fail("harness:twin-history", fmt.Sprintf("%s: %d evaluation steps, twin %s has %d", spec, len(own), tm, len(twin)))
		return
	}
	for i := range own {
		if own[i] != twin[i] {
			at := own[i][:strings.IndexByte(own[i], '=')]
			res.Fail(sig(at, "depends-on-compile-mode"), fmt.Sprintf("%s: evaluation step %d of  %s  => %s; the same history in mode %s => %s (all: %s  vs  %s)",
				spec, i, renderHistory(h, len(h), generic), own[i], tm, twin[i], strings.Join(own, " | "), strings.Join(twin, " | ")))
			return
		}
	}
}
