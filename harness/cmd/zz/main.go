package main

import (
	"verif/engine/cli"
	_ "verif/props/zz"
)

func main() { cli.Main() }
