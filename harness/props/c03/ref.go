package c03

// Reference model for the oracle-sensitivity self-test (S6): a small correct
// readable printer and the matching reader, written in plain Go and
// independent of slip. refPrint/refRead round-trip every enumerated object
// under every enumerated configuration; each mutant of refPrint encodes one
// realistic printer bug and must be caught by the same case set and the same
// comparison (diff) the real check uses.

import (
	"fmt"
	"math/big"
	"regexp"
	"strconv"
	"strings"
	"unicode"
	"unicode/utf8"
)

type cfg struct {
	base   int
	radix  bool
	cas    byte // 'd' 'u' 'c'
	pretty bool
	margin int
}

var baseline = cfg{base: 10, radix: false, cas: 'd', pretty: false, margin: 120}

func (c cfg) String() string {
	r, p := 0, 0
	if c.radix {
		r = 1
	}
	if c.pretty {
		p = 1
	}
	return fmt.Sprintf("b%dr%dc%cp%dm%d", c.base, r, c.cas, p, c.margin)
}

func parseCfg(s string) (c cfg, err error) {
	var r, p int
	var cas rune
	if _, err = fmt.Sscanf(s, "b%dr%dc%cp%dm%d", &c.base, &r, &cas, &p, &c.margin); err != nil {
		return c, fmt.Errorf("bad config %q: %v", s, err)
	}
	c.radix, c.pretty, c.cas = r != 0, p != 0, byte(cas)
	if c.base < 2 || 36 < c.base || (c.cas != 'd' && c.cas != 'u' && c.cas != 'c') || c.margin < 0 {
		return c, fmt.Errorf("bad config %q", s)
	}
	return
}

type mutant struct {
	name                string
	prettyDropsPipes    bool // symbols inside a pretty-printed list lose their |..|
	noPrefixOtherBase   bool // #NrDDD prefix omitted for bases other than 2, 8, 10, 16
	noBackslashEscape   bool // \ inside strings not escaped
	rankWithRadix       bool // array rank printed through the integer printer (radix applies)
	ctrlCharLowNibble   bool // control characters printed as #\u000X (high nibble lost)
	singleMarkerDropped bool // single-float printed with the e marker
	wrapDropsDot        bool // a dotted list that is wrapped over several lines loses its dot
	semicolonNoPipes    bool // ';' missing from the needs-quoting table
	capitalizeAll       bool // :capitalize also applied to strings
	readerLeaksEscBuf   bool // READER mutant: the un-escape buffer of a string leaks into the next |symbol|
}

var mutants = []mutant{
	{name: "pretty printer prints symbols inside lists without |quoting|", prettyDropsPipes: true},
	{name: "radix prefix omitted for bases other than 2/8/10/16", noPrefixOtherBase: true},
	{name: "backslash inside strings not escaped", noBackslashEscape: true},
	{name: "array rank printed with the radix marker", rankWithRadix: true},
	{name: "control characters printed with the high hex digit lost", ctrlCharLowNibble: true},
	{name: "single-float printed with exponent marker e", singleMarkerDropped: true},
	{name: "dotted list loses its dot when wrapped over lines", wrapDropsDot: true},
	{name: "';' missing from the symbol needs-quoting table", semicolonNoPipes: true},
	{name: "*print-case* applied to string contents", capitalizeAll: true},
	{name: "reader keeps the un-escape buffer of a string and prepends it to the next |symbol|", readerLeaksEscBuf: true},
}

// ------------------------------------------------------------------ printer

var (
	refIntRx   = regexp.MustCompile(`^[-+]?[0-9]+\.?$`)
	refRatioRx = regexp.MustCompile(`^[-+]?[0-9]+/[0-9]+$`)
	refFloatRx = regexp.MustCompile(`^[-+]?[0-9]*\.?[0-9]*([esfdlESFDL][-+]?[0-9]+)?$`)
)

func looksNumeric(s string) bool {
	if refIntRx.MatchString(s) || refRatioRx.MatchString(s) {
		return true
	}
	if refFloatRx.MatchString(s) && strings.ContainsAny(s, "0123456789") {
		return true
	}
	return false
}

func symSafe(r rune, m *mutant) bool {
	switch {
	case 'a' <= r && r <= 'z', 'A' <= r && r <= 'Z', '0' <= r && r <= '9':
		return true
	case strings.ContainsRune("-+*/<=>_.$%^~@!?&", r):
		return true
	case r == ';' && m.semicolonNoPipes:
		return true
	}
	return false
}

func applyCase(s string, c byte) string {
	var out string
	switch c {
	case 'u':
		out = strings.ToUpper(s)
	case 'c':
		rs := []rune(strings.ToLower(s))
		if 0 < len(rs) {
			rs[0] = unicode.ToUpper(rs[0])
		}
		out = string(rs)
	default:
		out = strings.ToLower(s)
	}
	if !strings.EqualFold(out, s) {
		return s // a case mapping that is not an identity of the symbol: leave the name alone
	}
	return out
}

func refSymbol(s string, c cfg, m *mutant, inPrettyList bool) string {
	name := s
	prefix := ""
	if strings.HasPrefix(s, ":") && 1 < len(s) {
		prefix, name = ":", s[1:]
	}
	need := name == "" || name == "." || looksNumeric(name) || strings.EqualFold(name, "nil") || strings.EqualFold(name, "t")
	for _, r := range name {
		if !symSafe(r, m) {
			need = true
		}
	}
	if prefix == "" && strings.HasPrefix(name, ":") {
		need = true
	}
	if m.prettyDropsPipes && inPrettyList {
		need = false
	}
	name = applyCase(name, c.cas)
	if !need {
		return prefix + name
	}
	var b strings.Builder
	b.WriteString(prefix)
	b.WriteByte('|')
	for _, r := range name {
		if r == '|' || r == '\\' {
			b.WriteByte('\\')
		}
		b.WriteRune(r)
	}
	b.WriteByte('|')
	return b.String()
}

func refInteger(n *big.Int, c cfg, m *mutant) string {
	digits := n.Text(c.base)
	if !c.radix {
		return digits
	}
	switch c.base {
	case 2:
		return "#b" + digits
	case 8:
		return "#o" + digits
	case 16:
		return "#x" + digits
	case 10:
		return digits + "."
	}
	if m.noPrefixOtherBase {
		return digits
	}
	return "#" + strconv.Itoa(c.base) + "r" + digits
}

func refRatio(r *big.Rat, c cfg, m *mutant) string {
	body := r.Num().Text(c.base) + "/" + r.Denom().Text(c.base)
	if !c.radix {
		return body
	}
	switch c.base {
	case 2:
		return "#b" + body
	case 8:
		return "#o" + body
	case 16:
		return "#x" + body
	}
	if m.noPrefixOtherBase && c.base != 10 {
		return body
	}
	return "#" + strconv.Itoa(c.base) + "r" + body
}

var refCharNames = map[rune]string{' ': "Space", '\b': "Backspace", '\f': "Page", '\n': "Newline", '\r': "Return", '\t': "Tab", 0x7f: "Rubout"}

func refAtom(v *val, c cfg, m *mutant, inPrettyList bool) string {
	switch v.k {
	case kNil:
		return applyCase("nil", c.cas)
	case kT:
		return "t"
	case kInt:
		return refInteger(v.n, c, m)
	case kRatio:
		return refRatio(v.r, c, m)
	case kSingle:
		s := strconv.FormatFloat(v.f, 'e', -1, 32)
		if m.singleMarkerDropped {
			return s
		}
		return strings.Replace(s, "e", "s", 1)
	case kDouble:
		return strings.Replace(strconv.FormatFloat(v.f, 'e', -1, 64), "e", "d", 1)
	case kLong:
		// all the digits the precision carries; the reference reader sizes the
		// precision from the digit count
		digits := int(float64(v.lf.Prec())*0.30103) + 3
		return strings.Replace(v.lf.Text('e', digits), "e", "L", 1)
	case kStr:
		s := v.s
		if m.capitalizeAll && c.cas != 'd' {
			s = strings.ToUpper(s)
		}
		var b strings.Builder
		b.WriteByte('"')
		for _, r := range s {
			switch {
			case r == '"':
				b.WriteString(`\"`)
			case r == '\\':
				if m.noBackslashEscape {
					b.WriteString(`\`)
				} else {
					b.WriteString(`\\`)
				}
			case r < 0x20 || r == 0x7f:
				fmt.Fprintf(&b, `\u%04x`, r)
			default:
				b.WriteRune(r)
			}
		}
		b.WriteByte('"')
		return b.String()
	case kChar:
		if name, ok := refCharNames[v.c]; ok {
			return `#\` + name
		}
		if v.c < 0x20 {
			if m.ctrlCharLowNibble {
				return fmt.Sprintf(`#\u%04x`, v.c&0xf)
			}
			return fmt.Sprintf(`#\u%04x`, v.c)
		}
		return `#\` + string(v.c)
	case kSym:
		return refSymbol(v.s, c, m, inPrettyList)
	}
	panic("refAtom: not an atom")
}

func refFlat(v *val, c cfg, m *mutant, inList bool) string {
	switch v.k {
	case kList, kVec:
		var b strings.Builder
		if v.k == kVec {
			b.WriteByte('#')
		}
		b.WriteByte('(')
		for i, e := range v.e {
			if 0 < i {
				b.WriteByte(' ')
			}
			b.WriteString(refFlat(e, c, m, true))
		}
		if v.tail != nil {
			b.WriteString(" . ")
			b.WriteString(refFlat(v.tail, c, m, true))
		}
		b.WriteByte(')')
		return b.String()
	case kArr:
		return refArrayPrefix(v, c, m) + refFlat(arrNested(v), c, m, true)
	}
	return refAtom(v, c, m, inList && c.pretty)
}

func refArrayPrefix(v *val, c cfg, m *mutant) string {
	if m.rankWithRadix {
		return "#" + refInteger(big.NewInt(int64(len(v.dims))), c, m) + "A"
	}
	return "#" + strconv.Itoa(len(v.dims)) + "A"
}

// arrNested turns an array val into nested lists (row-major).
func arrNested(v *val) *val {
	var build func(dims []int, flat []*val) (*val, []*val)
	build = func(dims []int, flat []*val) (*val, []*val) {
		out := &val{k: kList}
		if len(dims) == 1 {
			out.e = append(out.e, flat[:dims[0]]...)
			return out, flat[dims[0]:]
		}
		for i := 0; i < dims[0]; i++ {
			var sub *val
			sub, flat = build(dims[1:], flat)
			out.e = append(out.e, sub)
		}
		return out, flat
	}
	n, _ := build(v.dims, v.e)
	return n
}

func refPretty(v *val, c cfg, m *mutant, indent int, inList bool) string {
	flat := refFlat(v, c, m, inList)
	if indent+len(flat) <= c.margin {
		return flat
	}
	switch v.k {
	case kList, kVec:
		var b strings.Builder
		if v.k == kVec {
			b.WriteByte('#')
			indent++
		}
		b.WriteByte('(')
		pad := "\n" + strings.Repeat(" ", indent+1)
		for i, e := range v.e {
			if 0 < i {
				b.WriteString(pad)
			}
			b.WriteString(refPretty(e, c, m, indent+1, true))
		}
		if v.tail != nil {
			b.WriteString(pad)
			if !m.wrapDropsDot {
				b.WriteString(".")
				b.WriteString(pad)
			}
			b.WriteString(refPretty(v.tail, c, m, indent+1, true))
		}
		b.WriteByte(')')
		return b.String()
	case kArr:
		p := refArrayPrefix(v, c, m)
		return p + refPretty(arrNested(v), c, m, indent+len(p), true)
	}
	return flat
}

// refPrint is the reference readable printer (m selects a mutant; the zero
// mutant is the correct printer).
func refPrint(v *val, c cfg, m *mutant) string {
	if c.pretty {
		return refPretty(v, c, m, 0, false)
	}
	return refFlat(v, c, m, false)
}

// ------------------------------------------------------------------- reader

type refReader struct {
	s   string
	pos int
	// leak models a reader that keeps the buffer it fills while un-escaping a
	// string and does not clear it when a |symbol| starts (mutant only).
	leak bool
	buf  string
}

// refRead reads exactly one object from text.
func refRead(text string) (v *val, err error) { return refReadWith(text, false) }

func refReadWith(text string, leak bool) (v *val, err error) {
	defer func() {
		if rec := recover(); rec != nil {
			err = fmt.Errorf("%v", rec)
			v = nil
		}
	}()
	r := &refReader{s: text, leak: leak}
	v = r.value()
	r.ws()
	if r.pos != len(r.s) {
		panic("more than one object in the text")
	}
	return
}

func (r *refReader) ws() {
	for r.pos < len(r.s) && strings.IndexByte(" \t\n\r\f", r.s[r.pos]) >= 0 {
		r.pos++
	}
}

func isDelim(b byte) bool {
	return strings.IndexByte(" \t\n\r\f()\";", b) >= 0
}

func (r *refReader) token() string {
	start := r.pos
	for r.pos < len(r.s) && !isDelim(r.s[r.pos]) && r.s[r.pos] != '|' {
		r.pos++
	}
	return r.s[start:r.pos]
}

var dotMarker = &val{k: kSym, s: "<dot>"}

func (r *refReader) seq() *val {
	var e []*val
	var tail *val
	for {
		r.ws()
		if len(r.s) <= r.pos {
			panic("list not terminated")
		}
		if r.s[r.pos] == ')' {
			r.pos++
			return mkList(e, tail)
		}
		if tail != nil {
			panic("more than one object after the dot")
		}
		x := r.value()
		if x == dotMarker {
			if len(e) == 0 {
				panic("dot at the start of a list")
			}
			r.ws()
			tail = r.value()
			if tail == dotMarker {
				panic("two dots")
			}
			if tail.k == kNil {
				r.ws()
				if len(r.s) <= r.pos || r.s[r.pos] != ')' {
					panic("more than one object after the dot")
				}
				r.pos++
				return mkList(e, nil)
			}
			continue
		}
		e = append(e, x)
	}
}

func (r *refReader) value() *val {
	r.ws()
	if len(r.s) <= r.pos {
		panic("unexpected end of text")
	}
	c := r.s[r.pos]
	switch c {
	case '(':
		r.pos++
		return r.seq()
	case ')':
		panic("unmatched )")
	case '"':
		r.pos++
		var b strings.Builder
		escaped := false
		for {
			if len(r.s) <= r.pos {
				panic("string not terminated")
			}
			ch := r.s[r.pos]
			r.pos++
			if ch == '"' {
				if escaped {
					r.buf = b.String()
				}
				return vStr(b.String())
			}
			if ch != '\\' {
				b.WriteByte(ch)
				continue
			}
			escaped = true
			if len(r.s) <= r.pos {
				panic("escape not terminated")
			}
			esc := r.s[r.pos]
			r.pos++
			switch esc {
			case '"', '\\':
				b.WriteByte(esc)
			case 'n':
				b.WriteByte('\n')
			case 't':
				b.WriteByte('\t')
			case 'r':
				b.WriteByte('\r')
			case 'b':
				b.WriteByte('\b')
			case 'f':
				b.WriteByte('\f')
			case 'u':
				if len(r.s) < r.pos+4 {
					panic("short \\u")
				}
				u, err := strconv.ParseUint(r.s[r.pos:r.pos+4], 16, 32)
				if err != nil {
					panic(err)
				}
				b.WriteRune(rune(u))
				r.pos += 4
			default:
				panic(fmt.Sprintf("unknown escape \\%c", esc))
			}
		}
	case '|':
		return vSym(r.piped())
	case '#':
		return r.sharp()
	}
	tok := r.token()
	if tok == "" {
		panic(fmt.Sprintf("unexpected character %q", c))
	}
	if r.pos < len(r.s) && r.s[r.pos] == '|' {
		if tok == ":" {
			return vSym(":" + r.piped())
		}
		panic("| inside a token")
	}
	return classify(tok, 10)
}

func (r *refReader) piped() string {
	r.pos++ // opening |
	var b strings.Builder
	for {
		if len(r.s) <= r.pos {
			panic("|symbol| not terminated")
		}
		ch := r.s[r.pos]
		r.pos++
		switch ch {
		case '|':
			if r.leak && r.buf != "" {
				r.buf += b.String()
				return r.buf
			}
			return b.String()
		case '\\':
			if len(r.s) <= r.pos {
				panic("escape not terminated")
			}
			b.WriteByte(r.s[r.pos])
			r.pos++
		default:
			b.WriteByte(ch)
		}
	}
}

func (r *refReader) sharp() *val {
	r.pos++ // #
	if len(r.s) <= r.pos {
		panic("# at end")
	}
	switch c := r.s[r.pos]; {
	case c == '(':
		r.pos++
		l := r.seq()
		if l.k == kNil {
			return &val{k: kVec}
		}
		if l.k != kList || l.tail != nil {
			panic("bad vector")
		}
		return &val{k: kVec, e: l.e}
	case c == '\\':
		r.pos++
		if len(r.s) <= r.pos {
			panic(`#\ at end`)
		}
		first, n := utf8.DecodeRuneInString(r.s[r.pos:])
		start := r.pos
		r.pos += n
		for r.pos < len(r.s) && !isDelim(r.s[r.pos]) {
			r.pos++
		}
		name := r.s[start:r.pos]
		if utf8.RuneCountInString(name) == 1 {
			return vChar(first)
		}
		for ch, nm := range refCharNames {
			if strings.EqualFold(nm, name) {
				return vChar(ch)
			}
		}
		if name[0] == 'u' || name[0] == 'U' {
			if u, err := strconv.ParseUint(name[1:], 16, 32); err == nil {
				return vChar(rune(u))
			}
		}
		// a delimiter character directly after #\ is the character itself
		if n == 1 && isDelim(byte(first)) {
			r.pos = start + 1
			return vChar(first)
		}
		panic("unknown character name " + name)
	case c == 'b' || c == 'B':
		r.pos++
		return classify(r.token(), 2)
	case c == 'o' || c == 'O':
		r.pos++
		return classify(r.token(), 8)
	case c == 'x' || c == 'X':
		r.pos++
		return classify(r.token(), 16)
	case '0' <= c && c <= '9':
		start := r.pos
		for r.pos < len(r.s) && '0' <= r.s[r.pos] && r.s[r.pos] <= '9' {
			r.pos++
		}
		num, _ := strconv.Atoi(r.s[start:r.pos])
		if len(r.s) <= r.pos {
			panic("#<digits> at end")
		}
		switch r.s[r.pos] {
		case 'r', 'R':
			r.pos++
			if num < 2 || 36 < num {
				panic("bad radix")
			}
			return classify(r.token(), num)
		case 'a', 'A':
			r.pos++
			x := r.value()
			return nestedToArray(x, num)
		}
		panic(fmt.Sprintf("unknown # dispatch %q", r.s[r.pos]))
	}
	panic(fmt.Sprintf("unknown # dispatch %q", r.s[r.pos]))
}

func nestedToArray(x *val, rank int) *val {
	if rank < 1 {
		panic("rank 0 arrays are not supported")
	}
	dims := make([]int, rank)
	cur := x
	for i := 0; i < rank; i++ {
		if cur.k != kList || cur.tail != nil {
			panic("malformed array contents")
		}
		dims[i] = len(cur.e)
		cur = cur.e[0]
	}
	var flat []*val
	var walk func(n *val, d int)
	walk = func(n *val, d int) {
		if d == rank {
			flat = append(flat, n)
			return
		}
		if n.k != kList || len(n.e) != dims[d] || n.tail != nil {
			panic("ragged array contents")
		}
		for _, e := range n.e {
			walk(e, d+1)
		}
	}
	walk(x, 0)
	return vArr(dims, flat...)
}

var (
	clsFloatRx = regexp.MustCompile(`^[-+]?([0-9]+\.?[0-9]*|\.[0-9]+)(([esfdlESFDL])([-+]?[0-9]+))?$`)
)

// classify turns a token into a number (in the given radix) or a symbol.
func classify(tok string, radix int) *val {
	if tok == "" {
		panic("empty token")
	}
	if tok == "." {
		return dotMarker
	}
	if radix != 10 {
		if i := strings.IndexByte(tok, '/'); 0 < i {
			n, ok1 := new(big.Int).SetString(tok[:i], radix)
			d, ok2 := new(big.Int).SetString(tok[i+1:], radix)
			if !ok1 || !ok2 || d.Sign() <= 0 {
				panic("bad ratio " + tok)
			}
			return ratOrInt(new(big.Rat).SetFrac(n, d))
		}
		n, ok := new(big.Int).SetString(tok, radix)
		if !ok {
			panic(fmt.Sprintf("bad base %d integer %s", radix, tok))
		}
		return vInt(n)
	}
	if refIntRx.MatchString(tok) {
		n, _ := new(big.Int).SetString(strings.TrimSuffix(tok, "."), 10)
		return vInt(n)
	}
	if refRatioRx.MatchString(tok) {
		i := strings.IndexByte(tok, '/')
		n, _ := new(big.Int).SetString(tok[:i], 10)
		d, _ := new(big.Int).SetString(tok[i+1:], 10)
		if d.Sign() == 0 {
			panic("zero denominator")
		}
		return ratOrInt(new(big.Rat).SetFrac(n, d))
	}
	if mm := clsFloatRx.FindStringSubmatch(tok); mm != nil && (strings.Contains(tok, ".") || mm[3] != "") {
		mant := tok
		marker := byte('e')
		if mm[3] != "" {
			marker = strings.ToLower(mm[3])[0]
			mant = tok[:len(tok)-len(mm[2])] + "e" + mm[4]
		}
		switch marker {
		case 's', 'f':
			f, err := strconv.ParseFloat(mant, 32)
			if err != nil {
				panic(err)
			}
			return &val{k: kSingle, f: f}
		case 'l':
			digits := 0
			for _, ch := range mm[1] {
				if '0' <= ch && ch <= '9' {
					digits++
				}
			}
			prec := uint(4*digits + 16)
			if prec < 64 {
				prec = 64
			}
			f, _, err := big.ParseFloat(mant, 10, prec, big.ToNearestEven)
			if err != nil {
				panic(err)
			}
			return &val{k: kLong, lf: f}
		default:
			f, err := strconv.ParseFloat(mant, 64)
			if err != nil {
				panic(err)
			}
			return &val{k: kDouble, f: f}
		}
	}
	switch strings.ToLower(tok) {
	case "nil":
		return &val{k: kNil}
	case "t":
		return &val{k: kT}
	}
	return vSym(tok)
}

func ratOrInt(r *big.Rat) *val {
	if r.IsInt() {
		return vInt(new(big.Int).Set(r.Num()))
	}
	return &val{k: kRatio, r: r}
}
