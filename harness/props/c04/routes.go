package c04

import (
	"fmt"
	"strconv"
	"strings"
	"sync"

	"github.com/ohler55/slip"

	"verif/engine"
	"verif/lisp"
)

// Sixth round: further call routes, environments and lambda-list dimensions. The body of every function of these
// families is (tr 'in) (c04rec (list <all parameters>)): the bindings are handed to the harness from inside the
// body, so routes whose caller drops or transforms the function's value (mapc, every, sort, reduce, a macro
// expansion, a nested activation) are observed exactly like the others.

var (
	recorded   []slip.Object
	enterCount int
)

type recFunc struct{ slip.Function }

// Call (c04rec v): hand v to the harness, log "rec", return v.
func (f *recFunc) Call(s *slip.Scope, args slip.List, depth int) slip.Object {
	if len(args) != 1 {
		panic(fmt.Sprintf("harness: c04rec called with %d arguments", len(args)))
	}
	recorded = append(recorded, args[0])
	lisp.AddTrace("rec")
	return args[0]
}

type enterFunc struct{ slip.Function }

// Call (c04enter): the number of calls since the case started.
func (f *enterFunc) Call(s *slip.Scope, args slip.List, depth int) slip.Object {
	enterCount++
	return slip.Fixnum(enterCount)
}

func init() {
	slip.Define(
		func(args slip.List) slip.Object {
			f := recFunc{Function: slip.Function{Name: "c04rec", Args: args}}
			f.Self = &f
			return &f
		},
		&slip.FuncDoc{Name: "c04rec", Args: []*slip.DocArg{{Name: "value", Type: "object"}}, Return: "object",
			Text: "harness: records value, returns it"}, &slip.UserPkg)
	slip.Define(
		func(args slip.List) slip.Object {
			f := enterFunc{Function: slip.Function{Name: "c04enter", Args: args}}
			f.Self = &f
			return &f
		},
		&slip.FuncDoc{Name: "c04enter", Args: []*slip.DocArg{}, Return: "fixnum",
			Text: "harness: counts its calls"}, &slip.UserPkg)
}

func splitVia(via string) (base, env string) {
	if i := strings.IndexByte(via, '@'); 0 < i {
		return via[:i], via[i+1:]
	}
	return via, ""
}

// isNewRoute: everything but the routes of the earlier rounds (which keep their own execution path).
func isNewRoute(via string) bool {
	switch via {
	case "defun", "funcall", "apply", "applysym", "redefun", "maprows":
		return false
	}
	return true
}

const envBase = 901 // values of the like-named outer variables: 901, 902, ...

// envNames: every parameter name of every shape; the like-named outer variable of the i-th holds envBase+i.
var envNames = func() []string {
	var out []string
	for _, nt := range []*nameTable{shortNames, longNames} {
		out = append(out, nt.req...)
		out = append(out, nt.opt...)
		out = append(out, nt.rest)
		out = append(out, nt.key...)
		out = append(out, nt.aux...)
	}
	return out
}()

func envValue(name string) int {
	for i, n := range envNames {
		if n == name {
			return envBase + i
		}
	}
	return envBase + len(envNames)
}

var (
	globOnce sync.Once
	globPkg  *slip.Package
)

// globalsPackage: a package in which every parameter name is a global variable (defvar), made once per process.
func globalsPackage() *slip.Package {
	globOnce.Do(func() {
		globPkg = slip.DefPackage("c04globals", nil, "C04: every parameter name is a global variable here")
		for _, u := range slip.UserPkg.Uses {
			globPkg.Use(u)
		}
		globPkg.Use(&slip.UserPkg)
		saved := slip.CurrentPackage
		slip.CurrentPackage = globPkg
		defer func() { slip.CurrentPackage = saved }()
		for _, n := range envNames {
			if _, err := lisp.Eval("(defvar " + n + " " + strconv.Itoa(envValue(n)) + ")"); err != nil {
				panic("harness: defvar in the globals package: " + err.String())
			}
		}
	})
	return globPkg
}

// otherArgs: the arguments of the other activation of a recursive route (positional, values 200+i).
func otherArgs(sh *shape, n int) []arg {
	k := otherCount(sh, n)
	out := make([]arg, k)
	for i := range out {
		out[i] = arg{val: 200 + i}
	}
	return out
}

func execRoute(spec, via string, sh *shape, args []arg) (res engine.Result) {
	base, env := splitVia(via)
	if base == "macro" {
		for i := range args {
			if args[i].kw == "" && !args[i].isNil && !args[i].isT {
				args[i].form = true
			}
		}
	}
	exp := acceptable(sh, args)
	if base == "sort" && len(args) == 2 {
		exp.add(sh, []arg{args[1], args[0]}) // the predicate may be asked about the pair in either order
	}
	names, _ := sh.params()
	at := argTexts(args)
	argStr := strings.Join(append([]string{""}, at...), " ") // " a1 a2" or ""
	name := freshName()
	ll := sh.lambdaList()
	record := "(c04rec (list" + strings.Join(append([]string{""}, names...), " ") + "))"
	body := "(tr 'in) " + record

	// environment: every parameter name is also a variable somewhere around
	var binds []string
	foreign := map[string]bool{}
	for _, n := range names {
		v := strconv.Itoa(envValue(n))
		binds = append(binds, "("+n+" "+v+")")
		if env != "" {
			foreign[v] = true
		}
	}
	letAround := func(form string) string { return "(let (" + strings.Join(binds, " ") + ") " + form + ")" }
	wrapDef := func(form string) string {
		if env == "def" {
			return letAround(form)
		}
		return form
	}
	wrapCall := func(form string) string {
		if env == "call" {
			return letAround(form)
		}
		return form
	}

	var other []arg
	if base == "recout" || base == "recin" {
		if otherCount(sh, len(args)) < 0 {
			res.Fail("harness:bad-spec", spec)
			return
		}
		other = otherArgs(sh, len(args))
		addForeign(foreign, acceptable(sh, other)) // what the other activation holds
	}

	defun := func(b string) string { return "(defun " + name + " " + ll + " " + b + ")" }
	lambda := wrapDef("(lambda " + ll + " " + body + ")")
	fn := "#'" + name
	var defs []string
	var call string
	cleanupFlavor := false
	switch base {
	case "defun":
		defs = []string{wrapDef(defun(body))}
		call = "(" + name + argStr + ")"
	case "funcall":
		call = "(funcall " + lambda + argStr + ")"
	case "apply":
		call = "(apply " + lambda + " (list" + argStr + "))"
	case "applysym":
		defs = []string{wrapDef(defun(body))}
		if len(at) == 0 {
			call = "(apply '" + name + " nil)"
		} else {
			call = "(apply '" + name + " " + at[0] + " (list " + strings.Join(at[1:], " ") + "))"
		}
	case "fsharp":
		defs = []string{defun(body)}
		call = "(funcall " + fn + argStr + ")"
	case "ffunction":
		defs = []string{defun(body)}
		call = "(funcall (function " + name + ")" + argStr + ")"
	case "fsymfn":
		defs = []string{defun(body)}
		call = "(funcall (symbol-function '" + name + ")" + argStr + ")"
	case "closure":
		defs = []string{"(defun " + name + " (c04z) (lambda " + ll + " " + body + "))"}
		call = "(funcall (" + name + " 7)" + argStr + ")"
	case "mv.one":
		defs = []string{defun(body)}
		call = "(multiple-value-call " + fn + argStr + ")"
	case "mv.all":
		defs = []string{defun(body)}
		call = "(multiple-value-call " + fn + " (values" + argStr + "))"
	case "mv.split":
		defs = []string{defun(body)}
		h := len(at) / 2
		call = "(multiple-value-call " + fn + " (values " + strings.Join(at[:h], " ") + ") (values) (values " + strings.Join(at[h:], " ") + "))"
	case "mapcar1", "mapc", "every":
		defs = []string{defun(body)}
		cols := make([]string, len(at))
		for i, a := range at {
			cols[i] = "(list " + a + ")"
		}
		op := base
		if base == "mapcar1" {
			op = "mapcar"
		}
		call = "(" + op + " " + fn + " " + strings.Join(cols, " ") + ")"
	case "reduce":
		defs = []string{defun(body)}
		call = "(reduce " + fn + " (list" + argStr + "))"
	case "reduceinit":
		defs = []string{defun(body)}
		call = "(reduce " + fn + " (list " + at[1] + ") :initial-value " + at[0] + ")"
	case "sort":
		defs = []string{defun(body)}
		call = "(sort (list" + argStr + ") " + fn + ")"
	case "generic":
		mll := ll
		if 0 < sh.req {
			first := sh.decl(sh.reqName(0))
			mll = "((" + first + " t)" + ll[1+len(first):]
		}
		defs = []string{"(defgeneric " + name + " " + sh.genericLambdaList() + ")", wrapDef("(defmethod " + name + " " + mll + " " + body + ")")}
		call = "(" + name + argStr + ")"
	case "flavor":
		cleanupFlavor = true
		defs = []string{"(defflavor " + name + " () ())", wrapDef("(defmethod (" + name + " :m) " + ll + " " + body + ")")}
		call = "(send (make-instance '" + name + ") :m" + argStr + ")"
	case "macro":
		defs = []string{wrapDef("(defmacro " + name + " " + ll + " " + body + " nil)")}
		call = "(" + name + argStr + ")"
	case "recout", "recin":
		inner, outer := argTexts(other), at
		if base == "recin" {
			inner, outer = at, argTexts(other)
		}
		defs = []string{defun(body + " (if (= (c04enter) 1) (" + name + strings.Join(append([]string{""}, inner...), " ") + ")) " + record)}
		call = "(" + name + strings.Join(append([]string{""}, outer...), " ") + ")"
	default:
		if strings.HasPrefix(base, "spread.") {
			k, _ := strconv.Atoi(base[len("spread."):])
			if k < 0 || len(at) < k {
				res.Fail("harness:bad-spec", spec)
				return
			}
			defs = []string{defun(body)}
			tail := "'()"
			if k < len(at) {
				tail = "(list " + strings.Join(at[k:], " ") + ")"
			}
			call = "(apply " + fn + strings.Join(append([]string{""}, at[:k]...), " ") + " " + tail + ")"
			break
		}
		res.Fail("harness:bad-spec", spec)
		return
	}
	call = wrapCall(call)

	// the global environment lives in a package of its own (made once per process) that is the current package of the
	// case: every parameter name of every shape is a global variable there
	scope := slip.NewScope()
	if env == "glob" {
		gp := globalsPackage()
		saved := slip.CurrentPackage
		slip.CurrentPackage = gp
		defer func() {
			gp.Undefine(name)
			slip.CurrentPackage = saved
		}()
	} else {
		defer slip.UserPkg.Undefine(name)
	}
	if cleanupFlavor {
		defer func() { _, _ = lisp.EvalIn(scope, "(undefflavor '"+name+")") }()
	}

	lisp.ResetTrace()
	recorded = recorded[:0]
	enterCount = 0
	src := strings.Join(append(append([]string(nil), defs...), call), " ")
	unsupported := func(derr *lisp.Err) bool {
		// slip does not take supplied-p variables and ((:keyword var) default) specs: the definition is refused
		// aloud (not in the statement, nothing to demand); anything else it does with them is judged
		if (sh.mode == 's' || sh.mode == 'q') && strings.Contains(derr.Message, "lambda list element") {
			res.Outcome = "definition-refused:" + dimensionName(sh)
			res.Hit("A:" + dimensionName(sh) + "-definition-refused")
			return true
		}
		return false
	}
	for _, def := range defs {
		if _, derr := lisp.EvalIn(scope, def); derr != nil {
			if unsupported(derr) {
				return
			}
			res.Fail("A via="+via+" kind=definition-rejected err="+derr.Class, def+" => "+derr.String())
			return
		}
	}
	lisp.ResetTrace()
	_, err := lisp.EvalIn(scope, call)
	if err != nil && len(recorded) == 0 && unsupported(err) {
		return
	}
	trace := lisp.Trace()

	// which "in" belongs to the activation under test, and what was logged before it
	target := 0 // index of the activation under test among the activations
	if base == "recin" {
		target = 1
	}
	ins := 0
	var pre []string
	for _, t := range trace {
		if t == "in" {
			ins++
			continue
		}
		if ins == target && t != "rec" && base != "recin" {
			pre = append(pre, t)
		}
	}
	ob := &observation{via: via, sh: sh, args: args, exp: exp, err: err, bodyRan: target < ins, pre: pre, src: src, foreign: foreign}
	hitRoute(&res, base, env, sh, args)
	if err == nil {
		if len(recorded) <= target {
			res.Nontrivial = true
			res.Outcome = "body-never-ran"
			res.Fail("A via="+via+" kind=function-not-called", src+" => no error, and the body of the function never ran")
			return
		}
		ob.val = recorded[target]
	}
	judge(&res, ob)

	// nested activations: the OTHER activation is bound by its own arguments alone, and nothing changes over the nested call
	if other != nil && err == nil && len(res.Failures) == 0 {
		oi := 1 - target
		if len(recorded) != 4 {
			res.Fail("A via="+via+" kind=nested-call-count", fmt.Sprintf("%s => %d records instead of 4", src, len(recorded)))
			return
		}
		entry := []slip.Object{recorded[0], recorded[1]}
		exit := []slip.Object{recorded[3], recorded[2]}
		oexp := acceptable(sh, other)
		if got := lisp.Show(entry[oi]); !oexp.set[got] {
			oob := &observation{via: via, sh: sh, args: other, exp: oexp, val: entry[oi], foreign: map[string]bool{}}
			addForeign(oob.foreign, exp)
			who := "nested"
			if oi == 0 {
				who = "outer"
			}
			res.Fail("A via="+via+" kind=wrong-binding-in-the-"+who+"-activation:"+diffBindings(oob),
				fmt.Sprintf("%s => the %s activation (arguments %s) saw %s; required: %s", src, who, renderList(other), got, oexp.describe()))
			return
		}
		for i := range entry {
			if a, b := lisp.Show(entry[i]), lisp.Show(exit[i]); a != b {
				res.Fail("A via="+via+" kind=bindings-changed-over-a-nested-call",
					fmt.Sprintf("%s => activation %d saw %s when it started and %s after the nested call had returned", src, i, a, b))
				return
			}
		}
		res.Hit("A:nested-activation-with-another-argument-count")
	}
	return
}

// hitRoute bumps the vacuity counters of the route / environment / dimension.
func hitRoute(res *engine.Result, base, env string, sh *shape, args []arg) {
	switch {
	case strings.HasPrefix(base, "spread."):
		k, _ := strconv.Atoi(base[len("spread."):])
		switch {
		case k == len(args) && 0 < k:
			res.Hit("A:route-apply-spread-arguments-and-an-empty-list")
		case 1 < k:
			res.Hit("A:route-apply-several-spread-arguments")
		case len(args) == 0:
			res.Hit("A:route-apply-of-the-empty-list")
		}
	default:
		res.Hit("A:route-" + base)
	}
	if env != "" {
		res.Hit("A:environment-" + env)
	}
	if sh.mode != 0 || sh.aok {
		res.Hit("A:lambda-list-" + dimensionName(sh))
	}
}

// addForeign: the values another activation was given (not nil, not the literal defaults every activation shares).
func addForeign(set map[string]bool, exp *expectation) {
	for _, o := range exp.values {
		for _, v := range o.vals {
			if n, err := strconv.Atoi(v); v == "nil" || (err == nil && n < 100) {
				continue
			}
			set[v] = true
		}
	}
}
