package c08

// gen.go: the program alphabet. A program is a set of top-level definitions
// (templates with @-prefixed names that are made unique per execution), a main
// expression, and for every definition an optional alternative text used by
// the redefinition modes.

import (
	"fmt"
	"sort"
	"strings"
	"sync"

	"verif/engine"
)

type program struct {
	id       string   // fam:shape:ctx:arity:style — part of the spec
	fam      string   // calls | macro | var | closure | data
	defs     []string // definition texts in "natural" order (callee last)
	alts     []string // alts[i]: alternative definition of defs[i] ("" = none)
	main     string
	before   [][2]int // before[k] = {a,b}: defs[a] must precede defs[b] (macro before user)
	stateful bool     // main changes state: skipped by the early modes
	noEarly  bool     // macro programs: code using a macro is never read/evaluated before the macro exists
	thorough bool     // only in the thorough tier
	feats    []string // hit counters
	redefAll bool     // additional modes redefall / compredefall: every definition that has an alternative is redefined, in order

	sigx      string // appended to every signature of the program (tree family: nesting class, spelling, kind of callee)
	regen     []int  // defgeneric forms that the modes regen:i / compregen:i evaluate again, followed by the alternative of the next definition (its method)
	unbind    []int  // definitions that the modes unbind:i / compunbind:i make unbound (fmakunbound) and define again
	macroDefs []int  // late callees that are MACROS: used before defined, only the differential oracle applies
	macroTop  bool   // the main expression itself uses those macros
	flavorDef int
}

// ctx wraps a call expression that returns a number.
type ctxDef struct {
	name  string
	class string // plain | special | hof
	wrap  func(call string) string
	quick bool
}

// composite contexts (thorough): the call in context [1], the whole wrapped by [0]
var composite = map[*ctxDef][2]*ctxDef{}

var ctxs = []ctxDef{
	{"body", "plain", func(c string) string { return c }, true},
	{"arg", "plain", func(c string) string { return "(+ 1000 " + c + ")" }, true},
	{"nested", "plain", func(c string) string { return "(+ 1 (* 2 " + c + "))" }, true},
	{"trarg", "plain", func(c string) string { return "(tr 'ret " + c + ")" }, true},
	{"seq", "plain", func(c string) string { return "(tr 'enter 0) " + c }, true},
	{"if", "special", func(c string) string { return "(if (< 0 1) " + c + " 0)" }, true},
	{"iftest", "special", func(c string) string { return "(if (< " + c + " 0) 1 2)" }, false},
	{"letinit", "special", func(c string) string { return "(let ((r " + c + ")) (+ r 1))" }, true},
	{"letbody", "special", func(c string) string { return "(let ((r 1)) (+ r " + c + "))" }, true},
	{"progn", "plain", func(c string) string { return "(progn (tr 'pg 0) " + c + ")" }, true},
	{"cond", "special", func(c string) string { return "(cond ((< 1 0) 0) (t " + c + "))" }, true},
	{"when", "special", func(c string) string { return "(when t " + c + ")" }, false},
	{"setq", "special", func(c string) string { return "(let ((r 0)) (setq r " + c + ") r)" }, true},
	{"and", "special", func(c string) string { return "(and t " + c + ")" }, false},
	// hof contexts are built by callExpr (the call itself changes shape)
	{"funcall-fn", "hof", nil, true},
	{"funcall-sym", "hof", nil, true},
	{"apply", "hof", nil, false},
	{"lambda", "hof", nil, true},
	{"lambda-head", "hof", nil, true},
}

func ctxByName(name string) *ctxDef {
	for i := range ctxs {
		if ctxs[i].name == name {
			return &ctxs[i]
		}
	}
	return nil
}

var pnames = []string{"pa", "pb", "pc"}

func params(a int, style string) string {
	if a == 0 {
		return "()"
	}
	if style == "opt" {
		var ps []string
		for i := 0; i < a; i++ {
			ps = append(ps, fmt.Sprintf("(%s %d)", pnames[i], 50+10*i))
		}
		return "(&optional " + strings.Join(ps, " ") + ")"
	}
	return "(" + strings.Join(pnames[:a], " ") + ")"
}

// argExprs: the traced arguments function i passes on (visible if dropped, swapped or evaluated twice).
func argExprs(i, a int, src []string) []string {
	forms := []string{"(+ %s 1)", "(* %s 2)", "%s"}
	var out []string
	for k := 0; k < a; k++ {
		out = append(out, fmt.Sprintf("(tr 'f%da%d %s)", i, k+1, fmt.Sprintf(forms[k], src[k])))
	}
	return out
}

// callExpr renders the call of function j (1-based) with the given argument
// expressions in context c.
func callExpr(c *ctxDef, j int, args []string) string {
	if oi, ok := composite[c]; ok {
		return oi[0].wrap(callExpr(oi[1], j, args))
	}
	name := fmt.Sprintf("@f%d", j)
	sp := ""
	if 0 < len(args) {
		sp = " " + strings.Join(args, " ")
	}
	switch c.name {
	case "funcall-fn":
		return "(funcall #'" + name + sp + ")"
	case "funcall-sym":
		return "(funcall '" + name + sp + ")"
	case "apply":
		return "(apply #'" + name + " (list" + sp + "))"
	case "lambda":
		return "(funcall (lambda (q) (" + name + sp + ")) 0)"
	case "lambda-head":
		return "((lambda (q) (" + name + sp + ")) 0)"
	}
	return c.wrap("(" + name + sp + ")")
}

func leafValue(a int, variant int) string {
	var v string
	switch a {
	case 0:
		v = "7"
	case 1:
		v = "(+ 7 (* 100 pa))"
	case 2:
		v = "(+ 7 (* 100 pa) (* 10 pb))"
	default:
		v = "(+ (* 100 pa) (* 10 pb) pc)"
	}
	if variant == 1 {
		return "(tr 'leaf-v2 (+ 50000 " + v + "))"
	}
	return "(tr 'leaf " + v + ")"
}

func mainArgs(a int) string {
	return strings.Join([]string{"", " 2", " 2 3", " 2 3 5"}[a:a+1], "")
}

// defun text of function i of a chain; next = 0 for the leaf.
func chainFn(i, next, a int, style string, c *ctxDef, variant int) string {
	ps := params(a, "req")
	if 1 < i {
		ps = params(a, style)
	}
	if next == 0 {
		text := fmt.Sprintf("(defun @f%d %s %s)", i, ps, leafValue(a, variant))
		if variant == 1 {
			// the redefinition also renames the parameters (a stale lambda list would show)
			text = strings.NewReplacer("pa", "qa", "pb", "qb", "pc", "qc").Replace(text)
		}
		return text
	}
	body := callExpr(c, next, argExprs(i, a, pnames))
	if variant == 1 {
		body = "(+ 70000 " + body + ")"
	}
	return fmt.Sprintf("(defun @f%d %s %s)", i, ps, body)
}

// selfFn: function i calls itself in context c; the first parameter counts down, a guard clause ends the recursion.
func selfFn(i, a int, style string, c *ctxDef) string {
	ps := params(a, "req")
	if 1 < i {
		ps = params(a, style)
	}
	forms := []string{"(- %s 1)", "(* %s 2)", "%s"}
	var args []string
	for k := 0; k < a; k++ {
		args = append(args, fmt.Sprintf("(tr 'f%ds%d %s)", i, k+1, fmt.Sprintf(forms[k], pnames[k])))
	}
	return fmt.Sprintf("(defun @f%d %s (if (< pa 1) (return-from @f%d %s)) %s)", i, ps, i, leafValue(a, 0), callExpr(c, i, args))
}

func addCalls(out *[]*program, tierThorough bool) {
	styles := []string{"req", "opt"}
	for _, shape := range []string{"chain2", "join3", "chain3", "mutual2", "mutual3", "fan3", "recleaf2", "self1", "self2", "selfjoin3", "mutual2s", "mutual3s", "chain4", "diamond4"} {
		thoroughShape := shape == "chain4" || shape == "diamond4"
		for ci := range ctxs {
			c := &ctxs[ci]
			for a := 0; a <= 3; a++ {
				for _, style := range styles {
					if style == "opt" && a == 0 {
						continue
					}
					if a == 0 && strings.HasPrefix(c.name, "funcall-") {
						continue // (funcall f) without arguments is rejected by slip: C04's finding, not this property
					}
					p := &program{fam: "calls", id: fmt.Sprintf("calls:%s:%s:%d:%s", shape, c.name, a, style),
						thorough: thoroughShape || shape == "mutual3s" || !c.quick || (style == "opt" && a == 3)}
					switch shape {
					case "chain2", "chain3", "chain4":
						n := int(shape[5] - '0')
						for i := 1; i <= n; i++ {
							next := i + 1
							if i == n {
								next = 0
							}
							p.defs = append(p.defs, chainFn(i, next, a, style, c, 0))
							p.alts = append(p.alts, chainFn(i, next, a, style, c, 1))
						}
						p.main = "(@f1" + mainArgs(a) + ")"
					case "recleaf2":
						// f1 -> f2 in context; f2 recursive on itself (self reference inside if)
						if a == 0 || style == "opt" {
							continue
						}
						p.defs = []string{
							fmt.Sprintf("(defun @f1 %s %s)", params(a, "req"), callExpr(c, 2, argExprs(1, a, pnames))),
							fmt.Sprintf("(defun @f2 %s (if (< pa 1) %s (@f2 (- pa 1)%s)))", params(a, "req"), leafValue(a, 0),
								strings.Join(append([]string{""}, pnames[1:a]...), " ")),
						}
						p.alts = []string{"", fmt.Sprintf("(defun @f2 %s (if (< pa 1) %s (@f2 (- pa 2)%s)))", params(a, "req"), leafValue(a, 1),
							strings.Join(append([]string{""}, pnames[1:a]...), " "))}
						p.main = "(@f1" + mainArgs(a) + ")"
						p.feats = append(p.feats, "self-recursion")
					case "self1", "self2", "selfjoin3":
						// a directly self-recursive function whose self-call sits in the context (a strict position for
						// the plain contexts): termination by a guard clause, not by a conditional around the call
						if a == 0 {
							continue
						}
						if shape == "selfjoin3" && c.name == "seq" {
							continue
						}
						switch shape {
						case "self1":
							p.defs = []string{selfFn(1, a, "req", c)}
							p.alts = []string{chainFn(1, 0, a, "req", c, 1)}
							p.main = "(@f1" + mainArgs(a) + ")"
						case "self2":
							p.defs = []string{chainFn(1, 2, a, style, c, 0), selfFn(2, a, style, c)}
							p.alts = []string{chainFn(1, 2, a, style, c, 1), chainFn(2, 0, a, style, c, 1)}
							p.main = "(@f1" + mainArgs(a) + ")"
						default:
							p.defs = []string{
								fmt.Sprintf("(defun @f1 %s %s)", params(a, "req"), callExpr(c, 3, argExprs(1, a, pnames))),
								fmt.Sprintf("(defun @f2 %s %s)", params(a, "req"), callExpr(c, 3, argExprs(2, a, pnames))),
								selfFn(3, a, style, c),
							}
							p.alts = []string{"", "", chainFn(3, 0, a, style, c, 1)}
							p.main = "(+ (@f1" + mainArgs(a) + ") (@f2" + mainArgs(a) + "))"
							p.feats = append(p.feats, "two-callers")
						}
						if shape == "self1" && style == "opt" {
							continue
						}
						p.feats = append(p.feats, "self-recursion", "self-recursion-guard-clause")
					case "mutual2s", "mutual3s":
						// mutual recursion with EVERY edge in the context, the back edge too (guard clause in the last function)
						if a == 0 || style == "opt" {
							continue
						}
						n := int(shape[6] - '0')
						for i := 1; i < n; i++ {
							p.defs = append(p.defs, fmt.Sprintf("(defun @f%d %s %s)", i, params(a, "req"), callExpr(c, i+1, argExprs(i, a, pnames))))
							p.alts = append(p.alts, "")
						}
						back := []string{fmt.Sprintf("(tr 'f%ds1 (- pa 3))", n)}
						back = append(back, pnames[1:a]...)
						p.defs = append(p.defs, fmt.Sprintf("(defun @f%d %s (if (< pa 1) (return-from @f%d %s)) %s)", n, params(a, "req"), n, leafValue(a, 0),
							callExpr(c, 1, back)))
						p.alts = append(p.alts, chainFn(n, 0, a, "req", c, 1))
						p.main = "(@f1" + mainArgs(a) + ")"
						p.feats = append(p.feats, "mutual-recursion", "self-recursion-guard-clause")
					case "mutual2", "mutual3":
						// f1 -> f2 [-> f3] in context, last -> f1 inside if (termination); first parameter counts down
						if a == 0 || style == "opt" {
							continue
						}
						n := int(shape[6] - '0')
						for i := 1; i < n; i++ {
							p.defs = append(p.defs, fmt.Sprintf("(defun @f%d %s %s)", i, params(a, "req"), callExpr(c, i+1, argExprs(i, a, pnames))))
							p.alts = append(p.alts, "")
						}
						back := []string{"(- pa 3)"}
						back = append(back, pnames[1:a]...)
						p.defs = append(p.defs, fmt.Sprintf("(defun @f%d %s (if (< pa 1) %s (@f1 %s)))", n, params(a, "req"), leafValue(a, 0), strings.Join(back, " ")))
						p.alts = append(p.alts, fmt.Sprintf("(defun @f%d %s (if (< pa 2) %s (@f1 %s)))", n, params(a, "req"), leafValue(a, 1), strings.Join(back, " ")))
						p.main = "(@f1" + mainArgs(a) + ")"
						p.feats = append(p.feats, "mutual-recursion")
					case "fan3":
						if c.name == "seq" {
							continue
						}
						p.defs = []string{
							fmt.Sprintf("(defun @f1 %s (+ %s %s))", params(a, "req"), callExpr(c, 2, argExprs(1, a, pnames)), callExpr(c, 3, argExprs(1, a, pnames))),
							chainFn(2, 0, a, style, c, 0),
							strings.Replace(chainFn(3, 0, a, style, c, 0), "'leaf", "'leaf3", 1),
						}
						p.alts = []string{"", chainFn(2, 0, a, style, c, 1), ""}
						p.main = "(@f1" + mainArgs(a) + ")"
					case "join3":
						// two callers of one callee: f1 -> f3 <- f2
						if c.name == "seq" {
							continue
						}
						a2 := argExprs(2, a, pnames)
						p.defs = []string{
							fmt.Sprintf("(defun @f1 %s %s)", params(a, "req"), callExpr(c, 3, argExprs(1, a, pnames))),
							fmt.Sprintf("(defun @f2 %s %s)", params(a, "req"), callExpr(c, 3, a2)),
							chainFn(3, 0, a, style, c, 0),
						}
						p.alts = []string{"", "", chainFn(3, 0, a, style, c, 1)}
						p.main = "(+ (@f1" + mainArgs(a) + ") (@f2" + mainArgs(a) + "))"
						p.feats = append(p.feats, "two-callers")
					case "diamond4":
						if c.name == "seq" {
							continue
						}
						p.defs = []string{
							fmt.Sprintf("(defun @f1 %s (+ %s %s))", params(a, "req"), callExpr(c, 2, argExprs(1, a, pnames)), callExpr(c, 3, argExprs(1, a, pnames))),
							chainFn(2, 4, a, style, c, 0),
							chainFn(3, 4, a, style, c, 0),
							chainFn(4, 0, a, style, c, 0),
						}
						p.alts = []string{"", "", "", chainFn(4, 0, a, style, c, 1)}
						p.main = "(@f1" + mainArgs(a) + ")"
					}
					if c.class == "hof" {
						p.feats = append(p.feats, "function-designator")
					}
					*out = append(*out, p)
				}
			}
		}
	}
	// chain3 with independent contexts on its two edges (thorough)
	for c1 := range ctxs {
		for c2 := range ctxs {
			if c1 == c2 {
				continue
			}
			for _, a := range []int{1, 2} {
				p := &program{fam: "calls", id: fmt.Sprintf("calls:mix3:%s+%s:%d:req", ctxs[c1].name, ctxs[c2].name, a), thorough: true}
				p.defs = []string{chainFn(1, 2, a, "req", &ctxs[c1], 0), chainFn(2, 3, a, "req", &ctxs[c2], 0), chainFn(3, 0, a, "req", &ctxs[c2], 0)}
				p.alts = []string{"", chainFn(2, 3, a, "req", &ctxs[c2], 1), chainFn(3, 0, a, "req", &ctxs[c2], 1)}
				p.main = "(@f1" + mainArgs(a) + ")"
				*out = append(*out, p)
			}
		}
	}
}

var plainSpecial = []string{"body", "arg", "if", "letinit", "progn"}

func addMacros(out *[]*program) {
	for _, cn := range plainSpecial {
		c := ctxByName(cn)
		// mac1: arithmetic macro used by f1; f2 -> f1 (inside if, steps around the argument-dropping finding)
		*out = append(*out, &program{fam: "macro", id: "macro:mac1:" + cn, noEarly: true, feats: []string{"macro-use"},
			defs: []string{"(defmacro @m1 (ma) `(+ ,ma 1))",
				"(defun @f1 (x) " + c.wrap("(@m1 (tr 'k x))") + ")",
				"(defun @f2 (y) (if t (@f1 (* y 2)) 0))"},
			alts:   []string{"(defmacro @m1 (ma) `(+ ,ma 100))", "(defun @f1 (x) (+ 9000 " + c.wrap("(@m1 (tr 'k2 x))") + "))", ""},
			before: [][2]int{{0, 1}}, main: "(@f2 3)"})
		// mac2: the macro expands into a call of a function that may be defined later
		*out = append(*out, &program{fam: "macro", id: "macro:mac2:" + cn, noEarly: true, feats: []string{"macro-use", "macro-expands-to-later-function"},
			defs: []string{"(defmacro @m1 (ma mb) `(@f3 ,mb ,ma))",
				"(defun @f1 (x) " + c.wrap("(@m1 (tr 'k x) 7)") + ")",
				"(defun @f3 (p q) (+ (* 10 p) q))"},
			alts:   []string{"(defmacro @m1 (ma mb) `(@f3 ,ma ,mb))", "", "(defun @f3 (p q) (+ 500 (* 10 p) q))"},
			before: [][2]int{{0, 1}}, main: "(@f1 1)"})
		// mac3: the macro evaluates its argument form twice
		*out = append(*out, &program{fam: "macro", id: "macro:mac3:" + cn, noEarly: true, feats: []string{"macro-use"},
			defs: []string{"(defmacro @m1 (ma) `(+ ,ma ,ma))",
				"(defun @f1 (x) " + c.wrap("(@m1 (tr 'k (+ x 1)))") + ")"},
			alts:   []string{"(defmacro @m1 (ma) `(* ,ma 3))", ""},
			before: [][2]int{{0, 1}}, main: "(@f1 1)"})
	}
	// mac4: macro used directly by the main expression
	*out = append(*out, &program{fam: "macro", id: "macro:mac4:top", noEarly: true, feats: []string{"macro-use"},
		defs:   []string{"(defmacro @m1 (ma) `(+ ,ma 1))", "(defun @f1 (x) (if t (* x 3) 0))"},
		alts:   []string{"(defmacro @m1 (ma) `(+ ,ma 100))", "(defun @f1 (x) (if t (* x 4) 0))"},
		before: nil, main: "(+ (@m1 (tr 'k 4)) (@f1 (@m1 2)))"})
}

func addVars(out *[]*program) {
	uses := map[string]string{
		"body":    "*@v1*",
		"arg":     "(+ x *@v1*)",
		"if":      "(if (< 0 1) (+ x *@v1*) 0)",
		"letinit": "(let ((r *@v1*)) (+ r x))",
		"call":    "(if t (@f3 *@v1* x) 0)",
	}
	var names []string
	for n := range uses {
		names = append(names, n)
	}
	sort.Strings(names)
	for _, n := range names {
		for _, init := range []string{"7", "(tr 'init 7)"} {
			tag := "const"
			if init != "7" {
				tag = "traced"
			}
			p := &program{fam: "var", id: "var:read:" + n + ":" + tag, feats: []string{"defvar-read"},
				defs: []string{"(defvar *@v1* " + init + ")",
					"(defun @f1 (x) " + uses[n] + ")",
					"(defun @f2 (y) (if t (@f1 (* y 2)) 0))"},
				alts: []string{"", "(defun @f1 (x) (+ 300 " + uses[n] + "))", ""},
				main: "(@f2 3)"}
			if n == "call" {
				p.defs = append(p.defs, "(defun @f3 (p q) (if t (+ (* 10 p) q) 0))")
				p.alts = append(p.alts, "")
				p.thorough = init != "7"
			}
			*out = append(*out, p)
		}
	}
	// defparameter with a traced initial value: evaluated exactly once per evaluation of the definition
	*out = append(*out, &program{fam: "var", id: "var:read:arg:defparameter-traced", feats: []string{"defvar-read"},
		defs: []string{"(defparameter *@v1* (tr 'init 7))", "(defun @f1 (x) (+ x *@v1*))", "(defun @f2 (y) (if t (@f1 (* y 2)) 0))"},
		alts: []string{"(defparameter *@v1* (tr 'init2 9))", "", ""},
		main: "(@f2 3)"})
	// a function whose body IS the global variable, and a setter: the compiled reference must stay a reference
	*out = append(*out, &program{fam: "var", id: "var:direct-state", stateful: true, feats: []string{"global-state", "defvar-read"},
		defs: []string{"(defvar *@v1* 1)", "(defun @f1 () *@v1*)", "(defun @f2 (n) (if t (setq *@v1* n) 0))"},
		alts: []string{"", "(defun @f1 () (if t (* 10 *@v1*) 0))", ""},
		main: "(list (@f1) (@f2 (+ (@f1) 1)) (@f1))"})
	// constants whose value is not self-evaluating (a list, a symbol naming a variable), a number for contrast: a
	// reference to the constant as a call argument must yield the VALUE however and whenever the call was compiled
	for _, kc := range [][3]string{{"list", "'(north south east)", "(+ x (length +@k1+))"},
		{"symbol", "'*@v1*", "(if (eq +@k1+ '*@v1*) (+ x 1) (+ x 100000))"},
		{"number", "7", "(+ x +@k1+)"},
		{"list-elt", "'(*@v1* 2)", "(if (eq (first +@k1+) '*@v1*) (+ x (length +@k1+)) (+ x 100000))"}} {
		for _, cn := range []string{"body", "if", "letinit"} {
			c := ctxByName(cn)
			*out = append(*out, &program{fam: "var", id: "var:constant:" + kc[0] + ":" + cn, feats: []string{"defvar-read"},
				defs: []string{"(defvar *@v1* 99)", "(defconstant +@k1+ " + kc[1] + ")",
					"(defun @f1 (x) " + kc[2] + ")",
					"(defun @f2 (y) " + c.wrap("(@f1 (* y 2))") + ")"},
				alts: []string{"", "", "(defun @f1 (x) (+ 50000 " + kc[2] + "))", ""},
				main: "(@f2 3)"})
		}
	}
	// a caller REBINDS the variable with let around the call: the binding of a special variable is dynamic, the function
	// sees it whether it was defined before or after the defvar; the second call shows that the binding was undone
	for _, n := range names {
		p := &program{fam: "var", id: "var:rebind:" + n, feats: []string{"defvar-read", "special-variable-rebound-by-caller"},
			defs: []string{"(defvar *@v1* 7)",
				"(defun @f1 (x) " + uses[n] + ")",
				"(defun @f2 (y) (let ((*@v1* 500)) (@f1 (* y 2))))"},
			alts: []string{"", "(defun @f1 (x) (list 300 " + uses[n] + "))", ""},
			main: "(list (@f2 3) (@f1 1))"}
		if n == "call" {
			p.defs = append(p.defs, "(defun @f3 (p q) (if t (+ (* 10 p) q) 0))")
			p.alts = append(p.alts, "")
			p.thorough = true
		}
		*out = append(*out, p)
	}
	// the constant IS the body form of the function (a bare symbol is compiled differently from a symbol inside a call)
	for _, kb := range [][2]string{{"number", "7"}, {"list", "'(north south east)"}} {
		for _, cn := range []string{"body", "if", "letinit"} {
			if kb[0] == "list" && cn == "letinit" {
				continue
			}
			c := ctxByName(cn)
			*out = append(*out, &program{fam: "var", id: "var:constant-bare:" + kb[0] + ":" + cn, feats: []string{"defvar-read", "constant-is-the-body-form"},
				defs: []string{"(defconstant +@k1+ " + kb[1] + ")", "(defun @f1 (x) +@k1+)", "(defun @f2 (y) " + c.wrap("(@f1 (* y 2))") + ")"},
				alts: []string{"", "(defun @f1 (x) (if t +@k1+ 0))", ""},
				main: "(@f2 3)"})
		}
	}
	// state: a global counter bumped by the main expression
	for _, kind := range []string{"defvar", "defparameter"} {
		for _, cn := range []string{"letinit", "if"} {
			c := ctxByName(cn)
			*out = append(*out, &program{fam: "var", id: "var:counter:" + kind + ":" + cn, stateful: true, feats: []string{"global-state"},
				defs: []string{"(" + kind + " *@v1* 0)",
					"(defun @f1 (n) (setq *@v1* (+ *@v1* n)))",
					"(defun @f2 () " + c.wrap("(@f1 3)") + ")"},
				alts: []string{"", "(defun @f1 (n) (setq *@v1* (+ *@v1* (* 10 n))))", ""},
				main: "(list (@f2) *@v1*)"})
		}
	}
}

func addClosures(out *[]*program) {
	for ci := range ctxs {
		c := &ctxs[ci]
		for a := 0; a <= 1; a++ {
			if a == 0 && strings.HasPrefix(c.name, "funcall-") {
				continue
			}
			args := argExprs(1, a, []string{"x"})
			body := "(+ n 1)"
			if a == 1 {
				body = "(+ n (* 10 pa))"
			}
			// clo1: the callee is defined inside a let and reads the captured variable
			*out = append(*out, &program{fam: "closure", id: fmt.Sprintf("closure:read:%s:%d", c.name, a), thorough: !c.quick,
				feats: []string{"closure"},
				defs: []string{"(defun @f1 (x) " + callExpr(c, 2, args) + ")",
					"(let ((n 5)) (defun @f2 " + params(a, "req") + " (tr 'clo " + body + ")))"},
				alts: []string{"", "(let ((n 8) (k 2)) (defun @f2 " + params(a, "req") + " (tr 'clo2 (* k " + body + "))))"},
				main: "(@f1 4)"})
		}
		if strings.HasPrefix(c.name, "funcall-") {
			continue
		}
		// clo2: a counter closure (state captured by the function)
		*out = append(*out, &program{fam: "closure", id: "closure:counter:" + c.name, stateful: true, thorough: !c.quick,
			feats: []string{"closure", "closure-state"},
			defs: []string{"(defun @f1 () " + callExpr(c, 2, nil) + ")",
				"(let ((cnt 0)) (defun @f2 () (setq cnt (+ cnt 1))))"},
			alts: []string{"", "(let ((cnt 100)) (defun @f2 () (setq cnt (+ cnt 2))))"},
			main: "(@f1)"})
	}
	// clo4: the reverse - a function defined inside a let is REdefined at top level and its new body reads a global
	// variable named like the old let variable: nothing of the old closure may survive. The let form comes before the
	// defvar so that the let variable is an ordinary lexical variable when the closure is made.
	for _, cn := range []string{"body", "if", "letinit"} {
		c := ctxByName(cn)
		*out = append(*out, &program{fam: "closure", id: "closure:redef-out-of-let:" + cn, feats: []string{"closure"},
			defs: []string{"(defvar @n 1)", "(defun @f1 (x) " + callExpr(c, 2, []string{"(tr 'f1a1 x)"}) + ")",
				"(let ((@n 10)) (defun @f2 (pa) (tr 'clo (+ pa @n))))"},
			alts:   []string{"", "", "(defun @f2 (pa) (tr 'top (+ pa @n)))"},
			before: [][2]int{{2, 0}},
			main:   "(@f1 4)"})
	}
	// clo3: a plain function is REdefined inside a let (the redefinition modes use the alt)
	for _, cn := range []string{"body", "if"} {
		c := ctxByName(cn)
		*out = append(*out, &program{fam: "closure", id: "closure:redef-into-let:" + cn, feats: []string{"closure"},
			defs: []string{"(defun @f1 (x) " + callExpr(c, 2, nil) + ")", "(defun @f2 () (tr 'plain 1))"},
			alts: []string{"", "(let ((n 5)) (defun @f2 () (tr 'clo (+ n 1))))"},
			main: "(@f1 4)"})
	}
}

// addRebind: the same compiled code evaluated again under DIFFERENT bindings. f1's call of f2 sits in every context
// and reads f1's parameter or a let variable of f1's body; the main expression calls f1 three times with
// different arguments (a sub-form that was compiled, cached or closed over at its first evaluation and kept the
// bindings of that evaluation shows as a repeated first value).
func addRebind(out *[]*program) {
	for ci := range ctxs {
		c := &ctxs[ci]
		for a := 1; a <= 2; a++ {
			for _, via := range []string{"param", "let", "loop"} {
				src := []string{"x", "y"}
				body := callExpr(c, 2, argExprs(1, a, src))
				switch via {
				case "let":
					body = "(let ((w (* x 3)) (z (+ y 1))) " + callExpr(c, 2, argExprs(1, a, []string{"w", "z"})) + ")"
				case "loop":
					body = "(mapcar (lambda (i) (let ((w (+ x i))) " + callExpr(c, 2, argExprs(1, a, []string{"w", "y"})) + ")) (list 0 10))"
				}
				*out = append(*out, &program{fam: "rebind", id: fmt.Sprintf("rebind:%s:%s:%d", via, c.name, a), thorough: !c.quick,
					feats: []string{"re-evaluated-under-new-bindings"},
					defs: []string{"(defun @f1 (x y) " + body + ")",
						fmt.Sprintf("(defun @f2 %s %s)", params(a, "req"), leafValue(a, 0))},
					alts: []string{"", fmt.Sprintf("(defun @f2 %s %s)", params(a, "req"), leafValue(a, 1))},
					main: "(list (@f1 1 2) (@f1 3 4) (@f1 1 2))"})
			}
		}
	}
}

// addKeys: keyword parameters. f1 calls f2 with keyword arguments in every context; f2's keys have defaults. The
// orders and the early modes give the forward reference (the call site exists, and is called, before f2 and its
// key names do); the redefinitions change the SET of key names: alt of f2 adds a key and drops one, alt of f1 passes
// the new key (mode redefall redefines both: nothing of the earlier lambda list - a cached key set, a cached binding
// plan - may survive), alt of f2 alone keeps the call valid (the dropped key is not passed by f1's second variant).
func addKeys(out *[]*program) {
	for ci := range ctxs {
		c := &ctxs[ci]
		if c.name == "seq" {
			continue
		}
		for variant := 0; variant < 2; variant++ {
			// variant 0: both keys passed, in lambda-list order; variant 1: one key passed, the other takes its default
			args := []string{"(tr 'f1a1 (+ x 1))", ":pb", "(tr 'f1kb (* x 2))", ":pc", "(tr 'f1kc x)"}
			altArgs := []string{"(tr 'f1a1 (+ x 1))", ":pd", "(tr 'f1kd (* x 3))", ":pb", "(tr 'f1kb (* x 2))"}
			if variant == 1 {
				args = []string{"(tr 'f1a1 (+ x 1))", ":pc", "(tr 'f1kc x)"}
				altArgs = []string{"(tr 'f1a1 (+ x 1))", ":pd", "(tr 'f1kd (* x 3))"}
			}
			*out = append(*out, &program{fam: "keys", id: fmt.Sprintf("keys:%s:%d", c.name, variant), thorough: !c.quick,
				feats: []string{"keyword-arguments"}, redefAll: true,
				defs: []string{"(defun @f1 (x) " + callExpr(c, 2, args) + ")",
					"(defun @f2 (pa &key (pb 60) (pc 70)) (tr 'leaf (+ (* 10000 pa) (* 100 pb) pc)))"},
				alts: []string{"(defun @f1 (x) (+ 70000 " + callExpr(c, 2, altArgs) + "))",
					"(defun @f2 (pa &key (pd 5) (pb 61) (pc 71)) (tr 'leaf-v2 (+ (* 1000000 pd) (* 10000 pa) (* 100 pb) pc)))"},
				main: "(@f1 3)"})
		}
	}
}

// addGenerics: the callee is a GENERIC function (defgeneric + one defmethod, or defmethod alone). The caller may be
// defined, and called, before the generic function exists: the call site compiled against a name that did not exist
// must reach the generic function once it does, and defgeneric / defmethod must accept a name that so far was only
// called. The method is redefined (same specializers) in the redefinition modes.
func addGenerics(out *[]*program) {
	for ci := range ctxs {
		c := &ctxs[ci]
		if c.name == "seq" {
			continue
		}
		for a := 1; a <= 2; a++ {
			args := argExprs(1, a, []string{"x", "x"})
			ll := "((pa fixnum))"
			if a == 2 {
				ll = "((pa fixnum) pb)"
			}
			for _, withGeneric := range []bool{true, false} {
				id := fmt.Sprintf("generic:%s:%d:%v", c.name, a, withGeneric)
				p := &program{fam: "generic", id: id, thorough: !c.quick || (a == 2 && !withGeneric), feats: []string{"generic-function-callee"}}
				p.defs = []string{"(defun @f1 (x) " + callExpr(c, 2, args) + ")"}
				p.alts = []string{""}
				if withGeneric {
					p.defs = append(p.defs, "(defgeneric @f2 "+params(a, "req")+")")
					p.alts = append(p.alts, "")
					p.before = [][2]int{{1, 2}}
				}
				p.defs = append(p.defs, "(defmethod @f2 "+ll+" "+leafValue(a, 0)+")")
				p.alts = append(p.alts, "(defmethod @f2 "+ll+" "+leafValue(a, 1)+")")
				p.main = "(@f1 3)"
				*out = append(*out, p)
			}
		}
	}
}

// nestedCtxs: every context that wraps a form (14) around every context (19): the call sits two levels deep.
func nestedCtxs() (out []*ctxDef) {
	for oi := range ctxs {
		o := &ctxs[oi]
		if o.wrap == nil || o.name == "body" {
			continue
		}
		for ii := range ctxs {
			in := &ctxs[ii]
			if in.name == "seq" || in.name == "body" {
				continue // seq is two forms (body positions only); body adds nothing
			}
			class := "plain"
			switch {
			case in.class == "hof":
				class = "hof"
			case o.class == "special" || in.class == "special":
				class = "special"
			}
			c := &ctxDef{name: o.name + ">" + in.name, class: class}
			composite[c] = [2]*ctxDef{o, in}
			out = append(out, c)
		}
	}
	return
}

// addNested (thorough only): the two-function chain, the closure-reading callee and the rebind family with the call
// two contexts deep.
func addNested(out *[]*program) {
	for _, c := range nestedCtxs() {
		for a := 1; a <= 2; a++ {
			p := &program{fam: "calls", id: fmt.Sprintf("calls:chain2:%s:%d:req", c.name, a), thorough: true}
			p.defs = []string{chainFn(1, 2, a, "req", c, 0), chainFn(2, 0, a, "req", c, 0)}
			p.alts = []string{chainFn(1, 2, a, "req", c, 1), chainFn(2, 0, a, "req", c, 1)}
			p.main = "(@f1" + mainArgs(a) + ")"
			if c.class == "hof" {
				p.feats = append(p.feats, "function-designator")
			}
			*out = append(*out, p)
			for _, via := range []string{"param", "let"} {
				body := callExpr(c, 2, argExprs(1, a, []string{"x", "y"}))
				if via == "let" {
					body = "(let ((w (* x 3)) (z (+ y 1))) " + callExpr(c, 2, argExprs(1, a, []string{"w", "z"})) + ")"
				}
				*out = append(*out, &program{fam: "rebind", id: fmt.Sprintf("rebind:%s:%s:%d", via, c.name, a), thorough: true,
					feats: []string{"re-evaluated-under-new-bindings"},
					defs: []string{"(defun @f1 (x y) " + body + ")",
						fmt.Sprintf("(defun @f2 %s %s)", params(a, "req"), leafValue(a, 0))},
					alts: []string{"", fmt.Sprintf("(defun @f2 %s %s)", params(a, "req"), leafValue(a, 1))},
					main: "(list (@f1 1 2) (@f1 3 4) (@f1 1 2))"})
			}
		}
		body := "(+ n (* 10 pa))"
		*out = append(*out, &program{fam: "closure", id: fmt.Sprintf("closure:read:%s:1", c.name), thorough: true,
			feats: []string{"closure"},
			defs: []string{"(defun @f1 (x) " + callExpr(c, 2, argExprs(1, 1, []string{"x"})) + ")",
				"(let ((n 5)) (defun @f2 " + params(1, "req") + " (tr 'clo " + body + ")))"},
			alts: []string{"", "(let ((n 8) (k 2)) (defun @f2 " + params(1, "req") + " (tr 'clo2 (* k " + body + "))))"},
			main: "(@f1 4)"})
	}
}

func addData(out *[]*program) {
	*out = append(*out,
		&program{fam: "data", id: "data:eval-quoted", feats: []string{"code-as-data"},
			defs: []string{"(defun @f1 () '(+ 1 (* 2 3)))"},
			alts: []string{""},
			main: "(list (listp (third (@f1))) (eval (@f1)) (listp (third (@f1))) (eval (@f1)))"},
		&program{fam: "data", id: "data:eval-quoted-call", feats: []string{"code-as-data"},
			defs: []string{"(defun @f1 () '(@f2 1 (@f2 2 3)))", "(defun @f2 (p q) (if t (+ (* 10 p) q) 0))"},
			alts: []string{"", "(defun @f2 (p q) (if t (+ (* 100 p) q) 0))"},
			main: "(list (listp (third (@f1))) (eval (@f1)) (listp (third (@f1))))"},
		&program{fam: "data", id: "data:macro-quotes-arg", noEarly: true, feats: []string{"code-as-data", "macro-use"},
			defs:   []string{"(defmacro @m1 (ma) `(list ,ma (quote ,ma)))", "(defun @f1 (x) (@m1 (+ x (* 2 3))))"},
			alts:   []string{"", ""},
			before: [][2]int{{0, 1}},
			main:   "(let ((r (@f1 1))) (list (first r) (listp (third (second r))) (first (second r))))"},
		&program{fam: "data", id: "data:quoted-call-shape", feats: []string{"code-as-data"},
			defs: []string{"(defun @f1 (x) (list '(@f2 1) (@f2)))", "(defun @f2 () (tr 'leaf 7))"},
			alts: []string{"", "(defun @f2 () (tr 'leaf-v2 8))"},
			main: "(let ((r (@f1 2))) (list (first (first r)) (second (first r)) (second r)))"},
		&program{fam: "data", id: "data:eval-built-call", feats: []string{"code-as-data"},
			defs: []string{"(defun @f1 (x) (eval (list '@f2 x 2)))", "(defun @f2 (p q) (if t (+ (* 10 p) q) 0))"},
			alts: []string{"", "(defun @f2 (p q) (if t (+ (* 100 p) q) 0))"},
			main: "(@f1 4)"},
	)
}

// addRec2: recursion through TWO functions that do not exist yet when the caller is defined: f1 -> f2 <-> f3, every edge
// in the context under test, and every edge's argument holds a nested call of the OTHER late function
// ((f3 (- pa (- (f2 0) 19)))): guard-clause termination, all 6 orders, every mode, fmakunbound of either function.
func addRec2(out *[]*program) {
	for ci := range ctxs {
		c := &ctxs[ci]
		p := &program{fam: "rec2", id: "rec2:" + c.name, thorough: !c.quick, feats: []string{"mutual-recursion", "recursion-through-two-late-functions", "self-recursion-guard-clause"}}
		p.defs = []string{
			"(defun @f1 (pa) " + callExpr(c, 2, []string{"(tr 'f1a1 pa)"}) + ")",
			"(defun @f2 (pa) (if (< pa 1) (return-from @f2 (tr 'leaf2 (+ 20 pa)))) " + callExpr(c, 3, []string{"(tr 'f2a1 (- pa (- (@f3 0) 29)))"}) + ")",
			"(defun @f3 (pa) (if (< pa 1) (return-from @f3 (tr 'leaf3 (+ 30 pa)))) " + callExpr(c, 2, []string{"(tr 'f3a1 (- pa (- (@f2 0) 19)))"}) + ")",
		}
		p.alts = []string{"", "(defun @f2 (qa) (tr 'leaf2-v2 (+ 50000 qa)))", "(defun @f3 (qa) (tr 'leaf3-v2 (+ 60000 qa)))"}
		p.unbind = []int{1, 2}
		p.main = "(@f1 3)"
		if c.class == "hof" {
			p.feats = append(p.feats, "function-designator")
		}
		*out = append(*out, p)
	}
}

// addFbound: fboundp of a name that so far was only CALLED (a call of it was compiled): the stand-in made for the forward
// reference is not a definition. main asks fboundp before it calls; the early modes evaluate it while only the caller exists.
func addFbound(out *[]*program) {
	for _, cn := range []string{"body", "arg", "if", "letinit", "lambda", "funcall-fn"} {
		c := ctxByName(cn)
		*out = append(*out, &program{fam: "fbound", id: "fbound:" + cn, feats: []string{"fboundp-of-a-name-that-was-only-called"},
			defs:   []string{"(defun @f1 (pa) " + callExpr(c, 2, []string{"(tr 'f1a1 (+ pa 1))"}) + ")", "(defun @f2 (pa) (tr 'leaf (* pa 2)))"},
			alts:   []string{"", "(defun @f2 (qa) (tr 'leaf-v2 (* qa 3)))"},
			unbind: []int{1},
			main:   "(list (if (fboundp '@f2) 1 0) (if (fboundp '@f2) (@f1 1) -1) (if (fboundp '@f1) 1 0))"})
	}
}

// addCase: function names written with capital letters. Names are case-insensitive: a function defined as LateFn is the
// function latefn, whichever spelling the definition and the call use and whichever comes first.
func addCase(out *[]*program) {
	for _, sp := range [][3]string{{"both", "@LateFn", "@LateFn"}, {"def", "@LateFn", "@latefn"}, {"call", "@latefn", "@LateFn"}} {
		for _, cn := range []string{"body", "arg", "if", "letinit", "funcall-fn", "funcall-sym"} {
			arg := "(tr 'f1a1 (+ pa 1))"
			var call string
			switch cn {
			case "funcall-fn":
				call = "(funcall #'" + sp[2] + " " + arg + ")"
			case "funcall-sym":
				call = "(funcall '" + sp[2] + " " + arg + ")"
			default:
				call = ctxByName(cn).wrap("(" + sp[2] + " " + arg + ")")
			}
			*out = append(*out, &program{fam: "case", id: "case:" + sp[0] + ":" + cn, feats: []string{"mixed-case-function-name"},
				defs:   []string{"(defun @f1 (pa) " + call + ")", "(defun " + sp[1] + " (qa) (tr 'leaf (* qa 2)))"},
				alts:   []string{"", "(defun " + sp[1] + " (ra) (tr 'leaf-v2 (* ra 3)))"},
				unbind: []int{1},
				main:   "(@f1 2)"})
		}
	}
}

// addStruct: the late callee is made by DEFSTRUCT (a keyword constructor and slot readers): the caller may be defined,
// and called, before the structure is. No redefinition: the consequences of redefining a structure are undefined (CLHS).
func addStruct(out *[]*program) {
	for _, cn := range []string{"body", "arg", "if", "letinit", "lambda", "cond", "progn"} {
		c := ctxByName(cn)
		inner := "(@s-b (make-@s :a (tr 'k1 pa) :b (@s-a (make-@s :a (tr 'k2 (+ pa 5)) :b 1))))"
		body := ""
		if c.wrap != nil {
			body = c.wrap(inner)
		} else {
			body = "(funcall (lambda (q) " + inner + ") 0)"
		}
		*out = append(*out, &program{fam: "struct", id: "struct:" + cn, feats: []string{"structure-functions-as-late-callees"},
			defs: []string{"(defun @f1 (pa) " + body + ")", "(defstruct @s a b)"},
			alts: []string{"(defun @f1 (pa) (+ 70000 " + body + "))", ""},
			main: "(@f1 3)"})
	}
}

var (
	progOnce sync.Once
	progList []*program
	progByID map[string]*program
)

func allPrograms() []*program {
	progOnce.Do(func() {
		addCalls(&progList, true)
		addMacros(&progList)
		addVars(&progList)
		addClosures(&progList)
		addData(&progList)
		addRebind(&progList)
		addKeys(&progList)
		addGenerics(&progList)
		addNested(&progList)
		addRec2(&progList)
		addFbound(&progList)
		addCase(&progList)
		addStruct(&progList)
		progByID = map[string]*program{}
		for _, p := range progList {
			if _, dup := progByID[p.id]; dup {
				panic("harness: duplicate program id " + p.id)
			}
			if len(p.alts) != len(p.defs) {
				panic("harness: alts/defs mismatch in " + p.id)
			}
			progByID[p.id] = p
		}
	})
	return progList
}

// perms returns all orders of n definitions that respect the before-constraints, identity first.
func perms(n int, before [][2]int) (out [][]int) {
	cur := make([]int, 0, n)
	used := make([]bool, n)
	var rec func()
	rec = func() {
		if len(cur) == n {
			pos := make([]int, n)
			for i, d := range cur {
				pos[d] = i
			}
			for _, b := range before {
				if pos[b[1]] < pos[b[0]] {
					return
				}
			}
			out = append(out, append([]int(nil), cur...))
			return
		}
		for i := 0; i < n; i++ {
			if !used[i] {
				used[i] = true
				cur = append(cur, i)
				rec()
				cur = cur[:len(cur)-1]
				used[i] = false
			}
		}
	}
	rec()
	return
}

func permString(p []int) string {
	b := make([]byte, len(p))
	for i, d := range p {
		b[i] = byte('0' + d)
	}
	return string(b)
}

func enumerate(tier string, emit func(string)) {
	enumReeval(tier, emit)
	enumQuoted(tier, emit)
	enumMutdata(tier, emit)
	enumBuiltins(tier, emit)
	enumClassic(tier, emit)
	enumTrees(tier, 0, 0, emit)
	enumInert(tier, emit)
}

// enumClassic: the programs of the explicit list (allPrograms).
func enumClassic(tier string, emit func(string)) {
	for _, p := range allPrograms() {
		if p.thorough && tier != engine.Thorough {
			continue
		}
		for _, perm := range perms(len(p.defs), p.before) {
			for _, mode := range modesFor(p, tier) {
				emit(p.id + "|" + permString(perm) + "|" + mode)
			}
		}
	}
}
