//go:build verif

package c01

import (
	"fmt"
	"sort"
	"strings"
)

// Form templates with typed holes. A template is written in Lisp notation;
// every evaluated position of interest is a hole:
//
//	?i int   ?a any   ?l list   ?r "the type required of this template" (polymorphic)
//	?t any, default leaf is true    ?f any, default leaf is nil   ?n list, default leaf is nil
//	?c int, default leaf 2          ?0..?9 int, default leaf has that value
//
// followed by the variables the hole adds to the lexical environment of
// whatever fills it:  +x (integer variable, may be read and assigned),
// +x! (integer, read only: loop variables of dotimes), +x? (value of any type,
// read only), +f& (a function of one integer returning an integer), and a final
// * when the position is evaluated repeatedly (loop/function body: nothing
// that defines a named function may go there - no redefinition, that is C08).
// The default filling of a hole is a trace leaf (tr 'kN V): N is the number of
// the leaf in the program text, V a value of the right type (N itself for
// integers, so all are distinct). A deviation fills a hole with another
// template or with an environment leaf:
//
//	$rx = (tr 'kN x)   $sx = (setq x (tr 'kN (+ x 1)))   $cf(H) = (funcall f H)
//
// NAME stands for a function name unique to the template instance.
type tmpl struct {
	name    string
	typ     byte   // 'i', 'l', 'a', 'r'
	family  string // what the template exercises (the form name, or the interaction for composite templates)
	src     string
	rank    int // 2 = spine subset, 1 = core subset, 0 = the rest, -1 = variant templates that only take part as the root form or at D <= 2 (subsets are used where the full alphabet is too large)
	root    *node
	holes   []*hole
	defines bool
}

type hole struct {
	kind  byte // i a l r t f n c 0-9
	adds  []envVar
	rep   bool
	class string // where the hole sits: call-argument, if-test, let-init, progn-last, function-body-last ...
}

type envVar struct {
	name string
	kind byte // 'w' int read/write, 'r' int read-only, 'a' any read-only, 'f' function int->int
}

var templateSrc = []struct {
	name, typ, family, src string
	rank                   int // 4 = deepest subset, 3 = deep subset, 2 = spine subset, 1 = core subset, 0 = the rest, -1 = variants (root form, or anywhere at D <= 2)
}{
	{"add", "i", "+", "(+ ?i ?i)", 1},
	{"sub", "i", "-", "(- ?i ?i ?i)", 0},
	{"lst", "l", "list", "(list ?a ?a ?a)", 1},
	{"cns", "l", "cons", "(cons ?a ?l)", 0},
	{"len", "i", "length", "(length ?l)", 0},
	{"pg0", "l", "progn", "(progn)", 0},
	{"pg1", "r", "progn", "(progn ?r)", 0},
	{"pg2", "r", "progn", "(progn ?a ?r)", 4},
	{"pr1", "r", "prog1", "(prog1 ?r ?a ?a)", 1},
	{"ift", "r", "if", "(if ?t ?r ?r)", 4},
	{"iff", "r", "if", "(if ?f ?r ?r)", 1},
	{"i2t", "a", "if", "(if ?t ?a)", 0},
	{"i2f", "a", "if", "(if ?f ?a)", 0},
	{"wht", "a", "when", "(when ?t ?a ?a)", 2},
	{"whf", "a", "when", "(when ?f ?a ?a)", 0},
	{"unt", "a", "unless", "(unless ?t ?a ?a)", 0},
	{"unf", "a", "unless", "(unless ?f ?a ?a)", 0},
	{"cd1", "r", "cond", "(cond (?t ?a ?r) (?a ?r) (t ?r))", 0},
	{"cd2", "r", "cond", "(cond (?f ?a ?r) (?t ?r) (t ?r))", 2},
	{"cd3", "r", "cond", "(cond (?f ?r) (?f ?r) (t ?a ?r))", 0},
	{"cdn", "a", "cond", "(cond (?f ?a) (?f ?a))", 0},
	{"cdt", "a", "cond-test-only-clause", "(cond (?f ?a) (?a) (t ?a))", 0},
	{"cs1", "r", "case", "(case ?1 (1 ?r) ((2 3) ?r) (otherwise ?r))", 0},
	{"cs3", "r", "case", "(case ?3 (1 ?r) ((2 3) ?a ?r) (otherwise ?r))", 1},
	{"cso", "r", "case", "(case ?9 (1 ?r) ((2 3) ?r) (otherwise ?a ?r))", 0},
	{"cst", "r", "case", "(case ?9 (1 ?r) (t ?r))", 0},
	{"csn", "a", "case", "(case ?9 (1 ?a) ((2 3) ?a))", 0},
	{"an3", "r", "and", "(and ?r ?r ?r)", 1},
	{"anf", "a", "and", "(and ?a ?f ?a)", 0},
	{"an0", "a", "and", "(and)", 0},
	{"or2", "r", "or", "(or ?r ?r)", 0},
	{"orf", "a", "or", "(or ?f ?a ?a)", 1},
	{"orn", "a", "or", "(or ?f ?f)", 0},
	{"or0", "l", "or", "(or)", 0},
	{"lt1", "r", "let", "(let ((x ?i)) ?r+x)", 0},
	{"lt2", "r", "let", "(let ((x ?i) (y ?i)) ?a+x+y ?r+x+y)", 4},
	{"lts", "l", "let-shadowing", "(let ((x ?i) (y ?i)) (let ((x ?i+x+y) (y ?i+x+y)) (list x y ?a+x+y)))", 1},
	{"ltn", "l", "let-no-init", "(let (x (y)) (list x y ?a+x?+y?))", 0},
	{"ls2", "r", "let*", "(let* ((x ?i) (y ?i+x)) ?a+x+y ?r+x+y)", 2},
	{"lss", "l", "let*-shadowing", "(let ((x ?i) (y ?i)) (let* ((x ?i+x+y) (y ?i+x+y)) (list x y ?a+x+y)))", 0},
	{"lsn", "l", "let*-no-init", "(let* (x (y)) (list x y ?a+x?+y?))", 0},
	{"ltv", "a", "let-init-multiple-values", "(let ((x ((lambda (a b) (values a b)) ?a ?a))) x)", 0},
	{"sq1", "l", "setq", "(let ((x ?i)) (list (setq x ?i+x) x ?a+x x))", 2},
	{"sq2", "l", "setq-pairs", "(let ((x ?i) (y ?i)) (list (setq x ?i+x+y y ?i+x+y) x y))", 0},
	{"sqo", "i", "setq-outer-variable", "(let ((x ?i)) (let ((y ?i+x)) (setq x (+ x y)) ?a+x+y) x)", 1},
	{"clc", "l", "closure-counter", "(let ((x ?i)) (let ((f (lambda (a) (setq x (+ x a)) ?i+x+a*))) (list (funcall f ?i+x+f&) (funcall f ?i+x+f&) x)))", 4},
	{"cl2", "l", "closures-sharing-a-variable", "(let ((x ?i)) (let ((f (lambda (a) (setq x (+ x a)))) (g (lambda (a) (* x a)))) (list (funcall f ?i) (funcall g ?i) (funcall f ?i) (funcall g ?i) x)))", 0},
	{"cls", "l", "closure-called-under-shadowing-let", "(let ((x ?i)) (let ((f (lambda (a) (+ a x)))) (let ((x ?i+x+f&)) (list (funcall f ?i+x+f&) x))))", 1},
	{"clw", "l", "closure-assigns-under-shadowing-let", "(let ((x ?i)) (let ((f (lambda (a) (setq x (+ x a))))) (list (let ((x ?i+x+f&)) (list (funcall f ?i+x+f&) x)) x)))", 0},
	{"cla", "l", "closure-passed-to-function-with-same-parameter-name", "(let () (defun NAME (f x) (funcall f x)) (let ((x ?i)) (NAME (lambda (a) (list a x)) ?i+x)))", 0},
	{"clu", "i", "closure-returned-from-function", "(let () (defun NAME (n) (lambda (a) (+ a n))) (let ((n ?i)) (funcall (NAME ?i+n) ?i+n)))", 0},
	{"cln", "i", "closure-outlives-the-call-that-made-its-binding", "(let () (defun NAME (n) (lambda (a) (+ a n))) (funcall (NAME ?i) ?i))", 1},
	{"clg", "l", "closures-from-one-generator-keep-separate-state", "(let () (defun NAME (n) (let ((x n)) (lambda (a) (setq x (+ x a))))) (let ((f (NAME ?i)) (g (NAME ?i))) (list (funcall f ?i+f&+g&) (funcall g ?i+f&+g&) (funcall f ?i+f&+g&))))", 1},
	{"clm", "l", "closures-made-by-mapcar-called-afterwards", "(let ((fs (mapcar (lambda (a) (lambda (b) (list a b))) (list ?i ?i)))) (list (funcall (car fs) ?i) (funcall (car (cdr fs)) ?i) (funcall (car fs) ?i)))", 0},
	{"cld", "l", "closures-made-in-dolist-called-afterwards", "(let ((fs nil)) (dolist (i (list ?i ?i)) (let ((x i)) (setq fs (cons (lambda (b) (setq x (+ x b))) fs)))) (list (funcall (car fs) ?i) (funcall (car (cdr fs)) ?i) (funcall (car fs) ?i)))", 0},
	{"clr", "i", "closure-made-before-a-recursive-call-used-after-it", "(let () (defun NAME (n) (let ((f (lambda (a) (+ a n)))) (if (= n 0) (funcall f ?i+n*) (+ (NAME (- n 1)) (funcall f ?i+n*))))) (NAME ?c))", 0},
	{"lhr", "l", "lambda-form-call-evaluated-again-under-a-new-binding", "(mapcar (lambda (n) (let ((x n)) ((lambda (a) (setq x (+ x a)) (list a x ?a+a+x*)) ?i+x*))) (list ?i ?i))", 1},
	{"lfr", "l", "funcall-lambda-evaluated-again-under-a-new-binding", "(mapcar (lambda (n) (let ((x n)) (funcall (lambda (a) (setq x (+ x a)) (list a x ?a+a+x*)) ?i+x*))) (list ?i ?i))", 0},
	{"lsr", "l", "funcall-sharp-quote-lambda-evaluated-again-under-a-new-binding", "(mapcar (lambda (n) (let ((x n)) (funcall #'(lambda (a) (setq x (+ x a)) (list a x ?a+a+x*)) ?i+x*))) (list ?i ?i))", 0},
	{"lhd", "l", "lambda-form-call-in-a-function-called-twice", "(let () (defun NAME (n) ((lambda (a) (list a n ?a+a+n*)) ?i+n*)) (list (NAME ?i) (NAME ?i)))", 0},
	{"lbk", "l", "lambda-body-is-a-bare-keyword-or-constant", "(list (funcall (lambda (a) :kw) ?i) (apply (lambda (a) :kw2) (list ?i)) (funcall (lambda (a) nil) ?i) (funcall (lambda (a) t) ?i) (funcall (lambda (a) 7) ?i))", 0},
	{"ltf", "r", "let-lambda", "(let ((f (lambda (a) ?i+a*))) ?r+f&)", 2},
	{"lmc", "r", "lambda-form-call", "((lambda (a b) ?a+a+b* ?r+a+b*) ?i ?i)", 2},
	{"lmf", "r", "funcall-lambda", "(funcall (lambda (a b) ?r+a+b*) ?i ?i)", 0},
	{"lms", "r", "funcall-sharp-quote-lambda", "(funcall #'(lambda (a) ?r+a*) ?i)", 0},
	{"dfc", "r", "defun", "(let () (defun NAME (a b) ?a+a+b* ?r+a+b*) (NAME ?i ?i))", 4},
	{"dfr", "l", "defun-recursive", "(let () (defun NAME (n) (if (= n 0) (list ?a+n*) (cons ?a+n* (NAME (- n 1))))) (NAME ?c))", 1},
	{"df2", "l", "defun-called-twice", "(let () (defun NAME (a) ?a+a*) (list (NAME ?i) (NAME ?i)))", 0},
	{"dfs", "l", "defun-called-through-designators", "(let () (defun NAME (a b) (list a b ?a+a+b*)) (list (funcall 'NAME ?i ?i) (funcall #'NAME ?i ?i) (apply #'NAME ?i (list ?i))))", 0},
	{"dfv", "l", "defun-returning-values", "(let () (defun NAME (a b) (values a b ?a+a+b*)) (multiple-value-bind (a b c) (NAME ?i ?i) (list a b c)))", 0},
	{"dol", "r", "dolist", "(dolist (i ?l ?r+i?) ?a+i?* ?a+i?*)", 1},
	{"dlr", "l", "dolist-result-form-reads-variable", "(dolist (i ?l (list i ?a+i?)) ?a+i?*)", 0},
	{"dot", "r", "dotimes", "(dotimes (i ?c ?r+i!) ?a+i!* ?a+i!*)", 4},
	{"dt0", "r", "dotimes-zero", "(dotimes (i ?0 ?r+i!) ?a+i!*)", 0},
	{"dtn", "a", "dotimes-no-result", "(dotimes (i ?c) ?a+i!*)", 0},
	{"dlv", "l", "dolist-variable-named-like-the-list-variable", "(let ((i (list ?a ?a))) (list (dolist (i i ?a+i?) ?a+i?*) i))", 0},
	{"dtv", "l", "dotimes-variable-named-like-the-count-variable", "(let ((i ?c)) (list (dotimes (i i ?a+i!) ?a+i!*) i))", 0},
	{"dov", "l", "do-variable-named-like-an-outer-variable", "(let ((u ?1)) (list (do ((u u (+ u 1)) (v u u)) ((<= 3 u) (list u v)) ?a+u+v*) u))", 0},
	{"dsv", "l", "do*-variable-named-like-an-outer-variable", "(let ((u ?1)) (list (do* ((u (+ u 1) (+ u 1)) (v u u)) ((<= 4 u) (list u v)) ?a+u+v*) u))", 0},
	{"dop", "l", "do", "(do ((u 0 (+ u 1)) (v ?i u)) ((<= 2 u) (list u v ?a+u+v)) ?a+u+v*)", 2},
	{"dok", "l", "do-variable-without-step", "(do ((u 0 (+ u 1)) (w ?i)) ((<= 2 u) (list u w)) ?a+u+w*)", 0},
	{"dos", "l", "do*", "(do* ((u 0 (+ u 1)) (v ?i (* u 10))) ((<= 2 u) (list u v ?a+u+v)) ?a+u+v*)", 0},
	{"dsk", "l", "do*-variable-without-step", "(do* ((u 0 (+ u 1)) (w ?i)) ((<= 2 u) (list u w)) ?a+u+w*)", 0},
	{"dth", "r", "do-end-test", "(do ((u 0 (+ u 1))) (?t+u ?a+u ?r+u) ?a+u*)", 1},
	{"dts", "l", "do-end-test-is-a-variable", "(do ((u 0 (+ u 1)) (v nil (<= 1 u))) (v (list u ?a+u+v?)) ?a+u+v?*)", 0},
	{"don", "a", "do-no-result", "(do ((u 0 (+ u 1))) ((<= 2 u)) ?a+u*)", 0},
	{"mp1", "l", "mapcar", "(mapcar (lambda (a) ?a+a?*) ?l)", 2},
	{"mp2", "l", "mapcar-two-lists", "(mapcar (lambda (a b) (list a b ?a+a?+b?*)) ?l ?l)", 0},
	{"mps", "l", "mapcar-sharp-quote", "(mapcar #'list ?l ?l)", 0},
	{"mpn", "l", "mapcar-over-nil", "(mapcar (lambda (a) ?a+a?*) ?n)", 0},
	{"apl", "l", "apply", "(apply (lambda (a b c) (list a b c ?a+a+b+c*)) ?i (list ?i ?i))", 1},
	{"aps", "i", "apply-sharp-quote", "(apply #'+ ?i ?i (list ?i ?i))", 0},
	{"apq", "i", "apply-quoted-symbol", "(apply '+ (list ?i ?i))", 0},
	{"fcs", "i", "funcall-sharp-quote", "(funcall #'+ ?i ?i)", 0},
	{"fcq", "i", "funcall-quoted-symbol", "(funcall '- ?i ?i)", 0},
	{"fcv", "l", "funcall-site-called-with-different-functions", "(mapcar (lambda (fn x) (funcall fn x)) (list '1+ '1- (lambda (y) (* y 2)) '1+) (list ?i ?i ?i ?i))", 1},
	{"fcd", "l", "funcall-in-a-function-called-with-different-functions", "(let () (defun NAME (fn x) (funcall fn x ?i+x*)) (list (NAME '+ ?i) (NAME '- ?i) (NAME (lambda (y z) (* y z)) ?i) (NAME '+ ?i)))", 0},
	{"apv", "l", "apply-site-called-with-different-functions", "(mapcar (lambda (fn x) (apply fn x (list ?i+x?*))) (list '+ '- (lambda (y z) (* y z))) (list ?i ?i ?i))", 0},
	{"vl2", "a", "function-returning-two-values", "((lambda (a b) (values a b)) ?a ?a)", 2},
	{"vl1", "r", "function-returning-one-value-via-values", "((lambda (a) (values a)) ?r)", 0},
	{"vln", "a", "function-returning-nil-and-a-second-value", "((lambda (a) (values nil a)) ?a)", 1},
	{"vl0", "a", "function-returning-no-values", "((lambda () (values)))", 0},
	{"mvb", "l", "multiple-value-bind", "(multiple-value-bind (a b) ?a (list a b ?a+a?+b?))", 3},
	{"mv3", "l", "multiple-value-bind-fewer-values", "(multiple-value-bind (a b c) (values ?a ?a) (list a b c))", 0},
	{"mv1", "l", "multiple-value-bind-more-values", "(multiple-value-bind (a) (values ?a ?a) ?a+a? (list a))", 0},
	{"vla", "l", "values-as-argument", "(list ((lambda (a b) (values a b)) ?a ?a) ?a)", 0},
	{"qtl", "l", "quote", "'(1 a (b 2))", 0},
	{"qts", "a", "quote", "(quote foo)", 0},
	{"qtf", "l", "quote", "'(+ 1 2)", 0},
	// ---- round 8: case key kinds, psetq, the multiple-value forms, prog2, mapc / maplist, apply splits, do swaps
	{"csc", "r", "case-character-keys", "(case #\\a ((#\\b) ?r) (#\\a ?a ?r) (t ?r))", -1},
	{"csy", "r", "case-symbol-keys", "(case 'green (red ?r) ((blue green) ?a ?r) (otherwise ?r))", 0},
	{"csz", "r", "case-key-nil-in-a-key-list", "(case ?n ((nil) ?a ?r) (t ?r))", -1},
	{"cse", "r", "case-nil-as-empty-key-list", "(case ?9 (nil ?r) (9 ?a ?r) (t ?r))", -1},
	{"csl", "r", "case-key-that-is-a-list", "(case ?9 (((9)) ?r) ((8 9) ?a ?r) (t ?r))", -1},
	{"cs0", "r", "case-number-keys", "(case ?0 (-1 ?r) (0 ?a ?r) (1 ?r))", -1},
	{"csd", "r", "case-first-matching-clause-wins", "(case ?2 (2 ?r) ((1 2) ?r) (t ?r))", -1},
	{"csq", "r", "case-t-and-otherwise-inside-key-lists", "(case 't ((otherwise) ?r) ((t) ?a ?r) (otherwise ?r))", -1},
	{"csb", "a", "case-selected-clause-without-forms", "(case ?1 (1) (t ?a))", -1},
	{"psq", "l", "psetq", "(let ((x ?i) (y ?i)) (psetq x ?i+x+y y ?i+x+y) (list x y ?a+x+y))", 0},
	{"psw", "l", "psetq-swap", "(let ((x ?i) (y ?i)) (psetq x (+ y ?i+x+y) y (+ x ?i+x+y)) (list x y))", -1},
	{"pso", "l", "psetq-outer-variables-from-a-closure", "(let ((x ?i) (y ?i)) (let ((f (lambda (a) (psetq x y y (+ x a)) a))) (list (funcall f ?i+x+y) x y)))", -1},
	{"mvl", "l", "multiple-value-list", "(multiple-value-list ?a)", 0},
	{"ml3", "l", "multiple-value-list-of-values", "(multiple-value-list (values ?a ?a ?a))", -1},
	{"ml0", "l", "multiple-value-list-of-no-values", "(list (multiple-value-list (values)) ?a)", -1},
	{"mvc", "l", "multiple-value-call", "(multiple-value-call #'list (values ?a ?a) ?a (values) ?a (values ?a ?a ?a))", 0},
	{"mvf", "l", "multiple-value-call-lambda", "(multiple-value-call (lambda (a b c d) (list d c b a ?a+a?+b?+c?+d?*)) (values ?i ?i) ?i (values) ?i)", -1},
	{"mc2", "l", "multiple-value-call-sharp-quote", "(multiple-value-call #'list ?a ?a)", -1},
	{"mvs", "l", "multiple-value-setq", "(let ((x ?i) (y ?i)) (list (multiple-value-setq (x y) (values ?a ?a ?a)) x y))", 0},
	{"ms1", "l", "multiple-value-setq-fewer-values", "(let ((x ?i) (y ?i)) (list (multiple-value-setq (x y) ?a) x y))", -1},
	{"mso", "l", "multiple-value-setq-outer-variables-from-a-closure", "(let ((x ?i) (y ?i)) (let ((f (lambda (a) (multiple-value-setq (x y) (values a (+ x a)))))) (list (funcall f ?i+x+y) x y)))", -1},
	{"mvq", "l", "multiple-value-prog1", "(multiple-value-list (multiple-value-prog1 (values ?a ?a) ?a ?a))", -1},
	{"mq1", "l", "multiple-value-prog1-as-argument", "(list (multiple-value-prog1 ?a ?a) ?a)", -1},
	{"nv1", "a", "nth-value", "(nth-value ?1 (values ?a ?a ?a))", 0},
	{"nv0", "a", "nth-value-of-a-single-value", "(nth-value ?0 ?a)", -1},
	{"nv9", "a", "nth-value-beyond-the-values", "(nth-value ?9 (values ?a ?a))", -1},
	{"vll", "l", "values-list", "(multiple-value-list (values-list ?l))", -1},
	{"vlp", "l", "values-list-as-argument", "(list (values-list ?l) ?a)", -1},
	{"vtp", "l", "values-through-tail-positions", "(multiple-value-list (progn ?a (let ((x ?i)) (if ?t (cond (?f ?a) (t (let* ((y x)) (when ?t (unless ?f ((lambda (a b c) (values a b c)) y ?a ?a)))))) ?a))))", -1},
	{"vtn", "l", "values-truncated-by-prog1", "(multiple-value-list (prog1 ((lambda (a b) (values a b)) ?a ?a) ?a))", -1},
	{"vt2", "l", "values-truncated-by-prog2", "(multiple-value-list (prog2 ?a ((lambda (a b) (values a b)) ?a ?a) ?a))", -1},
	{"vtc", "l", "values-through-and-or-case-tails", "(multiple-value-list (and ?t (or ?f (case ?1 (1 ((lambda (a b) (values a b)) ?a ?a)) (t ?a)))))", -1},
	{"vtl", "l", "values-through-loop-result-forms", "(list (multiple-value-list (dolist (i ?n ((lambda (a b) (values a b)) ?a ?a)))) (multiple-value-list (dotimes (i ?0 ((lambda (a b) (values a b)) i ?a)))) (multiple-value-list (do ((u 0 (+ u 1))) ((<= 1 u) ((lambda (a b) (values a b)) u ?a)))))", -1},
	{"vtf", "l", "values-through-funcall-and-apply", "(list (multiple-value-list (funcall (lambda (a b) (values a b)) ?a ?a)) (multiple-value-list (apply (lambda (a b) (values a b)) ?a (list ?a))))", -1},
	{"pr2", "r", "prog2", "(prog2 ?a ?r ?a)", 0},
	{"mpc", "l", "mapc-two-lists", "(let ((x 0)) (list (mapc (lambda (a b) (setq x (+ x 1)) ?a+a?+b?+x*) ?l ?l) x))", 0},
	{"mpl", "l", "maplist-two-lists", "(maplist (lambda (a b) (list a b ?a+a?+b?*)) ?l ?l)", -1},
	{"mp3", "l", "mapcar-lists-of-unequal-length", "(mapcar (lambda (a b) (list a b ?a+a?+b?*)) (list ?a ?a ?a) (list ?a ?a))", -1},
	{"ap0", "l", "apply-with-empty-final-list", "(apply (lambda (a b) (list a b ?a+a+b*)) ?i ?i nil)", -1},
	{"ap1", "l", "apply-with-only-a-list", "(apply (lambda (a b) (list a b ?a+a+b*)) (list ?i ?i))", -1},
	{"ap3", "l", "apply-three-spread-arguments", "(apply #'list ?a ?a ?a (list ?a ?a))", -1},
	{"dsw", "l", "do-parallel-swap", "(do ((u ?1 v) (v ?2 u) (k 0 (+ k 1))) ((<= 3 k) (list u v ?a+u+v)) ?a+u+v+k*)", -1},
	{"dxw", "l", "do*-sequential-swap", "(do* ((u ?1 v) (v ?2 u) (k 0 (+ k 1))) ((<= 3 k) (list u v ?a+u+v)) ?a+u+v+k*)", -1},
	// ---- forms with an empty part: a clause that is only a test, bodies without forms, one-form prog1 / and / or
	{"cdf", "a", "cond-test-only-first-clause-selected", "(cond (?t) (?a ?a) (t ?a))", 0},
	{"cdl", "a", "cond-test-only-last-clause-selected", "(cond (?f ?a) (?f) (?t))", -1},
	{"cdu", "a", "cond-test-only-clauses-not-selected", "(cond (?f) (?f) (t ?a))", -1},
	{"cdv", "l", "cond-test-only-clause-with-a-multiple-value-test", "(multiple-value-bind (a b) (cond (?f ?a) (((lambda (a b) (values a b)) ?a ?a)) (t ?a)) (list a b))", -1},
	{"an1", "r", "and-one-form", "(and ?r)", -1},
	{"or1", "r", "or-one-form", "(or ?r)", -1},
	{"wue", "l", "when-unless-without-forms", "(list (when ?t) (unless ?f) (when ?f) (unless ?t))", -1},
	{"lte", "l", "let-without-forms", "(list (let ((x ?i))) (let* ((x ?i) (y ?i))) (let ()) (multiple-value-bind (a b) (values ?a ?a)))", -1},
	{"lpe", "l", "loops-without-forms", "(list (dolist (i ?l)) (dolist (i ?l ?a)) (dotimes (i ?c)) (dotimes (i ?c i)) (do ((u 0 (+ u 1))) ((<= 2 u))) (do* ((u 0 (+ u 1))) ((<= 2 u) u)))", -1},
	{"p1o", "r", "prog1-one-form", "(prog1 ?r)", -1},
	{"p2o", "r", "prog2-two-forms", "(prog2 ?a ?r)", -1},
	{"mqo", "l", "multiple-value-prog1-one-form", "(multiple-value-list (multiple-value-prog1 ?a))", -1},
	{"fne", "l", "functions-without-forms", "(let () (defun NAME (a)) (list (NAME ?a) (funcall (lambda (a)) ?a) ((lambda ())) (mapcar (lambda (a)) ?l)))", -1},
	{"cdo", "l", "closures-made-in-do-share-the-one-binding", "(let ((fs nil)) (do ((u 0 (+ u 1))) ((<= 2 u)) (setq fs (cons (lambda (b) (list u b)) fs))) (list (funcall (car fs) ?i) (funcall (car (cdr fs)) ?i)))", -1},
}

var (
	templates  []*tmpl
	tmplByName = map[string]*tmpl{}
)

func init() {
	for _, ts := range templateSrc {
		t := &tmpl{name: ts.name, typ: ts.typ[0], family: ts.family, src: ts.src, rank: ts.rank}
		t.root = parseSexpr(ts.src)
		t.collect(t.root)
		hi := 0
		t.classify(t.root, "program", &hi)
		if hi != len(t.holes) {
			panic("c01: hole classification out of step in " + t.name)
		}
		if tmplByName[t.name] != nil || len(t.name) != 3 {
			panic("c01: bad template name " + t.name)
		}
		templates = append(templates, t)
		tmplByName[t.name] = t
	}
}

func (t *tmpl) collect(n *node) {
	switch n.kind {
	case 's':
		if n.s == "NAME" {
			t.defines = true
		}
		if strings.HasPrefix(n.s, "?") {
			t.holes = append(t.holes, parseHole(n.s))
		}
	case 'l':
		// a quoted datum is data, not holes
		if 0 < len(n.l) && n.l[0].isSym("quote") {
			return
		}
		for _, e := range n.l {
			t.collect(e)
		}
	}
}

func parseHole(s string) *hole {
	h := &hole{kind: s[1]}
	rest := s[2:]
	if strings.HasSuffix(rest, "*") {
		h.rep = true
		rest = rest[:len(rest)-1]
	}
	for _, part := range strings.Split(rest, "+") {
		if part == "" {
			continue
		}
		v := envVar{name: part, kind: 'w'}
		switch part[len(part)-1] {
		case '!':
			v = envVar{name: part[:len(part)-1], kind: 'r'}
		case '?':
			v = envVar{name: part[:len(part)-1], kind: 'a'}
		case '&':
			v = envVar{name: part[:len(part)-1], kind: 'f'}
		}
		h.adds = append(h.adds, v)
	}
	if !strings.ContainsRune("ialrtfnc0123456789", rune(h.kind)) {
		panic("c01: bad hole " + s)
	}
	return h
}

// reqType is the type demanded of whatever fills the hole, given the type
// demanded of the enclosing template instance.
func (h *hole) reqType(parentReq byte) byte {
	switch h.kind {
	case 'a', 't', 'f':
		return 'a'
	case 'l', 'n':
		return 'l'
	case 'r':
		return parentReq
	}
	return 'i'
}

// fits: may a filler of type typ go where req is required?
func fits(typ, req byte) bool {
	return typ == 'r' || req == 'a' || typ == req
}

// scope is the lexical environment the generator tracks (names only).
type scope struct {
	vars []envVar // innermost binding of a name wins: later entries shadow earlier ones
	rep  bool
}

func (s scope) extend(h *hole) scope {
	ns := scope{rep: s.rep || h.rep}
	for _, v := range s.vars {
		shadowed := false
		for _, a := range h.adds {
			shadowed = shadowed || a.name == v.name
		}
		if !shadowed {
			ns.vars = append(ns.vars, v)
		}
	}
	ns.vars = append(ns.vars, h.adds...)
	return ns
}

func (s scope) key() string {
	parts := make([]string, 0, len(s.vars)+1)
	for _, v := range s.vars {
		parts = append(parts, v.name+string(v.kind))
	}
	sort.Strings(parts)
	if s.rep {
		parts = append(parts, "*")
	}
	return strings.Join(parts, ",")
}

func (s scope) find(name string) (envVar, bool) {
	for i := len(s.vars) - 1; 0 <= i; i-- {
		if s.vars[i].name == name {
			return s.vars[i], true
		}
	}
	return envVar{}, false
}

// ---------------------------------------------------------------- terms

// term is a program in template notation: kind is a template name, "_" (the
// default leaf), or an environment leaf "$rx" / "$sx" / "$cf".
type term struct {
	kind string
	kids []*term
}

func leafTerm() *term { return &term{kind: "_"} }

func (t *term) String() string {
	var b strings.Builder
	t.write(&b)
	return b.String()
}

func (t *term) write(b *strings.Builder) {
	b.WriteString(t.kind)
	allDefault := true
	for _, k := range t.kids {
		allDefault = allDefault && k.kind == "_"
	}
	if allDefault {
		return
	}
	b.WriteByte('(')
	for i, k := range t.kids {
		if 0 < i {
			b.WriteByte(',')
		}
		k.write(b)
	}
	b.WriteByte(')')
}

func (t *term) deviations() int {
	if t.kind == "_" {
		return 0
	}
	n := 1
	for _, k := range t.kids {
		n += k.deviations()
	}
	return n
}

func (t *term) depth() int {
	if t.kind == "_" {
		return 0
	}
	d := 0
	for _, k := range t.kids {
		if kd := k.depth(); d < kd {
			d = kd
		}
	}
	return d + 1
}

func (t *term) clone() *term {
	c := &term{kind: t.kind}
	for _, k := range t.kids {
		c.kids = append(c.kids, k.clone())
	}
	return c
}

func arity(kind string) int {
	switch {
	case kind == "_":
		return 0
	case strings.HasPrefix(kind, "$c"):
		return 1
	case strings.HasPrefix(kind, "$"):
		return 0
	}
	if t := tmplByName[kind]; t != nil {
		return len(t.holes)
	}
	return -1
}

// parseTerm reads the notation written by term.String: a missing argument
// list means "all holes default".
func parseTerm(s string) (t *term, err error) {
	defer func() {
		if rec := recover(); rec != nil {
			t, err = nil, fmt.Errorf("bad term %q: %v", s, rec)
		}
	}()
	pos := 0
	var parse func() *term
	parse = func() *term {
		start := pos
		for pos < len(s) && !strings.ContainsRune("(),", rune(s[pos])) {
			pos++
		}
		t := &term{kind: s[start:pos]}
		n := arity(t.kind)
		if n < 0 {
			panic("unknown kind " + t.kind)
		}
		if pos < len(s) && s[pos] == '(' {
			pos++
			for {
				t.kids = append(t.kids, parse())
				if len(s) <= pos {
					panic("unterminated")
				}
				if s[pos] == ',' {
					pos++
					continue
				}
				if s[pos] == ')' {
					pos++
					break
				}
				panic("unexpected " + s[pos:])
			}
			if len(t.kids) != n {
				panic(fmt.Sprintf("%s takes %d holes", t.kind, n))
			}
		} else {
			for i := 0; i < n; i++ {
				t.kids = append(t.kids, leafTerm())
			}
		}
		return t
	}
	t = parse()
	if pos != len(s) {
		panic("trailing text")
	}
	return t, nil
}

// valid re-checks a term against the generator's typing and scoping rules
// (used for the reduced terms the signature minimiser proposes).
func valid(t *term, req byte, sc scope) bool {
	switch {
	case t.kind == "_":
		return true
	case strings.HasPrefix(t.kind, "$"):
		v, ok := sc.find(t.kind[2:])
		if !ok {
			return false
		}
		switch t.kind[1] {
		case 'r':
			return ((v.kind == 'w' || v.kind == 'r') && req != 'l') || (v.kind == 'a' && req == 'a')
		case 's':
			return v.kind == 'w' && req != 'l'
		case 'c':
			return v.kind == 'f' && req != 'l' && valid(t.kids[0], 'i', sc)
		}
		return false
	}
	tp := tmplByName[t.kind]
	if tp == nil || !fits(tp.typ, req) || (tp.defines && sc.rep) {
		return false
	}
	for i, h := range tp.holes {
		if !valid(t.kids[i], h.reqType(req), sc.extend(h)) {
			return false
		}
	}
	return true
}

// ---------------------------------------------------------------- enumeration

// genOpts bounds the enumeration.
type genOpts struct {
	rankAt   []int // minimum template rank per nesting depth (root = index 0); the last entry holds for all deeper levels; nil = 0
	spine    bool  // at most one non-default hole per node ("spines")
	maxDepth int
}

func (o genOpts) minRank(depth int) int {
	if len(o.rankAt) == 0 {
		return -1
	}
	if len(o.rankAt) < depth {
		return o.rankAt[len(o.rankAt)-1]
	}
	return o.rankAt[depth-1]
}

type generator struct {
	opts genOpts
	memo map[string][]string
}

func newGenerator(o genOpts) *generator {
	if o.maxDepth == 0 {
		o.maxDepth = 6
	}
	return &generator{opts: o, memo: map[string][]string{}}
}

// each calls f with every term (as text) with exactly dev deviations that may
// fill a hole demanding req in scope sc at nesting depth depth. Small sets
// are memoised, large ones are streamed.
func (g *generator) each(req byte, sc scope, dev, depth int, f func(string)) {
	if dev == 0 {
		f("_")
		return
	}
	if g.opts.maxDepth < depth {
		return
	}
	if 2 < dev {
		g.gen(req, sc, dev, depth, f)
		return
	}
	key := fmt.Sprintf("%c|%s|%d|%d", req, sc.key(), dev, depth)
	out, has := g.memo[key]
	if !has {
		g.gen(req, sc, dev, depth, func(s string) { out = append(out, s) })
		g.memo[key] = out
	}
	for _, s := range out {
		f(s)
	}
}

func (g *generator) gen(req byte, sc scope, dev, depth int, emit func(string)) {
	for _, tp := range templates {
		if !fits(tp.typ, req) || (tp.defines && sc.rep) {
			continue
		}
		if tp.rank < g.opts.minRank(depth) {
			continue
		}
		if len(tp.holes) == 0 {
			if dev == 1 {
				emit(tp.name)
			}
			continue
		}
		g.compose(tp, req, sc, dev-1, depth, func(args []string) {
			all := true
			for _, a := range args {
				all = all && a == "_"
			}
			if all {
				emit(tp.name)
			} else {
				emit(tp.name + "(" + strings.Join(args, ",") + ")")
			}
		})
	}
	// environment leaves
	for i := len(sc.vars) - 1; 0 <= i; i-- {
		v := sc.vars[i]
		switch v.kind {
		case 'w', 'r':
			if dev == 1 && req != 'l' {
				emit("$r" + v.name)
				if v.kind == 'w' {
					emit("$s" + v.name)
				}
			}
		case 'a':
			if dev == 1 && req == 'a' {
				emit("$r" + v.name)
			}
		case 'f':
			if req != 'l' {
				g.each('i', sc, dev-1, depth+1, func(a string) {
					if a == "_" {
						emit("$c" + v.name)
					} else {
						emit("$c" + v.name + "(" + a + ")")
					}
				})
			}
		}
	}
}

// compose distributes dev deviations over the holes of tp.
func (g *generator) compose(tp *tmpl, req byte, sc scope, dev, depth int, emit func(args []string)) {
	args := make([]string, len(tp.holes))
	var rec func(i, left int, used bool)
	rec = func(i, left int, used bool) {
		if i == len(tp.holes) {
			if left == 0 {
				emit(args)
			}
			return
		}
		if i == len(tp.holes)-1 {
			// the last hole takes everything that is left
			if left != 0 && used && g.opts.spine {
				return
			}
			h := tp.holes[i]
			g.each(h.reqType(req), sc.extend(h), left, depth+1, func(f string) {
				args[i] = f
				emit(args)
			})
			return
		}
		h := tp.holes[i]
		for d := 0; d <= left; d++ {
			if d != 0 && used && g.opts.spine {
				break
			}
			g.each(h.reqType(req), sc.extend(h), d, depth+1, func(f string) {
				args[i] = f
				rec(i+1, left-d, used || d != 0)
			})
		}
	}
	rec(0, dev, false)
}

// roots emits every closed program with exactly dev deviations.
func (g *generator) roots(dev int, emit func(string)) {
	g.gen('a', scope{}, dev, 1, emit)
}

// ---------------------------------------------------------------- instantiation

// program is a term rendered to S-expressions.
type program struct {
	rename  *term // the instance whose variables are renamed (alpha-conversion probe), or nil
	forms   []*node
	leaves  int
	kinds   []string // template kinds in order of appearance
	nameSeq int
	prefix  string
}

func (p *program) text() string {
	parts := make([]string, len(p.forms))
	for i, f := range p.forms {
		parts[i] = f.String()
	}
	return strings.Join(parts, " ")
}

// instantiate renders t. prefix makes the defun names unique to this run.
func instantiate(t *term, prefix string) *program { return instantiateRenaming(t, prefix, nil) }

// instantiateRenaming renders t with every variable inside the instance `rename` given a fresh name
// (x -> xq ...). For a closed instance this is alpha-conversion: the meaning of the program does not change.
func instantiateRenaming(t *term, prefix string, rename *term) *program {
	p := &program{prefix: prefix, rename: rename}
	p.forms = []*node{p.build(t, 'a', &hole{kind: 'a'})}
	return p
}

func (p *program) trLeaf(v *node) *node {
	p.leaves++
	return nList(nSym("tr"), nQuote(nSym(fmt.Sprintf("k%d", p.leaves))), v)
}

func (p *program) defaultLeaf(req byte, h *hole) *node {
	n := int64(p.leaves + 1)
	switch h.kind {
	case 't':
		return p.trLeaf(nSym("t"))
	case 'f', 'n':
		return p.trLeaf(nSym("nil"))
	case 'c':
		return p.trLeaf(nInt(2))
	case '0', '1', '2', '3', '4', '5', '6', '7', '8', '9':
		return p.trLeaf(nInt(int64(h.kind - '0')))
	}
	if req == 'l' {
		return p.trLeaf(nList(nSym("list"), nInt(n), nInt(0)))
	}
	return p.trLeaf(nInt(n))
}

var poolVars = map[string]bool{"x": true, "y": true, "z": true, "n": true, "a": true, "b": true, "c": true,
	"u": true, "v": true, "w": true, "i": true, "f": true, "g": true}

// freeVars: the variables an instance takes from outside itself (environment leaves whose binder is not a
// hole of the instance). They keep their names in the alpha-conversion probe.
func freeVars(inst *term) map[string]bool {
	free := map[string]bool{}
	var walk func(n *term, sc scope)
	walk = func(n *term, sc scope) {
		if strings.HasPrefix(n.kind, "$") {
			if _, bound := sc.find(n.kind[2:]); !bound {
				free[n.kind[2:]] = true
			}
			for _, k := range n.kids {
				walk(k, sc)
			}
			return
		}
		if tp := tmplByName[n.kind]; tp != nil {
			for i, h := range tp.holes {
				walk(n.kids[i], sc.extend(h))
			}
		}
	}
	walk(inst, scope{})
	return free
}

func renameVars(n *node, keep map[string]bool) *node {
	switch n.kind {
	case 's':
		if poolVars[n.s] && !keep[n.s] {
			return nSym(n.s + "q")
		}
	case 'l':
		if 0 < len(n.l) && n.l[0].isSym("quote") {
			return n
		}
		c := &node{kind: 'l', short: n.short, l: make([]*node, len(n.l))}
		for i, e := range n.l {
			c.l[i] = renameVars(e, keep)
		}
		return c
	}
	return n
}

func (p *program) build(t *term, req byte, h *hole) *node {
	if t == p.rename && t != nil {
		p.rename = nil
		return renameVars(p.build(t, req, h), freeVars(t))
	}
	switch {
	case t.kind == "_":
		return p.defaultLeaf(req, h)
	case strings.HasPrefix(t.kind, "$r"):
		return p.trLeaf(nSym(t.kind[2:]))
	case strings.HasPrefix(t.kind, "$s"):
		v := t.kind[2:]
		return nList(nSym("setq"), nSym(v), p.trLeaf(nList(nSym("+"), nSym(v), nInt(1))))
	case strings.HasPrefix(t.kind, "$c"):
		return nList(nSym("funcall"), nSym(t.kind[2:]), p.build(t.kids[0], 'i', &hole{kind: 'i'}))
	}
	tp := tmplByName[t.kind]
	p.kinds = append(p.kinds, tp.name)
	name := ""
	if tp.defines {
		p.nameSeq++
		name = fmt.Sprintf("%sn%d", p.prefix, p.nameSeq)
	}
	hi := 0
	var copyNode func(n *node) *node
	copyNode = func(n *node) *node {
		switch n.kind {
		case 's':
			if n.s == "NAME" {
				return nSym(name)
			}
			if strings.HasPrefix(n.s, "?") {
				hh := tp.holes[hi]
				kid := t.kids[hi]
				hi++
				return p.build(kid, hh.reqType(req), hh)
			}
			return n
		case 'l':
			if 0 < len(n.l) && n.l[0].isSym("quote") {
				if len(n.l) == 2 && n.l[1].isSym("NAME") {
					return &node{kind: 'l', short: n.short, l: []*node{n.l[0], nSym(name)}}
				}
				return n
			}
			c := &node{kind: 'l', short: n.short, l: make([]*node, len(n.l))}
			for i, e := range n.l {
				c.l[i] = copyNode(e)
			}
			return c
		}
		return n
	}
	return copyNode(tp.root)
}

// classify walks the template with knowledge of the special forms and records
// for each hole the kind of position it is in. Signatures of two-template
// failures are keyed by this class, so that e.g. every "argument of an
// ordinary function call" position is one signature, whatever the function.
func (t *tmpl) classify(n *node, class string, hi *int) {
	if n.kind == 's' {
		if strings.HasPrefix(n.s, "?") {
			t.holes[*hi].class = class
			*hi++
		}
		return
	}
	if n.kind != 'l' || len(n.l) == 0 {
		return
	}
	body := func(forms []*node, name string) {
		for i, f := range forms {
			if i == len(forms)-1 {
				t.classify(f, name+"-last", hi)
			} else {
				t.classify(f, name, hi)
			}
		}
	}
	head := n.l[0]
	if head.kind == 'l' {
		// ((lambda ...) args)
		t.classify(head, class, hi)
		for _, a := range n.l[1:] {
			t.classify(a, "call-argument", hi)
		}
		return
	}
	switch head.s {
	case "quote":
	case "function":
		t.classify(n.l[1], class, hi)
	case "lambda":
		body(n.l[2:], "function-body")
	case "defun":
		body(n.l[3:], "function-body")
	case "if":
		t.classify(n.l[1], "if-test", hi)
		for _, b := range n.l[2:] {
			t.classify(b, "if-branch", hi)
		}
	case "when", "unless":
		t.classify(n.l[1], head.s+"-test", hi)
		body(n.l[2:], head.s+"-body")
	case "progn":
		body(n.l[1:], "progn-body")
	case "prog1":
		t.classify(n.l[1], "prog1-first", hi)
		for _, b := range n.l[2:] {
			t.classify(b, "prog1-rest", hi)
		}
	case "and", "or":
		body(n.l[1:], head.s+"-argument")
	case "let", "let*":
		for _, b := range n.l[1].l {
			if b.kind == 'l' && 1 < len(b.l) {
				t.classify(b.l[1], head.s+"-init", hi)
			}
		}
		body(n.l[2:], head.s+"-body")
	case "setq":
		for i := 2; i < len(n.l); i += 2 {
			t.classify(n.l[i], "setq-value", hi)
		}
	case "cond":
		for _, c := range n.l[1:] {
			t.classify(c.l[0], "cond-test", hi)
			body(c.l[1:], "cond-body")
		}
	case "case":
		t.classify(n.l[1], "case-key", hi)
		for _, c := range n.l[2:] {
			body(c.l[1:], "case-body")
		}
	case "dolist", "dotimes":
		spec := n.l[1].l
		if head.s == "dolist" {
			t.classify(spec[1], "dolist-list", hi)
		} else {
			t.classify(spec[1], "dotimes-count", hi)
		}
		if 2 < len(spec) {
			t.classify(spec[2], head.s+"-result", hi)
		}
		for _, b := range n.l[2:] {
			t.classify(b, head.s+"-body", hi)
		}
	case "do", "do*":
		for _, b := range n.l[1].l {
			if b.kind == 'l' {
				if 1 < len(b.l) {
					t.classify(b.l[1], head.s+"-init", hi)
				}
				if 2 < len(b.l) {
					t.classify(b.l[2], head.s+"-step", hi)
				}
			}
		}
		end := n.l[2].l
		t.classify(end[0], head.s+"-end-test", hi)
		body(end[1:], head.s+"-result")
		for _, b := range n.l[3:] {
			t.classify(b, head.s+"-body", hi)
		}
	case "multiple-value-bind":
		t.classify(n.l[2], "multiple-value-bind-values-form", hi)
		body(n.l[3:], "multiple-value-bind-body")
	case "psetq":
		for i := 2; i < len(n.l); i += 2 {
			t.classify(n.l[i], "psetq-value", hi)
		}
	case "prog2":
		t.classify(n.l[1], "prog2-first", hi)
		t.classify(n.l[2], "prog2-second", hi)
		for _, b := range n.l[3:] {
			t.classify(b, "prog2-rest", hi)
		}
	case "multiple-value-list":
		t.classify(n.l[1], "multiple-value-list-form", hi)
	case "multiple-value-call":
		t.classify(n.l[1], class, hi)
		for _, a := range n.l[2:] {
			t.classify(a, "multiple-value-call-argument", hi)
		}
	case "multiple-value-setq":
		t.classify(n.l[2], "multiple-value-setq-values-form", hi)
	case "multiple-value-prog1":
		t.classify(n.l[1], "multiple-value-prog1-first", hi)
		for _, b := range n.l[2:] {
			t.classify(b, "multiple-value-prog1-rest", hi)
		}
	case "nth-value":
		t.classify(n.l[1], "nth-value-index", hi)
		t.classify(n.l[2], "nth-value-form", hi)
	case "block":
		body(n.l[2:], "block-body")
	default:
		for _, a := range n.l[1:] {
			t.classify(a, "call-argument", hi)
		}
	}
}
