package main

import "fmt"

// rewrite is filled in by the scheduler / vfs engines.
func rewrite(engine, repo, out string, replace map[string]string) ([]string, error) {
	return nil, fmt.Errorf("engine %q not implemented yet", engine)
}
