// probe: development aid. Reads Lisp text from standard input, evaluates each top-level form in one scope
// and prints the result (or the condition) of each. Not used by any registered check.
package main

import (
	"fmt"
	"io"
	"os"

	"github.com/ohler55/slip"
	_ "github.com/ohler55/slip/pkg"
)

func main() {
	if 1 < len(os.Args) && os.Args[1] == "skipeval" {
		listSkipEval()
		return
	}
	src, _ := io.ReadAll(os.Stdin)
	scope := slip.NewScope()
	code := slip.Read(src, scope)
	for _, form := range code {
		func() {
			defer func() {
				if r := recover(); r != nil {
					switch tr := r.(type) {
					case *slip.Panic:
						fmt.Printf("  !! %v: %s\n", tr.Hierarchy(), tr.Message)
					default:
						fmt.Printf("  !! %T %v\n", r, r)
					}
				}
			}()
			fmt.Printf("%s\n", slip.ObjectString(form))
			v := scope.Eval(form, 0)
			fmt.Printf("  => %s\n", slip.ObjectString(v))
		}()
	}
}
