//go:build verif

// Package sched is engine E3: stateless exploration of thread schedules of the
// real interpreter under the cooperative scheduler vsched (mounted by build
// overlay). Depth-first search over schedules by prefix replay with iterative
// preemption bounding; executions always run to completion.
package sched

import (
	"fmt"
	"strconv"
	"strings"

	"github.com/ohler55/slip/vsched"
)

// Execution is the record of one complete run.
type Execution struct {
	Choices     []int
	NEnabled    []int  // enabled transitions at each point
	PrevEnabled []bool // was the previously running thread among them (choice 0)
	Preemptions int
	Deadlock    bool
	Livelock    bool
	Stuck       bool
	Diverged    string // non-empty: replay of the prefix did not fit (harness error)
	ThreadPanics []string
	Trace       []string
	Env         any
}

// Schedule renders the choices compactly (run-length of zeros elided).
func (x *Execution) Schedule() string {
	parts := make([]string, len(x.Choices))
	for i, c := range x.Choices {
		parts[i] = strconv.Itoa(c)
	}
	return strings.Join(parts, ".")
}

// ParseSchedule is the inverse of Schedule.
func ParseSchedule(s string) []int {
	if s == "" {
		return nil
	}
	var out []int
	for _, p := range strings.Split(s, ".") {
		n, _ := strconv.Atoi(p)
		out = append(out, n)
	}
	return out
}

// Scenario is a closed concurrent program.
type Scenario struct {
	Name string
	// Setup builds fresh interpreter objects for one execution (runs outside the scheduler).
	Setup func() any
	// Main is the body of thread 0 (it spawns the others through the instrumented `run`).
	Main func(env any)
	// MaxSteps is the step horizon (livelock guard); 0 = 20000.
	MaxSteps int
}

// RunOnce executes the scenario following prefix, then choice 0 at every later point.
func RunOnce(sc *Scenario, prefix []int, keepTrace bool) *Execution {
	x := &Execution{}
	s := vsched.New()
	s.KeepTrace = keepTrace
	s.MaxSteps = sc.MaxSteps
	if s.MaxSteps == 0 {
		s.MaxSteps = 20000
	}
	s.Choose = func(enabled []vsched.Transition, prevEnabled bool) int {
		i := len(x.Choices)
		c := 0
		if i < len(prefix) {
			c = prefix[i]
			if len(enabled) <= c {
				x.Diverged = fmt.Sprintf("replay diverged at point %d: choice %d but only %d transitions enabled", i, c, len(enabled))
				c = 0
			}
		}
		x.Choices = append(x.Choices, c)
		x.NEnabled = append(x.NEnabled, len(enabled))
		x.PrevEnabled = append(x.PrevEnabled, prevEnabled)
		if c != 0 && prevEnabled {
			x.Preemptions++
		}
		return c
	}
	env := sc.Setup()
	x.Env = env
	s.Run(func() { sc.Main(env) })
	x.Deadlock, x.Livelock, x.Stuck = s.Deadlock, s.Livelock, s.Stuck
	x.Trace = s.Trace
	for _, t := range s.Threads() {
		if t.Panic != nil {
			x.ThreadPanics = append(x.ThreadPanics, fmt.Sprintf("t%d: %v", t.ID, t.Panic))
		}
	}
	return x
}

// Stats of an exploration.
type Stats struct {
	Executions   int // complete executions run by this shard (incl. shared top levels)
	Owned        int // executions owned (visited) by this shard
	Points       int // scheduling points over owned executions (transitions fired)
	Branching    int // points with more than one enabled transition (owned)
	Preempted    int // owned executions with at least one preemption
	MaxPreempt   int
	MaxPoints    int
	BoundPruned  int // alternatives not taken because of the preemption bound
}

// Explore runs the DFS. bound < 0 means unbounded. Subtrees at depth shardDepth are dealt
// round-robin to nshards; executions above that depth are run by every shard but owned by shard 0.
// visit is called for every owned execution; returning false stops the exploration.
func Explore(sc *Scenario, bound, shard, nshards int, visit func(*Execution) bool) Stats {
	const shardDepth = 2
	var st Stats
	task := 0
	stop := false
	var rec func(prefix []int, depth int, own bool)
	rec = func(prefix []int, depth int, own bool) {
		if stop {
			return
		}
		x := RunOnce(sc, prefix, false)
		st.Executions++
		if own {
			st.Owned++
			st.Points += len(x.Choices)
			if 0 < x.Preemptions {
				st.Preempted++
			}
			if st.MaxPreempt < x.Preemptions {
				st.MaxPreempt = x.Preemptions
			}
			if st.MaxPoints < len(x.Choices) {
				st.MaxPoints = len(x.Choices)
			}
			for _, n := range x.NEnabled {
				if 1 < n {
					st.Branching++
				}
			}
			if !visit(x) {
				stop = true
				return
			}
		}
		if x.Diverged != "" {
			return
		}
		pre := 0
		for i := 0; i < len(x.Choices); i++ {
			if len(prefix) <= i {
				for alt := 1; alt < x.NEnabled[i]; alt++ {
					cost := pre
					if x.PrevEnabled[i] {
						cost++
					}
					if 0 <= bound && bound < cost {
						if own {
							st.BoundPruned++
						}
						continue
					}
					next := append(append(make([]int, 0, i+1), x.Choices[:i]...), alt)
					childOwn := own
					if depth+1 == shardDepth {
						childOwn = task%nshards == shard
						task++
						if !childOwn {
							continue
						}
					} else if depth+1 < shardDepth {
						childOwn = shard == 0
					}
					rec(next, depth+1, childOwn)
					if stop {
						return
					}
				}
			}
			if x.Choices[i] != 0 && x.PrevEnabled[i] {
				pre++
			}
		}
	}
	rec(nil, 0, shard == 0)
	return st
}
