package c14

import (
	"fmt"
	"strconv"
	"strings"
)

// call is one invocation of one sequence function: the function, the
// sequence literal(s) and the keyword arguments. It is the decoded form of a
// case spec.
//
// Sequence types: L = list literal '(..), N = the empty list written nil,
// V = vector literal #(..), S = string literal.
//
// Element shapes are derived, never stored: strings hold characters; lists
// and vectors hold plain symbols, or (sym . id) pairs when :key car is given
// (the id is the position, which makes "which duplicate" and stability
// visible). assoc/rassoc have their own entry shapes.
type call struct {
	fn    string
	typs  string   // one letter per sequence argument
	seqs  []string // letters of each sequence
	item  string   // item letter ("" = none)
	pred  string   // predicate / function selector ("" = none)
	rtype string   // result type for merge/map/concatenate ("" = none, "nil" = nil)

	hasStart, hasEnd, endNil    bool
	start, end                  int
	hasStart2, hasEnd2, endNil2 bool
	start2, end2                int
	key                         bool
	test                        string // "" | eql | lam | eqv | not
	count                       string // "" | 0 | 1 | 2 | -1 | nil
	fromEnd                     bool
	init                        bool   // reduce :initial-value
	subEnd                      string // subseq optional end: "" | nil | number
}

func (c *call) spec() string {
	var kw []string
	if c.hasStart {
		kw = append(kw, "s"+strconv.Itoa(c.start))
	}
	if c.hasEnd {
		if c.endNil {
			kw = append(kw, "en")
		} else {
			kw = append(kw, "e"+strconv.Itoa(c.end))
		}
	}
	if c.hasStart2 {
		kw = append(kw, "S"+strconv.Itoa(c.start2))
	}
	if c.hasEnd2 {
		if c.endNil2 {
			kw = append(kw, "En")
		} else {
			kw = append(kw, "E"+strconv.Itoa(c.end2))
		}
	}
	if c.key {
		kw = append(kw, "k")
	}
	if c.test != "" {
		kw = append(kw, "t:"+c.test)
	}
	if c.count != "" {
		kw = append(kw, "c:"+c.count)
	}
	if c.fromEnd {
		kw = append(kw, "f")
	}
	if c.init {
		kw = append(kw, "i")
	}
	if c.subEnd != "" {
		kw = append(kw, "u:"+c.subEnd)
	}
	return strings.Join([]string{c.fn, c.typs, strings.Join(c.seqs, "/"), c.item, c.pred, c.rtype, strings.Join(kw, ",")}, "|")
}

func parseSpec(spec string) (*call, error) {
	p := strings.Split(spec, "|")
	if len(p) != 7 {
		return nil, fmt.Errorf("want 7 fields, got %d", len(p))
	}
	c := &call{fn: p[0], typs: p[1], item: p[3], pred: p[4], rtype: p[5]}
	if 0 < len(c.typs) {
		c.seqs = strings.Split(p[2], "/")
	}
	if len(c.seqs) != len(c.typs) {
		return nil, fmt.Errorf("%d sequence types but %d sequences", len(c.typs), len(c.seqs))
	}
	if p[6] != "" {
		for _, tok := range strings.Split(p[6], ",") {
			num := func() int { n, _ := strconv.Atoi(tok[1:]); return n }
			switch {
			case tok == "en":
				c.hasEnd, c.endNil = true, true
			case tok == "En":
				c.hasEnd2, c.endNil2 = true, true
			case tok == "k":
				c.key = true
			case tok == "f":
				c.fromEnd = true
			case tok == "i":
				c.init = true
			case strings.HasPrefix(tok, "t:"):
				c.test = tok[2:]
			case strings.HasPrefix(tok, "c:"):
				c.count = tok[2:]
			case strings.HasPrefix(tok, "u:"):
				c.subEnd = tok[2:]
			case tok[0] == 's':
				c.hasStart, c.start = true, num()
			case tok[0] == 'e':
				c.hasEnd, c.end = true, num()
			case tok[0] == 'S':
				c.hasStart2, c.start2 = true, num()
			case tok[0] == 'E':
				c.hasEnd2, c.end2 = true, num()
			default:
				return nil, fmt.Errorf("bad keyword token %q", tok)
			}
		}
	}
	return c, nil
}

func (c *call) clone() *call {
	d := *c
	d.seqs = append([]string(nil), c.seqs...)
	return &d
}

// ---------------------------------------------------------------- elements

// el is one element of a reference sequence: its letter and its identity.
type el struct {
	ch rune
	id int
}

// shape of the elements of sequence i of this call.
//
//	y plain symbol        c character
//	p (sym . id)          used with :key car
//	q ((sym) . id)        assoc entry with :key car
//	r (id . sym)          rassoc entry
//	R (id sym)            rassoc entry with :key car  (cdr = (sym))
//	n fixnum 1000 + letter (adjoin / pushnew: eql and equal agree on it, identity of the boxed value does not)
func (c *call) shape(i int) byte {
	if len(c.typs) <= i { // functions without a sequence argument (make-sequence)
		if c.rtype == "string" {
			return 'c'
		}
		return 'y'
	}
	if c.typs[i] == 'S' {
		return 'c'
	}
	switch c.fn {
	case "adjoin", "pushnew":
		if c.key || c.pred == "pairs" {
			return 'p'
		}
		if c.pred == "nums" {
			return 'n'
		}
		return 'y'
	case "assoc", "assoc-if", "assoc-if-not":
		if c.key {
			return 'q'
		}
		return 'p'
	case "rassoc", "rassoc-if":
		if c.key {
			return 'R'
		}
		return 'r'
	case "concatenate", "map", "mapcar", "every", "some", "notany", "notevery", "mapc", "mapcan", "mapcon", "mapl", "maplist", "map-into":
		if c.charElems() {
			return 'c'
		}
		return 'y'
	}
	if c.charElems() {
		return 'c'
	}
	if c.key {
		return 'p'
	}
	return 'y'
}

// charElems: lists/vectors hold characters when they are mixed with a string
// in a two-sequence function or feed a string result.
func (c *call) charElems() bool {
	if c.rtype == "string" {
		return true
	}
	return strings.ContainsRune(c.typs, 'S')
}

func (c *call) els(i int) []el {
	base := 0
	for j := 0; j < i; j++ {
		base += 10
	}
	out := make([]el, 0, len(c.seqs[i]))
	for k, ch := range c.seqs[i] {
		out = append(out, el{ch: ch, id: base + k})
	}
	return out
}

// wide / narrow: the letter c stands for a two-byte character wherever an element is a CHARACTER (string
// sequences, character lists and vectors, items), so that every string holding it has more bytes than characters
// (an index computed in bytes instead of characters shows). b and B stay ASCII; the order B < b < c is kept.
func wide(ch rune) rune {
	switch ch {
	case 'c':
		return 'é'
	case 'C':
		return 'É'
	}
	return ch
}

func narrow(ch rune) rune {
	switch ch {
	case 'é':
		return 'c'
	case 'É':
		return 'C'
	}
	return ch
}

// litEl writes an element as Lisp source (inside a quoted literal).
func litEl(shape byte, e el) string {
	switch shape {
	case 'y':
		return string(e.ch)
	case 'c':
		return `#\` + string(wide(e.ch))
	case 'p':
		return fmt.Sprintf("(%c . %d)", e.ch, e.id)
	case 'n':
		return strconv.Itoa(1000 + int(e.ch))
	case 'q':
		return fmt.Sprintf("((%c) . %d)", e.ch, e.id)
	case 'r':
		return fmt.Sprintf("(%d . %c)", e.id, e.ch)
	case 'R':
		return fmt.Sprintf("(%d %c)", e.id, e.ch)
	}
	panic("bad shape")
}

// showEl renders an element the way lisp.Show renders the slip object.
func showEl(shape byte, e el) string {
	if shape == 'c' {
		return `#\` + strconv.QuoteRune(wide(e.ch))
	}
	return litEl(shape, e)
}

func litSeq(typ byte, shape byte, els []el) string {
	var b strings.Builder
	switch typ {
	case 'N':
		return "nil"
	case 'S':
		b.WriteByte('"')
		for _, e := range els {
			b.WriteRune(wide(e.ch))
		}
		b.WriteByte('"')
		return b.String()
	case 'L':
		b.WriteString("'(")
	case 'V':
		b.WriteString("#(")
	case 'F':
		// a vector with a fill pointer: the elements are the active ones, two more sit behind the fill pointer
		n := len(els)
		els = append(append([]el(nil), els...), hiddenEls...)
		fmt.Fprintf(&b, "(make-array %d :fill-pointer %d :initial-contents '(", len(els), n)
		for i, e := range els {
			if 0 < i {
				b.WriteByte(' ')
			}
			b.WriteString(litEl(shape, e))
		}
		b.WriteString("))")
		return b.String()
	}
	for i, e := range els {
		if 0 < i {
			b.WriteByte(' ')
		}
		b.WriteString(litEl(shape, e))
	}
	b.WriteByte(')')
	return b.String()
}

// hiddenEls are the two elements a fill-pointer vector (type F) keeps behind its fill pointer.
var hiddenEls = []el{{ch: 'x', id: 98}, {ch: 'w', id: 97}}

// showSeq renders a sequence the way lisp.Show renders the slip object.
func showSeq(typ byte, shape byte, els []el) string {
	var b strings.Builder
	switch typ {
	case 'S':
		for _, e := range els {
			b.WriteRune(wide(e.ch))
		}
		return strconv.Quote(b.String())
	case 'L', 'N':
		if len(els) == 0 {
			return "nil"
		}
		b.WriteByte('(')
	case 'V', 'F':
		b.WriteString("#(")
	}
	for i, e := range els {
		if 0 < i {
			b.WriteByte(' ')
		}
		b.WriteString(showEl(shape, e))
	}
	b.WriteByte(')')
	return b.String()
}

// itemLit writes the item compared against (key element).
func (c *call) itemLit(ch rune) string {
	if sh := c.shape(0); family(c.fn) == famAdjoin && (sh == 'p' || sh == 'n') {
		return "'" + litEl(sh, c.adjoinItem())
	}
	if c.shape(0) == 'c' {
		return `#\` + string(wide(ch))
	}
	return "'" + string(ch)
}

// newEl is the replacement / fill element.
var newEl = el{ch: 'z', id: 99}

func (c *call) newLit() string {
	switch sh := c.shape(0); sh {
	case 'c':
		return `#\z`
	default:
		return "'" + litEl(sh, newEl)
	}
}

const (
	lamLT  = "(lambda (p q) (c14-lt p q))"
	lamGT  = "(lambda (p q) (c14-lt q p))"
	lamEQV = "(lambda (p q) (equal p q))"
)

func (c *call) keyLit() string {
	if c.shape(0) == 'c' {
		return "'char-downcase"
	}
	return "'car"
}

// kwText renders the keyword arguments of the call.
func (c *call) kwText(two bool) string {
	var b strings.Builder
	n1, n2 := ":start", ":end"
	if two {
		n1, n2 = ":start1", ":end1"
	}
	if c.hasStart {
		fmt.Fprintf(&b, " %s %d", n1, c.start)
	}
	if c.hasEnd {
		if c.endNil {
			fmt.Fprintf(&b, " %s nil", n2)
		} else {
			fmt.Fprintf(&b, " %s %d", n2, c.end)
		}
	}
	if c.hasStart2 {
		fmt.Fprintf(&b, " :start2 %d", c.start2)
	}
	if c.hasEnd2 {
		if c.endNil2 {
			b.WriteString(" :end2 nil")
		} else {
			fmt.Fprintf(&b, " :end2 %d", c.end2)
		}
	}
	if c.key {
		b.WriteString(" :key " + c.keyLit())
	}
	switch c.test {
	case "equal":
		b.WriteString(" :test 'equal")
	case "lam":
		b.WriteString(" :test " + lamLT)
	case "eqv":
		b.WriteString(" :test " + lamEQV)
	case "not":
		b.WriteString(" :test-not 'equal")
	case "notlam":
		b.WriteString(" :test-not " + lamLT)
	}
	if c.count != "" {
		b.WriteString(" :count " + c.count)
	}
	if c.fromEnd {
		b.WriteString(" :from-end t")
	}
	if c.init {
		b.WriteString(" :initial-value 'i")
	}
	return b.String()
}

func (c *call) seqLit(i int) string {
	return litSeq(c.typs[i], c.shape(i), c.els(i))
}

// predLit: one-argument predicates over the (keyed) element.
func (c *call) predLit() string {
	b := c.itemLit('b')
	switch c.pred {
	case "eq":
		return "(lambda (v) (equal v " + b + "))"
	case "gt":
		return "(lambda (v) (c14-lt " + b + " v))"
	case "eq2":
		return lamEQV
	case "lt2", "lt":
		return lamLT
	case "gtp":
		return lamGT
	case "hid":
		return "(lambda (v) (equal v 'x))" // true of the first element behind the fill pointer only
	case "eq3":
		return "(lambda (p q r) (and (equal p q) (equal q r)))"
	case "lt13":
		return "(lambda (p q r) (c14-lt p r))"
	}
	panic("bad pred " + c.pred)
}

// form renders the call as Lisp source.
func (c *call) form() string {
	switch family(c.fn) {
	case famItem:
		return fmt.Sprintf("(%s %s %s%s)", c.fn, c.itemLit(rune(c.item[0])), c.seqLit(0), c.kwText(false))
	case famIf:
		return fmt.Sprintf("(%s %s %s%s)", c.fn, c.predLit(), c.seqLit(0), c.kwText(false))
	case famSubst:
		return fmt.Sprintf("(%s %s %s %s%s)", c.fn, c.newLit(), c.itemLit(rune(c.item[0])), c.seqLit(0), c.kwText(false))
	case famSubstIf:
		return fmt.Sprintf("(%s %s %s %s%s)", c.fn, c.newLit(), c.predLit(), c.seqLit(0), c.kwText(false))
	case famDups, famRev:
		if c.typs[0] == 'F' {
			// the result, (reverse only) the argument afterwards, and the two elements behind the fill pointer
			n := len(c.seqs[0])
			arg := ""
			if c.fn == "reverse" {
				arg = " v"
			}
			return fmt.Sprintf("(let ((v %s)) (list (%s v)%s (aref v %d) (aref v %d)))", c.seqLit(0), c.fn, arg, n, n+1)
		}
		return fmt.Sprintf("(%s %s%s)", c.fn, c.seqLit(0), c.kwText(false))
	case famTwo:
		return fmt.Sprintf("(%s %s %s%s)", c.fn, c.seqLit(0), c.seqLit(1), c.kwText(true))
	case famSubseq:
		e := ""
		if c.subEnd != "" {
			e = " " + c.subEnd
		}
		return fmt.Sprintf("(subseq %s %d%s)", c.seqLit(0), c.start, e)
	case famFill:
		return fmt.Sprintf("(fill %s %s%s)", c.seqLit(0), c.newLit(), c.kwText(false))
	case famSort:
		return fmt.Sprintf("(%s %s %s%s)", c.fn, c.seqLit(0), c.predLit(), c.kwText(false))
	case famMerge:
		return fmt.Sprintf("(merge '%s %s %s %s%s)", c.rtype, c.seqLit(0), c.seqLit(1), c.predLit(), c.kwText(false))
	case famSet:
		return fmt.Sprintf("(%s %s %s%s)", c.fn, c.seqLit(0), c.seqLit(1), c.kwText(false))
	case famQuant:
		s := ""
		for i := range c.seqs {
			s += " " + c.seqLit(i)
		}
		return fmt.Sprintf("(%s %s%s)", c.fn, c.predLit(), s)
	case famMap:
		s := ""
		for i := range c.seqs {
			s += " " + c.seqLit(i)
		}
		rt := ""
		if c.fn == "map" {
			if c.rtype == "nil" {
				rt = "nil "
			} else {
				rt = "'" + c.rtype + " "
			}
		}
		if c.pred == "acc" {
			return fmt.Sprintf("(let ((acc nil)) (list (%s %s%s%s) acc))", c.fn, rt, c.mapFnLit(), s)
		}
		return fmt.Sprintf("(%s %s%s%s)", c.fn, rt, c.mapFnLit(), s)
	case famMapL:
		s := ""
		for i := range c.seqs {
			s += " " + c.seqLit(i)
		}
		if c.pred == "acc" {
			return fmt.Sprintf("(let ((acc nil)) (list (%s %s%s) acc))", c.fn, c.mapFnLit(), s)
		}
		return fmt.Sprintf("(%s %s%s)", c.fn, c.mapFnLit(), s)
	case famMapInto:
		s := ""
		for i := 1; i < len(c.seqs); i++ {
			s += " " + c.seqLit(i)
		}
		return fmt.Sprintf("(let ((r %s)) (list (map-into r %s%s) r))", c.seqLit(0), c.mapFnLit(), s)
	case famAdjoin:
		if c.fn == "pushnew" {
			return fmt.Sprintf("(let ((l %s)) (list (pushnew %s l%s) l))", c.seqLit(0), c.itemLit(rune(c.item[0])), c.kwText(false))
		}
		return fmt.Sprintf("(adjoin %s %s%s)", c.itemLit(rune(c.item[0])), c.seqLit(0), c.kwText(false))
	case famSelf:
		return fmt.Sprintf("(let ((s %s)) (replace s s%s))", c.seqLit(0), c.kwText(true))
	case famMake:
		if c.fn == "copy-seq" {
			if c.copyMutates() {
				return fmt.Sprintf("(let* ((s %s) (c (copy-seq s))) (setf (elt c 0) %s) (list c s))", c.seqLit(0), c.newLit())
			}
			return fmt.Sprintf("(copy-seq %s)", c.seqLit(0))
		}
		if !c.init {
			// the elements are not defined without :initial-element: only the length and the type are looked at
			pred := map[string]string{"list": "listp", "vector": "vectorp", "string": "stringp"}[c.rtype]
			return fmt.Sprintf("(let ((s (make-sequence '%s %d))) (list (length s) (if (%s s) t nil)))", c.rtype, c.start, pred)
		}
		return fmt.Sprintf("(make-sequence '%s %d :initial-element %s)", c.rtype, c.start, c.newLit())
	case famElt:
		return fmt.Sprintf("(elt %s %d)", c.seqLit(0), c.start)
	case famReduce:
		return fmt.Sprintf("(reduce 'c14-pair %s%s)", c.seqLit(0), c.kwText(false))
	case famConcat:
		s := ""
		for i := range c.seqs {
			s += " " + c.seqLit(i)
		}
		return fmt.Sprintf("(concatenate '%s%s)", c.rtype, s)
	}
	panic("no form for " + c.fn)
}

// copyMutates: the copy-seq case that stores into the copy and looks at the original afterwards.
func (c *call) copyMutates() bool {
	return 0 < len(c.seqs[0]) && c.typs[0] != 'S'
}

// params: the parameter names of an n-ary lambda.
func params(n int) string {
	return strings.Join([]string{"p", "q", "r"}[:n], " ")
}

func (c *call) mapFnLit() string {
	n := len(c.seqs)
	if c.fn == "map-into" {
		n--
	}
	switch c.pred {
	case "tuple":
		if n == 0 {
			return "(lambda () 'z)"
		}
		return fmt.Sprintf("(lambda (%s) (list %s))", params(n), params(n))
	case "last":
		return fmt.Sprintf("(lambda (%s) %s)", params(n), []string{"p", "q", "r"}[n-1])
	case "acc":
		return fmt.Sprintf("(lambda (%s) (setq acc (cons (list %s) acc)))", params(n), params(n))
	case "self":
		return "(lambda (p) p)"
	case "copy":
		return "(lambda (p) (copy-list p))"
	case "dup":
		return "(lambda (p) (list p p))"
	case "filt":
		if c.fn == "mapcon" {
			return fmt.Sprintf("(lambda (%s) (if (equal (car p) 'b) nil (list (car p))))", params(n))
		}
		return fmt.Sprintf("(lambda (%s) (if (equal p 'b) nil (list p)))", params(n))
	case "wrap":
		return "(lambda (v) (list v))"
	case "up":
		return "'char-upcase"
	case "pair2":
		return "(lambda (p q) (list p q))"
	case "second2":
		return "(lambda (p q) q)"
	}
	panic("bad map fn " + c.pred)
}

// ---------------------------------------------------------------- families

type fam int

const (
	famNone fam = iota
	famItem
	famIf
	famSubst
	famSubstIf
	famDups
	famRev
	famTwo
	famSubseq
	famFill
	famSort
	famMerge
	famSet
	famQuant
	famMap
	famReduce
	famConcat
	famMapL
	famMapInto
	famAdjoin
	famSelf
	famMake
	famElt
)

func family(fn string) fam {
	switch fn {
	case "find", "position", "count", "remove", "delete", "member", "assoc", "rassoc":
		return famItem
	case "find-if", "position-if", "count-if", "remove-if", "delete-if", "member-if", "assoc-if", "assoc-if-not", "rassoc-if":
		return famIf
	case "substitute", "nsubstitute":
		return famSubst
	case "substitute-if", "nsubstitute-if":
		return famSubstIf
	case "remove-duplicates", "delete-duplicates":
		return famDups
	case "reverse", "nreverse":
		return famRev
	case "search", "mismatch", "replace":
		return famTwo
	case "subseq":
		return famSubseq
	case "fill":
		return famFill
	case "sort", "stable-sort":
		return famSort
	case "merge":
		return famMerge
	case "union", "nunion", "intersection", "nintersection", "set-difference", "nset-difference", "subsetp",
		"set-exclusive-or", "nset-exclusive-or":
		return famSet
	case "mapc", "mapcan", "mapcon", "mapl", "maplist":
		return famMapL
	case "map-into":
		return famMapInto
	case "adjoin", "pushnew":
		return famAdjoin
	case "replace-self":
		return famSelf
	case "make-sequence", "copy-seq":
		return famMake
	case "elt":
		return famElt
	case "every", "some", "notany", "notevery":
		return famQuant
	case "map", "mapcar":
		return famMap
	case "reduce":
		return famReduce
	case "concatenate":
		return famConcat
	}
	return famNone
}
