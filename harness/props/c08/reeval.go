package c08

// reeval.go: family "reeval" - EVERY special operator of the interpreter (every function whose arguments are not all
// evaluated before the call: 100+ in the packages common-lisp, gi, clos) in a piece of code that is evaluated again
// under DIFFERENT bindings. The oracle is differential and model-free: the n-th evaluation of the code with x = v must
// give what a FRESH copy of the same code, evaluated once with x = v, gives (the state reached from elsewhere against
// the state reached from the initial state). Templates are pure expressions of one variable x in {1, 2} with x in
// every position the operator itself evaluates. A sub-form that is compiled, cached or written back into the code at
// its first evaluation and keeps a VALUE of that evaluation shows as a repeated first result.

import (
	"fmt"
	"sort"
	"strings"

	"github.com/ohler55/slip"
	"verif/engine"
	"verif/lisp"
)

type reTmpl struct {
	op   string // operator under test (signature)
	id   string
	pre  string // definitions needed once per case (@ = unique prefix)
	expr string // pure expression of x
}

var reTmpls []reTmpl
var reByID = map[string]*reTmpl{}

func rt(op, expr string) {
	n := 0
	for _, t := range reTmpls {
		if t.op == op {
			n++
		}
	}
	reTmpls = append(reTmpls, reTmpl{op: op, id: fmt.Sprintf("%s#%d", op, n), expr: expr})
}

func rtp(op, pre, expr string) {
	rt(op, expr)
	reTmpls[len(reTmpls)-1].pre = pre
}

func init() {
	// conditionals
	rt("and", "(and x (+ x 1))")
	rt("and", "(and (> x 1) (* x 10))")
	rt("or", "(or (> x 1) (- x))")
	rt("or", "(or nil x)")
	rt("if", "(if (> x 1) (* x 10) (- x))")
	rt("if", "(if x (+ x 1))")
	rt("when", "(when (> x 1) 0 (* x 10))")
	rt("when", "(when x (+ x 5))")
	rt("unless", "(unless (> x 1) 0 (* x 10))")
	rt("cond", "(cond ((> x 1) (* x 10)) (t (- x)))")
	rt("cond", "(cond ((= x 5) 0) ((+ x 1)))")
	rt("case", "(case x (1 (+ x 10)) (2 (+ x 20)) (t 0))")
	rt("case", "(case (+ x 1) ((2 7) (list x 'two)) (otherwise (list x 'other)))")
	rt("ecase", "(ecase x (1 (+ x 10)) (2 (+ x 20)))")
	rt("typecase", "(typecase (if (= x 1) x \"s\") (fixnum (+ x 1)) (string (* x 100)) (t 0))")
	rt("etypecase", "(etypecase (if (= x 1) x \"s\") (fixnum (+ x 1)) (string (* x 100)))")
	// exits
	rt("block", "(block b (return-from b (+ x 1)) 0)")
	rt("block", "(block nil (when (> x 1) (return (* x 10))) x)")
	rt("return-from", "(block b (let ((a (* x 3))) (return-from b a)))")
	rt("return", "(dolist (e (list 5 6)) (return (+ e x)))")
	rt("tagbody", "(let ((r 0)) (tagbody (setq r x) (go out) (setq r 0) out) r)")
	rt("go", "(let ((r 0) (i 0)) (tagbody again (setq r (+ r x)) (setq i (+ i 1)) (when (< i 3) (go again))) r)")
	rt("unwind-protect", "(let ((a 0)) (unwind-protect (setq a x) (setq a (+ a 10))) a)")
	rt("ignore-errors", "(ignore-errors (+ x 1))")
	rt("ignore-errors", "(ignore-errors (/ 6 (- x 1)))")
	// sequencing
	rt("progn", "(progn 0 (+ x 1))")
	rt("prog", "(prog ((a x) (b 1)) (return (+ a b)))")
	rt("prog*", "(prog* ((a x) (b (+ a 1))) (return (* a b)))")
	rt("progv", "(progv (list '*@pv*) (list x) (symbol-value '*@pv*))")
	rt("multiple-value-prog1", "(multiple-value-list (multiple-value-prog1 (values x (+ x 1)) 0))")
	// binding
	rt("let", "(let ((a x) (b (+ x 1))) (* a b))")
	rt("let", "(let ((a (list x x))) a)")
	rt("let*", "(let* ((a x) (b (+ a 1))) (* a b))")
	rt("multiple-value-bind", "(multiple-value-bind (q r) (floor 7 (+ x 1)) (list q r))")
	rt("multiple-value-list", "(multiple-value-list (floor 7 (+ x 1)))")
	rt("multiple-value-call", "(multiple-value-call #'list (floor 7 (+ x 1)) x)")
	rt("multiple-value-setq", "(let (a b) (multiple-value-setq (a b) (floor 7 (+ x 1))) (list a b))")
	rt("nth-value", "(nth-value 1 (floor 7 (+ x 1)))")
	rt("nth-value", "(nth-value (- x 1) (values 10 20 30))")
	rt("the", "(the fixnum (+ x 1))")
	rt("declare", "(let ((a x)) (declare (fixnum a)) (+ a 1))")
	rt("with-standard-io-syntax", "(with-standard-io-syntax (+ x 1))")
	// assignment and places
	rt("setq", "(let ((a 0)) (setq a x) a)")
	rt("setq", "(let ((a 0) (b 0)) (setq a x b (+ a 1)) (list a b))")
	rt("psetq", "(let ((a 5) (b 0)) (psetq a x b (+ a 1)) (list a b))")
	rt("setf", "(let ((a 0)) (setf a (+ x 1)) a)")
	rt("setf", "(let ((l (list 0 0))) (setf (car l) x (cadr l) (+ x 1)) l)")
	rt("setf", "(let ((l (list 0 0 0))) (setf (nth x l) 9) l)")
	rt("setf", "(let ((h (make-hash-table))) (setf (gethash x h) (+ x 1)) (list (gethash 1 h) (gethash 2 h)))")
	rt("setf", "(let ((v (make-array 3 :initial-element 0))) (setf (aref v x) 7) (coerce v 'list))")
	rt("psetf", "(let ((l (list 0 0))) (psetf (car l) x (cadr l) (+ x 1)) l)")
	rt("incf", "(let ((a 10)) (incf a x) a)")
	rt("incf", "(let ((l (list 1 2 3))) (incf (nth x l) 5) l)")
	rt("incf", "(let ((a x)) (incf a) a)")
	rt("decf", "(let ((a 10)) (decf a x) a)")
	rt("decf", "(let ((l (list 1 2 3))) (decf (nth x l) 5) l)")
	rt("push", "(let ((l (list 0))) (push x l) l)")
	rt("push", "(let ((l (list (list 0) (list 1) (list 2)))) (push 9 (nth x l)) l)")
	rt("pop", "(let ((l (list (+ x 1) 2))) (list (pop l) l))")
	rt("pop", "(let ((l (list (list 0 1) (list 2 3) (list 4 5)))) (list (pop (nth x l)) l))")
	rt("pushnew", "(let ((l (list 1))) (pushnew x l) l)")
	rt("shiftf", "(let ((a x) (b 5)) (list (shiftf a b 7) a b))")
	rt("shiftf", "(let ((l (list 1 2 3))) (shiftf (nth x l) 9) l)")
	rt("rotatef", "(let ((a x) (b 5)) (rotatef a b) (list a b))")
	rt("rotatef", "(let ((l (list 1 2 3))) (rotatef (nth 0 l) (nth x l)) l)")
	rt("getf", "(getf (list :a x :b 5) :a)")
	rt("getf", "(let ((pl (list :a 1 :b 2))) (getf pl (if (= x 1) :a :b)))")
	rt("getf", "(let ((pl (list :a 1))) (setf (getf pl :b) x) pl)")
	rt("remf", "(let ((pl (list :a 1 :b 2))) (remf pl (if (= x 1) :a :b)) pl)")
	rt("get", "(progn (setf (get '@gs 'p) (+ x 1)) (get '@gs 'p))")
	rt("get", "(progn (setf (get '@gs 'p1) 11) (setf (get '@gs 'p2) 22) (get '@gs (if (= x 1) 'p1 'p2)))")
	rt("remprop", "(progn (setf (get '@gs 'q1) 1) (setf (get '@gs 'q2) 2) (remprop '@gs (if (= x 1) 'q1 'q2)) (list (get '@gs 'q1) (get '@gs 'q2)))")
	rt("addf", "(let ((l (list 1))) (addf l x) l)")
	rt("addnew", "(let ((l (list 1))) (addnew x l) l)")
	// iteration
	rt("dotimes", "(let ((s 0)) (dotimes (i (+ x 2) s) (setq s (+ s i))))")
	rt("dotimes", "(let ((s 0)) (dotimes (i 3) (setq s (+ s x))) s)")
	rt("dotimes", "(dotimes (i 2 (* x 7)))")
	rt("dolist", "(let ((s 0)) (dolist (e (list x 2 3) s) (setq s (+ s e))))")
	rt("dolist", "(let ((s 0)) (dolist (e '(1 2)) (setq s (+ s (* e x)))) s)")
	rt("do", "(do ((i 0 (+ i 1)) (s 0 (+ s x))) ((> i x) s))")
	rt("do", "(do ((i x (+ i x))) ((> i 6) (list i x)))")
	rt("do*", "(do* ((i 0 (+ i 1)) (s x (+ s i))) ((> i x) s))")
	rt("dovector", "(let ((s 0)) (dovector (e (vector x 2)) (setq s (+ s e))) s)")
	rt("loop", "(let ((i 0)) (loop (setq i (+ i x)) (when (> i 5) (return i))))")
	// functions and data
	rt("lambda", "(funcall (lambda (a) (+ a x)) 1)")
	rt("lambda", "(mapcar (lambda (a) (* a x)) (list 1 2))")
	rt("lambda", "(funcall (lambda (a &optional (b (+ x 1))) (list a b)) 0)")
	rt("function", "(funcall (function (lambda (a) (* a x))) 2)")
	rt("quote", "(list 'a x '(1 2))")
	rt("backquote", "`(a ,x ,@(list x x))")
	rt("backquote", "`(1 (2 ,(+ x 1)) #(3))")
	rt("backquote", "`(,@(if (> x 1) (list x) nil) z)")
	rt("eval", "(eval (list '+ x 1))")
	rt("eval", "(eval `(let ((q ,x)) (* q q)))")
	// streams
	rt("with-input-from-string", "(with-input-from-string (s (if (= x 1) \"11\" \"22\")) (read s))")
	rt("with-input-from-string", "(with-input-from-string (s \"1234\" :start x) (read s))")
	rt("with-input-from-string", "(with-input-from-string (s \"1234\" :end (+ x 1)) (read s))")
	rt("with-output-to-string", "(with-output-to-string (s) (princ x s) (princ (+ x 1) s))")
	rt("with-open-stream", "(with-open-stream (s (make-string-input-stream (if (= x 1) \"11\" \"22\"))) (read s))")
	rt("with-input-from-octets", "(with-input-from-octets (s (coerce (list (+ x 64) 66) 'octets)) (read-byte s))")
	rt("pretty-print", "(pretty-print (list x 2) nil)")
	// objects
	rtp("with-slots", "(defclass @k () ((a :initarg :a) (b :initarg :b)))", "(with-slots (a b) (make-instance '@k :a x :b 3) (list a (* a b)))")
	rtp("with-slots", "(defclass @k () ((a :initarg :a)))", "(let ((i (make-instance '@k :a 0))) (with-slots (a) i (setq a (+ x 1))) (slot-value i 'a))")
	rtp("send", "(defflavor @fl ((a 1)) () :gettable-instance-variables :settable-instance-variables :initable-instance-variables)",
		"(let ((i (make-instance '@fl :a x))) (send i :set-a (+ (send i :a) 10)) (send i :a))")
	// concurrency primitives (deterministic uses)
	rt("with-mutex-lock", "(with-mutex-lock (make-mutex) (+ x 1))")
	rt("with-mutex-lock", "(let ((m (make-mutex)) (a 0)) (with-mutex-lock m (setq a x)) (with-mutex-lock m (setq a (+ a x))) a)")
	rt("select", "(let ((c (make-channel 1))) (channel-push c (+ x 1)) (select (c v (* v 10))))")
	rt("select", "(let ((c (make-channel 1)) (d (make-channel 1))) (channel-push (if (= x 1) c d) x) (select (c v (list 'c v)) (d v (list 'd v))))")
	rt("run", "(let ((c (make-channel 1))) (run (channel-push c (+ x 1))) (channel-pop c))")
	rt("recover", "(recover (+ x 1) (e 0))")
	rt("recover", "(recover (/ 6 (- x 1)) (e 'caught))")
	// staged compilation: a branch that is itself a multi-part form, first taken on a later evaluation
	rt("if", "(if (> x 1) (let ((a (* x 2))) (if (> a 3) (list a (* a 10)) 1)) (list (- x)))")
	rt("cond", "(cond ((> x 1) (when (> x 0) (* x 7))) (t (unless (> x 1) (+ x 9))))")
	rt("case", "(case x (1 (if (= x 1) (list x 'one) 0)) (2 (let ((y (+ x 1))) (* y y))))")
	rt("and", "(and (or (> x 1) (= x 1)) (if (> x 1) (list x) (list x x)))")
	rt("lambda", "(funcall (lambda (a) (if (> a 1) (* a x) (- a x))) x)")
	rt("let", "(let ((a (if (> x 1) (* x 3) (+ x 3)))) (when (> a 5) (setq a (- a))) a)")
	rt("dotimes", "(let ((s 0)) (dotimes (i 3 s) (if (> x 1) (setq s (+ s (* i x))) (setq s (- s i)))))")
	for i := range reTmpls {
		reByID[reTmpls[i].id] = &reTmpls[i]
	}
}

// How the code is held and evaluated again.
var reModes = []string{
	"defun",    // (defun F (x) T), F called with each value in turn
	"compdefun", // the same, the defun form compiled (Code.Compile) first
	"lambda",   // (setq F (lambda (x) T)), funcall
	"code",     // one Code object reading a global, evaluated again after the global changed
	"compcode", // the same, compiled
	"loop",     // T inside a dolist body whose variable is x
	"nested",   // T inside a function called from a function: (defun G (x) (list (F x) (F (- 3 x))))
}

// reOrders: the input sequences. "Evaluated for the first or the hundredth time": the same code is run N times,
// N in {1,2,3,5,17}, with a constant input (a^N) and with alternating inputs (abab..); and, because the in-place
// compilation of a form is STAGED (a branch is compiled when it is first taken), every branch is taken for the first
// time at every position k <= 5: a^(k-1) b a b. x in {1,2} selects the branch in every template that has one.
var reOrders = reSequences()

var reRunCounts = []int{1, 2, 3, 5, 17}

func reSequences() (out []string) {
	seen := map[string]bool{}
	add := func(s string) {
		if !seen[s] {
			seen[s] = true
			out = append(out, s)
		}
	}
	add("121")
	add("212")
	for _, a := range []string{"1", "2"} {
		b := string(rune('1' + '2' - a[0]))
		for _, n := range reRunCounts {
			add(strings.Repeat(a, n))
			add((strings.Repeat(a+b, n/2+1))[:n])
		}
		for k := 2; k <= 5; k++ {
			add(strings.Repeat(a, k-1) + b + a + b)
		}
	}
	return
}

func enumReeval(tier string, emit func(string)) {
	for _, o := range reOrders {
		for _, t := range reTmpls {
			for _, m := range reModes {
				emit("reeval|" + t.id + "|" + m + "|" + o)
			}
		}
	}
}

func reevalOps() string {
	set := map[string]bool{}
	for _, t := range reTmpls {
		set[t.op] = true
	}
	var ops []string
	for o := range set {
		ops = append(ops, o)
	}
	sort.Strings(ops)
	return fmt.Sprintf("%d templates over %d special operators (%s)", len(reTmpls), len(ops), strings.Join(ops, " "))
}

type reOut struct {
	val string
	err *lisp.Err
}

func (o reOut) String() string {
	if o.err != nil {
		return "error " + o.err.Class + ": " + o.err.Message
	}
	return o.val
}

func reRun(scope *slip.Scope, src string) reOut {
	obj, err := lisp.EvalIn(scope, src)
	if err != nil {
		return reOut{err: err}
	}
	return reOut{val: lisp.Show(primary(obj))}
}

// primary: the primary value (the nested mode puts results into a list, which keeps the primary value only).
func primary(obj slip.Object) slip.Object {
	if vs, ok := obj.(slip.Values); ok {
		if len(vs) == 0 {
			return nil
		}
		return vs[0]
	}
	return obj
}

// reFresh: a fresh copy of the code, evaluated ONCE with x = v.
func reFresh(t *reTmpl, mode string, v int, uniq func(string) string) reOut {
	scope := slip.NewScope()
	if t.pre != "" {
		if o := reRun(scope, uniq(t.pre)); o.err != nil {
			return o
		}
	}
	switch mode {
	case "loop":
		return reRun(scope, fmt.Sprintf("(let ((r nil)) (dolist (x (list %d)) (setq r %s)) r)", v, uniq(t.expr)))
	case "code", "compcode":
		return reRun(scope, fmt.Sprintf("(progn (setq x %d) %s)", v, uniq(t.expr)))
	}
	return reRun(scope, uniq(fmt.Sprintf("(progn (defun @fresh (x) %s) (@fresh %d))", t.expr, v)))
}

func execReeval(spec string) (res engine.Result) {
	parts := strings.Split(spec, "|")
	if len(parts) != 4 || reByID[parts[1]] == nil {
		res.Fail("harness:bad-spec", spec)
		return
	}
	t, mode, order := reByID[parts[1]], parts[2], parts[3]
	var vals []int
	for _, c := range order {
		vals = append(vals, int(c-'0'))
	}
	n := 0
	uniqFor := func() func(string) string {
		n++
		p := uniqPrefix(fmt.Sprintf("%s#%d", spec, n))
		return func(s string) string { return strings.ReplaceAll(s, "@", p) }
	}
	// expected: fresh copies
	want := map[int]reOut{}
	for _, v := range vals {
		if _, has := want[v]; !has {
			want[v] = reFresh(t, mode, v, uniqFor())
		}
		if _, has := want[3-v]; !has && mode == "nested" {
			want[3-v] = reFresh(t, mode, 3-v, uniqFor()) // the nested mode calls the function with x and with 3-x
		}
	}
	if want[1].err != nil && want[2].err != nil {
		res.Hit("reeval-template-inert")
		res.Outcome = "inert: " + want[1].String()
		return
	}
	// observed: ONE copy of the code evaluated len(vals) times
	uniq := uniqFor()
	scope := slip.NewScope()
	var got []reOut
	fail := func(kind, detail string) {
		res.Fail(fmt.Sprintf("reeval op=%s mode=%s kind=%s", t.op, mode, kind), spec+": "+detail)
	}
	if t.pre != "" {
		if o := reRun(scope, uniq(t.pre)); o.err != nil {
			fail("prelude-error", o.String())
			return
		}
	}
	evalCode := func(code slip.Code) (o reOut) {
		defer func() {
			if rec := recover(); rec != nil {
				o = reOut{err: lisp.ErrFromRecovered(rec)}
			}
		}()
		return reOut{val: lisp.Show(primary(code.Eval(scope, nil)))}
	}
	readCode := func(src string, compile bool) (code slip.Code, o reOut) {
		defer func() {
			if rec := recover(); rec != nil {
				o = reOut{err: lisp.ErrFromRecovered(rec)}
			}
		}()
		code = slip.ReadString(src, scope)
		if compile {
			code.Compile()
		}
		return
	}
	expr := uniq(t.expr)
	switch mode {
	case "defun", "compdefun", "nested":
		def, o := readCode(uniq("(defun @f (x) ")+expr+")", mode == "compdefun")
		if o.err == nil {
			o = evalCode(def)
		}
		if o.err != nil {
			fail("definition-error", o.String())
			return
		}
		if mode == "nested" {
			if o = reRun(scope, uniq("(defun @g (x) (list (@f x) (@f (- 3 x))))")); o.err != nil {
				fail("definition-error", o.String())
				return
			}
		}
		for _, v := range vals {
			if mode == "nested" {
				o := reRun(scope, uniq(fmt.Sprintf("(@g %d)", v)))
				got = append(got, o)
				continue
			}
			got = append(got, reRun(scope, uniq(fmt.Sprintf("(@f %d)", v))))
		}
	case "lambda":
		if o := reRun(scope, uniq("(setq @fv (lambda (x) ")+expr+"))"); o.err != nil {
			fail("definition-error", o.String())
			return
		}
		for _, v := range vals {
			got = append(got, reRun(scope, uniq(fmt.Sprintf("(funcall @fv %d)", v))))
		}
	case "code", "compcode":
		code, o := readCode(expr, mode == "compcode")
		if o.err != nil {
			fail("read-error", o.String())
			return
		}
		for _, v := range vals {
			if o := reRun(scope, fmt.Sprintf("(setq x %d)", v)); o.err != nil {
				fail("setq-error", o.String())
				return
			}
			got = append(got, evalCode(code))
		}
	case "loop":
		src := fmt.Sprintf("(let ((r nil)) (dolist (x (list %s)) (setq r (cons %s r))) (reverse r))",
			strings.Trim(strings.Join(strings.Split(order, ""), " "), " "), expr)
		obj, err := lisp.EvalIn(scope, src)
		if err != nil {
			// an error inside the loop: compare only when every fresh copy fails too
			got = append(got, reOut{err: err})
		} else if l, ok := obj.(slip.List); ok {
			for _, e := range l {
				got = append(got, reOut{val: lisp.Show(e)})
			}
		} else {
			got = append(got, reOut{val: lisp.Show(obj)})
		}
	default:
		res.Fail("harness:bad-spec", spec)
		return
	}
	var obs []string
	for _, g := range got {
		obs = append(obs, g.String())
	}
	res.Outcome = strings.Join(obs, " ; ")
	res.Hit("re-evaluated-under-new-bindings")
	res.Hit("reeval-cases")
	res.Hit(fmt.Sprintf("reeval-runs-%d", len(vals)))
	if first := strings.IndexByte(order, order[0]^3); 0 <= first {
		// the position (1-based) at which the second input value, hence the other branch, is first seen
		res.Hit(fmt.Sprintf("reeval-other-branch-first-at-%d", first+1))
	} else if 1 < len(vals) {
		res.Hit("reeval-same-input-every-time")
	}
	res.Nontrivial = true
	if mode == "loop" && len(got) == 1 && got[0].err != nil {
		for _, v := range vals {
			if want[v].err == nil {
				continue
			}
			return // some fresh copy fails too: the loop stops there, nothing to compare
		}
		fail("error:"+got[0].err.Class, fmt.Sprintf("the loop over x in %s fails (%s), every fresh copy gives a value", order, got[0].String()))
		return
	}
	if len(got) != len(vals) {
		fail("wrong-count", fmt.Sprintf("%d results for %d evaluations: %s", len(got), len(vals), res.Outcome))
		return
	}
	for i, v := range vals {
		w := want[v]
		g := got[i]
		wantS, gotS := w.String(), g.String()
		if mode == "nested" {
			w2 := want[3-v]
			if w.err != nil || w2.err != nil {
				continue // the list cannot be built when one of the two calls fails
			}
			wantS = "(" + w.val + " " + w2.val + ")"
		}
		switch {
		case g.err != nil && g.err.GoFault:
			fail("go-fault", fmt.Sprintf("evaluation #%d (x=%d) => %s", i+1, v, gotS))
			return
		case (w.err == nil) != (g.err == nil):
			fail("value-vs-error", fmt.Sprintf("evaluation #%d (x=%d) of  %s  => %s; a fresh copy of the code evaluated once with x=%d => %s", i+1, v, t.expr, gotS, v, wantS))
			return
		case w.err != nil:
			if w.err.Class != g.err.Class {
				fail("other-error", fmt.Sprintf("evaluation #%d (x=%d) of  %s  => %s; a fresh copy => %s", i+1, v, t.expr, gotS, wantS))
				return
			}
		case gotS != wantS:
			kind := "differs-from-fresh-copy"
			if 0 < i && gotS == obs[0] && vals[0] != v {
				kind = "keeps-first-evaluation"
			}
			fail(kind, fmt.Sprintf("evaluation #%d (x=%d) of  %s  => %s; a fresh copy of the code evaluated once with x=%d => %s (all evaluations: %s)", i+1, v, t.expr, gotS, v, wantS, res.Outcome))
			return
		}
	}
	return
}

// ---------------------------------------------------------------- family "quoted": code held in data
//
// The template is a QUOTED list that is both evaluated and inspected as data: in-place caching of compiled sub-forms
// must not be visible in the list. Model-free: the rendering of the list (lisp.Show, which shows a function object
// inside a list as such) before any evaluation must equal its rendering after every evaluation, and every evaluation
// must give what a fresh copy of the code gives. Every special operator of the reeval alphabet is checked this way.
var quotedWays = []string{
	"evalvar",  // (setq F 'T) .. (eval F) .. F
	"evalfn",   // (defun G () 'T) .. (eval (G)) .. (G)
	"evallet",  // (let ((form 'T)) (list (eval form) form))   - the shape of the statement's own example
	"macrosplice", // (setq F 'T) (defmacro M () `(progn ,F)) .. (M) .. F   - the list is part of a macro expansion
	"evaltwice", // (setq F 'T) .. (list (eval F) (eval F)) .. F - two evaluations inside one form
}

var quotedOrders = []string{"1", "2", "11", "12", "21", "121", "212", "11212"}

func enumQuoted(tier string, emit func(string)) {
	for _, o := range quotedOrders {
		for _, t := range reTmpls {
			for _, w := range quotedWays {
				emit("quoted|" + t.id + "|" + w + "|" + o)
			}
		}
	}
}

func execQuoted(spec string) (res engine.Result) {
	parts := strings.Split(spec, "|")
	if len(parts) != 4 || reByID[parts[1]] == nil {
		res.Fail("harness:bad-spec", spec)
		return
	}
	t, way, order := reByID[parts[1]], parts[2], parts[3]
	n := 0
	uniqFor := func() func(string) string {
		n++
		p := uniqPrefix(fmt.Sprintf("%s#%d", spec, n))
		return func(s string) string { return strings.ReplaceAll(s, "@", p) }
	}
	want := map[int]reOut{}
	for _, c := range order {
		v := int(c - '0')
		if _, has := want[v]; !has {
			want[v] = reFresh(t, "code", v, uniqFor())
			if way == "macrosplice" {
				// slip evaluates a macro expansion in a scope that is marked as a macro's (a backquote inside the
				// expansion is evaluated again): the fresh copy is a fresh list spliced into a fresh macro, expanded once
				u := uniqFor()
				fs := slip.NewScope()
				want[v] = reOut{}
				for _, src := range []string{u(t.pre), fmt.Sprintf("(setq x %d)", v), u("(setq @form '") + u(t.expr) + ")",
					"(defmacro " + u("@qm") + " () `(progn ," + u("@form") + "))", u("(@qm)")} {
					if src != "" {
						if want[v] = reRun(fs, src); want[v].err != nil {
							break
						}
					}
				}
			}
		}
	}
	// the signature names the DOOR through which the data reaches the evaluator (eval / a macro expansion), not the way
	// the data is held: one defect per operator and door
	door := "eval"
	if way == "macrosplice" {
		door = "macro-expansion"
	}
	fail := func(kind, detail string) {
		res.Fail(fmt.Sprintf("quoted op=%s door=%s kind=%s", t.op, door, kind), spec+": "+detail)
	}
	uniq := uniqFor()
	scope := slip.NewScope()
	if t.pre != "" {
		if o := reRun(scope, uniq(t.pre)); o.err != nil {
			fail("prelude-error", o.String())
			return
		}
	}
	expr := uniq(t.expr)
	var setup []string
	var get, eval string
	switch way {
	case "evalvar":
		setup, get, eval = []string{uniq("(setq @form '") + expr + ")"}, uniq("@form"), uniq("(eval @form)")
	case "evaltwice":
		setup, get, eval = []string{uniq("(setq @form '") + expr + ")"}, uniq("@form"), uniq("(car (list (eval @form) (eval @form)))")
	case "evalfn":
		setup, get, eval = []string{uniq("(defun @qf () '") + expr + ")"}, uniq("(@qf)"), uniq("(eval (@qf))")
	case "macrosplice":
		setup, get, eval = []string{uniq("(setq @form '") + expr + ")", "(defmacro " + uniq("@qm") + " () `(progn ," + uniq("@form") + "))"}, uniq("@form"), uniq("(@qm)")
	case "evallet":
		// one form does both: the data is the second element of the result
		setup, get, eval = nil, "'"+expr, "(let ((form '"+expr+")) (list (eval form) form))"
	default:
		res.Fail("harness:bad-spec", spec)
		return
	}
	for _, src := range setup {
		if o := reRun(scope, src); o.err != nil {
			fail("setup-error", src+" => "+o.String())
			return
		}
	}
	show := func() (string, *lisp.Err) {
		obj, err := lisp.EvalIn(scope, get)
		if err != nil {
			return "", err
		}
		return lisp.Show(obj), nil
	}
	before, err := show()
	if err != nil {
		fail("setup-error", get+" => "+err.String())
		return
	}
	var obs []string
	live := false
	for i, c := range order {
		v := int(c - '0')
		if o := reRun(scope, fmt.Sprintf("(setq x %d)", v)); o.err != nil {
			fail("setq-error", o.String())
			return
		}
		obj, err := lisp.EvalIn(scope, eval)
		w := want[v]
		var got, data string
		switch {
		case err != nil && err.GoFault:
			fail("go-fault", fmt.Sprintf("evaluation #%d (x=%d) of the quoted  %s  => %s", i+1, v, t.expr, err.String()))
			return
		case err != nil:
			got = "error " + err.Class
		case way == "evallet":
			l, ok := primary(obj).(slip.List)
			if !ok || len(l) != 2 {
				fail("harness-shape", lisp.Show(obj))
				return
			}
			got, data = lisp.Show(primary(l[0])), lisp.Show(l[1])
		default:
			got = lisp.Show(primary(obj))
		}
		obs = append(obs, got)
		if w.err == nil {
			live = true
		}
		switch {
		case (w.err == nil) != (err == nil):
			fail("value-vs-error", fmt.Sprintf("evaluation #%d (x=%d) of the quoted  %s  => %s; a fresh copy of the code => %s", i+1, v, t.expr, got, w.String()))
			return
		case w.err == nil && got != w.val:
			fail("differs-from-fresh-copy", fmt.Sprintf("evaluation #%d (x=%d) of the quoted  %s  => %s; a fresh copy of the code => %s (all: %s)", i+1, v, t.expr, got, w.val, strings.Join(obs, " ; ")))
			return
		}
		if way != "evallet" {
			var derr *lisp.Err
			if data, derr = show(); derr != nil {
				fail("data-unreadable", derr.String())
				return
			}
		}
		if err == nil && data != before {
			fail("data-rewritten", fmt.Sprintf("after evaluation #%d (x=%d) the quoted list reads  %s ; before any evaluation it read  %s", i+1, v, data, before))
			return
		}
	}
	res.Outcome = way + ": " + strings.Join(obs, " ; ")
	if live {
		res.Hit("quoted-list-evaluated-and-inspected")
		res.Hit("quoted-way-" + way)
		res.Nontrivial = true
	} else {
		res.Hit("quoted-template-inert")
	}
	return
}

// ---------------------------------------------------------------- family "inert": forms slip does not define
//
// Ways of (re)binding a function name that Common Lisp has and slip (today) has not: (setf (symbol-function 'f) ..),
// (setf (fdefinition 'f) ..), flet, labels. The statement says nothing about them; whatever happens must not be a Go
// fault and must not depend on Code.Compile (each form evaluated from the list form against each form compiled first).
var inertProgs = map[string][]string{
	"setf-symbol-function": {"(defun @f1 (pa) (@u (@u (tr 'k1 pa))))", "(setf (symbol-function '@u) (lambda (ua) (+ 1 (* 2 ua))))", "(@f1 2)"},
	"setf-fdefinition":     {"(defun @f1 (pa) (@u (@u (tr 'k1 pa))))", "(setf (fdefinition '@u) (lambda (ua) (+ 1 (* 2 ua))))", "(@f1 2)"},
	"flet-over-late":       {"(defun @f1 (pa) (flet ((@u (fa) (* 100 fa))) (@u (@u (tr 'k1 pa)))))", "(defun @u (ua) (+ 1 (* 2 ua)))", "(@f1 2)"},
	"labels-over-late":     {"(defun @f1 (pa) (labels ((@u (fa) (if (< fa 1) 0 (+ fa (@u (- fa 1)))))) (@u (@u (tr 'k1 pa)))))", "(defun @u (ua) (+ 1 (* 2 ua)))", "(@f1 2)"},
	"flet-before-late":     {"(defun @u (ua) (+ 1 (* 2 ua)))", "(defun @f1 (pa) (flet ((@u (fa) (* 100 fa))) (@u (@u (tr 'k1 pa)))))", "(@f1 2)"},
	"symbol-function-read": {"(defun @f1 (pa) (funcall (symbol-function '@u) (funcall (symbol-function '@u) (tr 'k1 pa))))", "(defun @u (ua) (+ 1 (* 2 ua)))", "(@f1 2)", "(fmakunbound '@u)", "(@f1 2)", "(defun @u (va) (+ 7 (* 2 va)))", "(@f1 2)"},
}

func inertNames() (out []string) {
	for n := range inertProgs {
		out = append(out, n)
	}
	sort.Strings(out)
	return
}

func enumInert(tier string, emit func(string)) {
	for _, n := range inertNames() {
		emit("inert|" + n)
	}
}

func execInert(spec string) (res engine.Result) {
	forms := inertProgs[strings.TrimPrefix(spec, "inert|")]
	if forms == nil {
		res.Fail("harness:bad-spec", spec)
		return
	}
	run := func(compile bool, tag string) ([]string, string, func(string) string) {
		prefix := uniqPrefix(spec + tag)
		var h []hstep
		for i, f := range forms {
			h = append(h, hstep{step: step{op: 'R', slot: i, src: strings.ReplaceAll(f, "@", prefix)}})
			if compile {
				h = append(h, hstep{step: step{op: 'C', slot: i}, label: "compile"})
			}
			h = append(h, hstep{step: step{op: 'E', slot: i}, label: fmt.Sprintf("form%d", i+1)})
		}
		generic := func(s string) string { return strings.ReplaceAll(s, prefix, "@") }
		d, fault := slipEvalDigests(h, generic)
		return d, fault, generic
	}
	name := strings.TrimPrefix(spec, "inert|")
	plain, fault, _ := run(false, "#plain")
	if fault != "" {
		res.Fail("inert form="+name+" mode=eval kind=go-fault", spec+": "+fault)
		return
	}
	comp, fault, _ := run(true, "#comp")
	if fault != "" {
		res.Fail("inert form="+name+" mode=compile kind=go-fault", spec+": "+fault)
		return
	}
	res.Outcome = strings.Join(plain, " | ")
	res.Hit("inert-forms")
	res.Nontrivial = true
	for i := range plain {
		if i < len(comp) && plain[i] != comp[i] {
			res.Fail("inert form="+name+" kind=depends-on-compile-mode", fmt.Sprintf("%s: %s evaluated from the list form => %s; compiled first => %s", spec, forms[i], plain[i], comp[i]))
			return
		}
	}
	return
}
