//go:build race

package lisp

// In the race-detector build only the schedule explorer runs, and it serialises the threads itself;
// the trace log must not add a happens-before edge between threads (a mutex here would hide races
// in the interpreter from the detector), so it is a plain slice touched in //go:norace functions.

//go:norace
func traceLock() {}

//go:norace
func traceUnlock() {}
