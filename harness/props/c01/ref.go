//go:build verif

package c01

import (
	"fmt"
	"strconv"
	"strings"
)

// The reference evaluator: Common Lisp semantics of the core forms, written
// independently of slip (environment chain of frames, closures hold the frame
// chain they were created in, multiple values are a Go slice that only the
// value-transparent positions forward). It interprets the generator's own
// S-expressions. A type error or an unbound variable in the reference is a
// generator bug (the generator is typed), reported as a harness error.

type val interface{}

type (
	symv  string // symbol, lower case
	tval  struct{}
	lstv  []val // proper non-empty list; the empty list is Go nil
	mvals []val // multiple values (0 or >= 2 values; a single value is never wrapped)
)

type closure struct {
	name   string
	params []string
	body   []*node
	env    *frame
}

type frame struct {
	names []string
	vals  []val
	up    *frame
}

func (f *frame) lookup(name string) (*frame, int) {
	for ; f != nil; f = f.up {
		for i := len(f.names) - 1; 0 <= i; i-- {
			if f.names[i] == name {
				return f, i
			}
		}
	}
	return nil, 0
}

func (f *frame) bind(name string, v val) {
	f.names = append(f.names, name)
	f.vals = append(f.vals, v)
}

type refError string
type refBudget struct{}

// ref is one run of the reference evaluator.
type ref struct {
	mut    string // "" = the reference; otherwise the name of a deliberately wrong variant (self-test, rule S6)
	funcs  map[string]*closure
	trace  []string
	steps  int
	budget int
	depth  int
	hits   map[string]int
	active map[*closure]int
	// keep: positions at which a multiple-values result is kept as an object instead of being reduced to its
	// primary value ("let-init", "or-argument", "mapcar-result", "do-init-step"). Empty = Common Lisp. slip
	// treats a values object as an ordinary object that may be stored and passed on (rule S2, see judge).
	keep map[string]bool
	// special variables (defvar): names, global values, the stack of dynamic bindings
	scratch   map[*node][]val // mutant do-step-values-kept-per-form only
	specials  map[string]bool
	globals   map[string]val
	globalsOK bool // setq of a variable that is bound nowhere makes a global one (scenario family only)
	dyn       []dynBinding
}

// dynBinding is one dynamic binding of a special variable: a slot of a frame. In the language definition the
// slot belongs to a frame of its own (a closure cannot capture it); with keep["special-captured"] it is the
// slot of the binding form's own frame, so that a closure made inside the form keeps seeing it (what slip does).
type dynBinding struct {
	name string
	f    *frame
	i    int
}

// nonLocalExit is the panic value of return-from.
type nonLocalExit struct {
	block string
	v     val
}

func newRef(mut string, budget int) *ref {
	return &ref{mut: mut, funcs: map[string]*closure{}, budget: budget, hits: map[string]int{}, active: map[*closure]int{},
		specials: map[string]bool{}, globals: map[string]val{}}
}

func (r *ref) fail(format string, args ...any) {
	panic(refError(fmt.Sprintf(format, args...)))
}

func (r *ref) hit(name string) { r.hits[name]++ }

func prim(v val) val {
	if m, ok := v.(mvals); ok {
		if len(m) == 0 {
			return nil
		}
		return m[0]
	}
	return v
}

func mkList(items []val) val {
	if len(items) == 0 {
		return nil
	}
	return lstv(items)
}

func truthy(v val) bool { return v != nil }

func eql(a, b val) bool {
	switch x := a.(type) {
	case nil:
		return b == nil
	case int64:
		y, ok := b.(int64)
		return ok && x == y
	case symv:
		y, ok := b.(symv)
		return ok && x == y
	case tval:
		_, ok := b.(tval)
		return ok
	}
	return false
}

// showVal renders like lisp.Show renders the corresponding slip object.
func showVal(v val) string {
	var b strings.Builder
	writeVal(&b, v)
	return b.String()
}

func writeVal(b *strings.Builder, v val) {
	switch t := v.(type) {
	case nil:
		b.WriteString("nil")
	case int64:
		b.WriteString(strconv.FormatInt(t, 10))
	case symv:
		if strings.HasPrefix(string(t), "#\\") {
			b.WriteString("#\\" + strconv.QuoteRune([]rune(string(t)[2:])[0])) // like lisp.Show of a character
		} else {
			b.WriteString(string(t))
		}
	case tval:
		b.WriteString("t")
	case lstv:
		b.WriteByte('(')
		for i, e := range t {
			if 0 < i {
				b.WriteByte(' ')
			}
			writeVal(b, e)
		}
		b.WriteByte(')')
	case mvals:
		b.WriteString("#values(")
		for i, e := range t {
			if 0 < i {
				b.WriteByte(' ')
			}
			writeVal(b, e)
		}
		b.WriteByte(')')
	case *closure:
		b.WriteString("#<lambda>")
	default:
		fmt.Fprintf(b, "#<?%T>", v)
	}
}

// run evaluates the top-level forms; the value is that of the last one.
func (r *ref) run(forms []*node) (result val, err string) {
	defer func() {
		if rec := recover(); rec != nil {
			switch t := rec.(type) {
			case refError:
				err = "ref-error: " + string(t)
			case refBudget:
				err = "ref-budget"
			case nonLocalExit:
				err = "ref-error: return-from outside its block " + t.block
			default:
				panic(rec)
			}
		}
	}()
	for _, f := range forms {
		result = r.eval(f, nil)
	}
	return
}

func (r *ref) ev1(n *node, env *frame) val { return prim(r.eval(n, env)) }

// evKeep is ev1 except at a position where values objects are kept (see ref.keep).
func (r *ref) evKeep(pos string, n *node, env *frame) val {
	if r.keep[pos] {
		return r.eval(n, env)
	}
	return r.ev1(n, env)
}

func (r *ref) progn(forms []*node, env *frame) (v val) {
	for i, f := range forms {
		if i == len(forms)-1 {
			return r.eval(f, env)
		}
		r.ev1(f, env)
	}
	return nil
}

func datum(n *node) val {
	switch n.kind {
	case 'i':
		return n.i
	case 's':
		switch n.s {
		case "nil":
			return nil
		case "t":
			return tval{}
		}
		return symv(n.s)
	case 'l':
		items := make([]val, len(n.l))
		for i, e := range n.l {
			items[i] = datum(e)
		}
		return mkList(items)
	}
	panic(refError("datum the reference does not model: " + n.String()))
}

// eval returns the value(s) of a form; multiple values come back as mvals.
func (r *ref) eval(n *node, env *frame) val {
	r.steps++
	if r.budget < r.steps {
		panic(refBudget{})
	}
	switch n.kind {
	case 'i':
		return n.i
	case 's':
		switch n.s {
		case "nil":
			return nil
		case "t":
			return tval{}
		}
		if strings.HasPrefix(n.s, ":") || strings.HasPrefix(n.s, "#\\") {
			return symv(n.s) // a keyword or a character evaluates to itself
		}
		f, i := r.lookupVar(n.s, env)
		if f == nil {
			if v, has := r.globals[n.s]; has {
				return v
			}
			r.fail("unbound variable %s", n.s)
		}
		return f.vals[i]
	case 'l':
	default:
		r.fail("cannot evaluate %s", n)
	}
	if len(n.l) == 0 {
		return nil
	}
	head := n.l[0]
	args := n.l[1:]
	if head.kind == 'l' {
		// ((lambda ...) args)
		if len(head.l) == 0 || !head.l[0].isSym("lambda") {
			r.fail("bad function position %s", head)
		}
		fn := r.makeLambda("", head.l[1:], env)
		return r.apply(fn, r.evalArgs(args, env), env)
	}
	if head.kind != 's' {
		r.fail("bad function position %s", head)
	}
	switch head.s {
	case "quote":
		return datum(args[0])
	case "function":
		if args[0].kind == 'l' {
			if !args[0].l[0].isSym("lambda") {
				r.fail("bad function form %s", n)
			}
			return r.makeLambda("", args[0].l[1:], env)
		}
		return symv(args[0].s) // function designator, resolved at call time (no redefinition in these programs)
	case "lambda":
		return r.makeLambda("", args, env)
	case "defun":
		fn := r.makeLambda(args[0].s, args[1:], env)
		r.funcs[args[0].s] = fn
		return symv(args[0].s)
	case "progn":
		return r.progn(args, env)
	case "prog1":
		v := r.ev1(args[0], env)
		for _, a := range args[1:] {
			r.ev1(a, env)
		}
		return v
	case "if":
		test := truthy(r.ev1(args[0], env))
		if r.mut == "if-evaluates-both" {
			if test && 2 < len(args) {
				r.ev1(args[2], env)
			} else if !test {
				r.ev1(args[1], env)
			}
		}
		if test {
			if 2 < len(args) {
				r.hit("branch-skipped")
			}
			return r.eval(args[1], env)
		}
		r.hit("branch-skipped")
		if 2 < len(args) {
			return r.eval(args[2], env)
		}
		return nil
	case "when", "unless":
		test := truthy(r.ev1(args[0], env))
		if test == (head.s == "when") {
			return r.progn(args[1:], env)
		}
		if 1 < len(args) {
			r.hit("branch-skipped")
		}
		return nil
	case "cond":
		for ci, c := range args {
			tv := r.eval(c.l[0], env)
			if !truthy(prim(tv)) {
				r.hit("branch-skipped")
				continue
			}
			if ci < len(args)-1 {
				r.hit("branch-skipped")
			}
			var v val
			if len(c.l) == 1 {
				v = prim(tv)
			} else {
				v = r.progn(c.l[1:], env)
			}
			if r.mut == "cond-falls-through" && ci < len(args)-1 {
				continue
			}
			return v
		}
		return nil
	case "case":
		key := r.ev1(args[0], env)
		for ci, c := range args[1:] {
			match := false
			k := c.l[0]
			switch {
			case k.kind == 'l':
				for _, kk := range k.l {
					match = match || eql(datum(kk), key)
				}
			case (k.isSym("otherwise") || k.isSym("t")) && ci == len(args)-2:
				match = true
			case k.isSym("nil") && r.mut != "case-nil-clause-matches-nil":
				// nil in the place of the keys is the empty list of keys: the clause is never selected
			default:
				match = eql(datum(k), key)
			}
			if match {
				if ci < len(args)-2 {
					r.hit("branch-skipped")
				}
				return r.progn(c.l[1:], env)
			}
			r.hit("branch-skipped")
		}
		return nil
	case "and":
		var v val = tval{}
		for i, a := range args {
			if i == len(args)-1 {
				return r.eval(a, env)
			}
			if v = r.ev1(a, env); !truthy(v) {
				r.hit("branch-skipped")
				return nil
			}
		}
		return v
	case "or":
		if r.mut == "or-continues" {
			var first val
			for _, a := range args {
				if v := r.ev1(a, env); truthy(v) && first == nil {
					first = v
				}
			}
			return first
		}
		for i, a := range args {
			if i == len(args)-1 {
				return r.eval(a, env)
			}
			if v := r.evKeep("or-argument", a, env); truthy(prim(v)) {
				r.hit("branch-skipped")
				return v
			}
		}
		return nil
	case "let", "let*":
		seq := head.s == "let*"
		if r.mut == "let-sequential" {
			seq = true
		}
		if r.mut == "letstar-parallel" {
			seq = false
		}
		nf := &frame{up: env}
		var names []string
		var vals []val
		if mark := len(r.dyn); r.mut == "special-binding-not-undone-by-return-from" {
			defer func() {
				if rec := recover(); rec != nil {
					panic(rec)
				}
				r.unwindDyn(mark)
			}()
		} else {
			defer r.unwindDyn(mark) // the dynamic bindings made here end with the form, however it is left
		}
		for _, b := range args[0].l {
			var name string
			var init *node
			switch {
			case b.kind == 's':
				name = b.s
			case len(b.l) == 1:
				name = b.l[0].s
			default:
				name, init = b.l[0].s, b.l[1]
			}
			var v val
			if init != nil {
				if seq {
					v = r.evKeep("let-init", init, nf)
				} else {
					v = r.evKeep("let-init", init, env)
				}
			}
			if seq {
				r.bindVar(nf, name, v)
			} else {
				names = append(names, name)
				vals = append(vals, v)
			}
			if f, _ := env.lookup(name); f != nil {
				r.hit("shadowing-binding")
			}
		}
		for i, name := range names {
			r.bindVar(nf, name, vals[i])
		}
		return r.progn(args[1:], nf)
	case "setq":
		var v val
		for i := 0; i+1 < len(args); i += 2 {
			v = r.ev1(args[i+1], env)
			r.assign(args[i].s, v, env)
		}
		return v
	case "psetq":
		vs := make([]val, 0, len(args)/2)
		for i := 0; i+1 < len(args); i += 2 {
			vs = append(vs, r.ev1(args[i+1], env))
			if r.mut == "psetq-sequential" {
				r.assign(args[i].s, vs[i/2], env)
			}
		}
		for i := 0; i+1 < len(args); i += 2 {
			r.assign(args[i].s, vs[i/2], env)
		}
		r.hit("psetq")
		return nil
	case "prog2":
		r.ev1(args[0], env)
		v := r.ev1(args[1], env)
		for _, a := range args[2:] {
			r.ev1(a, env)
		}
		return v
	case "multiple-value-list":
		r.hit("mv-list")
		return mkList(allValues(r.eval(args[0], env)))
	case "multiple-value-call":
		fn := r.ev1(args[0], env)
		var all []val
		for _, a := range args[1:] {
			if r.mut == "mv-call-primary-values-only" {
				all = append(all, r.ev1(a, env))
				continue
			}
			all = append(all, allValues(r.eval(a, env))...)
		}
		r.hit("mv-call")
		return r.apply(fn, all, env)
	case "multiple-value-setq":
		vs := allValues(r.eval(args[1], env))
		for i, s := range args[0].l {
			if i < len(vs) {
				r.assign(s.s, vs[i], env)
			} else {
				r.assign(s.s, nil, env)
			}
		}
		r.hit("mv-setq")
		if len(vs) == 0 {
			return nil
		}
		return vs[0]
	case "multiple-value-prog1":
		v := r.eval(args[0], env)
		for _, a := range args[1:] {
			r.ev1(a, env)
		}
		r.hit("mv-prog1")
		return v
	case "nth-value":
		k, ok := r.ev1(args[0], env).(int64)
		if !ok {
			r.fail("nth-value: index is not an integer")
		}
		vs := allValues(r.eval(args[1], env))
		r.hit("nth-value")
		if 0 <= k && k < int64(len(vs)) {
			return vs[k]
		}
		return nil
	case "block":
		return r.block(args[0].s, args[1:], env)
	case "return-from":
		var v val
		if 1 < len(args) {
			v = r.eval(args[1], env)
		}
		panic(nonLocalExit{block: args[0].s, v: v})
	case "defvar":
		name := args[0].s
		r.specials[name] = true
		if _, has := r.globals[name]; !has && 1 < len(args) {
			r.globals[name] = r.ev1(args[1], env)
		}
		return symv(name)
	case "dolist":
		spec := args[0].l
		list := r.ev1(spec[1], env)
		nf := &frame{up: env}
		nf.bind(spec[0].s, nil)
		if list != nil {
			items, ok := list.(lstv)
			if !ok {
				r.fail("dolist over a non-list %s", showVal(list))
			}
			for k, it := range items {
				if k == 1 {
					r.hit("loop-second-iteration")
				}
				if r.keep["loop-fresh-binding"] {
					nf = &frame{up: env}
					nf.bind(spec[0].s, nil)
				}
				nf.vals[0] = it
				for _, b := range args[1:] {
					r.ev1(b, nf)
				}
			}
		}
		if r.keep["loop-fresh-binding"] {
			nf = &frame{up: env}
			nf.bind(spec[0].s, nil)
		}
		nf.vals[0] = nil
		if 2 < len(spec) {
			return r.eval(spec[2], nf)
		}
		return nil
	case "dotimes":
		spec := args[0].l
		cnt, ok := r.ev1(spec[1], env).(int64)
		if !ok {
			r.fail("dotimes count is not an integer")
		}
		nf := &frame{up: env}
		nf.bind(spec[0].s, int64(0))
		done := int64(0)
		limit := cnt
		if r.mut == "dotimes-one-more" {
			limit++
		}
		for k := int64(0); k < limit; k++ {
			if k == 1 {
				r.hit("loop-second-iteration")
			}
			if r.keep["loop-fresh-binding"] {
				nf = &frame{up: env}
				nf.bind(spec[0].s, nil)
			}
			nf.vals[0] = k
			for _, b := range args[1:] {
				r.ev1(b, nf)
			}
			done++
		}
		if r.keep["loop-fresh-binding"] {
			nf = &frame{up: env}
			nf.bind(spec[0].s, nil)
		}
		nf.vals[0] = done // "bound to the number of times the body was executed"
		if 2 < len(spec) {
			return r.eval(spec[2], nf)
		}
		return nil
	case "do", "do*":
		return r.doLoop(head.s == "do*", args, env)
	case "multiple-value-bind":
		v := r.eval(args[1], env)
		var vs []val
		if m, ok := v.(mvals); ok {
			vs = m
			if 1 < len(m) {
				r.hit("mv-bind-2")
			}
		} else {
			vs = []val{v}
		}
		nf := &frame{up: env}
		for i, s := range args[0].l {
			if i < len(vs) {
				nf.bind(s.s, vs[i])
			} else {
				nf.bind(s.s, nil)
			}
		}
		return r.progn(args[2:], nf)
	}
	// ordinary function call: arguments left to right, each exactly once, primary values
	return r.call(head.s, r.evalArgs(args, env), env)
}

func (r *ref) evalArgs(args []*node, env *frame) []val {
	vs := make([]val, len(args))
	if r.mut == "args-right-to-left" {
		for i := len(args) - 1; 0 <= i; i-- {
			vs[i] = r.ev1(args[i], env)
		}
		return vs
	}
	for i, a := range args {
		vs[i] = r.ev1(a, env)
		if i == 0 && r.mut == "first-arg-twice" {
			vs[i] = r.ev1(a, env)
		}
	}
	return vs
}

// allValues: the values of a form as a slice (a single value is one value).
func allValues(v val) []val {
	if m, ok := v.(mvals); ok {
		return m
	}
	return []val{v}
}

// lookupVar finds the binding of a variable. A special variable (defvar) is looked up in the stack of dynamic
// bindings, never in the lexical environment; its global value is r.globals (nil frame returned).
func (r *ref) lookupVar(name string, env *frame) (*frame, int) {
	if r.specials[name] {
		if r.keep["special-captured"] {
			if f, i := env.lookup(name); f != nil {
				return f, i
			}
		}
		for k := len(r.dyn) - 1; 0 <= k; k-- {
			if r.dyn[k].name == name {
				r.hit("special-dynamic-binding-seen")
				return r.dyn[k].f, r.dyn[k].i
			}
		}
		return nil, 0
	}
	return env.lookup(name)
}

// bindVar binds a variable of let / let*: lexically in the form's frame, or - a special variable - dynamically.
func (r *ref) bindVar(nf *frame, name string, v val) {
	if !r.specials[name] {
		nf.bind(name, v)
		return
	}
	r.hit("special-bound-by-let")
	if r.keep["special-captured"] {
		nf.bind(name, v)
		r.dyn = append(r.dyn, dynBinding{name, nf, len(nf.vals) - 1})
		return
	}
	cell := &frame{}
	cell.bind(name, v)
	r.dyn = append(r.dyn, dynBinding{name, cell, 0})
}

func (r *ref) unwindDyn(to int) {
	if to < len(r.dyn) {
		r.hit("special-binding-undone")
	}
	r.dyn = r.dyn[:to]
}

func (r *ref) block(name string, body []*node, env *frame) (v val) {
	defer func() {
		if rec := recover(); rec != nil {
			if x, ok := rec.(nonLocalExit); ok && x.block == name {
				r.hit("non-local-exit")
				v = x.v
				return
			}
			panic(rec)
		}
	}()
	return r.progn(body, env)
}

func (r *ref) assign(name string, v val, env *frame) {
	f, i := r.lookupVar(name, env)
	if f == nil && (r.specials[name] || r.globalsOK) {
		if _, has := r.globals[name]; !has && !r.specials[name] {
			r.hit("setq-makes-global")
		}
		r.globals[name] = v
		return
	}
	if f == nil {
		r.fail("setq of unbound variable %s", name)
	}
	if r.mut == "setq-makes-local" && f != env && env != nil {
		env.bind(name, v)
		return
	}
	if f != env {
		r.hit("setq-outer-binding")
	}
	f.vals[i] = v
}

func (r *ref) doLoop(seq bool, args []*node, env *frame) val {
	nf := &frame{up: env}
	type stepper struct {
		idx  int
		step *node
	}
	var steps []stepper
	var names []string
	var inits []val
	for _, b := range args[0].l {
		var name string
		var init, step *node
		if b.kind == 's' {
			name = b.s
		} else {
			name = b.l[0].s
			if 1 < len(b.l) {
				init = b.l[1]
			}
			if 2 < len(b.l) {
				step = b.l[2]
			}
		}
		var v val
		if init != nil {
			if seq {
				v = r.evKeep("do-init-step", init, nf)
			} else {
				v = r.evKeep("do-init-step", init, env)
			}
		}
		if seq {
			nf.bind(name, v)
		} else {
			names = append(names, name)
			inits = append(inits, v)
		}
		if step != nil {
			steps = append(steps, stepper{idx: len(names) - 1, step: step})
			if seq {
				steps[len(steps)-1].idx = len(nf.names) - 1
			}
		}
	}
	for i, name := range names {
		nf.bind(name, inits[i])
	}
	end := args[1].l
	for k := 0; ; k++ {
		if truthy(r.ev1(end[0], nf)) {
			return r.progn(end[1:], nf)
		}
		if k == 1 {
			r.hit("loop-second-iteration")
		}
		for _, b := range args[2:] {
			r.ev1(b, nf)
		}
		if seq {
			for _, s := range steps {
				nf.vals[s.idx] = r.evKeep("do-init-step", s.step, nf)
			}
		} else {
			nv := make([]val, len(steps))
			if r.mut == "do-step-values-kept-per-form" {
				// one scratch record per do FORM, shared by all its activations
				if r.scratch == nil {
					r.scratch = map[*node][]val{}
				}
				if r.scratch[args[0]] == nil {
					r.scratch[args[0]] = nv
				}
				nv = r.scratch[args[0]]
			}
			for i, s := range steps {
				nv[i] = r.evKeep("do-init-step", s.step, nf)
			}
			for i, s := range steps {
				nf.vals[s.idx] = nv[i]
			}
		}
	}
}

func (r *ref) makeLambda(name string, spec []*node, env *frame) *closure {
	c := &closure{name: name, env: env, body: spec[1:]}
	for _, p := range spec[0].l {
		c.params = append(c.params, p.s)
	}
	if env != nil {
		r.hit("closure-created-in-binding")
	}
	return c
}

func (r *ref) resolve(fn val) val {
	if s, ok := fn.(symv); ok {
		if c := r.funcs[string(s)]; c != nil {
			return c
		}
	}
	return fn
}

// apply calls a function object or designator with evaluated arguments.
func (r *ref) apply(fn val, args []val, caller *frame) val {
	switch t := r.resolve(fn).(type) {
	case *closure:
		if len(args) != len(t.params) {
			r.fail("%d arguments for %d parameters", len(args), len(t.params))
		}
		up := t.env
		if r.mut == "dynamic-closure" {
			up = caller
		}
		nf := &frame{up: up}
		for i, p := range t.params {
			nf.bind(p, args[i])
		}
		if 0 < r.active[t] {
			r.hit("recursive-call")
		}
		if t.env != nil {
			r.hit("closure-call")
		}
		r.active[t]++
		r.depth++
		if 400 < r.depth {
			panic(refBudget{})
		}
		v := r.progn(t.body, nf)
		r.depth--
		r.active[t]--
		return v
	case symv:
		return r.builtin(string(t), args, caller)
	}
	r.fail("not a function: %s", showVal(fn))
	return nil
}

func (r *ref) call(name string, args []val, env *frame) val {
	if c := r.funcs[name]; c != nil {
		return r.apply(c, args, env)
	}
	return r.builtin(name, args, env)
}

func (r *ref) ints(name string, args []val) []int64 {
	is := make([]int64, len(args))
	for i, a := range args {
		v, ok := a.(int64)
		if !ok {
			r.fail("%s applied to the non-integer %s", name, showVal(a))
		}
		if v < -1<<40 || 1<<40 < v {
			panic(refBudget{}) // keep far away from fixnum overflow (that is C05)
		}
		is[i] = v
	}
	return is
}

func boolVal(b bool) val {
	if b {
		return tval{}
	}
	return nil
}

func (r *ref) builtin(name string, args []val, env *frame) val {
	switch name {
	case "tr":
		if len(args) != 2 {
			r.fail("tr with %d arguments", len(args))
		}
		r.trace = append(r.trace, showVal(args[0]))
		return args[1]
	case "list":
		return mkList(append([]val(nil), args...))
	case "values":
		if len(args) == 1 {
			return args[0]
		}
		return mvals(append([]val(nil), args...))
	case "cons":
		if args[1] == nil {
			return lstv{args[0]}
		}
		l, ok := args[1].(lstv)
		if !ok {
			r.fail("cons onto a non-list")
		}
		return append(lstv{args[0]}, l...)
	case "car", "cdr":
		if args[0] == nil {
			return nil
		}
		l, ok := args[0].(lstv)
		if !ok {
			r.fail("%s of a non-list", name)
		}
		if name == "car" {
			return l[0]
		}
		return mkList(append([]val(nil), l[1:]...))
	case "length":
		if args[0] == nil {
			return int64(0)
		}
		l, ok := args[0].(lstv)
		if !ok {
			r.fail("length of a non-list")
		}
		return int64(len(l))
	case "not", "null":
		return boolVal(args[0] == nil)
	case "+":
		s := int64(0)
		for _, i := range r.ints(name, args) {
			s += i
		}
		return s
	case "*":
		s := int64(1)
		for _, i := range r.ints(name, args) {
			s *= i
			if s < -1<<40 || 1<<40 < s {
				panic(refBudget{})
			}
		}
		return s
	case "-":
		is := r.ints(name, args)
		if len(is) == 1 {
			return -is[0]
		}
		s := is[0]
		for _, i := range is[1:] {
			s -= i
		}
		return s
	case "1+":
		return r.ints(name, args)[0] + 1
	case "1-":
		return r.ints(name, args)[0] - 1
	case "=", "<", ">", "<=", ">=":
		is := r.ints(name, args)
		ok := true
		for i := 0; i+1 < len(is); i++ {
			a, b := is[i], is[i+1]
			switch name {
			case "=":
				ok = ok && a == b
			case "<":
				ok = ok && a < b
			case ">":
				ok = ok && a > b
			case "<=":
				ok = ok && a <= b
			case ">=":
				ok = ok && a >= b
			}
		}
		return boolVal(ok)
	case "funcall":
		return r.apply(args[0], args[1:], env)
	case "apply":
		spread := append([]val(nil), args[1:len(args)-1]...)
		if last := args[len(args)-1]; last != nil {
			l, ok := last.(lstv)
			if !ok {
				r.fail("apply: last argument is not a list")
			}
			spread = append(spread, l...)
		}
		return r.apply(args[0], spread, env)
	case "values-list":
		if args[0] == nil {
			return mvals{}
		}
		l, ok := args[0].(lstv)
		if !ok {
			r.fail("values-list of a non-list")
		}
		if len(l) == 1 {
			return l[0]
		}
		return mvals(append([]val(nil), l...))
	case "mapc", "maplist":
		lists := make([]lstv, len(args)-1)
		n := -1
		for i, a := range args[1:] {
			if a != nil {
				l, ok := a.(lstv)
				if !ok {
					r.fail("%s over a non-list", name)
				}
				lists[i] = l
			}
			if n < 0 || len(lists[i]) < n {
				n = len(lists[i])
			}
		}
		var out []val
		for k := 0; k < n; k++ {
			ca := make([]val, len(lists))
			for i := range lists {
				if name == "mapc" {
					ca[i] = lists[i][k]
				} else {
					ca[i] = mkList(append([]val(nil), lists[i][k:]...))
				}
			}
			out = append(out, prim(r.apply(args[0], ca, env)))
		}
		r.hit(name)
		if name == "mapc" {
			return args[1]
		}
		return mkList(out)
	case "mapcar":
		lists := make([]lstv, len(args)-1)
		n := -1
		for i, a := range args[1:] {
			if a != nil {
				l, ok := a.(lstv)
				if !ok {
					r.fail("mapcar over a non-list")
				}
				lists[i] = l
			}
			if n < 0 || len(lists[i]) < n {
				n = len(lists[i])
			}
		}
		var out []val
		for k := 0; k < n; k++ {
			ca := make([]val, len(lists))
			for i := range lists {
				ca[i] = lists[i][k]
			}
			if r.keep["mapcar-result"] {
				out = append(out, r.apply(args[0], ca, env))
			} else {
				out = append(out, prim(r.apply(args[0], ca, env)))
			}
		}
		return mkList(out)
	}
	r.fail("undefined function %s", name)
	return nil
}
