package c08

// modes.go: turns (program, order of definitions, mode) into a history of
// R/C/E/L steps with the places where the oracle looks.

import (
	"fmt"
	"strconv"
	"strings"
)

const (
	chkNone    = iota // nothing observed (R)
	chkOK             // definition / compile step: must not fail; its value is not constrained (S2)
	chkExact          // value and trace must equal the reference
	chkLenient        // early evaluation: if the reference fails (callee missing) any non-fault outcome is accepted
)

type hstep struct {
	step
	label string
	check int
}

var baseModes = []string{"each", "whole", "comp", "compeach", "load", "loadtwice", "rep", "comprep", "mixrep", "wholerep", "compwholerep"}

func modesFor(p *program, tier string) (out []string) {
	out = append(out, baseModes...)
	for i, alt := range p.alts {
		if p.redefAll && i != len(p.alts)-1 {
			continue // the caller's alternative passes a key only the callee's alternative has: redefined together only
		}
		if alt != "" {
			out = append(out, "redef:"+strconv.Itoa(i), "compredef:"+strconv.Itoa(i))
		}
	}
	if p.redefAll {
		out = append(out, "redefall", "compredefall")
	}
	for _, i := range p.unbind {
		out = append(out, "unbind:"+strconv.Itoa(i), "compunbind:"+strconv.Itoa(i))
	}
	for _, i := range p.regen {
		out = append(out, "regen:"+strconv.Itoa(i), "compregen:"+strconv.Itoa(i))
	}
	if !p.stateful && !p.noEarly {
		out = append(out, "early", "compearly")
	}
	return
}

// modeClass strips the redefinition target.
func modeClass(mode string) string {
	if i := strings.IndexByte(mode, ':'); 0 < i {
		return mode[:i]
	}
	return mode
}

const (
	slotMain  = 90
	slotMain2 = 91
	slotAlt   = 93
	slotBack  = 94
	slotWhole = 0
)

func buildHistory(p *program, perm []int, mode string, uniq func(string) string) (h []hstep, err error) {
	defs := make([]string, len(perm))
	for i, d := range perm {
		defs[i] = uniq(p.defs[d])
	}
	main := uniq(p.main)
	whole := strings.Join(defs, "\n") + "\n" + main
	add := func(op byte, slot int, src, label string, check int) {
		h = append(h, hstep{step: step{op: op, slot: slot, src: src}, label: label, check: check})
	}
	defEach := func(compile bool) {
		for i, d := range defs {
			add('R', 10+i, d, "", chkNone)
			if compile {
				add('C', 10+i, "", "compile-def", chkOK)
			}
			add('E', 10+i, "", "def", chkOK)
		}
	}
	readMain := func(slot int, compile bool) {
		add('R', slot, main, "", chkNone)
		if compile {
			add('C', slot, "", "compile-main", chkOK)
		}
	}
	cls := modeClass(mode)
	switch cls {
	case "each":
		defEach(false)
		readMain(slotMain, false)
		add('E', slotMain, "", "main", chkExact)
	case "whole":
		add('R', slotWhole, whole, "", chkNone)
		add('E', slotWhole, "", "main", chkExact)
	case "comp":
		add('R', slotWhole, whole, "", chkNone)
		add('C', slotWhole, "", "compile", chkOK)
		add('E', slotWhole, "", "main", chkExact)
	case "compeach":
		defEach(true)
		readMain(slotMain, true)
		add('E', slotMain, "", "main", chkExact)
	case "load", "loadtwice":
		// load returns t: the value of main is handed to the Go side by (c08-out main)
		src := strings.Join(defs, "\n") + "\n(c08-out " + main + ")"
		add('L', 0, src, "main", chkExact)
		if cls == "loadtwice" {
			add('L', 0, src, "again", chkExact)
		}
	case "rep", "comprep", "mixrep":
		defEach(cls == "comprep")
		readMain(slotMain, cls != "rep")
		for k := 1; k <= 5; k++ {
			label := "main"
			if 1 < k {
				label = "again"
			}
			add('E', slotMain, "", label, chkExact)
		}
	case "wholerep", "compwholerep":
		add('R', slotWhole, whole, "", chkNone)
		if cls == "compwholerep" {
			add('C', slotWhole, "", "compile", chkOK)
		}
		for k := 1; k <= 3; k++ {
			label := "main"
			if 1 < k {
				label = "again"
			}
			add('E', slotWhole, "", label, chkExact)
		}
	case "redef", "compredef":
		target, cerr := strconv.Atoi(mode[strings.IndexByte(mode, ':')+1:])
		if cerr != nil || target < 0 || len(p.alts) <= target || p.alts[target] == "" {
			return nil, fmt.Errorf("bad redefinition target in %q", mode)
		}
		comp := cls == "compredef"
		defEach(comp)
		readMain(slotMain, comp)
		add('E', slotMain, "", "main", chkExact)
		add('R', slotAlt, uniq(p.alts[target]), "", chkNone)
		if comp {
			add('C', slotAlt, "", "compile-def", chkOK)
		}
		add('E', slotAlt, "", "redef", chkOK)
		add('E', slotMain, "", "after-redef", chkExact)
		readMain(slotMain2, comp)
		add('E', slotMain2, "", "fresh-after-redef", chkExact)
		add('R', slotBack, uniq(p.defs[target]), "", chkNone)
		if comp {
			add('C', slotBack, "", "compile-def", chkOK)
		}
		add('E', slotBack, "", "redef", chkOK)
		add('E', slotMain, "", "after-restore", chkExact)
		// the main read (and compiled) BETWEEN the second and the third definition must see the third one too
		add('E', slotMain2, "", "fresh-after-restore", chkExact)
	case "regen", "compregen":
		// the generic function is defined AGAIN (defgeneric evaluated a second time), then its method with the alternative
		// body: call sites that existed all along, and a fresh one, must reach the new method
		target, cerr := strconv.Atoi(mode[strings.IndexByte(mode, ':')+1:])
		if cerr != nil || target < 0 || len(p.alts) <= target+1 || p.alts[target+1] == "" || !strings.HasPrefix(p.defs[target], "(defgeneric ") {
			return nil, fmt.Errorf("bad defgeneric target in %q", mode)
		}
		comp := cls == "compregen"
		defEach(comp)
		readMain(slotMain, comp)
		add('E', slotMain, "", "main", chkExact)
		for k, text := range []string{p.defs[target], p.alts[target+1]} {
			add('R', slotAlt+k*10, uniq(text), "", chkNone)
			if comp {
				add('C', slotAlt+k*10, "", "compile-def", chkOK)
			}
			add('E', slotAlt+k*10, "", "redef", chkOK)
		}
		add('E', slotMain, "", "after-redef", chkExact)
		readMain(slotMain2, comp)
		add('E', slotMain2, "", "fresh-after-redef", chkExact)
	case "unbind", "compunbind":
		// the function is made unbound (fmakunbound), the same main is evaluated (outcome not constrained: the statement
		// does not speak of fmakunbound), then the function is defined again with its alternative text: the call sites
		// that existed all along, and a fresh one, must reach the new definition
		target, cerr := strconv.Atoi(mode[strings.IndexByte(mode, ':')+1:])
		if cerr != nil || target < 0 || len(p.alts) <= target || p.alts[target] == "" {
			return nil, fmt.Errorf("bad fmakunbound target in %q", mode)
		}
		name := defName(p.defs[target])
		if name == "" {
			return nil, fmt.Errorf("definition %d of %s is not a defun", target, p.id)
		}
		comp := cls == "compunbind"
		defEach(comp)
		readMain(slotMain, comp)
		add('E', slotMain, "", "main", chkExact)
		add('R', slotAlt, uniq("(fmakunbound '"+name+")"), "", chkNone)
		if comp {
			add('C', slotAlt, "", "compile-def", chkOK)
		}
		add('E', slotAlt, "", "unbind", chkOK)
		add('E', slotMain, "", "after-unbind", chkLenient)
		add('R', slotBack, uniq(p.alts[target]), "", chkNone)
		if comp {
			add('C', slotBack, "", "compile-def", chkOK)
		}
		add('E', slotBack, "", "redef", chkOK)
		add('E', slotMain, "", "after-redef", chkExact)
		readMain(slotMain2, comp)
		add('E', slotMain2, "", "fresh-after-redef", chkExact)
	case "redefall", "compredefall":
		// every definition that has an alternative is redefined (callee first: natural order reversed), then main
		comp := cls == "compredefall"
		defEach(comp)
		readMain(slotMain, comp)
		add('E', slotMain, "", "main", chkExact)
		redo := func(texts []string, base int) {
			for i := len(texts) - 1; 0 <= i; i-- {
				if p.alts[i] == "" {
					continue
				}
				add('R', base+i, uniq(texts[i]), "", chkNone)
				if comp {
					add('C', base+i, "", "compile-def", chkOK)
				}
				add('E', base+i, "", "redef", chkOK)
			}
		}
		redo(p.alts, 40)
		add('E', slotMain, "", "after-redef", chkExact)
		readMain(slotMain2, comp)
		add('E', slotMain2, "", "fresh-after-redef", chkExact)
		redo(p.defs, 60)
		add('E', slotMain, "", "after-restore", chkExact)
	case "early", "compearly":
		comp := cls == "compearly"
		readMain(slotMain, comp)
		add('E', slotMain, "", "early", chkLenient)
		for i, d := range defs {
			add('R', 10+i, d, "", chkNone)
			if comp {
				add('C', 10+i, "", "compile-def", chkOK)
			}
			add('E', 10+i, "", "def", chkOK)
			if i == len(defs)-1 {
				add('E', slotMain, "", "final", chkExact)
			} else {
				add('E', slotMain, "", "early", chkLenient)
			}
		}
		readMain(slotMain2, comp)
		add('E', slotMain2, "", "fresh-final", chkExact)
	default:
		return nil, fmt.Errorf("unknown mode %q", mode)
	}
	return
}

// defName: the function name of a (defun NAME ..) text.
func defName(def string) string {
	const pre = "(defun "
	if !strings.HasPrefix(def, pre) {
		return ""
	}
	rest := def[len(pre):]
	if i := strings.IndexByte(rest, ' '); 0 < i {
		return rest[:i]
	}
	return ""
}
