//go:build verif

package c10

// Reference model for C10 (sequential part): a cache-free dispatcher over a
// plain method table, written without looking at how slip stores methods.
// It imports nothing from slip so that the concurrent part can reuse it.
//
// The dispatcher is an interpreter of the (few) method body kinds the harness
// writes: it produces the ordered trace and the value a call must have, for a
// top-level call and for the calls method bodies make themselves (a second
// call-next-method, call-next-method with other arguments, a nested call of
// the generic function from inside a method).

import (
	"fmt"
	"math/big"
	"sort"
	"strconv"
	"strings"
)

// Method body variants. The slot a variant occupies is slotOf(variant).
//
//	p primary          b :before          a :after
//	w :around, calls (call-next-method args...) once and wraps the value
//	s :around that does NOT call call-next-method
//	n :around that asks (next-method-p) first, then calls call-next-method
//	d :around that calls call-next-method TWICE (both values in its value)
//	l :around that asks (next-method-p) and then calls call-next-method twice inside a loop
//	m :around that calls call-next-method with DIFFERENT arguments of the same classes ((+ x 1))
//	o :around that calls a bare (call-next-method) (the arguments of the call are passed on)
//	g :around that first calls the generic function itself with another class tuple (the configuration's sink), then continues
//	h primary that calls the generic function itself with the sink tuple
//	x primary that calls call-next-method   (slip: documented error, below an :around method and without one)
//	y :before that calls call-next-method   (same)
//	z :after that calls call-next-method    (same)
const variants = "pbawsndlmgohxyz"

func slotOf(variant byte) int {
	switch variant {
	case 'p', 'x', 'h', 'E': // E = the default method of a built-in generic function (signals an error, traces nothing)
		return 0
	case 'b', 'y':
		return 1
	case 'a', 'z':
		return 2
	}
	return 3 // every :around kind shares the :around slot
}

// classicVariant: the body kinds of the first rounds; a call that involves only these is classified by the refined
// (qualifier by qualifier) comparison of seq.go.
func classicVariant(v byte) bool { return strings.IndexByte("pbawsn", v) >= 0 }

var slotNames = [4]string{"primary", "before", "after", "around"}

// variantFeature names the interaction a body kind adds (hit counter + part of the signature).
var variantFeature = map[byte]string{
	'd': "around-calls-next-twice",
	'l': "around-calls-next-in-loop-after-next-method-p",
	'm': "around-calls-next-with-other-arguments",
	'o': "around-calls-bare-call-next-method",
	'g': "around-calls-generic-function-recursively",
	'h': "primary-calls-generic-function-recursively",
	'x': "primary-calls-call-next-method",
	'y': "before-calls-call-next-method",
	'z': "after-calls-call-next-method",
	'E': "built-in-default-method",
}

type mdef struct {
	variant byte
	gen     int    // how many times this (slot, specialiser tuple) had been defined when this body was installed
	src     string // the tuple as written: "u" = parameter written without a specialiser (class t)
	viaGF   bool   // defined by a (:method ...) option of defgeneric
}

// tag is the name the body traces; it carries the tuple AS WRITTEN.
func (d mdef) tag(spec string) string {
	if d.src != "" {
		spec = d.src
	}
	return fmt.Sprintf("%c-%s-%d", d.variant, strings.ReplaceAll(spec, ",", "_"), d.gen)
}

// normSpec maps the written tuple to the specialiser tuple: an unspecialised
// parameter ("u") is specialised on t.
func normSpec(spec string) string {
	parts := strings.Split(spec, ",")
	for i, p := range parts {
		if p == "u" {
			parts[i] = "t"
		}
	}
	return strings.Join(parts, ",")
}

func unspecialised(spec string) bool {
	for _, p := range strings.Split(spec, ",") {
		if p == "u" {
			return true
		}
	}
	return false
}

// entry holds the (at most four) methods with one specialiser tuple.
type entry [4]*mdef

// table maps a specialiser tuple ("fixnum" or "fixnum,real") to its methods.
type table map[string]*entry

func (t table) clone() table {
	c := table{}
	for k, e := range t {
		ce := *e
		c[k] = &ce
	}
	return c
}

func (t table) count() (n int) {
	for _, e := range t {
		for _, d := range e {
			if d != nil {
				n++
			}
		}
	}
	return
}

// slots lists "slotletter:tuple" of every method, sorted (compared with the implementation's table after defgeneric).
func (t table) slots() []string {
	var out []string
	for k, e := range t {
		for s, d := range e {
			if d != nil {
				out = append(out, fmt.Sprintf("%c:%s", "pbaw"[s], k))
			}
		}
	}
	sort.Strings(out)
	return out
}

func (t table) String() string {
	keys := make([]string, 0, len(t))
	for k := range t {
		keys = append(keys, k)
	}
	sort.Strings(keys)
	var b strings.Builder
	for _, k := range keys {
		for _, d := range t[k] {
			if d != nil {
				b.WriteString(d.tag(k))
				b.WriteByte(' ')
			}
		}
	}
	return strings.TrimSpace(b.String())
}

// refOpts are the switches of the mutated references (S6). The zero value is
// the real reference.
type refOpts struct {
	aftersForward    bool // :after methods most specific first
	rightToLeft      bool // specificity decided by the LAST argument first
	aroundSkipSecond bool // every second applicable :around is skipped
	primaryLeast     bool // the least specific primary is chosen
	stopRunsInner    bool // an :around that does not call call-next-method still lets the rest run
	// body-kind mutants (round 8)
	secondCnmSkips      bool // a second call-next-method from one :around continues one :around further down (cursor kept in a shared location)
	primaryCnmReruns    bool // call-next-method from a primary/daemon BELOW an :around runs the inner methods again instead of signalling an error
	cnmIgnoresArgs      bool // call-next-method passes the original arguments on, not the ones it was given
	nestedClobbersOuter bool // after a nested call of the generic function the outer :around continues with the inner methods, skipping the remaining :around methods
	cnmLeaksToOuter     bool // call-next-method from a primary reached through a NESTED call (no :around applicable there) continues the OUTER call's chain
	tailDecides         bool // the &optional / &key / &rest argument takes part in the dispatch (a method is not applicable when it is given)
	// history mutants (handled in model.call)
	staleOnRemove            bool // effective-method memo not cleared by remove-method
	staleOnNewKey            bool // memo cleared by defmethod only when the specialiser tuple already had an entry
	staleDefault             bool // single-method fast path not recomputed by remove-method
	staleOnReplace           bool // redefining an existing method keeps serving the old body from the memo
	removeKeepsUnspecialised bool // remove-method is a no-op when the tuple was first defined with an unspecialised parameter
	regenIgnored             bool // defgeneric evaluated again changes nothing, not even the (:method ...) option is installed
}

// expectation kinds
const (
	exStrict  = "strict"  // an applicable primary exists: trace and value are determined
	exNone    = "none"    // no applicable method at all: an error, nothing runs
	exLenient = "lenient" // applicable daemons/arounds but no primary (in the call or in a nested call): the statement is silent (S2)
	exError   = "error"   // a body signals the documented error (call-next-method outside an :around method) or a nested call has no applicable method: an error after the trace prefix
)

type expect struct {
	kind  string
	trace []string
	value string
	// errWhat: for exError, what raises the error ("cnm-from-primary:below-around", "cnm-from-before:no-around", "nested-no-applicable-method" ...)
	errWhat string
	// applicable tags by slot, most specific first, of the TOP-LEVEL call (for classification)
	applicable [4][]string
	// every tag that is applicable in the top-level call or in a nested call
	mayRun map[string]bool
	// classic: only the body kinds p b a w s n are applicable and the configuration adds nothing to the bodies
	classic bool
	// features of the applicable bodies (sorted, for counters and signatures)
	features []string
	nested   bool // a nested call of the generic function was made
}

func (e expect) digest() string {
	return e.kind + "|" + strings.Join(e.trace, " ") + "|" + e.value + "|" + e.errWhat
}

// ------------------------------------------------------------------ argument values

// argVal is one argument: its kind letter (see argKinds in seq.go) and how
// often (+ x 1) was applied to it on the way down an :around chain.
type argVal struct {
	kind string
	bump int
}

var bigArg, _ = new(big.Int).SetString("12345678901234567890123", 10)

// show renders the argument the way lisp.Show renders the real object.
func (a argVal) show() string {
	switch a.kind {
	case "f":
		return strconv.Itoa(1 + a.bump)
	case "B":
		return "B" + new(big.Int).Add(bigArg, big.NewInt(int64(a.bump))).String()
	case "r":
		return fmt.Sprintf("R%d/2", 1+2*a.bump)
	case "d":
		return "d" + strconv.FormatFloat(1.5+float64(a.bump), 'g', -1, 64)
	case "s":
		return "q"
	case "1", "2", "3", "4":
		return "#<vc" + a.kind + ">"
	case "S", "T":
		return "#<" + map[string]string{"S": "sc1", "T": "sc2"}[a.kind] + ">"
	}
	return "?" + a.kind
}

// callArgs: the required arguments and whether the extra (&optional / &key / &rest) arguments are given.
type callArgs struct {
	req   []argVal
	extra bool
}

func parseCall(spec string) (c callArgs) {
	if strings.HasSuffix(spec, "+") {
		c.extra = true
		spec = strings.TrimSuffix(spec, "+")
	}
	for _, k := range strings.Split(spec, ",") {
		c.req = append(c.req, argVal{kind: k})
	}
	return
}

func (c callArgs) shown() string {
	parts := make([]string, len(c.req))
	for i, a := range c.req {
		parts[i] = a.show()
	}
	return strings.Join(parts, " ")
}

func (c callArgs) bumped() callArgs {
	out := callArgs{extra: c.extra}
	for _, a := range c.req {
		out.req = append(out.req, argVal{a.kind, a.bump + 1})
	}
	return out
}

// refCfg is what the reference needs to know about a configuration.
type refCfg struct {
	cpl         func(kind string) []string // class precedence list of an argument kind, most specific first
	tail        string                     // "", "opt", "key", "rest": what follows the required parameters
	argsInTrace bool                       // primary and daemons also trace (list args...) and the primary returns (tag args...)
	sink        string                     // argument kinds of the nested call made by g / h bodies
	depthLimit  int                        // the guard of x / y / z bodies (they return <tag>-runaway beyond it)
}

// tailShown renders the value of the &optional / &key / &rest parameter seen by a body.
func (rc *refCfg) tailShown(extra bool) string {
	if !extra {
		return "nil"
	}
	if rc.tail == "rest" {
		return "(7 8)"
	}
	return "7"
}

// ------------------------------------------------------------------ the dispatcher

type abortErr struct{ what string }

type evaluator struct {
	t       table
	rc      *refCfg
	o       refOpts
	trace   []string
	lenient bool
	nested  bool
	depth   int             // value of the depth guard counter
	conts   []func() string // continuations of the :around methods that made a nested call (for the leak mutant)
	mayRun  map[string]bool
	feats   map[string]bool
	classic bool
	level   int
}

type am struct {
	d   *mdef
	tag string
}

// applicableMethods returns the applicable methods by slot, most specific first.
func applicableMethods(t table, cpls [][]string, o refOpts) (bySlot [4][]am) {
	type cand struct {
		spec string
		rank []int
		e    *entry
	}
	var cands []cand
	for spec, e := range t {
		parts := strings.Split(spec, ",")
		if len(parts) != len(cpls) {
			continue
		}
		rank := make([]int, len(parts))
		ok := true
		for i, p := range parts {
			rank[i] = -1
			for ci, c := range cpls[i] {
				if c == p {
					rank[i] = ci
					break
				}
			}
			if rank[i] < 0 {
				ok = false
				break
			}
		}
		if ok {
			cands = append(cands, cand{spec, rank, e})
		}
	}
	sort.Slice(cands, func(a, b int) bool {
		ra, rb := cands[a].rank, cands[b].rank
		if o.rightToLeft {
			for i := len(ra) - 1; 0 <= i; i-- {
				if ra[i] != rb[i] {
					return ra[i] < rb[i]
				}
			}
			return false
		}
		for i := range ra {
			if ra[i] != rb[i] {
				return ra[i] < rb[i]
			}
		}
		return false
	})
	for _, c := range cands {
		for s, d := range c.e {
			if d != nil {
				bySlot[s] = append(bySlot[s], am{d, d.tag(c.spec)})
			}
		}
	}
	return
}

func (ev *evaluator) emit(s string) { ev.trace = append(ev.trace, s) }

func (ev *evaluator) note(d *mdef) {
	if !classicVariant(d.variant) {
		ev.classic = false
		ev.feats[variantFeature[d.variant]] = true
	}
}

// cnmOutside: a primary or daemon body calls call-next-method.
func (ev *evaluator) cnmOutside(m am, slot int, args callArgs, arounds int, rerun func() string) string {
	where := "no-around"
	if 0 < arounds {
		where = "below-around"
	}
	ev.depth++
	if ev.rc.depthLimit < ev.depth {
		return m.tag + "-runaway"
	}
	switch {
	case ev.o.primaryCnmReruns && 0 < arounds:
		return "(" + m.tag + " " + rerun() + ")"
	case ev.o.cnmLeaksToOuter && arounds == 0 && 0 < len(ev.conts):
		return "(" + m.tag + " " + ev.conts[len(ev.conts)-1]() + ")"
	}
	panic(abortErr{"cnm-from-" + slotNames[slot] + ":" + where})
}

// call dispatches one call of the generic function and returns its value. It
// panics with abortErr when the call ends in an error.
func (ev *evaluator) call(args callArgs, top *expect) string {
	cpls := make([][]string, len(args.req))
	for i, a := range args.req {
		cpls[i] = ev.rc.cpl(a.kind)
	}
	bySlot := applicableMethods(ev.t, cpls, ev.o)
	if ev.o.tailDecides && args.extra {
		bySlot = [4][]am{}
	}
	for s := 0; s < 4; s++ {
		for _, m := range bySlot[s] {
			ev.mayRun[m.tag] = true
			ev.note(m.d)
			if top != nil {
				top.applicable[s] = append(top.applicable[s], m.tag)
			}
		}
	}
	total := len(bySlot[0]) + len(bySlot[1]) + len(bySlot[2]) + len(bySlot[3])
	if total == 0 {
		panic(abortErr{"no-applicable-method"})
	}
	if len(bySlot[0]) == 0 {
		ev.lenient = true
	}
	arounds := bySlot[3]
	if ev.o.aroundSkipSecond {
		var kept []am
		for i, a := range arounds {
			if i%2 == 0 {
				kept = append(kept, a)
			}
		}
		arounds = kept
	}
	annotate := func(a callArgs) {
		if ev.rc.argsInTrace {
			ev.emit("(" + a.shown() + ")")
		}
	}
	var inner func(a callArgs) string
	inner = func(a callArgs) string {
		for _, b := range bySlot[1] {
			ev.emit(b.tag)
			annotate(a)
			if b.d.variant == 'y' {
				_ = ev.cnmOutside(b, 1, a, len(arounds), func() string { return inner(a) })
			}
		}
		val := "nil"
		if 0 < len(bySlot[0]) {
			p := bySlot[0][0]
			if ev.o.primaryLeast {
				p = bySlot[0][len(bySlot[0])-1]
			}
			if p.d.variant == 'E' {
				panic(abortErr{"builtin-default"})
			}
			ev.emit(p.tag)
			annotate(a)
			switch p.d.variant {
			case 'x':
				val = ev.cnmOutside(p, 0, a, len(arounds), func() string { return inner(a) })
			case 'h':
				val = "(" + p.tag + " " + ev.nestedCall(nil) + ")"
			default:
				switch {
				case ev.rc.argsInTrace:
					val = "(" + p.tag + " " + a.shown() + ")"
				case ev.rc.tail != "":
					val = "(" + p.tag + " " + ev.rc.tailShown(a.extra) + ")"
				default:
					val = p.tag
				}
			}
		}
		afters := bySlot[2]
		if !ev.o.aftersForward {
			afters = nil
			for i := len(bySlot[2]) - 1; 0 <= i; i-- {
				afters = append(afters, bySlot[2][i])
			}
		}
		for _, m := range afters {
			ev.emit(m.tag)
			annotate(a)
			if m.d.variant == 'z' {
				_ = ev.cnmOutside(m, 2, a, len(arounds), func() string { return inner(a) })
			}
		}
		return val
	}
	var run func(i int, a callArgs) string
	run = func(i int, a callArgs) string {
		if len(arounds) <= i {
			return inner(a)
		}
		m := arounds[i]
		ev.emit(m.tag + "-in")
		hasNext := i+1 < len(arounds) || 0 < len(bySlot[0])+len(bySlot[1])+len(bySlot[2])
		switch m.d.variant {
		case 's':
			if ev.o.stopRunsInner {
				_ = run(i+1, a)
			}
			return m.tag
		case 'n':
			if !hasNext {
				return m.tag + "-none"
			}
		case 'd':
			v1 := run(i+1, a)
			second := i + 1
			if ev.o.secondCnmSkips {
				second = i + 2
			}
			v2 := run(second, a)
			ev.emit(m.tag + "-out")
			return "(" + m.tag + " " + v1 + " " + v2 + ")"
		case 'l':
			acc := "nil"
			if hasNext {
				v1 := run(i+1, a)
				second := i + 1
				if ev.o.secondCnmSkips {
					second = i + 2
				}
				v2 := run(second, a)
				acc = "(" + v2 + " " + v1 + ")"
			}
			ev.emit(m.tag + "-out")
			return "(" + m.tag + " " + acc + ")"
		case 'm':
			next := a.bumped()
			if ev.o.cnmIgnoresArgs {
				next = a
			}
			v := run(i+1, next)
			ev.emit(m.tag + "-out")
			return "(" + m.tag + " " + a.shown() + " " + v + ")"
		case 'g':
			r := ev.nestedCall(func() string { return run(i+1, a) })
			var v string
			if ev.o.nestedClobbersOuter {
				v = inner(a)
			} else {
				v = run(i+1, a)
			}
			ev.emit(m.tag + "-out")
			return "(" + m.tag + " " + r + " " + v + ")"
		}
		// w, o, n (with a next method)
		v := run(i+1, a)
		ev.emit(m.tag + "-out")
		return "(" + m.tag + " " + v + ")"
	}
	return run(0, args)
}

// nestedCall: a body calls the generic function itself with the sink tuple.
func (ev *evaluator) nestedCall(cont func() string) string {
	ev.nested = true
	ev.level++
	if 8 < ev.level {
		panic("reference: nested calls do not terminate (bad configuration)")
	}
	if cont != nil {
		ev.conts = append(ev.conts, cont)
		defer func() { ev.conts = ev.conts[:len(ev.conts)-1] }()
	}
	defer func() { ev.level-- }()
	defer func() {
		if r := recover(); r != nil {
			if ab, ok := r.(abortErr); ok && ab.what == "no-applicable-method" {
				panic(abortErr{"nested-no-applicable-method"})
			}
			panic(r)
		}
	}()
	return ev.call(parseCall(ev.rc.sink), nil)
}

// dispatch computes what a call must do under table t.
func dispatch(t table, rc *refCfg, args callArgs, o refOpts) (ex expect) {
	ev := &evaluator{t: t, rc: rc, o: o, mayRun: map[string]bool{}, feats: map[string]bool{}, classic: true}
	if rc.tail != "" || rc.argsInTrace {
		ev.classic = false
	}
	func() {
		defer func() {
			if r := recover(); r != nil {
				ab, ok := r.(abortErr)
				if !ok {
					panic(r)
				}
				if ab.what == "no-applicable-method" {
					ex.kind = exNone
				} else {
					ex.kind = exError
					ex.errWhat = ab.what
				}
			}
		}()
		ex.value = ev.call(args, &ex)
		ex.kind = exStrict
	}()
	ex.trace = ev.trace
	ex.mayRun = ev.mayRun
	ex.classic = ev.classic
	ex.nested = ev.nested
	for f := range ev.feats {
		ex.features = append(ex.features, f)
	}
	sort.Strings(ex.features)
	if ex.kind != exNone && ev.lenient {
		// somewhere a call without applicable primary was dispatched: what slip does there is not
		// constrained by the statement, so nothing that follows it is either
		ex.kind = exLenient
	}
	if ex.kind == exNone {
		ex.trace = nil
	}
	return
}

// ------------------------------------------------------------------ history model

// op is one parsed history operation.
type op struct {
	kind    byte   // 'd' defmethod, 'r' remove-method, 'c' call, 'G' defgeneric again, 'M' defgeneric again with a (:method ...) option
	variant byte   // d: body variant; r: slot letter (p b a w)
	spec    string // d, r, M: specialiser tuple; c: argument kind tuple
}

func parseOp(s string) (o op, ok bool) {
	parts := strings.Split(s, ":")
	switch {
	case len(parts) == 3 && (parts[0] == "d" || parts[0] == "r") && len(parts[1]) == 1:
		return op{kind: parts[0][0], variant: parts[1][0], spec: parts[2]}, true
	case len(parts) == 2 && parts[0] == "c":
		return op{kind: 'c', spec: parts[1]}, true
	case len(parts) == 1 && parts[0] == "G":
		return op{kind: 'G'}, true
	case len(parts) == 2 && parts[0] == "M":
		return op{kind: 'M', variant: 'p', spec: parts[1]}, true
	}
	return op{}, false
}

func (o op) String() string {
	switch o.kind {
	case 'c':
		return "c:" + o.spec
	case 'G':
		return "G"
	case 'M':
		return "M:" + o.spec
	}
	return fmt.Sprintf("%c:%c:%s", o.kind, o.variant, o.spec)
}

// model is the reference state after a history: the method table plus every
// earlier version of it (used to recognise a stale view in what slip did).
type model struct {
	cfg      *config
	rc       *refCfg
	t        table
	gens     map[string]int // slot letter + spec -> definitions so far
	versions []version      // table after each mutation, oldest first; versions[0] = empty table
	opts     refOpts
	// mutant state
	memo               map[string]expect
	deflt              *expect
	callsSinceMutation int
	firstSrc           map[string]string // specialiser tuple -> tuple as written by the defmethod that created the entry
	gone               map[string]string // tag of a body no longer in the table -> "removed" | "replaced" | "removed-u" | "wiped"
	// regenAlt: after a defgeneric evaluated again, the other admissible table (see applyRegen)
	regenAlt table
}

type version struct {
	t    table
	what string // "" for the initial table, else "defmethod" / "remove-method" / "defgeneric"
}

func newModel(cfg *config, o refOpts) *model {
	m := &model{cfg: cfg, rc: cfg.refCfg(), t: table{}, gens: map[string]int{}, opts: o, memo: map[string]expect{},
		firstSrc: map[string]string{}, gone: map[string]string{}}
	for spec, v := range cfg.preset {
		// methods the generic function has before the history starts (a built-in generic function)
		m.t[spec] = &entry{}
		m.t[spec][slotOf(v)] = &mdef{variant: v, gen: 0, src: spec}
	}
	m.versions = []version{{t: m.t.clone()}}
	return m
}

// present reports whether the slot of the tuple holds a method.
func (m *model) present(slot int, spec string) bool {
	e := m.t[normSpec(spec)]
	return e != nil && e[slot] != nil
}

// removable: present and not one of the built-in methods of the configuration.
func (m *model) removable(slot int, spec string) bool {
	if !m.present(slot, spec) {
		return false
	}
	return m.t[normSpec(spec)][slot].gen != 0
}

// apply a mutation to the model. It returns false when the operation is not
// applicable (remove-method of an absent method).
func (m *model) apply(o op) bool {
	switch o.kind {
	case 'd':
		slot := slotOf(o.variant)
		key := normSpec(o.spec)
		gk := fmt.Sprintf("%d:%s", slot, key)
		m.gens[gk]++
		e := m.t[key]
		hadEntry := e != nil
		replaced := hadEntry && e[slot] != nil
		if e == nil {
			e = &entry{}
			m.t[key] = e
			if !unspecialised(m.firstSrc[key]) {
				m.firstSrc[key] = o.spec
			}
		}
		if replaced {
			m.gone[e[slot].tag(key)] = "replaced"
		}
		e[slot] = &mdef{variant: o.variant, gen: m.gens[gk], src: o.spec}
		m.versions = append(m.versions, version{t: m.t.clone(), what: "defmethod"})
		switch {
		case m.opts.staleOnNewKey && !hadEntry:
		case m.opts.staleOnReplace && replaced:
		default:
			m.memo = map[string]expect{}
		}
		m.updateDefault()
		m.callsSinceMutation = 0
	case 'r':
		slot := slotOf(o.variant)
		key := normSpec(o.spec)
		e := m.t[key]
		if e == nil || e[slot] == nil {
			return false
		}
		if m.opts.removeKeepsUnspecialised && unspecialised(m.firstSrc[key]) {
			return true
		}
		m.gone[e[slot].tag(key)] = "removed"
		if unspecialised(m.firstSrc[key]) {
			m.gone[e[slot].tag(key)] = "removed-u"
		}
		e[slot] = nil
		if *e == (entry{}) {
			delete(m.t, key)
			// firstSrc is kept when it was unspecialised: it is only used to
			// attribute later failures to that trigger (signature text), never
			// to decide what is expected
			if !unspecialised(m.firstSrc[key]) {
				delete(m.firstSrc, key)
			}
		}
		m.versions = append(m.versions, version{t: m.t.clone(), what: "remove-method"})
		if !m.opts.staleOnRemove {
			m.memo = map[string]expect{}
		}
		if !m.opts.staleDefault {
			m.updateDefault()
		}
		m.callsSinceMutation = 0
	case 'G', 'M':
		m.applyRegen(o)
	}
	return true
}

// applyRegen: defgeneric is evaluated again. The statement does not say what
// becomes of the methods and slip's defgeneric documentation is silent, so two
// tables are admissible (S2): the Common Lisp one (methods defined by defmethod
// are kept, methods defined by an earlier defgeneric's (:method ...) options are
// removed, the new option's method is added) and the "new generic function"
// one (only the new option's method). m.t is set to the first, m.regenAlt to
// the second; the driver reads the implementation's table right after the
// operation and calls chooseRegen.
func (m *model) applyRegen(o op) {
	keep := table{}
	for k, e := range m.t {
		ce := entry{}
		for s, d := range e {
			if d != nil && !d.viaGF {
				ce[s] = d
			}
		}
		if ce != (entry{}) {
			keep[k] = &ce
		}
	}
	fresh := table{}
	if m.opts.regenIgnored {
		keep, fresh = m.t.clone(), m.t.clone()
	} else if o.kind == 'M' {
		key := normSpec(o.spec)
		gk := fmt.Sprintf("%d:%s", 0, key)
		m.gens[gk]++
		d := &mdef{variant: 'p', gen: m.gens[gk], src: o.spec, viaGF: true}
		for _, t := range []table{keep, fresh} {
			e := t[key]
			if e == nil {
				e = &entry{}
				t[key] = e
			}
			e[0] = d
		}
	}
	m.regenAlt = fresh
	m.setTable(keep, "kept")
}

// setTable installs the table chosen after a defgeneric.
func (m *model) setTable(t table, how string) {
	old := m.t
	m.t = t
	for k, e := range old {
		for s, d := range e {
			if d == nil {
				continue
			}
			if ne := t[k]; ne == nil || ne[s] != d {
				m.gone[d.tag(k)] = "wiped"
			}
		}
	}
	for k, e := range t {
		for _, d := range e {
			if d != nil {
				delete(m.gone, d.tag(k))
			}
		}
	}
	for k := range m.firstSrc {
		if t[k] == nil {
			delete(m.firstSrc, k)
		}
	}
	for k, e := range t {
		if _, has := m.firstSrc[k]; !has {
			for _, d := range e {
				if d != nil {
					m.firstSrc[k] = d.src
					break
				}
			}
		}
	}
	m.versions = append(m.versions, version{t: m.t.clone(), what: "defgeneric"})
	m.memo = map[string]expect{}
	m.updateDefault()
	m.callsSinceMutation = 0
}

// chooseRegen: slots = the implementation's method table ("p:fixnum" ...)
// right after a defgeneric. It returns which admissible table it equals
// ("kept", "fresh", "both") or "" when it equals neither.
func (m *model) chooseRegen(slots []string) string {
	same := func(t table) bool { return equalStrings(t.slots(), slots) }
	k, f := same(m.t), same(m.regenAlt)
	switch {
	case k && f:
		return "both"
	case k:
		return "kept"
	case f:
		m.versions = m.versions[:len(m.versions)-1]
		m.setTable(m.regenAlt, "fresh")
		return "fresh"
	}
	return ""
}

// updateDefault models a single-method fast path (only used by mutants: in
// the real reference it is unobservable).
func (m *model) updateDefault() {
	m.deflt = nil
	if !m.opts.staleDefault {
		return
	}
	if len(m.t) != 1 {
		return
	}
	allT := strings.TrimSuffix(strings.Repeat("t,", m.cfg.arity), ",")
	e := m.t[allT]
	if e == nil || e[0] == nil || e[1] != nil || e[2] != nil || e[3] != nil {
		return
	}
	tag := e[0].tag(allT)
	m.deflt = &expect{kind: exStrict, trace: []string{tag}, value: tag, classic: true, mayRun: map[string]bool{tag: true}}
	m.deflt.applicable[0] = []string{tag}
}

// call returns what a call with the argument kinds must do.
func (m *model) call(args string) expect {
	m.callsSinceMutation++
	ca := parseCall(args)
	if m.deflt != nil {
		return *m.deflt
	}
	if m.opts.staleOnRemove || m.opts.staleOnNewKey || m.opts.staleOnReplace {
		if ex, has := m.memo[args]; has {
			return ex
		}
		ex := dispatch(m.t, m.rc, ca, m.opts)
		if ex.kind != exNone {
			m.memo[args] = ex
		}
		return ex
	}
	return dispatch(m.t, m.rc, ca, m.opts)
}

// staleMatch looks for an EARLIER table version under which the reference
// dispatch equals what was observed (used for the detail text only). It
// returns the mutation kinds that the observation does not reflect.
func (m *model) staleMatch(args string, obsTrace []string, obsValue string, obsErr, obsNoApplicable bool) (unreflected string, ok bool) {
	ca := parseCall(args)
	for i := len(m.versions) - 2; 0 <= i; i-- {
		ex := dispatch(m.versions[i].t, m.rc, ca, refOpts{})
		match := false
		switch ex.kind {
		case exStrict:
			match = !obsErr && equalStrings(ex.trace, obsTrace) && ex.value == obsValue
		case exNone:
			match = obsNoApplicable && len(obsTrace) == 0
		case exLenient:
			match = !obsErr && equalStrings(ex.trace, obsTrace)
		case exError:
			match = obsErr && equalStrings(ex.trace, obsTrace)
		}
		if match {
			set := map[string]bool{}
			for _, v := range m.versions[i+1:] {
				set[v.what] = true
			}
			var names []string
			for k := range set {
				names = append(names, k)
			}
			sort.Strings(names)
			return strings.Join(names, "+"), true
		}
	}
	return "", false
}

func equalStrings(a, b []string) bool {
	if len(a) != len(b) {
		return false
	}
	for i := range a {
		if a[i] != b[i] {
			return false
		}
	}
	return true
}
