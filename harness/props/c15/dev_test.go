package c15

import (
	"bufio"
	"os"
	"testing"
	"time"
	"fmt"
)

func TestDump(t *testing.T) {
	f, _ := os.Create("/verif/.build/scratch/C15/specs-" + os.Getenv("TIER") + ".txt")
	w := bufio.NewWriter(f)
	enumerate(os.Getenv("TIER"), func(s string) { w.WriteString(s); w.WriteByte('\n') })
	w.Flush()
	f.Close()
}

func TestSlow(t *testing.T) {
	k := 0
	enumerate(os.Getenv("TIER"), func(s string) {
		k++
		start := time.Now()
		done := make(chan bool)
		go func() { exec(s); done <- true }()
		select {
		case <-done:
		case <-time.After(3 * time.Second):
			fmt.Println("HANG", k, s)
			os.Exit(1)
		}
		if d := time.Since(start); 100*time.Millisecond < d {
			fmt.Println("slow", d, k, s)
		}
	})
}

func TestFails(t *testing.T) {
	fam := os.Getenv("FAM")
	want := os.Getenv("SIG")
	enumerate(os.Getenv("TIER"), func(s string) {
		if fam != "" && len(s) > len(fam) && s[:len(fam)+1] != fam+";" {
			return
		}
		r := exec(s)
		for _, f := range r.Failures {
			if want == "" || (len(f.Sig) >= len(want) && f.Sig[:len(want)] == want) {
				fmt.Printf("%s\n   %s\n   %s\n", s, f.Sig, f.Detail)
			}
		}
	})
}
