package c12

import (
	"fmt"
	"sort"
	"strconv"
	"strings"
	"sync"
	"sync/atomic"

	"github.com/ohler55/slip"

	"verif/lisp"
)

// realWorld drives the real slip through Lisp source text (ReadString + Eval)
// with names that are unique per history run.
type realWorld struct {
	prefix string
	scope  *slip.Scope
	n      int
	insts  []slip.Object
	funcs  map[string]bool
	ext    bool
	lastEv string      // default-initarg forms evaluated by the last make
	lastIn string      // trace of the initialize-instance / shared-initialize :after methods of the last make
	old    map[int]int // class -> handle of the instance made before the redefinition (warm)

	extDefined []int // ext: classes for which the further methods were defined
}

var runCounter int64

func newRealWorld(n int) *realWorld {
	id := atomic.AddInt64(&runCounter, 1)
	return &realWorld{
		prefix: fmt.Sprintf("k%dq", id),
		scope:  slip.NewScope(),
		n:      n,
		funcs:  map[string]bool{},
		old:    map[int]int{},
	}
}

func (w *realWorld) cn(i int) string { return w.prefix + "c" + strconv.Itoa(i) }
func (w *realWorld) fn(name string) string {
	f := w.prefix + name
	w.funcs[f] = true
	return f
}

func (w *realWorld) canon(s string) string { return strings.ReplaceAll(s, w.prefix, "") }

func errText(e *lisp.Err) string {
	c := e.Class
	if c == "" {
		c = "unknown"
	}
	if e.GoFault {
		return "ERR:" + c + ":gofault"
	}
	return "ERR:" + c
}

func (w *realWorld) eval(src string) (slip.Object, string) {
	val, err := lisp.EvalIn(w.scope, src)
	if err != nil {
		return nil, errText(err)
	}
	return val, ""
}

func (w *realWorld) defclassText(i int, d classDef) string {
	var b strings.Builder
	fmt.Fprintf(&b, "(defclass %s (", w.cn(i))
	for k, s := range d.supers {
		if 0 < k {
			b.WriteByte(' ')
		}
		b.WriteString(w.cn(s))
	}
	b.WriteString(") (")
	for k, sd := range d.slots(i) {
		if 0 < k {
			b.WriteByte(' ')
		}
		fmt.Fprintf(&b, "(%s", sd.name)
		for _, a := range sd.initargs {
			fmt.Fprintf(&b, " :initarg :%s", a)
		}
		if sd.shared {
			b.WriteString(" :allocation :class")
		}
		switch sd.form {
		case 1:
			if sd.name == "u" {
				fmt.Fprintf(&b, " :initform (+ %d 2)", sd.val-2) // a form, evaluated at make-instance time
			} else {
				fmt.Fprintf(&b, " :initform %d", sd.val)
			}
		case 2:
			b.WriteString(" :initform nil")
		}
		fmt.Fprintf(&b, " :reader %s :writer %s :accessor %s)", w.fn("rd-"+sd.name), w.fn("wr-"+sd.name), w.fn(sd.name+"-of"))
		w.funcs["(setf "+w.prefix+sd.name+"-of)"] = true
	}
	b.WriteString(")")
	if dm := d.defaults(i); 0 < len(dm) {
		b.WriteString(" (:default-initargs")
		for _, a := range argOrder {
			if v, has := dm[a]; has {
				fmt.Fprintf(&b, " :%s (tr '%s %d)", a, defaultLabel(i, a), v) // a form: logs that it is evaluated
			}
		}
		b.WriteString(")")
	}
	b.WriteString(")")
	return b.String()
}

func (w *realWorld) defclass(i int, d classDef) string {
	_, e := w.eval(w.defclassText(i, d))
	return e
}

func (w *realWorld) defmethods(i int) string {
	g := w.fn("g")
	if w.ext {
		w.extDefined = append(w.extDefined, i)
		_, e := w.eval(w.extMethodsText(i))
		return e
	}
	_, e := w.eval(fmt.Sprintf("(progn (defmethod %s :before ((x %s)) (tr '%s)) (defmethod %s ((x %s)) '%s))",
		g, w.cn(i), cname(i), g, w.cn(i), cname(i)))
	return e
}

func (w *realWorld) precedence(i int) string {
	val, e := w.eval(fmt.Sprintf("(class-precedence '%s)", w.cn(i)))
	if e != "" {
		return e
	}
	l, ok := val.(slip.List)
	if !ok || len(l) == 0 {
		if val == nil || ok {
			return "nil"
		}
		return "ERR:not-a-list"
	}
	var out []string
	for _, x := range l {
		out = append(out, w.canon(lisp.Show(x)))
	}
	return strings.Join(out, " ")
}

func (w *realWorld) evaluated() string { return w.lastEv }

func (w *realWorld) make(i int, sigma []string) (int, string) {
	lisp.ResetTrace()
	val, e := w.eval(fmt.Sprintf("(make-instance '%s%s)", w.cn(i), sigmaArgs(sigma)))
	var ev, in []string
	for _, t := range lisp.Trace() {
		if strings.HasPrefix(t, "d") {
			ev = append(ev, t)
		} else {
			in = append(in, w.canon(t))
		}
	}
	lisp.ResetTrace()
	sort.Strings(ev)
	w.lastEv, w.lastIn = strings.Join(ev, ","), strings.Join(in, ";")
	if e != "" {
		return -1, e
	}
	if _, ok := val.(slip.Instance); !ok {
		return -1, "ERR:not-an-instance"
	}
	w.insts = append(w.insts, val)
	return len(w.insts) - 1, "ok"
}

func slotExpr(v, slot string) string {
	return fmt.Sprintf("(if (slot-exists-p %s '%s) (if (slot-boundp %s '%s) (list 'v (slot-value %s '%s)) 'unb) 'none)", v, slot, v, slot, v, slot)
}

var helperOnce sync.Once

// dumpExpr: (c12-dump v), a Lisp helper defined once per process that returns
// the state of every slot of v (keeps the programs short: reading dominates).
func dumpExpr(v string) string {
	helperOnce.Do(func() {
		if _, err := lisp.Eval("(defun c12-dump (v) " + dumpText("v") + ")"); err != nil {
			panic("harness: cannot define c12-dump: " + err.String())
		}
		if _, err := lisp.Eval("(defvar *c12-log* nil)"); err != nil {
			panic("harness: cannot define *c12-log*: " + err.String())
		}
	})
	return "(c12-dump " + v + ")"
}

func dumpText(v string) string {
	var b strings.Builder
	b.WriteString("(list")
	for _, sl := range slotNames {
		b.WriteByte(' ')
		b.WriteString(slotExpr(v, sl))
	}
	b.WriteByte(')')
	return b.String()
}

func (w *realWorld) state(o slip.Object) string {
	switch v := o.(type) {
	case slip.Symbol:
		return strings.ToLower(string(v))
	case slip.List:
		if len(v) == 2 {
			return "v:" + w.canon(lisp.Show(v[1]))
		}
	}
	return "ERR:malformed"
}

func (w *realWorld) states(o slip.Object) []string {
	l, ok := o.(slip.List)
	if !ok || len(l) != len(slotNames) {
		out := make([]string, len(slotNames))
		for k := range out {
			out[k] = "ERR:malformed"
		}
		return out
	}
	out := make([]string, len(slotNames))
	for k := range slotNames {
		out[k] = w.state(l[k])
	}
	return out
}

func (w *realWorld) bind(name string, h int) { w.scope.Let(slip.Symbol(name), w.insts[h]) }

func (w *realWorld) slots(h int) []string {
	w.bind("vi", h)
	if val, e := w.eval(dumpExpr("vi")); e == "" {
		return w.states(val)
	}
	out := make([]string, len(slotNames))
	for k, sl := range slotNames {
		val, e := w.eval(slotExpr("vi", sl))
		if e != "" {
			out[k] = e
		} else {
			out[k] = w.state(val)
		}
	}
	return out
}

func (w *realWorld) slotValue(h int, slot string) string {
	w.bind("vi", h)
	val, e := w.eval(fmt.Sprintf("(slot-value vi '%s)", slot))
	if e != "" {
		return e
	}
	return "v:" + w.canon(lisp.Show(val))
}

func tn(o slip.Object) string {
	if lisp.Truthy(o) {
		return "t"
	}
	return "nil"
}

func (w *realWorld) typeps(h int, n int) string {
	w.bind("vi", h)
	var names, labels []string
	for j := 0; j < n; j++ {
		names = append(names, w.cn(j))
		labels = append(labels, cname(j))
	}
	names = append(names, "standard-object")
	labels = append(labels, "so")
	var b strings.Builder
	b.WriteString("(list")
	for _, nm := range names {
		fmt.Fprintf(&b, " (typep vi '%s)", nm)
	}
	b.WriteByte(')')
	var out []string
	if val, e := w.eval(b.String()); e == "" {
		l, ok := val.(slip.List)
		if !ok || len(l) != len(names) {
			return "ERR:malformed"
		}
		for k := range names {
			out = append(out, labels[k]+"="+tn(l[k]))
		}
		return strings.Join(out, " ")
	}
	for k, nm := range names {
		val, e := w.eval(fmt.Sprintf("(typep vi '%s)", nm))
		if e != "" {
			return e
		}
		out = append(out, labels[k]+"="+tn(val))
	}
	return strings.Join(out, " ")
}

func (w *realWorld) classOf(h int, i int) string {
	w.bind("vi", h)
	val, e := w.eval(fmt.Sprintf("(list (eq (class-of vi) (find-class '%s)) (class-name (class-of vi)))", w.cn(i)))
	if e != "" {
		return e
	}
	l, ok := val.(slip.List)
	if !ok || len(l) != 2 {
		return "ERR:malformed"
	}
	return "eq=" + tn(l[0]) + " name=" + w.canon(lisp.Show(l[1]))
}

func (w *realWorld) dispatch(h int) string {
	w.bind("vi", h)
	lisp.ResetTrace()
	val, e := w.eval(fmt.Sprintf("(%s vi)", w.fn("g")))
	tr := lisp.Trace()
	lisp.ResetTrace()
	if e != "" {
		return e
	}
	return "val=" + w.canon(lisp.Show(val)) + " trace=" + strings.Join(tr, ",")
}

func (w *realWorld) accessor(hx, hy int, slot string) string {
	w.bind("vx", hx)
	w.bind("vy", hy)
	rd, wr, ac := w.fn("rd-"+slot), w.fn("wr-"+slot), w.fn(slot+"-of")
	dx, dy := dumpExpr("vx"), dumpExpr("vy")
	src := fmt.Sprintf("(list %s %s (if (slot-boundp vx '%s) (list (%s vx) (%s vx)) 'unb) (progn (setf (%s vx) 901) %s) %s (progn (%s vx 902) %s) %s)",
		dx, dy, slot, rd, ac, ac, dx, dy, wr, dx, dy)
	val, e := w.eval(src)
	if e != "" {
		return e
	}
	l, ok := val.(slip.List)
	if !ok || len(l) != 7 {
		return "ERR:malformed"
	}
	j := func(o slip.Object) string { return strings.Join(w.states(o), ",") }
	read := "unb"
	if rl, ok := l[2].(slip.List); ok && len(rl) == 2 {
		read = w.canon(lisp.Show(rl[0])) + "," + w.canon(lisp.Show(rl[1]))
	}
	return fmt.Sprintf("x0=%s;y0=%s;read=%s;x1=%s;y1=%s;x2=%s;y2=%s", j(l[0]), j(l[1]), read, j(l[3]), j(l[4]), j(l[5]), j(l[6]))
}

func (w *realWorld) warm(i int) {
	lisp.ResetTrace()
	if w.ext {
		// the instance is kept: it is probed again after the redefinition
		if h, res := w.make(i, nil); res == "ok" {
			w.old[i] = h
			w.bind("vi", h)
			_, _ = w.eval(fmt.Sprintf("(%s vi)", w.fn("g")))
		}
	} else {
		_, _ = w.eval(fmt.Sprintf("(%s (make-instance '%s))", w.fn("g"), w.cn(i)))
	}
	lisp.ResetTrace()
}

// close removes what this run defined so that a long-lived worker does not
// slow down (defclass walks every class of the package).
func (w *realWorld) close() {
	defer func() { _ = recover() }()
	for _, i := range w.extDefined {
		w.removeExtMethods(i)
	}
	for i := 0; i < w.n; i++ {
		slip.CurrentPackage.Remove(w.cn(i))
	}
	for f := range w.funcs {
		slip.CurrentPackage.Undefine(f)
	}
	w.insts = nil
}
