package engine

import (
	"bufio"
	"bytes"
	"crypto/sha256"
	"encoding/hex"
	"encoding/json"
	"fmt"
	"io"
	"os"
	"os/exec"
	"path/filepath"
	"regexp"
	"runtime"
	"sort"
	"strconv"
	"strings"
	"sync"
	"time"
)

// Paths (overridable for tests).
var (
	VerifDir   = "/verif"
	BuildDir   = "/verif/.build"
	ScratchDir = "/verif/.build/scratch"
	OutDir     = "/verif" // evidence/ and replays/ live here
)

func init() {
	if bd := os.Getenv("VERIF_BUILD_DIR"); bd != "" { // development aid, see bin/env.sh
		BuildDir = bd
		ScratchDir = filepath.Join(bd, "scratch")
	}
	if od := os.Getenv("VERIF_OUT"); od != "" {
		OutDir = od
	}
}

// Finding is one line of known-findings.jsonl.
type Finding struct {
	Property     string `json:"property"`
	Signature    string `json:"signature,omitempty"`
	SignatureRe  string `json:"signature_re,omitempty"`
	FailingInput string `json:"failing_input,omitempty"`
	Status       string `json:"status"` // open | fixed
	Commit       string `json:"commit,omitempty"`
	Note         string `json:"note,omitempty"`
	// Cases: how many enumerated cases fail with this finding on the unchanged tree, per tier (written by
	// bin/refresh-known-cases, never at run time). A run in which MORE cases fail under the finding's signature than
	// listed is a violation: a different defect hides behind the same signature (failure minimisation can lead a new
	// failing case to the smallest input of a listed one).
	Cases map[string]int `json:"cases,omitempty"`
	re    *regexp.Regexp
}

// LoadFindings reads the committed known-findings file.
func LoadFindings(id string) (open []*Finding) {
	f, err := os.Open(filepath.Join(VerifDir, "known-findings.jsonl"))
	if err != nil {
		return nil
	}
	defer f.Close()
	sc := bufio.NewScanner(f)
	sc.Buffer(make([]byte, 1<<20), 1<<24)
	for sc.Scan() {
		line := strings.TrimSpace(sc.Text())
		if line == "" || line[0] != '{' {
			continue // "fixed: ..." lines and comments suppress nothing
		}
		var fd Finding
		if json.Unmarshal([]byte(line), &fd) != nil || fd.Property != id || fd.Status != "open" {
			continue
		}
		if fd.SignatureRe != "" {
			fd.re = regexp.MustCompile("^(?:" + fd.SignatureRe + ")$")
		}
		open = append(open, &fd)
	}
	return
}

func matchFinding(open []*Finding, sig string) *Finding {
	for _, f := range open {
		if f.Signature != "" && f.Signature == sig {
			return f
		}
		if f.re != nil && f.re.MatchString(sig) {
			return f
		}
	}
	return nil
}

type sigTotal struct {
	Sig       string
	Count     int
	Specs     []string
	Detail    string
	First     int
	Phase     string
	Confirmed int // fresh-process reproductions
	Attempts  int
}

// Runner is the parent-side state of one check run.
type Runner struct {
	P        *Prop
	Tier     string
	Seed     int
	Self     string // path of this binary
	NWorkers int
	MemGiB   uint64
	Budget   time.Duration
	start    time.Time

	mu         sync.Mutex
	sigs       map[string]*sigTotal
	counters   map[string]int
	outcomes   map[uint64]struct{}
	outcomeCap bool
	samples    []string
	ntSamples  []string
	enumerated int
	executed   int
	distinct   int
	nontrivial int
	dups       int
	restarts   int
	exhaustive bool
	notes      []string

	bfsStates      int
	bfsTransitions int
	bfsDepthDone   int
	bfsInapplic    int
	bfsSamples     []string
	harnessErr     []string
}

func (r *Runner) logf(format string, args ...any) {
	fmt.Fprintf(os.Stderr, "[%s %s %6.1fs] %s\n", r.P.ID, r.Tier, time.Since(r.start).Seconds(), fmt.Sprintf(format, args...))
}

func (r *Runner) addFail(phase, sig, spec, detail string, first, count int) {
	r.mu.Lock()
	defer r.mu.Unlock()
	st := r.sigs[sig]
	if st == nil {
		st = &sigTotal{Sig: sig, Detail: detail, First: first, Phase: phase}
		r.sigs[sig] = st
	}
	if first < st.First || len(st.Specs) == 0 {
		st.First = first
		st.Detail = detail
		if spec != "" {
			st.Specs = append([]string{spec}, st.Specs...)
		}
	} else if spec != "" && len(st.Specs) < maxSpecsSig {
		dup := false
		for _, s := range st.Specs {
			dup = dup || s == spec
		}
		if !dup {
			st.Specs = append(st.Specs, spec)
		}
	}
	st.Count += count
}

func (r *Runner) deadline() time.Duration {
	d := time.Duration(r.P.CaseDeadlineS) * time.Second
	if d == 0 {
		d = 20 * time.Second
	}
	return d
}

// ---------------------------------------------------------------- static

func (r *Runner) staticShard(shard int, wg *sync.WaitGroup) {
	defer wg.Done()
	jpath := filepath.Join(ScratchDir, fmt.Sprintf("%s-%d-%d.journal", r.P.ID, os.Getpid(), shard))
	defer os.Remove(jpath)
	resume := 0
	for attempt := 0; attempt < 200; attempt++ {
		_ = os.Remove(jpath)
		cmd := exec.Command(r.Self, "worker", r.P.ID, "--tier", r.Tier, "--shard", strconv.Itoa(shard),
			"--n", strconv.Itoa(r.NWorkers), "--journal", jpath, "--resume", strconv.Itoa(resume),
			"--mem", strconv.FormatUint(r.MemGiB, 10))
		cmd.Env = append(os.Environ(), "GOMAXPROCS=2", "VERIF_PROTO_FD=3")
		var stderr bytes.Buffer
		cmd.Stderr = &stderr
		stdout, protoW, perr := os.Pipe() // the protocol travels on fd 3; the worker's standard output is discarded
		if perr != nil {
			r.harness("cannot create the worker pipe: %s", perr)
			return
		}
		cmd.ExtraFiles = []*os.File{protoW}
		if err := cmd.Start(); err != nil {
			_ = stdout.Close()
			_ = protoW.Close()
			r.harness("cannot start worker: %s", err)
			return
		}
		_ = protoW.Close()
		done := make(chan bool, 1)
		gotSum := false
		go func() {
			sc := bufio.NewScanner(stdout)
			sc.Buffer(make([]byte, 1<<20), 1<<28)
			for sc.Scan() {
				line := sc.Bytes()
				var head struct {
					T string `json:"t"`
				}
				if json.Unmarshal(line, &head) != nil {
					continue
				}
				switch head.T {
				case "fail":
					var f struct {
						Sig, Spec, Detail string
						First             int
					}
					_ = json.Unmarshal(line, &f)
					r.addFail("static", f.Sig, f.Spec, f.Detail, f.First, 0)
				case "part":
					var s Summary
					if err := json.Unmarshal(line, &s); err == nil {
						r.mergePart(&s)
					}
				case "sum":
					var s Summary
					if err := json.Unmarshal(line, &s); err == nil {
						r.mergeSummary(&s)
						gotSum = true
					}
				}
			}
			done <- true
		}()
		// watchdog on journal progress
		killed := false
		hangSpec := ""
		tick := time.NewTicker(time.Second)
		lastK, lastChange := -1, time.Now()
		cpuAtChange, _ := ProcCPU(cmd.Process.Pid)
	loop:
		for {
			select {
			case <-done:
				break loop
			case <-tick.C:
				k, spec := ReadJournal(jpath)
				if k != lastK {
					lastK, lastChange = k, time.Now()
					cpuAtChange, _ = ProcCPU(cmd.Process.Pid)
				} else if k != 0 && r.deadline() < time.Since(lastChange) {
					// the worker's own processor time decides, not the wall (S1): a worker that was starved by other
					// work on the machine is given up to six deadlines of wall time to use half a deadline of processor time
					if used, alive := ProcCPU(cmd.Process.Pid); alive && used-cpuAtChange < r.deadline()/2 && time.Since(lastChange) < 6*r.deadline() {
						continue
					}
					hangSpec = spec
					killed = true
					_ = cmd.Process.Kill()
				}
			}
		}
		tick.Stop()
		err := cmd.Wait()
		if gotSum && err == nil {
			return
		}
		// the worker died: attribute to the in-flight case and restart after it
		k, spec := ReadJournal(jpath)
		if killed {
			spec = hangSpec
		}
		r.mu.Lock()
		r.restarts++
		r.mu.Unlock()
		if spec == "" || k == 0 {
			r.harness("worker %d died outside a case: %v\n%s", shard, err, tail(stderr.String(), 2000))
			return
		}
		kind := "fatal"
		if killed {
			kind = "hang"
		}
		r.logf("worker %d %s at case %d: %s", shard, kind, k, trunc(spec, 200))
		r.addFail("static", "worker:"+kind, spec, kind+" in worker: "+tail(stderr.String(), 1500), k, 1)
		resume = k
	}
	r.harness("worker %d restarted too often", shard)
}

func (r *Runner) harness(format string, args ...any) {
	msg := fmt.Sprintf(format, args...)
	r.mu.Lock()
	r.harnessErr = append(r.harnessErr, msg)
	r.mu.Unlock()
	r.logf("HARNESS ERROR: %s", msg)
}

// mergePart adds a worker's checkpoint (counts since its previous checkpoint).
func (r *Runner) mergePart(s *Summary) {
	r.mu.Lock()
	r.executed += s.Executed
	r.nontrivial += s.Nontrivial
	for _, h := range s.Outcomes {
		r.outcomes[h] = struct{}{}
	}
	for k, v := range s.Counters {
		r.counters[k] += v
	}
	r.mu.Unlock()
}

func (r *Runner) mergeSummary(s *Summary) {
	r.mu.Lock()
	if r.enumerated < s.Enumerated {
		r.enumerated = s.Enumerated
	}
	r.executed += s.Executed
	r.distinct += s.Mine
	r.nontrivial += s.Nontrivial
	r.dups += s.Dups
	for _, h := range s.Outcomes {
		r.outcomes[h] = struct{}{}
	}
	r.outcomeCap = r.outcomeCap || s.OutcomeCap
	for k, v := range s.Counters {
		r.counters[k] += v
	}
	if len(r.samples) < 4 {
		r.samples = append(r.samples, s.Samples...)
	}
	if len(r.ntSamples) < 6 {
		r.ntSamples = append(r.ntSamples, s.NTSamples...)
	}
	r.mu.Unlock()
	for _, a := range s.Sigs {
		for i, spec := range a.Specs {
			c := 0
			if i == 0 {
				c = a.Count
			}
			r.addFail("static", a.Sig, spec, a.Detail, a.First+i, c)
		}
	}
}

func (r *Runner) runStatic() {
	var wg sync.WaitGroup
	for i := 0; i < r.NWorkers; i++ {
		wg.Add(1)
		go r.staticShard(i, &wg)
	}
	wg.Wait()
	r.logf("static phase: enumerated=%d distinct=%d executed=%d nontrivial=%d outcomes=%d sigs=%d",
		r.enumerated, r.distinct, r.executed, r.nontrivial, len(r.outcomes), len(r.sigs))
}

// ---------------------------------------------------------------- BFS

type bfsWorker struct {
	cmd   *exec.Cmd
	in    *bufio.Writer
	inc   interface{ Close() error }
	out   *bufio.Reader
	reqs  int
	jpath string
	errb  *bytes.Buffer
}

func (r *Runner) startBFSWorker(idx int) *bfsWorker {
	w := &bfsWorker{jpath: filepath.Join(ScratchDir, fmt.Sprintf("%s-%d-b%d.journal", r.P.ID, os.Getpid(), idx))}
	w.cmd = exec.Command(r.Self, "serve", r.P.ID, "--journal", w.jpath, "--mem", strconv.FormatUint(r.MemGiB, 10))
	w.cmd.Env = append(os.Environ(), "GOMAXPROCS=2", "VERIF_PROTO_FD=3")
	w.errb = &bytes.Buffer{}
	w.cmd.Stderr = w.errb
	stdin, _ := w.cmd.StdinPipe()
	stdout, protoW, perr := os.Pipe() // responses travel on fd 3; the worker's standard output is discarded
	if perr != nil {
		r.harness("cannot create the bfs worker pipe: %s", perr)
		return nil
	}
	w.cmd.ExtraFiles = []*os.File{protoW}
	w.in = bufio.NewWriterSize(stdin, 1<<16)
	w.inc = stdin
	w.out = bufio.NewReaderSize(stdout, 1<<20)
	if err := w.cmd.Start(); err != nil {
		_ = stdout.Close()
		_ = protoW.Close()
		r.harness("cannot start bfs worker: %s", err)
		return nil
	}
	_ = protoW.Close()
	return w
}

func (w *bfsWorker) stop() {
	if w == nil {
		return
	}
	_ = w.inc.Close()
	done := make(chan bool, 1)
	go func() { _ = w.cmd.Wait(); done <- true }()
	select {
	case <-done:
	case <-time.After(5 * time.Second):
		_ = w.cmd.Process.Kill()
		<-done
	}
	_ = os.Remove(w.jpath)
}

// call sends one batch; on worker death returns ok=false.
func (w *bfsWorker) call(specs []string, deadline time.Duration) (res []Result, ok bool) {
	b, _ := json.Marshal(specs)
	_, _ = w.in.Write(b)
	_ = w.in.WriteByte('\n')
	if w.in.Flush() != nil {
		return nil, false
	}
	type ans struct {
		line []byte
		err  error
	}
	ch := make(chan ans, 1)
	go func() {
		line, err := w.out.ReadBytes('\n')
		ch <- ans{line, err}
	}()
	select {
	case a := <-ch:
		if a.err != nil && len(a.line) == 0 {
			return nil, false
		}
		if json.Unmarshal(a.line, &res) != nil || len(res) != len(specs) {
			return nil, false
		}
		w.reqs += len(specs)
		return res, true
	case <-time.After(deadline * time.Duration(len(specs)+1)):
		_ = w.cmd.Process.Kill()
		return nil, false
	}
}

// ExecIsolated runs one spec in a brand-new process.
func (r *Runner) ExecIsolated(spec string) (res Result, ok bool, stderr string) {
	f, err := os.CreateTemp(ScratchDir, "spec-*.txt")
	if err != nil {
		return res, false, err.Error()
	}
	defer os.Remove(f.Name())
	_, _ = f.WriteString(spec)
	f.Close()
	cmd := exec.Command(r.Self, "exec", r.P.ID, "--spec-file", f.Name(), "--mem", strconv.FormatUint(r.MemGiB, 10))
	var out, errb bytes.Buffer
	cmd.Stderr = &errb
	cmd.Env = append(os.Environ(), "VERIF_PROTO_FD=3")
	protoR, protoW, perr := os.Pipe() // the result travels on fd 3, whatever the case prints to standard output is dropped
	if perr != nil {
		return res, false, perr.Error()
	}
	cmd.ExtraFiles = []*os.File{protoW}
	if err = cmd.Start(); err != nil {
		_ = protoR.Close()
		_ = protoW.Close()
		return res, false, err.Error()
	}
	_ = protoW.Close()
	copied := make(chan bool, 1)
	go func() { _, _ = io.Copy(&out, protoR); _ = protoR.Close(); copied <- true }()
	done := make(chan error, 1)
	go func() { done <- cmd.Wait() }()
	var back bool
	if err, back = WaitBounded(cmd.Process.Pid, done, r.deadline()*2, r.deadline()/2, r.deadline()*6, nil); !back {
		_ = cmd.Process.Kill()
		<-done
		res.Fail("worker:hang", "no result within the deadline in an isolated process")
		return res, true, errb.String()
	}
	<-copied
	if jerr := json.Unmarshal(out.Bytes(), &res); jerr != nil {
		res = Result{}
		res.Fail("worker:fatal", "isolated process died: "+tail(errb.String(), 1500))
		return res, true, errb.String()
	}
	return res, true, errb.String()
}

// BFSSpec encodes a history as a case spec.
func BFSSpec(hist []string) string {
	b, _ := json.Marshal(hist)
	return "bfs:" + string(b)
}

// ParseBFSSpec decodes it.
func ParseBFSSpec(spec string) (hist []string, ok bool) {
	if !strings.HasPrefix(spec, "bfs:") {
		return nil, false
	}
	if json.Unmarshal([]byte(spec[4:]), &hist) != nil {
		return nil, false
	}
	return hist, true
}

func (r *Runner) runBFS() {
	b := r.P.BFS
	ops := b.Ops(r.Tier)
	maxDepth := b.MaxDepth(r.Tier)
	noDedup := 0
	if b.NoDedupDepth != nil {
		noDedup = b.NoDedupDepth(r.Tier)
	}
	stateCap := 0
	if b.StateCap != nil {
		stateCap = b.StateCap(r.Tier)
	}
	type node struct {
		hist    []string
		enabled []string
	}
	seen := map[[16]byte]struct{}{}
	keyOf := func(k string) (h [16]byte) {
		s := sha256.Sum256([]byte(k))
		copy(h[:], s[:16])
		return
	}
	// root
	root, ok, _ := r.ExecIsolated(BFSSpec(nil))
	if !ok || len(root.Failures) != 0 && root.Key == "" {
		r.harness("bfs root failed: %+v", root.Failures)
		return
	}
	for _, f := range root.Failures {
		r.addFail("bfs", f.Sig, BFSSpec(nil), f.Detail, 0, 1)
	}
	seen[keyOf(root.Key)] = struct{}{}
	frontier := []node{{hist: nil, enabled: root.Enabled}}
	r.bfsStates = 1
	workers := make([]*bfsWorker, r.NWorkers)
	defer func() {
		for _, w := range workers {
			w.stop()
		}
	}()
	capped := false
	for depth := 1; depth <= maxDepth && 0 < len(frontier) && !capped; depth++ {
		if r.Budget < time.Since(r.start) {
			r.notes = append(r.notes, fmt.Sprintf("bfs stopped by time budget before depth %d", depth))
			r.exhaustive = false
			break
		}
		results := make([][]Result, len(frontier))
		opsets := make([][]string, len(frontier))
		var next int
		var nmu sync.Mutex
		var wg sync.WaitGroup
		for wi := 0; wi < r.NWorkers; wi++ {
			wg.Add(1)
			go func(wi int) {
				defer wg.Done()
				for {
					nmu.Lock()
					i := next
					next++
					nmu.Unlock()
					if len(frontier) <= i {
						return
					}
					n := frontier[i]
					set := ops
					if n.enabled != nil {
						set = n.enabled
					}
					opsets[i] = set
					specs := make([]string, len(set))
					for oi, op := range set {
						h := append(append(make([]string, 0, len(n.hist)+1), n.hist...), op)
						specs[oi] = BFSSpec(h)
					}
					if workers[wi] == nil || 3000 < workers[wi].reqs {
						workers[wi].stop()
						workers[wi] = r.startBFSWorker(wi)
						if workers[wi] == nil {
							return
						}
					}
					res, ok := workers[wi].call(specs, r.deadline())
					if !ok {
						// worker died or hung: redo this node case by case in isolated processes
						workers[wi].stop()
						workers[wi] = nil
						r.mu.Lock()
						r.restarts++
						r.mu.Unlock()
						res = make([]Result, len(specs))
						for si, spec := range specs {
							res[si], _, _ = r.ExecIsolated(spec)
						}
					}
					results[i] = res
				}
			}(wi)
		}
		wg.Wait()
		var nextFrontier []node
		for i, n := range frontier {
			for oi, res := range results[i] {
				op := opsets[i][oi]
				h := append(append(make([]string, 0, len(n.hist)+1), n.hist...), op)
				if res.Key == "" && len(res.Failures) == 0 {
					r.bfsInapplic++
					continue
				}
				r.bfsTransitions++
				if res.Nontrivial {
					r.nontrivial++
				}
				for k, v := range res.Counters {
					r.counters[k] += v
				}
				if res.Outcome != "" && len(r.outcomes) < 4*outcomeCap {
					r.outcomes[Hash64(res.Outcome)] = struct{}{}
				}
				for _, f := range res.Failures {
					fspec := BFSSpec(h)
					if f.Spec != "" {
						fspec = f.Spec
					}
					r.addFail("bfs", f.Sig, fspec, f.Detail, r.bfsTransitions, 1)
				}
				if res.Key == "" {
					continue
				}
				kh := keyOf(res.Key)
				_, has := seen[kh]
				if !has {
					seen[kh] = struct{}{}
					r.bfsStates++
				}
				if !has || depth <= noDedup {
					nextFrontier = append(nextFrontier, node{hist: h, enabled: res.Enabled})
					if len(r.bfsSamples) < 4 && (depth == maxDepth || len(nextFrontier)%1009 == 7) {
						r.bfsSamples = append(r.bfsSamples, BFSSpec(h))
					}
				}
			}
		}
		r.bfsDepthDone = depth
		r.logf("bfs depth %d done: frontier=%d -> %d, states=%d transitions=%d sigs=%d", depth, len(frontier),
			len(nextFrontier), r.bfsStates, r.bfsTransitions, len(r.sigs))
		frontier = nextFrontier
		if 0 < stateCap && stateCap < r.bfsStates {
			capped = true
			r.exhaustive = false
			r.notes = append(r.notes, fmt.Sprintf("bfs state cap %d hit after completing depth %d", stateCap, depth))
		}
	}
	if len(frontier) == 0 {
		r.notes = append(r.notes, fmt.Sprintf("bfs reached a fixpoint: every reachable state explored (depth %d)", r.bfsDepthDone))
	}
	if len(r.bfsSamples) == 0 && 0 < len(frontier) {
		r.bfsSamples = append(r.bfsSamples, BFSSpec(frontier[0].hist))
	}
}

// ---------------------------------------------------------------- verdict

func (r *Runner) confirm(st *sigTotal, tries int) {
	if len(st.Specs) == 0 {
		return
	}
	// the first kept spec is the smallest failing case; if it does not reproduce alone (it may have
	// failed through pollution by an earlier case of the same worker) the other kept specs are tried
	// before the signature is dropped
	for si, spec := range st.Specs {
		if 0 < si && 0 < st.Confirmed {
			break
		}
		if 0 < si {
			st.Attempts = 0
		}
		r.confirmSpec(st, spec, tries)
		if 0 < st.Confirmed && 0 < si {
			st.Specs[0], st.Specs[si] = st.Specs[si], st.Specs[0]
		}
	}
}

func (r *Runner) confirmSpec(st *sigTotal, spec string, tries int) {
	var wg sync.WaitGroup
	var mu sync.Mutex
	for i := 0; i < tries; i++ {
		wg.Add(1)
		go func() {
			defer wg.Done()
			res, ok, _ := r.ExecIsolated(spec)
			if !ok {
				return
			}
			mu.Lock()
			st.Attempts++
			for _, f := range res.Failures {
				if f.Sig == st.Sig || strings.HasPrefix(st.Sig, "worker:") && strings.HasPrefix(f.Sig, "worker:") {
					st.Confirmed++
					break
				}
			}
			mu.Unlock()
		}()
	}
	wg.Wait()
}

// Run executes the check and returns the process exit code.
func Run(p *Prop, tier string, seed int, self string) int {
	r := &Runner{P: p, Tier: tier, Seed: seed, Self: self, NWorkers: runtime.NumCPU(), MemGiB: 8,
		sigs: map[string]*sigTotal{}, counters: map[string]int{}, outcomes: map[uint64]struct{}{},
		exhaustive: true, start: time.Now()}
	if 0 < p.Workers {
		r.NWorkers = p.Workers
	}
	if v, err := strconv.Atoi(os.Getenv("VERIF_WORKERS")); err == nil && 0 < v {
		r.NWorkers = v
	}
	// wall budget of the BFS phase: only ever reached on a machine that is busy with other work (the quick BFS of every
	// property ends within 40 s on 16 idle cores); a run stopped by it says so and is not called exhaustive
	r.Budget = 300 * time.Second
	if tier == Thorough {
		r.Budget = 30 * time.Minute
	}
	if v, err := strconv.Atoi(os.Getenv("VERIF_BUDGET_S")); err == nil && 0 < v {
		r.Budget = time.Duration(v) * time.Second
	}
	_ = os.MkdirAll(ScratchDir, 0o755)
	_ = os.MkdirAll(filepath.Join(OutDir, "evidence"), 0o755)

	killed, total := 0, 0
	var stNotes []string
	if p.Selftest != nil {
		killed, total, stNotes = p.Selftest(tier)
		r.logf("oracle self-test: %d/%d mutated references distinguished", killed, total)
		if killed != total {
			r.harness("oracle self-test: only %d of %d mutated references are distinguished by the case set: %v", killed, total, stNotes)
		}
	}
	if p.Enumerate != nil {
		r.runStatic()
	}
	if p.BFS != nil {
		r.runBFS()
	}
	// confirmation in fresh processes (S1)
	open := LoadFindings(p.ID)
	var all []*sigTotal
	for _, st := range r.sigs {
		all = append(all, st)
	}
	sort.Slice(all, func(a, b int) bool {
		if all[a].First != all[b].First {
			return all[a].First < all[b].First
		}
		return all[a].Sig < all[b].Sig
	})
	// unknown signatures first (they decide the verdict), then known ones; a pool of fresh processes
	var order []*sigTotal
	for _, st := range all {
		if matchFinding(open, st.Sig) == nil {
			order = append(order, st)
		}
	}
	nUnknown := len(order)
	for _, st := range all {
		if matchFinding(open, st.Sig) != nil {
			order = append(order, st)
		}
	}
	limit := nUnknown + 150
	if 600 < nUnknown {
		limit = 600
	}
	if limit < len(order) {
		order = order[:limit]
	}
	{
		var cwg sync.WaitGroup
		sem := make(chan bool, 4)
		for _, st := range order {
			cwg.Add(1)
			sem <- true
			go func(st *sigTotal) {
				defer cwg.Done()
				tries := 5 // an unknown signature decides the verdict: re-run it 5x in fresh processes
				if matchFinding(open, st.Sig) != nil {
					tries = 2 // a listed finding only has to be seen again
				}
				r.confirm(st, tries)
				<-sem
			}(st)
		}
		cwg.Wait()
	}
	exit := 0
	violations := 0
	var proposals []Finding
	var known, unconfirmed, flaky []string
	knownSeen := map[*Finding]int{}
	_ = os.MkdirAll(filepath.Join(OutDir, "replays"), 0o755)
	for _, st := range all {
		if 0 < st.Attempts && st.Confirmed == 0 {
			unconfirmed = append(unconfirmed, st.Sig)
			r.logf("dropped (0/%d fresh-process reproductions): %s", st.Attempts, st.Sig)
			continue
		}
		if 0 < st.Attempts && st.Confirmed < st.Attempts {
			// The same case failed in some fresh processes and passed in others: something the case does not control
			// (Go map order, a random source, timing). It is recorded and printed but it is not a verdict: a violation
			// must fail every time its replay file is run (S1).
			flaky = append(flaky, fmt.Sprintf("%s (%d/%d)", st.Sig, st.Confirmed, st.Attempts))
			fmt.Printf("FLAKY property=%s signature: %s (reproduced %d/%d in fresh processes; first case: %s)\n", p.ID, st.Sig,
				st.Confirmed, st.Attempts, trunc(first(st.Specs), 300))
			continue
		}
		if strings.HasPrefix(st.Sig, "harness:") {
			r.harness("%s: %s", st.Sig, trunc(st.Detail, 1500))
			continue
		}
		if f := matchFinding(open, st.Sig); f != nil {
			knownSeen[f] += st.Count
			known = append(known, st.Sig)
			continue
		}
		violations++
		exit = 1
		proposals = append(proposals, Finding{Property: p.ID, Signature: st.Sig, FailingInput: first(st.Specs), Status: "open", Note: trunc(st.Detail, 300)})
		path := r.writeReplay(st)
		fmt.Printf("VIOLATION property=%s replay=%s\n", p.ID, path)
		fmt.Printf("  signature: %s (%d cases, reproduced %d/%d in fresh processes)\n  first case: %s\n  detail: %s\n",
			st.Sig, st.Count, st.Confirmed, st.Attempts, trunc(first(st.Specs), 600), trunc(st.Detail, 600))
	}
	caseCounts := map[string]int{}
	for _, f := range open {
		n, has := knownSeen[f]
		if !has {
			continue
		}
		caseCounts[f.Signature+f.SignatureRe] = n
		listed, guarded := f.Cases[r.Tier]
		if !guarded || n <= listed {
			continue
		}
		// more failing cases than the listed finding accounts for
		var st *sigTotal
		for _, cand := range all {
			if matchFinding(open, cand.Sig) == f && (st == nil || cand.Count > st.Count) {
				st = cand
			}
		}
		if st == nil {
			continue
		}
		violations++
		exit = 1
		extra := *st
		extra.Sig = fmt.Sprintf("%s [%d failing cases where the listed finding accounts for %d: another violation behind the same signature]", f.Signature+f.SignatureRe, n, listed)
		path := r.writeReplay(&extra)
		fmt.Printf("VIOLATION property=%s replay=%s\n", p.ID, path)
		fmt.Printf("  signature: %s\n  first case: %s\n  detail: %s\n", extra.Sig, trunc(first(st.Specs), 600), trunc(st.Detail, 600))
	}
	if data, err := json.MarshalIndent(caseCounts, "", " "); err == nil {
		// development aid: the counts bin/refresh-known-cases copies into known-findings.jsonl (from the unchanged tree only)
		_ = os.WriteFile(filepath.Join(OutDir, "replays", fmt.Sprintf("known-cases-%s-%s.json", p.ID, r.Tier)), data, 0o644)
	}
	for _, f := range open {
		if n, has := knownSeen[f]; has {
			what := f.Note
			if what == "" {
				what = f.Signature + f.SignatureRe
			}
			fmt.Printf("KNOWN-FINDING: property=%s %s [%s] (%d cases this run; e.g. %s)\n", p.ID, what,
				f.Signature+f.SignatureRe, n, trunc(f.FailingInput, 200))
		}
	}
	if pf := os.Getenv("VERIF_PROPOSE"); pf != "" && 0 < len(proposals) {
		// development aid only: candidate entries for human triage, never read back by a check
		if f, err := os.Create(pf); err == nil {
			enc := json.NewEncoder(f)
			enc.SetEscapeHTML(false)
			for i := range proposals {
				_ = enc.Encode(&proposals[i])
			}
			f.Close()
		}
	}
	// vacuity guards
	for _, name := range p.Required {
		if r.counters[name] == 0 {
			r.harness("vacuity guard: counter %q is zero", name)
		}
	}
	if p.Enumerate != nil && r.executed == 0 {
		r.harness("no case executed")
	}
	if 0 < len(r.harnessErr) {
		exit = 2
	}
	r.writeEvidence(violations, known, unconfirmed, flaky, killed, total, stNotes)
	r.logf("done: exit=%d violations=%d known=%d unconfirmed=%d", exit, violations, len(known), len(unconfirmed))
	if exit == 0 {
		fmt.Printf("OK property=%s tier=%s evaluations=%d states=%d transitions=%d known_findings=%d\n", p.ID, tier,
			r.executed, r.bfsStates, r.bfsTransitions, len(knownSeen))
	}
	return exit
}

func first(s []string) string {
	if len(s) == 0 {
		return ""
	}
	return s[0]
}

// Replay is the replay artefact.
type Replay struct {
	Property  string   `json:"property"`
	Signature string   `json:"signature"`
	Spec      string   `json:"spec"`
	MoreSpecs []string `json:"more_specs,omitempty"`
	Detail    string   `json:"detail"`
	Count     int      `json:"failing_cases"`
	Confirmed string   `json:"fresh_process_reproductions"`
	Tier      string   `json:"tier"`
	How       string   `json:"how_to_replay"`
}

func (r *Runner) writeReplay(st *sigTotal) string {
	h := sha256.Sum256([]byte(st.Sig + "\x00" + first(st.Specs)))
	path := filepath.Join(OutDir, "replays", fmt.Sprintf("%s-%s.json", r.P.ID, hex.EncodeToString(h[:6])))
	rp := Replay{Property: r.P.ID, Signature: st.Sig, Spec: first(st.Specs), Detail: st.Detail, Count: st.Count,
		Confirmed: fmt.Sprintf("%d/%d", st.Confirmed, st.Attempts), Tier: r.Tier,
		How: "bin/check --replay " + path + "   (re-executes exactly this case in a fresh process, no explorer)"}
	if 1 < len(st.Specs) {
		rp.MoreSpecs = st.Specs[1:]
	}
	b, _ := json.MarshalIndent(&rp, "", "  ")
	_ = os.WriteFile(path, append(b, '\n'), 0o644)
	return path
}

func (r *Runner) writeEvidence(violations int, known, unconfirmed, flaky []string, killed, total int, stNotes []string) {
	p := r.P
	cov := map[string]any{}
	samples := []any{}
	for _, s := range r.samples {
		samples = append(samples, s)
	}
	for _, s := range r.ntSamples {
		samples = append(samples, s)
	}
	for _, s := range r.bfsSamples {
		samples = append(samples, s)
	}
	if 12 < len(samples) {
		samples = samples[:12]
	}
	evals := r.executed + r.bfsTransitions
	cov["evaluations"] = evals
	cov["distinct_nontrivial"] = r.nontrivial
	cov["rule"] = p.Rule
	cov["samples"] = samples
	cov["exhaustive"] = r.exhaustive && len(r.harnessErr) == 0
	cov["distinct_cases"] = r.distinct
	cov["duplicate_specs_skipped"] = r.dups
	cov["distinct_outcomes"] = len(r.outcomes)
	if r.outcomeCap {
		cov["distinct_outcomes_capped"] = true
	}
	cov["hit_counters"] = r.counters
	cov["worker_restarts"] = r.restarts
	cov["workers"] = r.NWorkers
	if p.Bound != nil {
		cov["bound_completed"] = p.Bound(r.Tier)
	}
	if p.BFS != nil {
		cov["states"] = r.bfsStates
		cov["transitions"] = r.bfsTransitions
		cov["traces_validated_against_impl"] = r.bfsTransitions + r.executed
		cov["bfs_depth_completed"] = r.bfsDepthDone
		cov["bfs_inapplicable_ops"] = r.bfsInapplic
		if p.BFS.NoDedupDepth != nil {
			cov["bfs_no_dedup_depth"] = p.BFS.NoDedupDepth(r.Tier)
		}
	} else if p.Level == "model_checking" {
		cov["states"] = r.distinct
		cov["transitions"] = r.executed
		cov["traces_validated_against_impl"] = r.executed
	}
	if p.Coverage != nil {
		for k, v := range p.Coverage(r.Tier, r.counters) {
			cov[k] = v
		}
	}
	if 0 < total {
		cov["ref_mutants_killed"] = fmt.Sprintf("%d/%d", killed, total)
		cov["ref_mutants_notes"] = stNotes
	}
	cov["known_findings_seen"] = known
	cov["unconfirmed"] = unconfirmed
	cov["flaky"] = flaky
	cov["notes"] = r.notes
	if 0 < len(r.harnessErr) {
		cov["harness_errors"] = r.harnessErr
	}
	sigCounts := map[string]int{}
	for _, st := range r.sigs {
		sigCounts[st.Sig] = st.Count
	}
	cov["failing_cases_by_signature"] = sigCounts
	ev := map[string]any{
		"property_id": p.ID,
		"tier":        r.Tier,
		"seed":        r.Seed,
		"level":       p.Level,
		"coverage":    cov,
		"assumptions": p.Assumptions,
		"wall_s":      time.Since(r.start).Seconds(),
		"violations":  violations,
	}
	b, _ := json.MarshalIndent(ev, "", " ")
	_ = os.WriteFile(filepath.Join(OutDir, "evidence", p.ID+".json"), append(b, '\n'), 0o644)
}

func trunc(s string, n int) string {
	if len(s) <= n {
		return s
	}
	return s[:n] + "…"
}

func tail(s string, n int) string {
	if len(s) <= n {
		return s
	}
	return "…" + s[len(s)-n:]
}
