// Package c14: sequence functions honour their keyword arguments on lists,
// vectors and strings. Every call of a bounded space (function x sequence
// type x sequence x keyword combination) is evaluated by the real slip and
// compared with a reference written from the language definition on Go slices.
package c14

import (
	"fmt"
	"os"
	"strconv"
	"strings"

	"verif/engine"
)

func init() {
	engine.Register(&engine.Prop{
		ID:    "C14",
		Level: "exploration",
		Rule: "every call (function x sequence type x every sequence up to the length bound x every keyword combination with in-range " +
			"bounds, see bound_completed) is written as Lisp source with literal sequences, evaluated through ReadString+Eval in a fresh " +
			"scope, the result is rendered by a Go type switch and compared with a reference implementation written from the language " +
			"definition on Go slices; a case is non-trivial when the sequence arguments are non-empty and at least one keyword argument " +
			"is given, or (functions without keywords) when they hold at least two elements. Functions called for effect (mapc mapl, map " +
			"with result type nil, map-into, pushnew, nreverse/copy-seq/replace on one object) are wrapped in a let that also returns " +
			"what they changed (the recorded argument lists, the place, the argument afterwards, the elements behind a fill pointer). " +
			"elt and subseq with an index outside the sequence must signal (any condition; a Go runtime fault does not count)",
		Assumptions: []string{
			"elements are symbols, characters and (symbol . id) pairs, on which slip's documented default test equal agrees with eql",
			"harness-defined callbacks c14-lt (strict order on the alphabet) and c14-pair (reducing function) are trusted",
			"functions slip does not define (find-if-not, position-if-not, count-if-not, remove-if-not, delete-if-not, substitute-if-not, " +
				"nsubstitute-if-not, member-if-not, rassoc-if-not: fboundp is nil for each) are not demanded; :test-not is documented by " +
				"exactly one function of pkg/cl, pushnew, and enumerated there (everywhere else it is not demanded); the named test is " +
				"equal, not eql",
			"pushnew does not document its default test: for an item that is equal but not eql to an element (a cons) both the " +
				"language's answer (pushed) and slip's documented default elsewhere (equal: not pushed) are accepted; adjoin documents equal",
			"map-into documents lists only: with a vector as result or source a rejection is accepted as well as the defined value; " +
				"make-sequence without :initial-element: only the length and the type of the result are looked at",
			"only in-range bounding indices and sorted merge inputs are enumerated",
		},
		Enumerate: enumerate,
		Exec:      exec,
		Required: []string{"kw:start", "kw:end", "kw:key", "kw:test", "kw:count", "kw:from-end", "kw:start2", "kw:end2",
			"combo:from-end+count+bounds", "combo:key+test", "combo:key+test-on-string", "seq:list", "seq:vector", "seq:string", "seq:nil",
			"stable-sort:equal-keys", "merge:equal-keys", "fam:item", "fam:if", "fam:substitute", "fam:substitute-if", "fam:duplicates",
			"fam:reverse", "fam:two-sequence", "fam:subseq", "fam:fill", "fam:sort", "fam:merge", "fam:set", "fam:quantifier", "fam:map",
			"fam:reduce", "fam:concatenate", "fam:map-direct", "map-direct:judged",
			// sixth round
			"fam:list-mapping", "fam:map-into", "fam:adjoin", "fam:replace-same-object", "fam:make", "fam:elt",
			"list-mapping:mapc", "list-mapping:mapl", "list-mapping:maplist", "list-mapping:mapcan", "list-mapping:mapcon",
			"list-mapping:unequal-lengths", "list-mapping:nil-result-spliced", "map:result-type-nil-calls-observed",
			"arity:3-sequences", "arity:3-sequences-of-unequal-length", "arity:list+vector+string",
			"set-exclusive-or", "set-exclusive-or:key", "set-exclusive-or:duplicates", "adjoin:adjoin", "adjoin:pushnew",
			"adjoin:test-on-conses", "adjoin:default-test-on-boxed-fixnums", "kw:test-not", "replace-same-object:overlap-start1>start2", "replace-same-object:overlap-start1<start2",
			"out-of-range:error-demanded", "fill-pointer:reverse", "fill-pointer:nreverse", "fill-pointer:quantifier",
			"fill-pointer:subseq", "fill-pointer:elt", "make:make-sequence", "make:copy-seq",
			"seq:vector-with-fill-pointer"},
		Bound:    bound,
		Selftest: selftest,
	})
}

// cfg is the bound of a tier.
type cfg struct {
	itemL    int    // item / -if / substitute / duplicates families: max length
	letters  string // list and vector alphabet
	sletters string // string alphabet
	items    string // items searched for
	edgeL    int    // max length for the :count nil / negative and :test-not grids
	assocL   int
	twoL1    int // search/mismatch/replace: pattern / target length
	twoL2    int
	twoAB    string
	twoSAB   string
	subL     int
	sortL    int
	sortSL   int
	sortAB   string
	sortSAB  string
	mergeL   int
	setL     int
	quantL1  int
	quantL2  int
	mapL     int
	reduceL  int
	concatN  int
	concatL  int
	twoTests []string
	longLo   int // stable-sort long inputs
	longHi   int
	// sixth round
	lmL1, lmL2, lmL3 int    // list-mapping functions over one, two, three lists
	ab3              string // alphabet of the three-sequence grids (strings: sab3)
	sab3             string
	seq3L            int // map / every.. over three sequences of mixed kinds
	adjL             int // adjoin / pushnew
	selfL            int // replace with one object as target and source
	intoL            int // map-into: result and source lengths
}

func config(tier string) cfg {
	if tier == engine.Thorough {
		return cfg{itemL: 5, letters: "abc", sletters: "bBc", items: "b", edgeL: 4, assocL: 5,
			twoL1: 3, twoL2: 4, twoAB: "ab", twoSAB: "aA", subL: 6, sortL: 8, sortSL: 6, sortAB: "abc", sortSAB: "aAbB",
			mergeL: 4, setL: 4, quantL1: 6, quantL2: 4, mapL: 4, reduceL: 5, concatN: 3, concatL: 2,
			twoTests: []string{"", "equal", "lam"}, longLo: 13, longHi: 15,
			lmL1: 5, lmL2: 4, lmL3: 4, ab3: "ab", sab3: "bB", seq3L: 3, adjL: 5, selfL: 5, intoL: 4}
	}
	return cfg{itemL: 4, letters: "abc", sletters: "bBc", items: "b", edgeL: 3, assocL: 4,
		twoL1: 2, twoL2: 3, twoAB: "ab", twoSAB: "aAb", subL: 4, sortL: 6, sortSL: 5, sortAB: "abc", sortSAB: "aAb",
		mergeL: 3, setL: 3, quantL1: 4, quantL2: 3, mapL: 3, reduceL: 4, concatN: 2, concatL: 2,
		twoTests: []string{"", "lam"}, longLo: 13, longHi: 13,
		lmL1: 4, lmL2: 3, lmL3: 3, ab3: "ab", sab3: "bB", seq3L: 2, adjL: 4, selfL: 4, intoL: 3}
}

func bound(tier string) string {
	c := config(tier)
	extra := ""
	if tier == engine.Thorough {
		extra = "; additionally the item/-if/substitute families over the 4-letter alphabets abcd / abBc with items a b c up to length 4, " +
			"and search/mismatch/replace over the string alphabet aAb at lengths 0..2 x 0..3"
	}
	twoTests := "absent, an order lambda"
	if len(c.twoTests) == 3 {
		twoTests = "absent, equal, an order lambda"
	}
	return fmt.Sprintf("find position count remove delete substitute nsubstitute (+ -if) and remove-/delete-duplicates: every list, vector "+
		"and string of length 0..%d over a 3-letter alphabet (lists/vectors %q, strings %q, item b: one element that matches under equal, "+
		"one that matches only under the key or not at all, one that matches under the order test) x every in-range :start/:end "+
		"(absent, explicit, :end nil) x :key (absent, car on (sym . id) pairs / char-downcase) x :test (absent, equal, an order lambda; "+
		"an equivalence lambda for the duplicates functions) x :count (absent 0 1 2) x :from-end, the empty list written both '() and nil; "+
		":count nil and -1 on length 0..%d; member/assoc/rassoc (+ -if, assoc-if-not) on lists 0..%d x items a b c x :key x :test; "+
		"search/mismatch/replace: sequence-1 0..%d x sequence-2 0..%d (replace: the other way round) over %q (strings %q), absent bounds "+
		"and every explicit in-range start/end pair of both sequences x :key x :test (%s) x :from-end, for list/list, vector/vector, "+
		"string/string, list/vector, vector/list and (length <= 2) string/character-list; subseq/fill/reverse/nreverse 0..%d; "+
		"sort/stable-sort 0..%d (strings 0..%d) x ascending/descending predicate x :key, plus every list and vector of pairs over 2 "+
		"letters of length %d..%d (beyond the insertion-sort threshold of library sorts); merge of every pair of sorted inputs 0..%d "+
		"x result type x predicate x :key; union/intersection/set-difference/subsetp (+ n-variants) on every pair of lists 0..%d x :key "+
		"x :test; every/some/notany/notevery on one sequence 0..%d and two sequences 0..%d; map/mapcar 0..%d; reduce 0..%d x bounds x "+
		":key x :from-end x :initial-value; concatenate of up to %d sequences 0..%d x result type%s. Sixth round: mapc mapl maplist mapcan "+
		"mapcon over every one list 0..%d and pair of lists 0..%d over %q and every triple of lists 0..%d over %q (function arguments "+
		"that return the arguments, splice a list per call, return nil for one letter); mapcar over the same triples; map (result "+
		"types nil with the calls recorded, list, vector, string) and every/some/notany/notevery over every triple of sequences 0..%d "+
		"for each of the 27 mixes of list, vector and string; map-into: result list 0..%d x zero, one or two source lists 0..%d (and "+
		"vectors); adjoin and pushnew: every list 0..%d x items a b c x elements symbols / fixnums above 1000 / conses / :key car x :test absent, equal, "+
		"an equivalence lambda, an order lambda, and for pushnew :test-not equal and :test-not of the order lambda; set-exclusive-or "+
		"and nset-exclusive-or on every pair of lists 0..%d (duplicates included) x :key x :test (absent, equal, equivalence lambda, "+
		"order lambda); replace with ONE object as target and source: every list, vector and string 0..%d x every pair of in-range "+
		"regions; elt at every index -1..length+1 and subseq with a start or end outside the sequence or end < start on 0..%d (an "+
		"error is demanded); copy-seq (a store into the copy must not show in the original) and make-sequence 0..%d x list/vector/string "+
		"x :initial-element; reverse, nreverse, copy-seq, every/some/notany/notevery, elt and subseq on vectors with a fill pointer (two "+
		"elements behind it, which must stay invisible and untouched) 0..%d; merge also "+
		"for vector/string and string/vector. Not enumerated (cut for time): the statement's length 8 / 4-symbol alphabet for every "+
		"function; out-of-range bounds other than elt/subseq; the other families on fill-pointer vectors; the -if-not functions (not "+
		"defined by slip) and :test-not outside pushnew (documented nowhere else)",
		c.itemL, c.letters, c.sletters, c.edgeL, c.assocL, c.twoL1, c.twoL2, c.twoAB, c.twoSAB, twoTests, c.subL, c.sortL, c.sortSL,
		c.longLo, c.longHi, c.mergeL, c.setL, c.quantL1, c.quantL2, c.mapL, c.reduceL, c.concatN, c.concatL, extra,
		c.lmL1, c.lmL2, c.letters, c.lmL3, c.ab3, c.seq3L, c.intoL, c.intoL, c.adjL, c.setL, c.selfL, c.subL, c.subL, c.subL)
}

// wordsOfLen: every word over letters of exactly length n.
func wordsOfLen(letters string, n int) []string {
	out := []string{""}
	for i := 0; i < n; i++ {
		var next []string
		for _, p := range out {
			for _, l := range letters {
				next = append(next, p+string(l))
			}
		}
		out = next
	}
	return out
}

// allSeqs: every word over letters of length 0..max, shortest first.
func allSeqs(letters string, max int) []string {
	out := []string{""}
	prev := []string{""}
	for n := 1; n <= max; n++ {
		var next []string
		for _, p := range prev {
			for _, l := range letters {
				next = append(next, p+string(l))
			}
		}
		out = append(out, next...)
		prev = next
	}
	return out
}

type bnd struct {
	hasS, hasE, eNil bool
	s, e             int
}

// fullBounds: start in {absent, 0..n} x end in {absent, start..n}, plus :end nil.
func fullBounds(n int) []bnd {
	out := []bnd{{}}
	for e := 0; e <= n; e++ {
		out = append(out, bnd{hasE: true, e: e})
	}
	out = append(out, bnd{hasE: true, eNil: true})
	for s := 0; s <= n; s++ {
		out = append(out, bnd{hasS: true, s: s})
		for e := s; e <= n; e++ {
			out = append(out, bnd{hasS: true, s: s, hasE: true, e: e})
		}
	}
	return out
}

// pairBounds: absent/absent plus every explicit in-range pair.
func pairBounds(n int) []bnd {
	out := []bnd{{}}
	for s := 0; s <= n; s++ {
		for e := s; e <= n; e++ {
			out = append(out, bnd{hasS: true, s: s, hasE: true, e: e})
		}
	}
	return out
}

func (c *call) setBounds(b bnd) {
	c.hasStart, c.start, c.hasEnd, c.end, c.endNil = b.hasS, b.s, b.hasE, b.e, b.eNil
}

func (c *call) setBounds2(b bnd) {
	c.hasStart2, c.start2, c.hasEnd2, c.end2, c.endNil2 = b.hasS, b.s, b.hasE, b.e, b.eNil
}

// typVariants: the sequence types a sequence is written in. An empty list is
// written both as '() and as nil.
func typVariants(types string, seq string) []byte {
	var out []byte
	for i := 0; i < len(types); i++ {
		out = append(out, types[i])
		if types[i] == 'L' && seq == "" {
			out = append(out, 'N')
		}
	}
	return out
}

var (
	itemFns    = []string{"find", "position", "count", "remove", "delete"}
	ifFns      = []string{"find-if", "position-if", "count-if", "remove-if", "delete-if"}
	substFns   = []string{"substitute", "nsubstitute"}
	substIfFns = []string{"substitute-if", "nsubstitute-if"}
	dupFns     = []string{"remove-duplicates", "delete-duplicates"}
	setFns     = []string{"union", "nunion", "intersection", "nintersection", "set-difference", "nset-difference", "subsetp"}
	quantFns   = []string{"every", "some", "notany", "notevery"}
)

func hasCountKw(fn string) bool {
	switch fn {
	case "remove", "delete", "remove-if", "delete-if", "substitute", "nsubstitute", "substitute-if", "nsubstitute-if":
		return true
	}
	return false
}

// enumerate emits every case of the tier; only (optional) is a function-name
// filter used by the self-test.
func enumerate(tier string, emit func(string)) {
	if os.Getenv("C14_ONLY") == "mapdirect" { // development aid
		enumMapDirect(tier, emit)
		return
	}
	if os.Getenv("C14_ONLY") == "round6" { // development aid: only the families added in the sixth round
		enumerateRound6(config(tier), func(string) bool { return true }, func(c *call) { emit(c.spec()) })
		return
	}
	enumerateFn(tier, "", emit)
	enumMapDirect(tier, emit)
}

func enumerateFn(tier, only string, emit func(string)) {
	cf := config(tier)
	out := func(c *call) { emit(c.spec()) }
	want := func(fn string) bool { return only == "" || only == fn }

	// ---- item / -if / substitute families
	itemGrid := func(fn string, letters, sletters, items string, maxL int) {
		isIf := family(fn) == famIf || family(fn) == famSubstIf
		for _, typ := range "LVS" {
			ab := letters
			if typ == 'S' {
				ab = sletters
			}
			for _, seq := range allSeqs(ab, maxL) {
				for _, t := range typVariants(string(typ), seq) {
					its := items
					if isIf {
						its = "-"
					}
					for _, item := range its {
						for _, b := range fullBounds(len(seq)) {
							for _, key := range []bool{false, true} {
								tests := []string{"", "equal", "lam"}
								preds := []string{""}
								if isIf {
									tests = []string{""}
									preds = []string{"eq", "gt"}
								}
								for _, test := range tests {
									for _, pred := range preds {
										counts := []string{""}
										if hasCountKw(fn) {
											counts = []string{"", "0", "1", "2"}
										}
										for _, cnt := range counts {
											for _, fe := range []bool{false, true} {
												c := &call{fn: fn, typs: string(t), seqs: []string{seq}, key: key, test: test, pred: pred, count: cnt, fromEnd: fe}
												if !isIf {
													c.item = string(item)
												}
												c.setBounds(b)
												out(c)
											}
										}
									}
								}
							}
						}
					}
				}
			}
		}
	}
	var allItem []string
	allItem = append(allItem, itemFns...)
	allItem = append(allItem, ifFns...)
	allItem = append(allItem, substFns...)
	allItem = append(allItem, substIfFns...)
	for _, fn := range allItem {
		if want(fn) {
			itemGrid(fn, cf.letters, cf.sletters, cf.items, cf.itemL)
		}
	}
	// :count nil (accepted: the defined value or a Lisp error) and negative :count
	for _, fn := range allItem {
		if !want(fn) {
			continue
		}
		isIf := family(fn) == famIf || family(fn) == famSubstIf
		for _, typ := range "LVS" {
			ab := cf.letters
			if typ == 'S' {
				ab = cf.sletters
			}
			for _, seq := range allSeqs(ab, cf.edgeL) {
				for _, fe := range []bool{false, true} {
					mk := func() *call {
						c := &call{fn: fn, typs: string(typ), seqs: []string{seq}, fromEnd: fe}
						if isIf {
							c.pred = "eq"
						} else {
							c.item = "b"
						}
						return c
					}
					if hasCountKw(fn) {
						for _, cnt := range []string{"nil", "-1"} {
							c := mk()
							c.count = cnt
							out(c)
						}
					}
				}
			}
		}
	}

	// ---- remove-duplicates / delete-duplicates
	for _, fn := range dupFns {
		if !want(fn) {
			continue
		}
		for _, typ := range "LVS" {
			ab := cf.letters
			if typ == 'S' {
				ab = cf.sletters
			}
			for _, seq := range allSeqs(ab, cf.itemL) {
				for _, t := range typVariants(string(typ), seq) {
					for _, b := range fullBounds(len(seq)) {
						for _, key := range []bool{false, true} {
							for _, test := range []string{"", "equal", "eqv"} {
								for _, fe := range []bool{false, true} {
									c := &call{fn: fn, typs: string(t), seqs: []string{seq}, key: key, test: test, fromEnd: fe}
									c.setBounds(b)
									out(c)
								}
							}
						}
					}
				}
			}
		}
	}

	// ---- member / assoc / rassoc
	for _, fn := range []string{"member", "assoc", "rassoc", "member-if", "assoc-if", "assoc-if-not", "rassoc-if"} {
		if !want(fn) {
			continue
		}
		isIf := family(fn) == famIf
		for _, seq := range allSeqs(cf.letters, cf.assocL) {
			for _, t := range typVariants("L", seq) {
				for _, key := range []bool{false, true} {
					if isIf {
						for _, pred := range []string{"eq", "gt"} {
							out(&call{fn: fn, typs: string(t), seqs: []string{seq}, key: key, pred: pred})
						}
						continue
					}
					for _, item := range "abc" {
						for _, test := range []string{"", "equal", "lam"} {
							out(&call{fn: fn, typs: string(t), seqs: []string{seq}, key: key, test: test, item: string(item)})
						}
					}
				}
			}
		}
	}

	// ---- search / mismatch / replace
	typePairs := []string{"LL", "VV", "SS", "LV", "VL", "SL", "LS"}
	twoGrid := func(fn string, twoAB, twoSAB string, twoL1, twoL2 int) {
		for _, tp := range typePairs {
			ab := twoAB
			if strings.ContainsRune(tp, 'S') {
				ab = twoSAB
			}
			l1, l2 := twoL1, twoL2
			if fn == "replace" {
				l1, l2 = twoL2, twoL1 // the target is the longer one
			}
			if tp == "SL" || tp == "LS" { // mixed string / character list: a reduced grid
				l1, l2 = min(l1, 2), min(l2, 2)
			}
			for _, s1 := range allSeqs(ab, l1) {
				for _, t1 := range typVariants(tp[:1], s1) {
					for _, s2 := range allSeqs(ab, l2) {
						for _, t2 := range typVariants(tp[1:], s2) {
							for _, b1 := range pairBounds(len(s1)) {
								for _, b2 := range pairBounds(len(s2)) {
									if fn == "replace" {
										c := &call{fn: fn, typs: string(t1) + string(t2), seqs: []string{s1, s2}}
										c.setBounds(b1)
										c.setBounds2(b2)
										out(c)
										continue
									}
									for _, key := range []bool{false, true} {
										for _, test := range cf.twoTests {
											for _, fe := range []bool{false, true} {
												c := &call{fn: fn, typs: string(t1) + string(t2), seqs: []string{s1, s2}, key: key, test: test, fromEnd: fe}
												c.setBounds(b1)
												c.setBounds2(b2)
												out(c)
											}
										}
									}
								}
							}
						}
					}
				}
			}
		}
	}
	for _, fn := range []string{"search", "mismatch", "replace"} {
		if !want(fn) {
			continue
		}
		twoGrid(fn, cf.twoAB, cf.twoSAB, cf.twoL1, cf.twoL2)
		if tier == engine.Thorough {
			q := config(engine.Quick)
			twoGrid(fn, q.twoAB, q.twoSAB, q.twoL1, q.twoL2) // the 3-letter string alphabet at the quick lengths
		}
	}

	// ---- subseq / fill / reverse / nreverse
	for _, typ := range "LVS" {
		ab := cf.letters
		if typ == 'S' {
			ab = cf.sletters
		}
		for _, seq := range allSeqs(ab, cf.subL) {
			for _, t := range typVariants(string(typ), seq) {
				n := len(seq)
				if want("subseq") {
					for s := 0; s <= n; s++ {
						out(&call{fn: "subseq", typs: string(t), seqs: []string{seq}, hasStart: true, start: s})
						out(&call{fn: "subseq", typs: string(t), seqs: []string{seq}, hasStart: true, start: s, subEnd: "nil"})
						for e := s; e <= n; e++ {
							out(&call{fn: "subseq", typs: string(t), seqs: []string{seq}, hasStart: true, start: s, subEnd: strconv.Itoa(e)})
						}
					}
				}
				if want("fill") {
					for _, b := range fullBounds(n) {
						c := &call{fn: "fill", typs: string(t), seqs: []string{seq}}
						c.setBounds(b)
						out(c)
					}
				}
				for _, fn := range []string{"reverse", "nreverse"} {
					if want(fn) {
						out(&call{fn: fn, typs: string(t), seqs: []string{seq}})
					}
				}
			}
		}
	}

	// ---- sort / stable-sort
	for _, fn := range []string{"sort", "stable-sort"} {
		if !want(fn) {
			continue
		}
		for _, typ := range "LVS" {
			ab, l := cf.sortAB, cf.sortL
			if typ == 'S' {
				ab, l = cf.sortSAB, cf.sortSL
			}
			for _, seq := range allSeqs(ab, l) {
				for _, t := range typVariants(string(typ), seq) {
					for _, pred := range []string{"lt", "gtp"} {
						for _, key := range []bool{false, true} {
							out(&call{fn: fn, typs: string(t), seqs: []string{seq}, pred: pred, key: key})
						}
					}
				}
			}
		}
	}

	// ---- stable-sort beyond the length where library sorts switch from insertion sort (12) to an
	// unstable algorithm: every list and vector of (sym . id) pairs over two letters
	if want("stable-sort") || want("sort") {
		for n := cf.longLo; n <= cf.longHi; n++ {
			for _, seq := range wordsOfLen("ab", n) {
				for _, typ := range "LV" {
					for _, fn := range []string{"stable-sort", "sort"} {
						if want(fn) {
							out(&call{fn: fn, typs: string(typ), seqs: []string{seq}, pred: "lt", key: true})
						}
					}
				}
			}
		}
	}

	// ---- merge (sorted inputs only)
	if want("merge") {
		for _, tp := range []string{"LL", "VV", "LV", "VL", "SS", "SL", "LS"} {
			ab := cf.sortAB
			rtypes := []string{"list", "vector"}
			if strings.ContainsRune(tp, 'S') {
				ab = cf.sortSAB
				rtypes = []string{"list", "vector", "string"}
			}
			for _, s1 := range allSeqs(ab, cf.mergeL) {
				for _, s2 := range allSeqs(ab, cf.mergeL) {
					for _, t1 := range typVariants(tp[:1], s1) {
						for _, t2 := range typVariants(tp[1:], s2) {
							for _, rt := range rtypes {
								for _, pred := range []string{"lt", "gtp"} {
									for _, key := range []bool{false, true} {
										c := &call{fn: "merge", typs: string(t1) + string(t2), seqs: []string{s1, s2}, pred: pred, key: key, rtype: rt}
										if c.valid() {
											out(c)
										}
									}
								}
							}
						}
					}
				}
			}
		}
	}

	// ---- union / intersection / set-difference / subsetp
	for _, fn := range setFns {
		if !want(fn) {
			continue
		}
		for _, s1 := range allSeqs(cf.letters, cf.setL) {
			for _, s2 := range allSeqs(cf.letters, cf.setL) {
				for _, t1 := range typVariants("L", s1) {
					for _, t2 := range typVariants("L", s2) {
						for _, key := range []bool{false, true} {
							tests := []string{"", "equal", "eqv"}
							switch fn {
							case "set-difference", "nset-difference", "subsetp":
								tests = append(tests, "lam")
							}
							for _, test := range tests {
								out(&call{fn: fn, typs: string(t1) + string(t2), seqs: []string{s1, s2}, key: key, test: test})
							}
						}
					}
				}
			}
		}
	}

	// ---- every / some / notany / notevery
	for _, fn := range quantFns {
		if !want(fn) {
			continue
		}
		for _, typ := range "LVS" {
			ab := cf.letters
			if typ == 'S' {
				ab = cf.sletters
			}
			for _, seq := range allSeqs(ab, cf.quantL1) {
				for _, t := range typVariants(string(typ), seq) {
					for _, pred := range []string{"eq", "gt"} {
						out(&call{fn: fn, typs: string(t), seqs: []string{seq}, pred: pred})
					}
				}
			}
		}
		for _, tp := range []string{"LL", "VV", "SS", "LV", "VL", "LS", "SV"} {
			ab := cf.letters
			if strings.ContainsRune(tp, 'S') {
				ab = cf.sletters
			}
			for _, s1 := range allSeqs(ab, cf.quantL2) {
				for _, s2 := range allSeqs(ab, cf.quantL2) {
					for _, t1 := range typVariants(tp[:1], s1) {
						for _, t2 := range typVariants(tp[1:], s2) {
							for _, pred := range []string{"eq2", "lt2"} {
								out(&call{fn: fn, typs: string(t1) + string(t2), seqs: []string{s1, s2}, pred: pred})
							}
						}
					}
				}
			}
		}
	}

	// ---- map / mapcar
	if want("map") {
		for _, typ := range "LVS" {
			ab := cf.letters
			if typ == 'S' {
				ab = cf.sletters
			}
			for _, seq := range allSeqs(ab, cf.mapL) {
				for _, t := range typVariants(string(typ), seq) {
					for _, rt := range []string{"nil", "list", "vector"} {
						out(&call{fn: "map", typs: string(t), seqs: []string{seq}, pred: "wrap", rtype: rt})
					}
				}
			}
			// character results
			for _, seq := range allSeqs(cf.sletters, cf.mapL) {
				for _, t := range typVariants(string(typ), seq) {
					for _, rt := range []string{"string", "list", "vector"} {
						if typ != 'S' && rt != "string" {
							continue
						}
						out(&call{fn: "map", typs: string(t), seqs: []string{seq}, pred: "up", rtype: rt})
					}
				}
			}
		}
		for _, tp := range []string{"LL", "VV", "LV", "VL", "SS", "SL", "VS"} {
			ab := cf.letters
			if strings.ContainsRune(tp, 'S') {
				ab = cf.sletters
			}
			for _, s1 := range allSeqs(ab, cf.mapL) {
				for _, s2 := range allSeqs(ab, cf.mapL) {
					for _, t1 := range typVariants(tp[:1], s1) {
						for _, t2 := range typVariants(tp[1:], s2) {
							for _, rt := range []string{"list", "vector"} {
								out(&call{fn: "map", typs: string(t1) + string(t2), seqs: []string{s1, s2}, pred: "pair2", rtype: rt})
							}
							if strings.ContainsRune(tp, 'S') {
								out(&call{fn: "map", typs: string(t1) + string(t2), seqs: []string{s1, s2}, pred: "second2", rtype: "string"})
							}
						}
					}
				}
			}
		}
	}
	if want("mapcar") {
		for _, seq := range allSeqs(cf.letters, cf.mapL) {
			for _, t := range typVariants("L", seq) {
				out(&call{fn: "mapcar", typs: string(t), seqs: []string{seq}, pred: "wrap"})
			}
		}
		for _, s1 := range allSeqs(cf.letters, cf.mapL) {
			for _, s2 := range allSeqs(cf.letters, cf.mapL) {
				for _, t1 := range typVariants("L", s1) {
					for _, t2 := range typVariants("L", s2) {
						out(&call{fn: "mapcar", typs: string(t1) + string(t2), seqs: []string{s1, s2}, pred: "pair2"})
					}
				}
			}
		}
	}

	// ---- reduce
	if want("reduce") {
		for _, typ := range "LVS" {
			ab := cf.letters
			if typ == 'S' {
				ab = cf.sletters
			}
			for _, seq := range allSeqs(ab, cf.reduceL) {
				for _, t := range typVariants(string(typ), seq) {
					for _, b := range fullBounds(len(seq)) {
						for _, key := range []bool{false, true} {
							for _, fe := range []bool{false, true} {
								for _, init := range []bool{false, true} {
									c := &call{fn: "reduce", typs: string(t), seqs: []string{seq}, key: key, fromEnd: fe, init: init}
									c.setBounds(b)
									out(c)
								}
							}
						}
					}
				}
			}
		}
	}

	// ---- concatenate
	if want("concatenate") {
		for _, rt := range []string{"list", "vector", "string"} {
			out(&call{fn: "concatenate", rtype: rt})
			var rec func(typs string, seqs []string)
			rec = func(typs string, seqs []string) {
				if 0 < len(typs) {
					out(&call{fn: "concatenate", rtype: rt, typs: typs, seqs: append([]string(nil), seqs...)})
				}
				if len(typs) == cf.concatN {
					return
				}
				for _, typ := range "LVS" {
					ab := "ab"
					for _, seq := range allSeqs(ab, cf.concatL) {
						for _, t := range typVariants(string(typ), seq) {
							rec(typs+string(t), append(seqs, seq))
						}
					}
				}
			}
			rec("", nil)
		}
	}

	enumerateRound6(cf, want, out)

	// ---- thorough: the item families once more over the 4-letter alphabets and three items
	if tier == engine.Thorough {
		for _, fn := range allItem {
			if want(fn) {
				itemGrid(fn, "abcd", "abBc", "abc", 4)
			}
		}
	}
}

// seqTuples calls f with every tuple of len(typs) sequences (every word of length 0..maxL over the alphabet, an
// empty list written both '() and nil), simplest first in the last position.
func seqTuples(typs string, ab, sab string, maxL int, f func(typs string, seqs []string)) {
	chars := strings.ContainsRune(typs, 'S')
	var rec func(i int, ts string, seqs []string)
	rec = func(i int, ts string, seqs []string) {
		if i == len(typs) {
			f(ts, append([]string(nil), seqs...))
			return
		}
		letters := ab
		if chars {
			letters = sab
		}
		for _, q := range allSeqs(letters, maxL) {
			for _, t := range typVariants(typs[i:i+1], q) {
				rec(i+1, ts+string(t), append(seqs, q))
			}
		}
	}
	rec(0, "", nil)
}

// enumerateRound6: the functions and argument shapes added in the sixth round (see bound()).
func enumerateRound6(cf cfg, want func(string) bool, out func(*call)) {
	// ---- mapc mapcan mapcon mapl maplist over one, two and three lists of (un)equal length
	lmPreds := map[string][][]string{ // function -> arity-1 functions, n-ary functions
		"mapc":    {{"acc"}, {"acc"}},
		"mapl":    {{"acc"}, {"acc"}},
		"maplist": {{"self", "tuple"}, {"tuple"}},
		"mapcan":  {{"dup", "filt", "tuple"}, {"tuple", "filt"}},
		"mapcon":  {{"copy", "filt", "tuple"}, {"tuple", "filt"}},
	}
	for _, fn := range []string{"mapc", "mapl", "maplist", "mapcan", "mapcon"} {
		if !want(fn) {
			continue
		}
		for arity, maxL := range []int{cf.lmL1, cf.lmL2, cf.lmL3} {
			ab := cf.letters
			if arity == 2 {
				ab = cf.ab3
			}
			preds := lmPreds[fn][min(arity, 1)]
			seqTuples(strings.Repeat("L", arity+1), ab, ab, maxL, func(typs string, seqs []string) {
				for _, pred := range preds {
					out(&call{fn: fn, typs: typs, seqs: seqs, pred: pred})
				}
			})
		}
	}
	// ---- mapcar over three lists
	if want("mapcar") {
		seqTuples("LLL", cf.ab3, cf.ab3, cf.lmL3, func(typs string, seqs []string) {
			out(&call{fn: "mapcar", typs: typs, seqs: seqs, pred: "tuple"})
		})
	}
	// ---- map-into: result list x zero, one, two source lists; vectors (not documented: a rejection is accepted)
	if want("map-into") {
		for _, rt := range "LV" {
			for n := 0; n <= cf.intoL; n++ {
				r := strings.Repeat("r", n)
				for _, t0 := range typVariants(string(rt), r) {
					out(&call{fn: "map-into", typs: string(t0), seqs: []string{r}, pred: "tuple"})
					for _, st := range []string{"L", "LL", "V", "LV"} {
						if rt == 'V' && st != "L" && st != "V" {
							continue
						}
						seqTuples(st, cf.ab3, cf.ab3, cf.intoL, func(typs string, seqs []string) {
							out(&call{fn: "map-into", typs: string(t0) + typs, seqs: append([]string{r}, seqs...), pred: "tuple"})
						})
					}
				}
			}
		}
	}
	// ---- map and the quantifiers over three sequences of every mix of list, vector and string
	var mixes []string
	for _, a := range "LVS" {
		for _, b := range "LVS" {
			for _, c := range "LVS" {
				mixes = append(mixes, string(a)+string(b)+string(c))
			}
		}
	}
	if want("map") {
		for _, mix := range mixes {
			seqTuples(mix, cf.ab3, cf.sab3, cf.seq3L, func(typs string, seqs []string) {
				out(&call{fn: "map", typs: typs, seqs: seqs, pred: "acc", rtype: "nil"})
				out(&call{fn: "map", typs: typs, seqs: seqs, pred: "tuple", rtype: "list"})
				out(&call{fn: "map", typs: typs, seqs: seqs, pred: "tuple", rtype: "vector"})
				if strings.ContainsRune(typs, 'S') {
					out(&call{fn: "map", typs: typs, seqs: seqs, pred: "last", rtype: "string"})
				}
			})
		}
		// result type nil with one and two sequences: the calls are observed
		for _, mix := range []string{"L", "V", "S", "LL", "LV", "VL", "VV", "SL", "VS", "SS"} {
			seqTuples(mix, cf.letters, cf.sletters, cf.mapL, func(typs string, seqs []string) {
				out(&call{fn: "map", typs: typs, seqs: seqs, pred: "acc", rtype: "nil"})
			})
		}
	}
	for _, fn := range quantFns {
		if !want(fn) {
			continue
		}
		for _, mix := range mixes {
			seqTuples(mix, cf.ab3, cf.sab3, cf.seq3L, func(typs string, seqs []string) {
				for _, pred := range []string{"eq3", "lt13"} {
					out(&call{fn: fn, typs: typs, seqs: seqs, pred: pred})
				}
			})
		}
	}
	// ---- adjoin / pushnew: symbols, whole conses (equality tests only) and :key car, every documented test
	for _, fn := range []string{"adjoin", "pushnew"} {
		if !want(fn) {
			continue
		}
		tests := []string{"", "equal", "eqv", "lam"}
		if fn == "pushnew" {
			tests = append(tests, "not", "notlam") // pushnew documents :test-not
		}
		for _, seq := range allSeqs(cf.letters, cf.adjL) {
			for _, t := range typVariants("L", seq) {
				for _, item := range "abc" {
					for _, mode := range []string{"", "nums", "pairs", "key"} {
						for _, test := range tests {
							c := &call{fn: fn, typs: string(t), seqs: []string{seq}, item: string(item), test: test}
							switch mode {
							case "pairs", "nums":
								c.pred = mode
							case "key":
								c.key = true
							}
							if c.valid() {
								out(c)
							}
						}
					}
				}
			}
		}
	}
	// ---- set-exclusive-or / nset-exclusive-or
	for _, fn := range []string{"set-exclusive-or", "nset-exclusive-or"} {
		if !want(fn) {
			continue
		}
		seqTuples("LL", cf.letters, cf.letters, cf.setL, func(typs string, seqs []string) {
			for _, key := range []bool{false, true} {
				for _, test := range []string{"", "equal", "eqv", "lam"} {
					out(&call{fn: fn, typs: typs, seqs: seqs, key: key, test: test})
				}
			}
		})
	}
	// ---- replace with one object as target and source, every pair of in-range regions
	if want("replace-self") {
		for _, typ := range "LVS" {
			ab := cf.letters
			if typ == 'S' {
				ab = cf.sletters
			}
			for _, seq := range allSeqs(ab, cf.selfL) {
				for _, b1 := range pairBounds(len(seq)) {
					for _, b2 := range pairBounds(len(seq)) {
						c := &call{fn: "replace-self", typs: string(typ), seqs: []string{seq}}
						c.setBounds(b1)
						c.setBounds2(b2)
						out(c)
					}
				}
			}
		}
	}
	// ---- elt (every index from -1 to length + 1), subseq with indices outside the sequence, copy-seq,
	// make-sequence, reverse / nreverse / copy-seq of vectors with a fill pointer
	for _, typ := range "LVSF" {
		ab := cf.letters
		if typ == 'S' {
			ab = cf.sletters
		}
		for _, seq := range allSeqs(ab, cf.subL) {
			n := len(seq)
			for _, t := range typVariants(string(typ), seq) {
				if want("copy-seq") {
					out(&call{fn: "copy-seq", typs: string(t), seqs: []string{seq}})
				}
				if typ == 'F' {
					for _, fn := range []string{"reverse", "nreverse"} {
						if want(fn) {
							out(&call{fn: fn, typs: string(t), seqs: []string{seq}})
						}
					}
					// every / some / notany / notevery must not look behind the fill pointer; subseq inside the active part
					for _, fn := range quantFns {
						if want(fn) {
							for _, pred := range []string{"eq", "gt", "hid"} {
								out(&call{fn: fn, typs: string(t), seqs: []string{seq}, pred: pred})
							}
						}
					}
					if want("subseq") {
						for s := 0; s <= n; s++ {
							out(&call{fn: "subseq", typs: string(t), seqs: []string{seq}, hasStart: true, start: s})
							for e := s; e <= n; e++ {
								out(&call{fn: "subseq", typs: string(t), seqs: []string{seq}, hasStart: true, start: s, subEnd: strconv.Itoa(e)})
							}
						}
					}
				}
				if want("elt") {
					for i := -1; i <= n+1; i++ {
						out(&call{fn: "elt", typs: string(t), seqs: []string{seq}, hasStart: true, start: i})
					}
				}
				if want("subseq") {
					sub := func(s int, e string) {
						out(&call{fn: "subseq", typs: string(t), seqs: []string{seq}, hasStart: true, start: s, subEnd: e})
					}
					sub(-1, "")
					sub(n+1, "")
					sub(n+1, "nil")
					sub(n+1, strconv.Itoa(n+1))
					for s := 0; s <= n; s++ {
						sub(s, strconv.Itoa(n+1))
						if 0 < s {
							sub(s, strconv.Itoa(s-1))
						}
					}
				}
			}
		}
	}
	if want("make-sequence") {
		for _, rt := range []string{"list", "vector", "string"} {
			for n := 0; n <= cf.subL; n++ {
				for _, init := range []bool{true, false} {
					out(&call{fn: "make-sequence", rtype: rt, hasStart: true, start: n, init: init})
				}
			}
		}
	}
	// ---- merge: the two mixes of vector and string the older grid leaves out
	if want("merge") {
		for _, tp := range []string{"VS", "SV"} {
			seqTuples(tp, cf.sortSAB, cf.sortSAB, cf.mergeL, func(typs string, seqs []string) {
				for _, rt := range []string{"list", "vector", "string"} {
					for _, pred := range []string{"lt", "gtp"} {
						for _, key := range []bool{false, true} {
							c := &call{fn: "merge", typs: typs, seqs: seqs, pred: pred, key: key, rtype: rt}
							if c.valid() {
								out(c)
							}
						}
					}
				}
			})
		}
	}
}
