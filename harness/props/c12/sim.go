package c12

import (
	"fmt"
	"sort"
	"strconv"
	"strings"
)

// simWorld is a small simulated CLOS used only by the oracle-sensitivity
// self-test: mutant == "" behaves as the statement asks; every other value
// plants one realistic bug.
type simWorld struct {
	mutant    string
	n         int
	defs      []classDef
	defined   []bool
	ready     []bool
	order     []int       // definition order
	cls       []*simClass // the class object currently registered under each name
	insts     []*simInst
	cached    map[int]string // effective methods cached under the class name, emptied by every defclass (mutant dispatch-cache-shared-by-old-and-new-class)
	keepCache map[int]string // mutant stale-dispatch-cache: never emptied
	ext       bool
	lastEv    []string
	old       map[int]int
}

// simClass is a class object: a redefinition makes a new one for the redefined name, the other classes keep theirs
// and are merged again.
type simClass struct {
	cls    int
	view   []classDef        // the definitions the class was last merged against
	shared map[string]string // storage of the slots this class declares with :allocation :class
}

type simInst struct {
	class      *simClass
	vals       map[string]string // slot -> state ("unb" | "v:..") of the instance-allocated slots
	precAtMake []int
}

var mutants = []string{
	"initform-least-specific",
	"shared-initarg-fills-one-slot",
	"redefinition-skips-indirect-subclasses",
	"ready-single-pass",
	"precedence-depth-first",
	"typep-direct-only",
	"writer-leaks-into-other-slot",
	"dispatch-in-definition-order",
	"initarg-of-shadowed-declaration-lost",
	"stale-dispatch-cache",
	// sixth round
	"default-initargs-least-specific-wins",
	"default-initargs-not-inherited",
	"default-initargs-evaluated-at-defclass",
	"initform-beats-default-initarg",
	"slot-makunbound-skips-shadowing-slot",
	"with-slots-setq-not-written-back",
	"class-slot-stored-per-instance",
	"inherited-class-slot-missing",
	"change-class-keeps-own-slots-only",
	"old-instance-dispatches-by-list-at-creation",
	"dispatch-cache-shared-by-old-and-new-class",
	"after-methods-most-specific-first",
	"init-after-methods-run-before-slots-are-filled",
	"subtypep-direct-only",
	"identical-redefinition-resets-subclass",
}

func newSim(n int, mutant string) *simWorld {
	return &simWorld{mutant: mutant, n: n, defs: make([]classDef, n), defined: make([]bool, n), ready: make([]bool, n),
		cls: make([]*simClass, n), cached: map[int]string{}, keepCache: map[int]string{}, old: map[int]int{}}
}

func (w *simWorld) setExt() { w.ext = true }

func (w *simWorld) closureDefined(i int) bool {
	_, ok := ancestors(w.defs, w.defined, i)
	return ok
}

func (w *simWorld) defclass(i int, d classDef) string {
	redef := w.defined[i]
	same := redef && w.defs[i].String() == d.String() && w.defs[i].bump == d.bump
	var indirect map[int]bool
	if redef && w.mutant == "redefinition-skips-indirect-subclasses" {
		indirect = map[int]bool{}
		for c := 0; c < w.n; c++ {
			if !w.defined[c] || c == i {
				continue
			}
			anc, _ := ancestors(w.defs, w.defined, c)
			direct := false
			for _, s := range w.defs[c].supers {
				if s == i {
					direct = true
				}
			}
			if anc[i] && !direct {
				indirect[c] = true
			}
		}
	}
	w.defs[i] = d
	if !redef {
		w.defined[i] = true
		w.order = append(w.order, i)
	}
	w.cls[i] = &simClass{cls: i, shared: map[string]string{}}
	snapshot := append([]classDef(nil), w.defs...)
	if w.mutant == "ready-single-pass" {
		directReady := func(c int) bool {
			for _, s := range w.defs[c].supers {
				if !w.defined[s] || !w.ready[s] {
					return false
				}
			}
			return true
		}
		w.ready[i] = directReady(i)
		for _, c := range w.order { // one pass, definition order
			if !w.ready[c] && directReady(c) {
				w.ready[c] = true
			}
		}
	} else {
		for c := 0; c < w.n; c++ {
			w.ready[c] = w.defined[c] && w.closureDefined(c)
		}
	}
	for c := 0; c < w.n; c++ {
		if !w.defined[c] {
			continue
		}
		if indirect[c] && w.cls[c].view != nil {
			// keeps the old definition of class i, sees everything else
			keep := w.cls[c].view[i]
			w.cls[c].view = append([]classDef(nil), snapshot...)
			w.cls[c].view[i] = keep
			continue
		}
		if same && w.mutant == "identical-redefinition-resets-subclass" && c != i {
			if anc, _ := ancestors(w.defs, w.defined, c); anc[i] {
				// the subclass loses what it inherited through the redefined class until it is defined again
				v := append([]classDef(nil), snapshot...)
				v[i] = classDef{supers: snapshot[i].supers, sopt: "-", uopt: "-"}
				w.cls[c].view = v
				continue
			}
		}
		w.cls[c].view = snapshot
	}
	// the storage of a class slot is created when the class that declares it is defined
	for _, sd := range d.slots(i) {
		if sd.shared {
			w.cls[i].shared[sd.name] = "unb"
			if sd.form == 1 {
				w.cls[i].shared[sd.name] = "v:" + strconv.Itoa(sd.val)
			} else if sd.form == 2 {
				w.cls[i].shared[sd.name] = "v:nil"
			}
		}
	}
	w.cached = map[int]string{}
	return ""
}

func (w *simWorld) defmethods(i int) string { return "" }

func (w *simWorld) precOfClass(c *simClass) []int {
	defs := c.view
	if w.mutant == "precedence-depth-first" {
		var out []int
		seen := map[int]bool{}
		var walk func(x int)
		walk = func(x int) {
			if seen[x] {
				return
			}
			seen[x] = true
			out = append(out, x)
			for _, s := range defs[x].supers {
				walk(s)
			}
		}
		walk(c.cls)
		return out
	}
	return canonPrec(defs, c.cls)
}

func (w *simWorld) prec(i int) []int { return w.precOfClass(w.cls[i]) }

func (w *simWorld) precedence(i int) string {
	if !w.defined[i] {
		return "ERR:error"
	}
	if !w.ready[i] {
		return "nil"
	}
	return precText(w.prec(i)) + " standard-object t"
}

// effective declaration of slot sl for class object c: the declarations in precedence order.
func (w *simWorld) decls(c *simClass, sl string) (decls []slotDecl, owners []int) {
	for _, x := range w.precOfClass(c) {
		if sd, ok := c.view[x].slot(x, sl); ok {
			decls = append(decls, sd)
			owners = append(owners, x)
		}
	}
	return
}

// storage of a class slot: in the class object of the class with the most specific declaration.
func (w *simWorld) sharedStore(c *simClass, owner int) map[string]string {
	if owner == c.cls {
		return c.shared
	}
	return w.cls[owner].shared
}

func (w *simWorld) evaluated() string {
	l := append([]string(nil), w.lastEv...)
	sort.Strings(l)
	return strings.Join(l, ",")
}

func (w *simWorld) make(i int, sigma []string) (int, string) {
	if !w.defined[i] || !w.ready[i] {
		return -1, "ERR:error"
	}
	c := w.cls[i]
	defs := c.view
	order := w.precOfClass(c)
	inst := &simInst{class: c, vals: map[string]string{}, precAtMake: order}
	w.lastEv = nil
	set := func(sl string, decls []slotDecl, owners []int, v string) {
		if decls[0].shared && w.mutant != "class-slot-stored-per-instance" {
			w.sharedStore(c, owners[0])[sl] = v
		} else {
			inst.vals[sl] = v
		}
	}
	// every supplied initarg must be valid
	for _, a := range sigma {
		if len(argSlotsIn(defs, order, a, w.mutant == "initarg-of-shadowed-declaration-lost")) == 0 {
			return -1, "ERR:error"
		}
	}
	filledBy := map[string]bool{} // shared-initarg-fills-one-slot: initargs that already filled a slot
	for _, sl := range slotNames {
		decls, owners := w.decls(c, sl)
		if len(decls) == 0 {
			continue
		}
		if decls[0].shared && w.mutant == "inherited-class-slot-missing" && owners[0] != i {
			continue
		}
		if !decls[0].shared || w.mutant == "class-slot-stored-per-instance" {
			inst.vals[sl] = "unb"
		}
		declared := map[string]bool{}
		for k, sd := range decls {
			for _, a := range sd.initargs {
				declared[a] = true
			}
			if w.mutant == "initarg-of-shadowed-declaration-lost" && k == 0 {
				break
			}
		}
		// explicit initargs, leftmost supplied wins
		done := false
		for _, a := range sigma {
			if !declared[a] {
				continue
			}
			if filledBy[a] && w.mutant == "shared-initarg-fills-one-slot" {
				continue
			}
			filledBy[a] = true
			set(sl, decls, owners, "v:"+strconv.Itoa(argValue[a]))
			done = true
			break
		}
		if done {
			continue
		}
		// initform of the most specific declaration that has one
		pick := -1
		for k, sd := range decls {
			if sd.form != 0 {
				pick = k
				if w.mutant != "initform-least-specific" {
					break
				}
			}
		}
		formVal := ""
		if 0 <= pick {
			formVal = "v:" + strconv.Itoa(decls[pick].val)
			if decls[pick].form == 2 {
				formVal = "v:nil"
			}
		}
		if formVal != "" && w.mutant == "initform-beats-default-initarg" {
			set(sl, decls, owners, formVal)
			continue
		}
		// default initargs: the most specific class that gives a default for an initarg of the slot
		for _, a := range argOrder {
			if !declared[a] || done {
				continue
			}
			found, fx := -1, -1
			for k, x := range order {
				if w.mutant == "default-initargs-not-inherited" && k != 0 {
					break
				}
				if v, has := defs[x].defaults(x)[a]; has {
					found, fx = v, x
					if w.mutant != "default-initargs-least-specific-wins" {
						break
					}
				}
			}
			if 0 <= found {
				if w.mutant != "default-initargs-evaluated-at-defclass" {
					w.lastEv = append(w.lastEv, defaultLabel(fx, a))
				}
				set(sl, decls, owners, "v:"+strconv.Itoa(found))
				done = true
			}
		}
		if done {
			continue
		}
		if formVal != "" {
			if decls[0].shared && w.mutant != "class-slot-stored-per-instance" {
				// a class slot keeps the value it has; the initform only fills an unbound one
				if st := w.sharedStore(c, owners[0]); st[sl] == "unb" || st[sl] == "" {
					st[sl] = formVal
				}
			} else {
				inst.vals[sl] = formVal
			}
		}
	}
	w.insts = append(w.insts, inst)
	return len(w.insts) - 1, "ok"
}

// argSlotsIn: slots for which key is a declared initarg, by the declarations along order.
func argSlotsIn(defs []classDef, order []int, key string, mostSpecificOnly bool) []string {
	var out []string
	for _, sl := range slotNames {
		match := false
		for _, x := range order {
			sd, ok := defs[x].slot(x, sl)
			if !ok {
				continue
			}
			if inList(key, sd.initargs) {
				match = true
			}
			if mostSpecificOnly {
				break
			}
		}
		if match {
			out = append(out, sl)
		}
	}
	return out
}

func (w *simWorld) slotState(in *simInst, sl string) string {
	decls, owners := w.decls(in.class, sl)
	if len(decls) == 0 {
		return "none"
	}
	if decls[0].shared && w.mutant != "class-slot-stored-per-instance" {
		if w.mutant == "inherited-class-slot-missing" && owners[0] != in.class.cls {
			return "none"
		}
		if v, ok := w.sharedStore(in.class, owners[0])[sl]; ok {
			return v
		}
		return "unb"
	}
	if v, ok := in.vals[sl]; ok {
		return v
	}
	// a slot the class gained after the instance was made
	for _, sd := range decls {
		if sd.form == 1 {
			return "v:" + strconv.Itoa(sd.val)
		} else if sd.form == 2 {
			return "v:nil"
		}
	}
	return "unb"
}

func (w *simWorld) setSlot(in *simInst, sl, v string) {
	decls, owners := w.decls(in.class, sl)
	if len(decls) == 0 {
		return
	}
	if decls[0].shared && w.mutant != "class-slot-stored-per-instance" {
		w.sharedStore(in.class, owners[0])[sl] = v
		return
	}
	in.vals[sl] = v
}

func (w *simWorld) dump(in *simInst) string {
	var out []string
	for _, sl := range slotNames {
		out = append(out, w.slotState(in, sl))
	}
	return strings.Join(out, ",")
}

func (w *simWorld) slots(h int) []string { return strings.Split(w.dump(w.insts[h]), ",") }

func (w *simWorld) slotValue(h int, slot string) string {
	v := w.slotState(w.insts[h], slot)
	if v == "none" || v == "unb" {
		return "ERR:unbound-slot"
	}
	return v
}

func (w *simWorld) typeps(h int, n int) string {
	in := w.insts[h]
	i := in.class.cls
	is := map[int]bool{}
	if w.mutant == "typep-direct-only" {
		is[i] = true
		for _, s := range in.class.view[i].supers {
			is[s] = true
		}
	} else {
		for _, x := range w.precOfClass(in.class) {
			is[x] = true
		}
	}
	var out []string
	for j := 0; j < n; j++ {
		v := "nil"
		if is[j] {
			v = "t"
		}
		out = append(out, cname(j)+"="+v)
	}
	return strings.Join(append(out, "so=t"), " ")
}

func (w *simWorld) classOf(h int, i int) string {
	in := w.insts[h]
	return "eq=" + map[bool]string{true: "t", false: "nil"}[in.class == w.cls[i]] + " name=" + cname(in.class.cls)
}

func (w *simWorld) dispatchBy(order []int) string {
	i := order[0]
	if w.mutant == "dispatch-in-definition-order" {
		in := map[int]bool{}
		for _, x := range order {
			in[x] = true
		}
		order = []int{i}
		for x := 0; x < w.n; x++ {
			if in[x] && x != i {
				order = append(order, x)
			}
		}
	}
	var tr []string
	for _, x := range order {
		tr = append(tr, cname(x))
	}
	d := expectedDispatch(tr, w.ext)
	if w.ext && w.mutant == "after-methods-most-specific-first" {
		var t2 []string
		for _, c := range tr {
			t2 = append(t2, "r-"+c)
		}
		for _, c := range tr {
			t2 = append(t2, "b-"+c)
		}
		for _, c := range tr {
			t2 = append(t2, "a-"+c)
		}
		d = "val=" + tr[0] + " trace=" + strings.Join(t2, ",")
	}
	return d
}

func (w *simWorld) dispatch(h int) string {
	in := w.insts[h]
	i := in.class.cls
	order := w.precOfClass(in.class)
	if w.mutant == "old-instance-dispatches-by-list-at-creation" {
		order = in.precAtMake
	}
	if w.mutant == "stale-dispatch-cache" {
		if c, ok := w.keepCache[i]; ok {
			return c
		}
		w.keepCache[i] = w.dispatchBy(order)
	}
	if w.mutant == "dispatch-cache-shared-by-old-and-new-class" {
		// the effective method is cached under the class NAME
		if c, ok := w.cached[i]; ok {
			return c
		}
		w.cached[i] = w.dispatchBy(order)
	}
	return w.dispatchBy(order)
}

func (w *simWorld) flushDispatch() { w.cached = map[int]string{} }

func (w *simWorld) accessor(hx, hy int, slot string) string {
	x, y := w.insts[hx], w.insts[hy]
	x0, y0 := w.dump(x), w.dump(y)
	read := "unb"
	if v := w.slotState(x, slot); strings.HasPrefix(v, "v:") {
		read = v[2:] + "," + v[2:]
	}
	w.setSlot(x, slot, "v:901")
	x1, y1 := w.dump(x), w.dump(y)
	w.setSlot(x, slot, "v:902")
	if w.mutant == "writer-leaks-into-other-slot" {
		for _, sl := range slotNames {
			if w.slotState(x, sl) != "none" {
				w.setSlot(x, sl, "v:902")
			}
		}
	}
	x2, y2 := w.dump(x), w.dump(y)
	return fmt.Sprintf("x0=%s;y0=%s;read=%s;x1=%s;y1=%s;x2=%s;y2=%s", x0, y0, read, x1, y1, x2, y2)
}

func (w *simWorld) warm(i int) {
	if !w.defined[i] || !w.ready[i] {
		return
	}
	if w.ext {
		if h, res := w.make(i, nil); res == "ok" {
			w.old[i] = h
			_ = w.dispatch(h)
		}
		return
	}
	if w.mutant == "stale-dispatch-cache" {
		if _, ok := w.keepCache[i]; !ok {
			w.keepCache[i] = w.dispatchBy(w.prec(i))
		}
	}
}

func (w *simWorld) close() {}

// ---------------------------------------------------------------- extended probes

func (w *simWorld) initTrace(h int) string {
	in := w.insts[h]
	order := w.precOfClass(in.class)
	var names []string
	for _, p := range []string{"sh-", "in-"} {
		if w.mutant == "after-methods-most-specific-first" {
			for _, x := range order {
				names = append(names, p+cname(x))
			}
		} else {
			for k := len(order) - 1; 0 <= k; k-- {
				names = append(names, p+cname(order[k]))
			}
		}
	}
	saw := "final"
	if w.mutant == "init-after-methods-run-before-slots-are-filled" {
		for _, sl := range slotNames {
			if st := w.slotState(in, sl); st != "none" && st != "unb" {
				saw = "other-state-in-sh"
			}
		}
	}
	return strings.Join(names, ",") + " saw=" + saw
}

func (w *simWorld) slotops(hx, hy int, slot string) string {
	x, y := w.insts[hx], w.insts[hy]
	var out []string
	out = append(out, "x0="+w.dump(x), "y0="+w.dump(y))
	if !(w.mutant == "slot-makunbound-skips-shadowing-slot" && 1 < len(func() []slotDecl { d, _ := w.decls(x.class, slot); return d }())) {
		w.setSlot(x, slot, "unb")
	}
	out = append(out, "x1="+w.dump(x), "y1="+w.dump(y))
	if w.slotState(x, slot) == "unb" {
		out = append(out, "rd=err")
	} else {
		out = append(out, "rd="+w.slotState(x, slot))
	}
	w.setSlot(x, slot, "v:903")
	out = append(out, "x2="+w.dump(x), "y2="+w.dump(y), "ws="+w.slotState(x, slot))
	if w.mutant != "with-slots-setq-not-written-back" {
		w.setSlot(x, slot, "v:904")
	}
	out = append(out, "x3="+w.dump(x), "y3="+w.dump(y))
	return strings.Join(out, ";")
}

func (w *simWorld) subtypeps(i, n int) string {
	is := map[int]bool{}
	if w.mutant == "subtypep-direct-only" {
		is[i] = true
		for _, s := range w.cls[i].view[i].supers {
			is[s] = true
		}
	} else {
		for _, x := range w.prec(i) {
			is[x] = true
		}
	}
	var out []string
	for j := 0; j < n; j++ {
		v := "nil"
		if is[j] {
			v = "t"
		}
		out = append(out, cname(j)+"="+v)
	}
	return strings.Join(out, " ")
}

func (w *simWorld) share(hx, hy int, others []int, slot string, cls int) string {
	x, y := w.insts[hx], w.insts[hy]
	before := make([]string, len(others))
	for k, h := range others {
		before[k] = w.dump(w.insts[h])
	}
	out := []string{"x0=" + w.dump(x), "y0=" + w.dump(y)}
	w.setSlot(x, slot, "v:905")
	out = append(out, "x1="+w.dump(x), "y1="+w.dump(y))
	for k, h := range others {
		out = append(out, fmt.Sprintf("o%d=%s>%s", k, before[k], w.dump(w.insts[h])))
	}
	hz, res := w.make(cls, nil)
	if res != "ok" {
		return res + "@make-instance"
	}
	out = append(out, "z="+w.dump(w.insts[hz]), "y2="+w.dump(y))
	return strings.Join(out, ";")
}

func (w *simWorld) makeLogged(i int, sigma []string) (int, string) { return w.make(i, sigma) }

func (w *simWorld) changeClass(h, j, n int) string {
	if r := w.changeClass0(h, j); r != "ok" {
		return "res=" + r
	}
	return fmt.Sprintf("res=ok;after=%s;cof=%s;typep=%s;disp=%s", w.dump(w.insts[h]), w.classOf(h, j), w.typeps(h, n), w.dispatch(h))
}

func (w *simWorld) changeClass0(h, j int) string {
	if !w.defined[j] || !w.ready[j] {
		return "ERR:error"
	}
	in := w.insts[h]
	oldStates := map[string]string{}
	for _, sl := range slotNames {
		oldStates[sl] = w.slotState(in, sl)
	}
	in.class = w.cls[j]
	in.vals = map[string]string{}
	in.precAtMake = w.precOfClass(in.class)
	for _, sl := range slotNames {
		decls, owners := w.decls(in.class, sl)
		if len(decls) == 0 || decls[0].shared {
			continue
		}
		if w.mutant == "change-class-keeps-own-slots-only" && owners[0] != j {
			in.vals[sl] = "gone"
			continue
		}
		if st := oldStates[sl]; st != "none" {
			in.vals[sl] = st
			continue
		}
		in.vals[sl] = "unb"
		for _, sd := range decls {
			if sd.form == 1 {
				in.vals[sl] = "v:" + strconv.Itoa(sd.val)
				break
			} else if sd.form == 2 {
				in.vals[sl] = "v:nil"
				break
			}
		}
	}
	if w.mutant == "change-class-keeps-own-slots-only" {
		for sl, v := range in.vals {
			if v == "gone" {
				in.vals[sl] = "none"
			}
		}
	}
	return "ok"
}

func (w *simWorld) oldInst(i int) (int, bool) {
	h, ok := w.old[i]
	return h, ok
}

func (w *simWorld) precOf(h int) string {
	return precText(w.precOfClass(w.insts[h].class)) + " standard-object t"
}
