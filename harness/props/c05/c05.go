// Package c05: exact integer/rational arithmetic and comparisons, decided by
// exhaustive enumeration of operator x operand tuples over the boundary grid
// against math/big.
package c05

import (
	"fmt"
	"math/big"
	"strings"

	"github.com/ohler55/slip"

	"verif/engine"
	"verif/lisp"
)

func init() {
	engine.Register(&engine.Prop{
		ID:    "C05",
		Level: "exploration",
		Rule: "every operator x every operand tuple over the boundary grid (see bound_completed); operands are built in Go " +
			"(Fixnum / *Bignum / *Ratio / floats) and bound to variables, the operation is evaluated through ReadString+Eval, " +
			"the result is read by type switch and compared with math/big (the bitwise, boole and byte operations with And / Or / " +
			"Xor / Not / Rsh of big.Int, which work on the infinite two's complement of a negative integer), the operand variables " +
			"are re-read; a result is canonical when it is a Fixnum if it fits one, a *Bignum otherwise, a *Ratio in lowest terms " +
			"only when the denominator is not 1 (a signed-byte / unsigned-byte object is not canonical); a case is " +
			"non-trivial when at least one operand or the exact result lies outside the fixnum range or is a ratio or a float, " +
			"every byte-operation case and every call without arguments is non-trivial",
		Assumptions: []string{
			"math/big is the oracle (trusted)",
			"float arithmetic is outside the statement; floats appear only as comparison operands (binary and n-ary)",
			"mod/rem/gcd/lcm/log*/boole/ash/isqrt/ldb/dpb/mask-field/deposit-field are exercised on integers only (their CL domain)",
			"a call without arguments of an operator that has no identity (- / max min and the comparisons) is only required not to fault",
			"byte specifiers are built with (byte size position) from non-negative fixnums; setf of ldb / mask-field is not exercised",
		},
		Enumerate: enumerate,
		Exec:      exec,
		Selftest:  selftest,
		Required: []string{"big-operand", "ratio-operand", "overflow-boundary", "float-compare",
			"bit-op", "bit-negative-bignum", "bit-sign-extension", "boole", "byte-spec", "byte-beyond-width-of-negative",
			"byte-beyond-first-word", "nary-no-argument", "nary-one-argument", "nary-mixed-representations", "nary-float-compare",
			"site-case", "site-first-result-held-by-reference", "site-result-handed-back-as-operand"},
		Bound: func(tier string) string {
			n := len(intGrid(tier))
			bits := fmt.Sprintf("; bitwise: all pairs of the %d integers for logandc1 logandc2 logeqv lognand lognor logorc1 logorc2 logtest and "+
				"the 16 boole operations, all %d integers for logcount integer-length, logbitp index grid x integers; "+
				"byte operations: ldb ldb-test mask-field over %d sizes x %d positions x %d integers, dpb deposit-field additionally x %d newbytes, "+
				"byte-size / byte-position of every (byte size position); n-ary: 18 operators (logand logior logxor logeqv gcd lcm + * - / max min "+
				"= /= < <= > >=) with no argument, with one argument (every grid integer and ratio), all triples over %d integers (bitwise, gcd, lcm) "+
				"resp. %d rationals (the others), comparisons over all triples with at least one float over %d alphabets of 9 "+
				"(n-1, n, n+1 and the double / single / long floats equal and adjacent to n)",
				n, n, len(byteSizes), len(bytePositions), n, len(newbyteGrid()), len(naryIntGrid(tier)), len(naryRatGrid(tier)), len(naryFloatAlphabets(tier)))
			bits += fmt.Sprintf("; call sites: one lambda body per operator (%d binary, ash, expt, %d unary) evaluated twice and a third time with its own first result as operand, "+
				"first operands over all pairs of a %d-value grid (fixnum / bignum / ratio on both sides of 2^62, 2^63, 2^64, 2^100), %d second operand pairs; the first result "+
				"looked at after the later calls, the later results and the operand objects are compared with one evaluation of a fresh copy of the form (%d cases)",
				len(siteBinOps()), len(unOps)+2, len(siteGridText), len(siteSecond), siteCaseCount())
			if tier == engine.Thorough {
				return fmt.Sprintf("all pairs over %d integers + %d ratios for 24 binary operators, all unary, expt exponent -3..70, ash shift -130..130, all triples over an 11-element subgrid for n-ary + * - < = <= max min, integer (grid + 12 precision-edge integers of the single and double formats) x adjacent single/double/long floats for 6 comparisons", len(intGrid(engine.Thorough)), len(ratGrid())) + bits
			}
			return fmt.Sprintf("all pairs over %d integers + %d ratios for 24 binary operators, all unary, expt exponent 0..20, ash shift on a 17-value grid, triples over a 6-element subgrid, integer (grid + 12 precision-edge integers) x adjacent single/double/long floats for 6 comparisons", len(intGrid(engine.Quick)), len(ratGrid())) + bits
		},
	})
}

func pow2(n uint) *big.Int { return new(big.Int).Lsh(big.NewInt(1), n) }

func intGrid(tier string) []*big.Int {
	var g []*big.Int
	seen := map[string]bool{}
	add := func(v *big.Int) {
		if seen[v.String()] {
			return
		}
		seen[v.String()] = true
		g = append(g, v)
		if v.Sign() != 0 {
			g = append(g, new(big.Int).Neg(v))
		}
	}
	add(big.NewInt(0))
	add(big.NewInt(1))
	add(big.NewInt(2))
	add(big.NewInt(3))
	add(big.NewInt(7))
	add(big.NewInt(10))
	add(pow2(31))
	add(pow2(32))
	add(pow2(53))
	add(new(big.Int).Add(pow2(53), big.NewInt(1)))
	add(pow2(62))
	add(new(big.Int).Sub(pow2(63), big.NewInt(1)))
	add(pow2(63))
	add(new(big.Int).Add(pow2(63), big.NewInt(1)))
	add(pow2(64))
	add(new(big.Int).Add(pow2(64), big.NewInt(1)))
	add(new(big.Int).Sub(pow2(64), big.NewInt(1)))
	// 200-bit values
	a, _ := new(big.Int).SetString("1234567890123456789012345678901234567890123456789012345678901", 10)
	b, _ := new(big.Int).SetString("fedcba9876543210fedcba9876543210fedcba9876543210ff", 16)
	add(a)
	add(b)
	// beyond the range of every float format the interpreter could take a shortcut through (2^1100 > 1.8e308)
	add(pow2(1100))
	if tier == engine.Thorough {
		// thorough: the neighbourhood of every representation boundary (word sizes, float mantissas, two and four
		// words) and the small integers
		for _, k := range []uint{7, 8, 15, 16, 24, 30, 33, 47, 48, 52, 54, 61, 65, 66, 95, 96, 127, 128, 129, 191, 192} {
			add(new(big.Int).Sub(pow2(k), big.NewInt(1)))
			add(pow2(k))
			add(new(big.Int).Add(pow2(k), big.NewInt(1)))
		}
		for i := int64(4); i <= 12; i++ {
			add(big.NewInt(i))
		}
	}
	return g
}

func ratGrid() []*big.Rat {
	var g []*big.Rat
	// a ratio too small for a double float (it is not zero, it has a sign) and one too large
	tiny := new(big.Rat).SetFrac(big.NewInt(1), pow2(1100))
	huge := new(big.Rat).SetFrac(new(big.Int).Add(pow2(1100), big.NewInt(1)), big.NewInt(2))
	g = append(g, tiny, new(big.Rat).Neg(tiny), huge)
	nums := []*big.Int{big.NewInt(1), big.NewInt(2), big.NewInt(3), pow2(31), pow2(63), new(big.Int).Add(pow2(64), big.NewInt(1))}
	seen := map[string]bool{}
	for _, n := range nums {
		for _, d := range nums {
			r := new(big.Rat).SetFrac(n, d)
			if r.IsInt() || seen[r.String()] {
				continue
			}
			seen[r.String()] = true
			g = append(g, r, new(big.Rat).Neg(r))
		}
	}
	if 23 < len(g) {
		g = g[:23]
	}
	return g
}

var binOps = []string{"+", "-", "*", "/", "floor", "ceiling", "truncate", "round", "mod", "rem", "gcd", "lcm",
	"logand", "logior", "logxor", "=", "/=", "<", "<=", ">", ">=", "max", "min", "incf", "decf"}
var intOnly = map[string]bool{"gcd": true, "lcm": true, "logand": true, "logior": true, "logxor": true}
var unOps = []string{"abs", "1+", "1-", "neg", "recip", "isqrt", "zerop", "plusp", "minusp", "lognot", "floor1", "ceiling1", "truncate1", "round1", "incf1", "decf1", "numerator", "denominator", "evenp", "oddp", "signum"}
var triOps = []string{"+", "*", "-", "<", "=", "<=", "max", "min"}
var cmpOps = []string{"=", "/=", "<", "<=", ">", ">="}

func ratText(r *big.Rat) string {
	if r.IsInt() {
		return r.Num().String()
	}
	return r.Num().String() + "/" + r.Denom().String()
}

func enumerate(tier string, emit func(string)) {
	ints := intGrid(tier)
	rats := ratGrid()
	var all []string
	for _, i := range ints {
		all = append(all, i.String())
	}
	nint := len(all)
	for _, r := range rats {
		all = append(all, ratText(r))
	}
	for _, op := range unOps {
		for _, a := range all {
			emit("u|" + op + "|" + a)
		}
	}
	// isqrt around perfect squares: n = k*k-1, k*k, k*k+1, k*k+k and (k+1)^2-1 for k around every power of two up to
	// 2^100 and around the roots of the representation boundaries (2^53, 2^63, 2^64): a root taken through a float is
	// one too many just below a perfect square, a root through a 64-bit word overflows
	var ks []*big.Int
	for j := uint(1); j <= 100; j++ {
		for d := int64(-1); d <= 1; d++ {
			ks = append(ks, new(big.Int).Add(pow2(j), big.NewInt(d)))
		}
	}
	for _, k := range []int64{67108865, 80000001, 94906265, 94906266, 94906267, 3037000499, 3037000500, 4294967295, 4294967296, 4294967297} {
		ks = append(ks, big.NewInt(k))
	}
	one := big.NewInt(1)
	for _, k := range ks {
		if k.Sign() <= 0 {
			continue
		}
		sq := new(big.Int).Mul(k, k)
		k1 := new(big.Int).Add(k, one)
		for _, n := range []*big.Int{new(big.Int).Sub(sq, one), sq, new(big.Int).Add(sq, one), new(big.Int).Add(sq, k),
			new(big.Int).Sub(new(big.Int).Mul(k1, k1), one)} {
			emit("u|isqrt|" + n.String())
		}
	}
	for _, op := range binOps {
		for ai, a := range all {
			for bi, b := range all {
				if intOnly[op] && (nint <= ai || nint <= bi) {
					continue
				}
				emit("b|" + op + "|" + a + "|" + b)
			}
		}
	}
	// expt
	lo, hi := 0, 20
	if tier == engine.Thorough {
		lo, hi = -3, 70
	}
	for _, a := range all {
		for e := lo; e <= hi; e++ {
			emit(fmt.Sprintf("b|expt|%s|%d", a, e))
		}
	}
	// ash
	var shifts []int
	if tier == engine.Thorough {
		for s := -130; s <= 130; s++ {
			shifts = append(shifts, s)
		}
	} else {
		shifts = []int{-130, -65, -64, -63, -62, -32, -1, 0, 1, 31, 32, 62, 63, 64, 65, 100, 130}
	}
	for _, a := range all[:nint] {
		for _, s := range shifts {
			emit(fmt.Sprintf("b|ash|%s|%d", a, s))
		}
	}
	// n-ary triples
	sub := []string{"0", "1", "-1", pow2(62).String(), new(big.Int).Neg(pow2(62)).String(), new(big.Int).Sub(pow2(63), big.NewInt(1)).String()}
	if tier == engine.Thorough {
		sub = append(sub, new(big.Int).Neg(pow2(63)).String(), pow2(64).String(), new(big.Int).Neg(pow2(64)).String(), "1/2", "-2/3")
	}
	for _, op := range triOps {
		for _, a := range sub {
			for _, b := range sub {
				for _, c := range sub {
					emit("t|" + op + "|" + a + "|" + b + "|" + c)
				}
			}
		}
	}
	// integer vs adjacent floats
	kinds := []string{"d", "f", "l"}
	// integers at the precision edge of the single and double formats (exact as a double but not as a single, ...):
	// used for this family only, on both sides
	var edge []string
	for _, e := range []int64{1<<24 - 1, 1 << 24, 1<<24 + 1, 1<<25 + 1, 1<<32 + 1, 1<<53 - 1} {
		edge = append(edge, fmt.Sprint(e), fmt.Sprint(-e))
	}
	nears := append(append([]string{}, all[:nint]...), edge...)
	for _, op := range cmpOps {
		for _, a := range append(append([]string{}, all...), edge...) {
			for _, near := range nears {
				for _, k := range kinds {
					for _, adj := range []string{"eq", "lo", "hi"} {
						if tier != engine.Thorough && a != near {
							continue
						}
						emit(fmt.Sprintf("f|%s|%s|%s|%s|%s|0", op, a, near, k, adj))
						emit(fmt.Sprintf("f|%s|%s|%s|%s|%s|1", op, a, near, k, adj))
					}
				}
			}
		}
	}
	// sixth round: the other bitwise functions, boole, the byte operations, n-ary forms (bits.go)
	enumerateBits(tier, "", emit)
	// round 8: one call site evaluated twice, the first result looked at again (site.go)
	enumerateSite(tier, emit)
}

func parseRat(s string) *big.Rat {
	r, ok := new(big.Rat).SetString(s)
	if !ok {
		panic("bad operand " + s)
	}
	return r
}

func toObj(r *big.Rat) slip.Object {
	if r.IsInt() {
		n := new(big.Int).Set(r.Num())
		if n.IsInt64() {
			return slip.Fixnum(n.Int64())
		}
		return (*slip.Bignum)(n)
	}
	return (*slip.Ratio)(new(big.Rat).Set(r))
}

func class(r *big.Rat) string {
	if r == nil {
		return "none"
	}
	if r.IsInt() {
		if r.Num().IsInt64() {
			return "fixnum"
		}
		return "bignum"
	}
	return "ratio"
}

// objRat converts a result to (exact value, representation class, canonical?).
func objRat(o slip.Object) (*big.Rat, string, bool) {
	switch v := o.(type) {
	case slip.Fixnum:
		return new(big.Rat).SetInt64(int64(v)), "fixnum", true
	case *slip.Bignum:
		n := (*big.Int)(v)
		return new(big.Rat).SetInt(n), "bignum", !n.IsInt64()
	case *slip.Ratio:
		r := (*big.Rat)(v)
		return new(big.Rat).Set(r), "ratio", !r.IsInt()
	}
	return nil, "", false
}

type expect struct {
	vals []*big.Rat // expected values (1 or 2); nil entry = boolean nil / skip
	bval *bool      // expected boolean
	err  bool       // an error is required
	skip bool       // nothing to compare
}

func floorQ(x, y *big.Rat, mode string) (q *big.Int, r *big.Rat) {
	d := new(big.Rat).Quo(x, y)
	n, dd := d.Num(), d.Denom()
	switch mode {
	case "floor":
		q = new(big.Int).Div(n, dd) // Euclidean with positive divisor = floor
	case "ceiling":
		q = new(big.Int).Neg(new(big.Int).Div(new(big.Int).Neg(n), dd))
	case "truncate":
		q = new(big.Int).Quo(n, dd)
	case "round":
		half := big.NewRat(1, 2)
		s := new(big.Rat).Add(d, half)
		q = new(big.Int).Div(s.Num(), s.Denom())
		if s.IsInt() && q.Bit(0) == 1 {
			q.Sub(q, big.NewInt(1))
		}
	}
	r = new(big.Rat).Sub(x, new(big.Rat).Mul(new(big.Rat).SetInt(q), y))
	return
}

func boolp(b bool) *bool { return &b }

func expected2(op string, x, y *big.Rat) expect {
	ri := func(i *big.Int) *big.Rat { return new(big.Rat).SetInt(i) }
	switch op {
	case "+", "incf":
		return expect{vals: []*big.Rat{new(big.Rat).Add(x, y)}}
	case "-", "decf":
		return expect{vals: []*big.Rat{new(big.Rat).Sub(x, y)}}
	case "*":
		return expect{vals: []*big.Rat{new(big.Rat).Mul(x, y)}}
	case "/":
		if y.Sign() == 0 {
			return expect{err: true}
		}
		return expect{vals: []*big.Rat{new(big.Rat).Quo(x, y)}}
	case "floor", "ceiling", "truncate", "round":
		if y.Sign() == 0 {
			return expect{err: true}
		}
		q, r := floorQ(x, y, op)
		return expect{vals: []*big.Rat{ri(q), r}}
	case "mod":
		if y.Sign() == 0 {
			return expect{err: true}
		}
		_, r := floorQ(x, y, "floor")
		return expect{vals: []*big.Rat{r}}
	case "rem":
		if y.Sign() == 0 {
			return expect{err: true}
		}
		_, r := floorQ(x, y, "truncate")
		return expect{vals: []*big.Rat{r}}
	case "gcd":
		a, b := new(big.Int).Abs(x.Num()), new(big.Int).Abs(y.Num())
		return expect{vals: []*big.Rat{ri(new(big.Int).GCD(nil, nil, a, b))}}
	case "lcm":
		a, b := new(big.Int).Abs(x.Num()), new(big.Int).Abs(y.Num())
		if a.Sign() == 0 || b.Sign() == 0 {
			return expect{vals: []*big.Rat{new(big.Rat)}}
		}
		g := new(big.Int).GCD(nil, nil, a, b)
		return expect{vals: []*big.Rat{ri(new(big.Int).Mul(new(big.Int).Quo(a, g), b))}}
	case "logand":
		return expect{vals: []*big.Rat{ri(new(big.Int).And(x.Num(), y.Num()))}}
	case "logior":
		return expect{vals: []*big.Rat{ri(new(big.Int).Or(x.Num(), y.Num()))}}
	case "logxor":
		return expect{vals: []*big.Rat{ri(new(big.Int).Xor(x.Num(), y.Num()))}}
	case "=":
		return expect{bval: boolp(x.Cmp(y) == 0)}
	case "/=":
		return expect{bval: boolp(x.Cmp(y) != 0)}
	case "<":
		return expect{bval: boolp(x.Cmp(y) < 0)}
	case "<=":
		return expect{bval: boolp(x.Cmp(y) <= 0)}
	case ">":
		return expect{bval: boolp(x.Cmp(y) > 0)}
	case ">=":
		return expect{bval: boolp(x.Cmp(y) >= 0)}
	case "max":
		if x.Cmp(y) >= 0 {
			return expect{vals: []*big.Rat{x}}
		}
		return expect{vals: []*big.Rat{y}}
	case "min":
		if x.Cmp(y) <= 0 {
			return expect{vals: []*big.Rat{x}}
		}
		return expect{vals: []*big.Rat{y}}
	case "expt":
		e := y.Num().Int64()
		if x.Sign() == 0 && e < 0 {
			return expect{err: true}
		}
		ae := e
		if ae < 0 {
			ae = -ae
		}
		n := new(big.Int).Exp(x.Num(), big.NewInt(ae), nil)
		d := new(big.Int).Exp(x.Denom(), big.NewInt(ae), nil)
		r := new(big.Rat).SetFrac(n, d)
		if e < 0 {
			r.Inv(r)
		}
		return expect{vals: []*big.Rat{r}}
	case "ash":
		s := y.Num().Int64()
		if 0 <= s {
			return expect{vals: []*big.Rat{ri(new(big.Int).Lsh(x.Num(), uint(s)))}}
		}
		return expect{vals: []*big.Rat{ri(new(big.Int).Rsh(x.Num(), uint(-s)))}} // Rsh on big.Int is arithmetic (floor)
	}
	if isBitBin(op) {
		return expectedBit2(op, x, y)
	}
	return expect{skip: true}
}

func expected1(op string, x *big.Rat) (expect, string) {
	ri := func(i *big.Int) *big.Rat { return new(big.Rat).SetInt(i) }
	one := big.NewRat(1, 1)
	switch op {
	case "abs":
		return expect{vals: []*big.Rat{new(big.Rat).Abs(x)}}, "(abs x)"
	case "1+":
		return expect{vals: []*big.Rat{new(big.Rat).Add(x, one)}}, "(1+ x)"
	case "1-":
		return expect{vals: []*big.Rat{new(big.Rat).Sub(x, one)}}, "(1- x)"
	case "neg":
		return expect{vals: []*big.Rat{new(big.Rat).Neg(x)}}, "(- x)"
	case "recip":
		if x.Sign() == 0 {
			return expect{err: true}, "(/ x)"
		}
		return expect{vals: []*big.Rat{new(big.Rat).Inv(x)}}, "(/ x)"
	case "isqrt":
		if !x.IsInt() {
			return expect{skip: true}, ""
		}
		if x.Sign() < 0 {
			return expect{err: true}, "(isqrt x)"
		}
		return expect{vals: []*big.Rat{ri(new(big.Int).Sqrt(x.Num()))}}, "(isqrt x)"
	case "zerop":
		return expect{bval: boolp(x.Sign() == 0)}, "(zerop x)"
	case "plusp":
		return expect{bval: boolp(x.Sign() > 0)}, "(plusp x)"
	case "minusp":
		return expect{bval: boolp(x.Sign() < 0)}, "(minusp x)"
	case "lognot":
		if !x.IsInt() {
			return expect{skip: true}, ""
		}
		return expect{vals: []*big.Rat{ri(new(big.Int).Not(x.Num()))}}, "(lognot x)"
	case "floor1", "ceiling1", "truncate1", "round1":
		m := strings.TrimSuffix(op, "1")
		q, r := floorQ(x, one, m)
		return expect{vals: []*big.Rat{ri(q), r}}, "(multiple-value-list (" + m + " x))"
	case "incf1":
		return expect{vals: []*big.Rat{new(big.Rat).Add(x, one)}}, "(let ((v x)) (incf v) v)"
	case "decf1":
		return expect{vals: []*big.Rat{new(big.Rat).Sub(x, one)}}, "(let ((v x)) (decf v) v)"
	case "numerator":
		return expect{vals: []*big.Rat{ri(x.Num())}}, "(numerator x)"
	case "denominator":
		return expect{vals: []*big.Rat{ri(x.Denom())}}, "(denominator x)"
	case "evenp":
		if !x.IsInt() {
			return expect{skip: true}, ""
		}
		return expect{bval: boolp(x.Num().Bit(0) == 0)}, "(evenp x)"
	case "oddp":
		if !x.IsInt() {
			return expect{skip: true}, ""
		}
		return expect{bval: boolp(x.Num().Bit(0) == 1)}, "(oddp x)"
	case "signum":
		return expect{vals: []*big.Rat{big.NewRat(int64(x.Sign()), 1)}}, "(signum x)"
	case "logcount", "integer-length":
		if !x.IsInt() {
			return expect{skip: true}, ""
		}
		return expect{vals: []*big.Rat{ri(bitRef1(op, x.Num(), mutNone))}}, "(" + op + " x)"
	}
	return expect{skip: true}, ""
}

func srcFor2(op string) string {
	switch op {
	case "floor", "ceiling", "truncate", "round":
		return "(multiple-value-list (" + op + " x y))"
	case "incf", "decf":
		return "(let ((v x)) (" + op + " v y) v)"
	}
	if strings.HasPrefix(op, "boole-") {
		return "(boole " + op + " x y)"
	}
	return "(" + op + " x y)"
}

func exec(spec string) (res engine.Result) {
	parts := strings.Split(spec, "|")
	scope := slip.NewScope()
	var operands []*big.Rat
	var names = []string{"x", "y", "z"}
	var src string
	var ex expect
	op := parts[1]
	sigArgs := ""
	bind := func(name string, r *big.Rat) slip.Object {
		o := toObj(r)
		scope.Let(slip.Symbol(name), o)
		return o
	}
	switch parts[0] {
	case "u":
		x := parseRat(parts[2])
		operands = []*big.Rat{x}
		ex, src = expected1(op, x)
		sigArgs = class(x)
	case "b":
		x, y := parseRat(parts[2]), parseRat(parts[3])
		operands = []*big.Rat{x, y}
		ex = expected2(op, x, y)
		src = srcFor2(op)
		sigArgs = class(x) + "," + class(y)
	case "t":
		return execNary(parts)
	case "y":
		return execByte(parts)
	case "f":
		return execFloat(parts)
	case "s", "s1":
		return execSite(parts)
	default:
		res.Fail("harness:bad-spec", spec)
		return
	}
	if ex.skip {
		res.Outcome = "skip"
		return
	}
	var objs []slip.Object
	for i, r := range operands {
		objs = append(objs, bind(names[i], r))
	}
	for _, r := range operands {
		switch class(r) {
		case "bignum":
			res.Hit("big-operand")
			res.Nontrivial = true
		case "ratio":
			res.Hit("ratio-operand")
			res.Nontrivial = true
		}
	}
	if parts[0] == "b" && isBitBin(op) || parts[0] == "u" && (op == "logcount" || op == "integer-length") {
		bitCounters(&res, op, operands)
	}
	want := "bool"
	if ex.err {
		want = "error"
	} else if 0 < len(ex.vals) {
		want = class(ex.vals[0])
		if want != "fixnum" {
			res.Nontrivial = true
		}
		allFix := true
		for _, r := range operands {
			allFix = allFix && class(r) == "fixnum"
		}
		if allFix && want == "bignum" {
			res.Hit("overflow-boundary")
		}
	}
	sig := func(kind string) string {
		return fmt.Sprintf("op=%s args=%s want=%s kind=%s", op, sigArgs, want, kind)
	}
	val, err := lisp.EvalIn(scope, src)
	desc := func() string {
		return fmt.Sprintf("%s with %s", src, strings.Join(parts[2:], " , "))
	}
	switch {
	case err != nil && err.GoFault:
		res.Fail(sig("go-fault"), desc()+" => "+err.String())
	case err != nil && !ex.err:
		res.Fail(sig("error-instead-of-value"), desc()+" => "+err.String()+"; expected "+showExpect(ex))
	case err == nil && ex.err:
		res.Fail(sig("value-instead-of-error"), desc()+" => "+lisp.Show(val)+"; expected an error")
	case err == nil && ex.bval != nil:
		if lisp.Truthy(val) != *ex.bval {
			res.Fail(sig("wrong-answer"), desc()+" => "+lisp.Show(val)+"; expected "+showExpect(ex))
		}
	case err == nil:
		var got []slip.Object
		if 1 < len(ex.vals) {
			l, ok := val.(slip.List)
			if !ok || len(l) != len(ex.vals) {
				res.Fail(sig("wrong-value-count"), desc()+" => "+lisp.Show(val)+"; expected "+showExpect(ex))
				break
			}
			got = l
		} else {
			got = []slip.Object{val}
		}
		for i, g := range got {
			r, _, canon := objRat(g)
			which := ""
			if 0 < i {
				which = fmt.Sprintf("#%d", i+1)
			}
			switch {
			case r == nil:
				res.Fail(sig("not-a-rational"+which), desc()+" => "+lisp.Show(val)+"; expected "+showExpect(ex))
			case r.Cmp(ex.vals[i]) != 0:
				res.Fail(sig("wrong-value"+which), desc()+" => "+lisp.Show(val)+"; expected "+showExpect(ex))
			case !canon:
				res.Fail(sig("non-canonical"+which), desc()+" => "+lisp.Show(val)+" (representation not canonical)")
			}
		}
	}
	// operands unchanged: the variable still holds the same value, and the Go object we built still has it.
	for i, r := range operands {
		cur := scope.Get(slip.Symbol(names[i]))
		cr, _, _ := objRat(cur)
		or, _, _ := objRat(objs[i])
		if cr == nil || cr.Cmp(r) != 0 || or == nil || or.Cmp(r) != 0 {
			res.Fail(sig("operand-mutated"), fmt.Sprintf("%s: operand %s was %s, now %s", desc(), names[i], ratText(r), lisp.Show(cur)))
		}
	}
	if err != nil {
		res.Outcome = "err:" + err.Class
	} else {
		res.Outcome = lisp.Show(val)
	}
	return
}

func showExpect(ex expect) string {
	switch {
	case ex.err:
		return "error"
	case ex.bval != nil:
		return fmt.Sprint(*ex.bval)
	}
	var s []string
	for _, v := range ex.vals {
		s = append(s, ratText(v))
	}
	return strings.Join(s, " ; ")
}

// execFloat: f|op|a|near|kind|adj|order — compare rational a with the float
// equal to / just below / just above integer `near`.
func execFloat(parts []string) (res engine.Result) {
	op, a, near, kind, adj, order := parts[1], parseRat(parts[2]), parseRat(parts[3]), parts[4], parts[5], parts[6]
	fobj, fval, ok := floatNear(kind, adj, near)
	if !ok {
		res.Outcome = "skip" // no finite float of this format near this integer
		return
	}
	scope := slip.NewScope()
	aobj := toObj(a)
	x, y := a, fval
	if order == "1" {
		x, y = fval, a
		scope.Let("x", fobj)
		scope.Let("y", aobj)
	} else {
		scope.Let("x", aobj)
		scope.Let("y", fobj)
	}
	ex := expected2(op, x, y)
	res.Hit("float-compare")
	res.Nontrivial = true
	src := "(" + op + " x y)"
	val, err := lisp.EvalIn(scope, src)
	fk := map[string]string{"d": "double", "f": "single", "l": "long"}[kind]
	argc := class(a) + "," + fk
	if order == "1" {
		argc = fk + "," + class(a)
	}
	rel := "far"
	if a.Cmp(near) == 0 {
		rel = "adjacent-" + adj
	}
	sig := func(k string) string { return fmt.Sprintf("op=%s args=%s float=%s kind=%s", op, argc, rel, k) }
	desc := fmt.Sprintf("%s with rational %s and %s float %s (%s of %s), order %s", src, ratText(a), fk, lisp.Show(fobj), adj, ratText(near), order)
	switch {
	case err != nil && err.GoFault:
		res.Fail(sig("go-fault"), desc+" => "+err.String())
	case err != nil:
		res.Fail(sig("error-instead-of-value"), desc+" => "+err.String())
	case lisp.Truthy(val) != *ex.bval:
		res.Fail(sig("wrong-answer"), fmt.Sprintf("%s => %s; exact comparison gives %v", desc, lisp.Show(val), *ex.bval))
	}
	res.Outcome = lisp.Show(val)
	return
}
