package c07

import (
	"fmt"
	"sort"
	"testing"
)

// TestR8Count prints the number of cases of the round-8 families per family and nesting depth (development aid;
// run with: go test -tags verif -run TestR8Count -v ./props/c07/).
func TestR8Count(t *testing.T) {
	for _, tier := range []string{"quick", "thorough"} {
		c := map[string]int{}
		enumR8(tier, func(p *program) {
			c[fmt.Sprintf("%s depth %d", p.fam, len(p.ctxs))]++
			c[p.fam+" all"]++
			c["total"]++
		})
		var keys []string
		for k := range c {
			keys = append(keys, k)
		}
		sort.Strings(keys)
		for _, k := range keys {
			t.Logf("%-9s %-14s %8d", tier, k, c[k])
		}
	}
}
