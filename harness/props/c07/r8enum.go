package c07

// r8enum.go (round 8): the chains of the four families, each under a spec prefix of its own.
//
//   hof|  a function called by a built-in caller (or by a function / method body that is not lexically around it)
//   val|  an exit in a position that is not a body position
//   rel|  with-open-file variants and with-mutex-lock: release on every path
//   cls|  the condition class (whole hierarchy) an unhandled error surfaces with
//
// A chain is emitted under the prefix of the first family that lists it; the engine drops duplicates.

import (
	"fmt"
	"strings"

	"verif/engine"
)

type slotPos = ctx

// positionsOf: every (kind, position) of the kinds.
func positionsOf(ks []kindInfo, all bool) (out []slotPos) {
	for i := range ks {
		k := kindByName[ks[i].name]
		if all {
			for _, ps := range k.positions {
				out = append(out, ctx{k, ps})
			}
		} else {
			out = append(out, ctx{k, canonPos(k)})
		}
	}
	return
}

func pick(names ...string) (out []slotPos) {
	for _, n := range names {
		dot := strings.LastIndexByte(n, '.')
		k := kindByName[n[:dot]]
		if k == nil {
			panic("r8enum: unknown kind " + n)
		}
		out = append(out, ctx{k, n[dot+1:]})
	}
	return
}

// plainKinds: the kinds of the earlier rounds without the symbol-tag tagbody (see c07.go).
func plainKinds() (out []kindInfo) {
	for _, k := range append(append([]kindInfo(nil), oldKinds...), newKinds...) {
		if k.name != "tagbody-sym" {
			out = append(out, k)
		}
	}
	return
}

// plainPositions: every position of every kind of the earlier rounds / the canonical one (unwind-protect: the
// protected form with a plain and with a failing cleanup, and a cleanup form after a normal end and after an error).
func plainPositions(all bool) (out []slotPos) {
	for _, k := range plainKinds() {
		kk := kindByName[k.name]
		switch {
		case all:
			for _, ps := range kk.positions {
				out = append(out, ctx{kk, ps})
			}
		case k.name == "unwind-protect":
			for _, ps := range []string{"p", "pe", "cn", "ce"} {
				out = append(out, ctx{kk, ps})
			}
		default:
			out = append(out, ctx{kk, canonPos(kk)})
		}
	}
	return
}

type r8Cfg struct {
	thorough bool
}

// exitsFor lists the exits of a chain: which = "all" (normal, every control exit, error classes errs), "control"
// (every control exit, plus (error ..) when a level reacts to an error), "errors" (errs only).
func exitsFor(ctxs []ctx, which string, errs []string) (out []string) {
	switch which {
	case "errors":
		return errs
	case "control":
		for _, e := range validExits(ctxs, nil) {
			if e != "norm" {
				out = append(out, e)
			}
		}
		if reactsToError(ctxs) || hasKind(ctxs, isWOF) {
			out = append(out, "err-error")
		}
		return
	}
	return validExits(ctxs, errs)
}

// okChain: restrictions that hold for every family.
func okChain(ctxs []ctx, exit string) bool {
	if !validNesting(ctxs) {
		return false
	}
	if exit == "rf-fn" {
		// the value of a return-from out of a named function goes to the built-in that called it: not to mapcan /
		// mapcon, which need a list (what they do with something else is not this property's subject)
		p := &program{ctxs: ctxs, exit: exit}
		if t, _ := target(p); 0 <= t && (ctxs[t].kind.name == "hofn-mapcan" || ctxs[t].kind.name == "hofn-mapcon") {
			return false
		}
	}
	if exit == "ret" {
		// no (return) out of the header of a form that establishes a nil block itself
		p := &program{ctxs: ctxs, exit: exit}
		t, _ := target(p)
		for i := len(ctxs) - 1; t < i && 0 <= i; i-- {
			if loopHeaderKinds[ctxs[i].kind.name] {
				return false
			}
		}
	}
	return true
}

func enumR8(tier string, emit func(*program)) {
	thorough := tier == engine.Thorough
	product := func(fam string, which string, errs []string, levels ...[]slotPos) {
		chain := make([]ctx, len(levels))
		var rec func(i int)
		rec = func(i int) {
			if i == len(levels) {
				if !validNesting(chain) {
					return
				}
				for _, e := range exitsFor(chain, which, errs) {
					if okChain(chain, e) {
						emit(&program{ctxs: append([]ctx(nil), chain...), exit: e, fam: fam})
					}
				}
				return
			}
			for _, sp := range levels[i] {
				chain[i] = sp
				rec(i + 1)
			}
		}
		rec(0)
	}
	hofAll := positionsOf(append(append(append([]kindInfo(nil), hofLambdaKinds...), hofNamedKinds...), callByKinds...), true)
	hofCanon := positionsOf(append(append(append([]kindInfo(nil), hofLambdaKinds...), hofNamedKinds...), callByKinds...), false)
	hofLambdaCanon := positionsOf(hofLambdaKinds, false)
	valAll := positionsOf(valueKinds, true)
	wofAll := positionsOf(wofKinds, true)
	wofCanon := positionsOf(wofKinds, false)
	plainAll, plainCanon := plainPositions(true), plainPositions(false)
	targets := pick("block-a.m", "tagbody.m", "dolist.m")
	if thorough {
		targets = pick("block-a.m", "block-nil.m", "tagbody.m", "dolist.m", "do.m2", "prog.m", "defun-in.m", "ignore-errors.m")
	}
	closureCalls := pick("funcall-lambda.m", "lambda-form.m", "apply-lambda.m", "let-lambda.m", "lambda.m")
	cleanups := pick("unwind-protect.p", "unwind-protect.pe", "unwind-protect.pd", "unwind-protect.cn", "unwind-protect.ce", "unwind-protect.cr", "unwind-protect.cg")

	// ---- hof
	product("hof", "all", errorExits, hofAll)
	if thorough {
		product("hof", "all", errorExits, plainAll, hofAll)
		product("hof", "all", errorExits, hofAll, plainAll)
		product("hof", "control", nil, targets, plainCanon, hofAll)
		product("hof", "control", nil, targets, hofAll, plainCanon)
	} else {
		product("hof", "all", twoErrors, plainCanon, hofAll)
		product("hof", "all", twoErrors, hofAll, plainCanon)
		product("hof", "control", nil, targets, plainCanon, hofCanon)
		product("hof", "control", nil, targets, hofCanon, plainCanon)
	}
	product("hof", "control", nil, targets, hofLambdaCanon, hofLambdaCanon) // a caller inside a function called by a caller

	// ---- val
	product("val", "all", errorExits, valAll)
	product("val", "all", twoErrors, plainAll, valAll)
	product("val", "all", twoErrors, valAll, plainAll)
	product("val", "all", twoErrors, valAll, valAll)
	product("val", "all", []string{"err-error"}, hofCanon, valAll)
	product("val", "all", []string{"err-error"}, valAll, hofCanon)
	product("val", "control", nil, targets, plainCanon, valAll)
	product("val", "control", nil, targets, valAll, plainCanon)

	// ---- rel
	oldRelease := pick("with-open-file.m", "with-mutex-lock.m")
	product("rel", "all", errorExits, wofAll)
	product("rel", "all", errorExits, plainAll, wofAll)
	product("rel", "all", errorExits, wofAll, plainAll)
	inside := append(append(append([]slotPos(nil), cleanups...), closureCalls...), hofCanon...)
	inside = append(inside, valAll...)
	product("rel", "control", nil, targets, append(append([]slotPos(nil), wofCanon...), oldRelease...), inside)
	product("rel", "control", nil, pick("ignore-errors.m", "recover.m"), append(append([]slotPos(nil), wofCanon...), oldRelease...), inside)
	product("rel", "all", errorExits, append(append([]slotPos(nil), wofCanon...), oldRelease...), inside)

	// ---- cls
	every := append(append(append(append([]slotPos(nil), plainAll...), hofAll...), valAll...), wofAll...)
	everyCanon := append(append(append(append([]slotPos(nil), plainCanon...), hofLambdaCanon...), positionsOf(callByKinds, false)...), positionsOf(valueKinds, false)...)
	everyCanon = append(everyCanon, wofCanon...)
	product("cls", "errors", r8ErrorExits)
	product("cls", "errors", []string{"warn"})
	product("cls", "errors", []string{"warn"}, every)
	product("cls", "errors", r8ErrorExits, every)
	deep := clsDeepErrors
	if thorough {
		deep = r8ErrorExits
	}
	product("cls", "errors", deep, everyCanon, everyCanon)
}

// twoErrors: the error classes used at depth 2 of the hof| and val| families (quick).
var twoErrors = []string{"err-error", "err-type"}

// clsDeepErrors: the classes used at depth 2 in the quick tier (one raised by the interpreter from Go code, one
// through the function-call path, the user-defined ones, one made by the program of a built-in class).
var clsDeepErrors = []string{"err-undef", "err-file", "err-control", "err-user", "err-user-arith", "err-mc-simple"}

func boundR8(tier string) string {
	thorough := tier == engine.Thorough
	var callers []string
	for _, h := range hofSpecs {
		callers = append(callers, h.name)
	}
	var vals []string
	for _, k := range valueKinds {
		vals = append(vals, strings.TrimPrefix(k.name, "v-"))
	}
	var wofs []string
	for _, m := range wofModes {
		wofs = append(wofs, strings.TrimPrefix(m.name, "wof-"))
	}
	tg := "block, tagbody, dolist"
	inner := "the canonical position of every kind of the earlier rounds (middle / then-branch; unwind-protect: protected form with a plain and with a failing cleanup, a cleanup form after a normal end and after an error)"
	hofPos := "the canonical call"
	if thorough {
		tg = "block, block nil, tagbody, dolist (2nd pass), do, prog, a local defun, ignore-errors"
		hofPos = "every call"
	}
	s := fmt.Sprintf(" Round 8, each family under its own spec prefix. "+
		"hof|: the slot in the body of a function called by %d built-in callers (%s) as an anonymous lambda, the slot run on the 1st / 2nd / 3rd call of three (sort, stable-sort: 1st / 2nd; format ~/fn/: the one call), "+
		"and as a named function defined in front of the call and passed as #'name, and by the body of a user function / flavors method / generic-function method that is defined at top level (%s): "+
		"alone; in and around every kind of the earlier rounds (%s), all exit kinds, 4 error classes; depth 3 [%s] x [that kind x caller, both orders] at %s, every return-from / return / go (and (error ..) where a level reacts to errors); a caller inside a function called by a caller. ",
		len(hofSpecs), strings.Join(callers, " "), strings.Join(callBySpecs, " "),
		map[bool]string{false: inner, true: "every position of every kind"}[thorough], tg, hofPos)
	s += fmt.Sprintf("val|: the slot in %d positions that are not body positions (%s): alone, in and around every position of every kind of the earlier rounds and each other, in and around every caller, depth 3 [%s] x [kind x value position, both orders]; all exit kinds; judged for: no host fault, cleanups exactly once and in order, control reaches the target and nothing the exit abandons runs (forms evaluated in front of the slot in the same form are not compared). ",
		len(valueKinds), strings.Join(vals, " "), tg)
	s += fmt.Sprintf("rel|: with-open-file for output / io with the :if-exists modes %s (stream kept, written before and behind the slot): alone, in and around every position of every kind of the earlier rounds, and [%s, ignore-errors, recover or nothing] x [each variant, with-open-file :input, with-mutex-lock] x [unwind-protect with a failing cleanup form / with the slot in a cleanup form, 5 closure calls, every caller, every value position]; afterwards: file closed (from Go), open-stream-p nil, a later write fails and leaves the file alone, the file holds exactly what was written while the stream was open; mutex: TryLock from Go. ",
		strings.Join(wofs, " "), tg)
	deep := fmt.Sprintf("%d classes (%s)", len(clsDeepErrors), strings.Join(clsDeepErrors, " "))
	if thorough {
		deep = "all of them"
	}
	s += fmt.Sprintf("cls|: %d further error classes (%s) at top level and in every position of every kind (earlier rounds and round 8) at depth 1, at depth 2 (canonical positions, all kinds x all kinds) %s; the class AND the whole class hierarchy seen at the top equal those of the bare form. ",
		len(r8Errors), strings.Join(r8ErrorExits, " "), deep)
	s += fmt.Sprintf("rt|: %d programs: return-from / return / go evaluated in another routine (run) directly, in a funcall-ed lambda and in a function called by mapc, target in the starting routine.", len(rtExits)*len(rtVias))
	return s
}
