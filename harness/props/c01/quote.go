//go:build verif

package c01

import (
	"fmt"
	"math/big"
	"strings"

	"github.com/ohler55/slip"

	"verif/engine"
	"verif/lisp"
)

// The quoted datum table: text of the datum and the object(s) it denotes,
// built by Go construction or written down in the harness' own rendering
// (lisp.Show) - never through slip's reader or printer. Where Common Lisp and
// slip's documentation leave the exact object open (the float format of an
// unsuffixed 1.5, the home package spelling of a qualified symbol) every
// acceptable rendering is listed.
type qdatum struct {
	name     string
	text     string
	want     []slip.Object
	compound bool
	// round 8
	show   []string // accepted renderings when the object is not built by Go construction (want == nil)
	weak   bool     // the language definition does not fix the datum (backquote): only "not evaluated", "no fault" and "same on every evaluation" are demanded
	value  bool     // numbers and characters: one quote form evaluated twice gives eql objects; everything else: the identical (eq) object
	isNil  bool     // the datum is the empty list
	probes []qprobe // what a program sees when it takes the datum apart
}

// qprobe: an expression over X (the quoted form) and the rendering of its value.
type qprobe struct{ expr, want string }

func bigOf(s string) *slip.Bignum {
	b, _ := new(big.Int).SetString(s, 10)
	return (*slip.Bignum)(b)
}

func sym(s string) slip.Object { return slip.Symbol(s) }

func fixnums(is ...int) slip.List {
	l := make(slip.List, len(is))
	for i, v := range is {
		l[i] = slip.Fixnum(v)
	}
	return l
}

var datums = []qdatum{
	{name: "fixnum", text: "42", want: []slip.Object{slip.Fixnum(42)}, value: true},
	{name: "negative-fixnum", text: "-7", want: []slip.Object{slip.Fixnum(-7)}, value: true},
	{name: "zero", text: "0", want: []slip.Object{slip.Fixnum(0)}, value: true},
	{name: "bignum", text: "12345678901234567890123", want: []slip.Object{bigOf("12345678901234567890123")}, value: true},
	{name: "ratio", text: "2/3", want: []slip.Object{(*slip.Ratio)(big.NewRat(2, 3))}, value: true},
	{name: "float", text: "1.5", want: []slip.Object{slip.DoubleFloat(1.5), slip.SingleFloat(1.5)}, value: true},
	{name: "double-float", text: "2.5d0", want: []slip.Object{slip.DoubleFloat(2.5)}, value: true},
	{name: "string", text: `"hi"`, want: []slip.Object{slip.String("hi")}},
	{name: "empty-string", text: `""`, want: []slip.Object{slip.String("")}},
	{name: "string-with-escape", text: `"a\"b"`, want: []slip.Object{slip.String(`a"b`)}},
	{name: "character", text: `#\a`, want: []slip.Object{slip.Character('a')}, value: true},
	{name: "character-name", text: `#\Space`, want: []slip.Object{slip.Character(' ')}, value: true},
	{name: "symbol", text: "foo", want: []slip.Object{sym("foo")}},
	{name: "symbol-mixed-case", text: "Foo", want: []slip.Object{sym("foo")}},
	{name: "piped-symbol", text: "|Foo|", want: []slip.Object{sym("Foo")}},
	{name: "keyword", text: ":key", want: []slip.Object{sym(":key")}},
	{name: "nil", text: "nil", want: []slip.Object{nil}, isNil: true},
	{name: "empty-list", text: "()", want: []slip.Object{nil}, isNil: true},
	{name: "t", text: "t", want: []slip.Object{slip.True}},
	{name: "list", text: "(1 2 3)", want: []slip.Object{fixnums(1, 2, 3)}, compound: true,
		probes: []qprobe{{"(car X)", "1"}, {"(cdr (cdr X))", "(3)"}, {"(length X)", "3"}}},
	{name: "nested-list", text: `(1 (2 b) "x" #\a nil)`, want: []slip.Object{slip.List{slip.Fixnum(1), slip.List{slip.Fixnum(2), sym("b")},
		slip.String("x"), slip.Character('a'), nil}}, compound: true},
	{name: "dotted-pair", text: "(a . b)", want: []slip.Object{slip.List{sym("a"), slip.Tail{Value: sym("b")}}}, compound: true,
		probes: []qprobe{{"(car X)", "a"}, {"(cdr X)", "b"}}},
	{name: "dotted-list", text: "(1 2 . 3)", want: []slip.Object{slip.List{slip.Fixnum(1), slip.Fixnum(2), slip.Tail{Value: slip.Fixnum(3)}}}, compound: true,
		probes: []qprobe{{"(cdr (cdr X))", "3"}}},
	{name: "list-that-looks-like-a-call", text: "(+ 1 2)", want: []slip.Object{slip.List{sym("+"), slip.Fixnum(1), slip.Fixnum(2)}}, compound: true},
	{name: "list-that-looks-like-a-trace-call", text: "(tr (quote kq) 1)", want: []slip.Object{slip.List{sym("tr"), slip.List{sym("quote"), sym("kq")}, slip.Fixnum(1)}}, compound: true},
	{name: "list-that-looks-like-a-special-form", text: "(if a (setq b 1) (let ((c 2)) c))", want: []slip.Object{slip.List{sym("if"), sym("a"),
		slip.List{sym("setq"), sym("b"), slip.Fixnum(1)},
		slip.List{sym("let"), slip.List{slip.List{sym("c"), slip.Fixnum(2)}}, sym("c")}}}, compound: true},
	{name: "list-headed-by-lambda", text: "(lambda (x) x)", want: []slip.Object{slip.List{sym("lambda"), slip.List{sym("x")}, sym("x")}}, compound: true},
	{name: "list-headed-by-quote", text: "(quote a)", want: []slip.Object{slip.List{sym("quote"), sym("a")}}, compound: true,
		probes: []qprobe{{"(car X)", "quote"}, {"(car (cdr X))", "a"}}},
	{name: "vector", text: "#(1 2 3)", want: []slip.Object{slip.NewVector(3, slip.TrueSymbol, nil, fixnums(1, 2, 3), true)}, compound: true},

	// ---- round 8: every reader syntax that denotes a datum
	{name: "quote-shorthand-inside-a-list", text: "(a 'b)", show: []string{"(a (quote b))"}, compound: true,
		probes: []qprobe{{"(car (car (cdr X)))", "quote"}, {"(car (cdr (car (cdr X))))", "b"}, {"(length (car (cdr X)))", "2"}}},
	{name: "quote-shorthand-datum", text: "'a", show: []string{"(quote a)"}, compound: true,
		probes: []qprobe{{"(car X)", "quote"}, {"(car (cdr X))", "a"}}},
	{name: "quote-shorthand-before-a-list-inside-a-list", text: "(1 '(2 '3))", show: []string{"(1 (quote (2 (quote 3))))"}, compound: true,
		probes: []qprobe{{"(car (cdr (car (cdr X))))", "(2 (quote 3))"}}},
	{name: "function-shorthand-inside-a-list", text: "(a #'car)", show: []string{"(a (function car))"}, compound: true,
		probes: []qprobe{{"(car (car (cdr X)))", "function"}, {"(car (cdr (car (cdr X))))", "car"}}},
	{name: "function-shorthand-datum", text: "#'car", show: []string{"(function car)"}, compound: true,
		probes: []qprobe{{"(car X)", "function"}}},
	{name: "list-headed-by-function", text: "(function car)", show: []string{"(function car)"}, compound: true,
		probes: []qprobe{{"(car X)", "function"}}},
	{name: "backquote-inside-a-list", text: "(a `(b ,c ,@d))", weak: true, compound: true},
	{name: "backquote-datum", text: "`(b ,c)", weak: true, compound: true},
	{name: "dotted-pair-whose-tail-is-a-list", text: "(a . (b))", show: []string{"(a b)"}, compound: true,
		probes: []qprobe{{"(cdr X)", "(b)"}, {"(length X)", "2"}, {"(car (cdr X))", "b"}, {"(equal X (list 'a 'b))", "t"}}},
	{name: "dotted-pair-whose-tail-is-nil", text: "(1 . nil)", show: []string{"(1)"}, compound: true,
		probes: []qprobe{{"(cdr X)", "nil"}, {"(length X)", "1"}}},
	{name: "dotted-pairs-all-the-way", text: "(1 . (2 . (3 . nil)))", show: []string{"(1 2 3)"}, compound: true,
		probes: []qprobe{{"(length X)", "3"}, {"(car (cdr (cdr X)))", "3"}, {"(equal X (list 1 2 3))", "t"}}},
	{name: "association-list", text: "((a . 1) (b . 2))", show: []string{"((a . 1) (b . 2))"}, compound: true,
		probes: []qprobe{{"(cdr (car X))", "1"}, {"(car (car (cdr X)))", "b"}}},
	{name: "list-of-empty-lists", text: "(nil () (nil) t)", show: []string{"(nil nil (nil) t)"}, compound: true,
		probes: []qprobe{{"(car X)", "nil"}, {"(car (cdr X))", "nil"}, {"(length X)", "4"}}},
	{name: "nested-vector", text: "#(1 #(2) (3 . 4) \"s\" #\\c)", show: []string{`#(1 #(2) (3 . 4) "s" #\'c')`}, compound: true},
	{name: "empty-vector", text: "#()", show: []string{"#()"}, compound: true},
	{name: "vector-inside-a-list", text: "(1 #(2 3) 4)", show: []string{"(1 #(2 3) 4)"}, compound: true},
	{name: "array-2d", text: "#2A((1 2) (3 4))", show: []string{"#2A((1 2) (3 4))"}, compound: true,
		probes: []qprobe{{"(aref X 1 0)", "3"}}},
	{name: "array-inside-a-list", text: "(a #2A((1) (2)))", show: []string{"(a #2A((1) (2)))"}, compound: true},
	{name: "complex", text: "#C(1 2)", show: []string{"#C(1 2)"}, value: true},
	{name: "single-float", text: "1.5s0", show: []string{"f1.5"}, value: true},
	{name: "single-float-f", text: "1.5f0", show: []string{"f1.5"}, value: true},
	{name: "long-float", text: "1.5l0", show: []string{"l1.5"}, value: true},
	{name: "float-with-exponent", text: "1e3", show: []string{"f1000", "d1000"}, value: true},
	{name: "negative-zero-float", text: "-0.0", show: []string{"f-0", "d-0"}, value: true},
	{name: "hexadecimal-integer", text: "#xFF", show: []string{"255"}, value: true},
	{name: "binary-integer", text: "#b-101", show: []string{"-5"}, value: true},
	{name: "octal-integer", text: "#o17", show: []string{"15"}, value: true},
	{name: "integer-with-trailing-dot", text: "12.", show: []string{"12"}, value: true},
	{name: "integer-with-plus-sign", text: "+5", show: []string{"5"}, value: true},
	{name: "ratio-not-in-lowest-terms", text: "4/6", show: []string{"R2/3"}, value: true},
	{name: "ratio-that-is-an-integer", text: "6/3", show: []string{"2"}, value: true},
	{name: "negative-bignum", text: "-98765432109876543210", show: []string{"B-98765432109876543210"}, value: true},
	{name: "character-upper-case", text: `#\A`, show: []string{`#\'A'`}, value: true},
	{name: "character-newline", text: `#\Newline`, show: []string{`#\'\n'`}, value: true},
	{name: "character-parenthesis", text: `#\(`, show: []string{`#\'('`}, value: true},
	{name: "character-non-ascii", text: `#\é`, show: []string{`#\'é'`}, value: true},
	{name: "string-with-newline-and-unicode", text: "\"a\nb é😀\"", show: []string{`"a\nb é😀"`}},
	{name: "string-with-backslash", text: `"a\\b"`, show: []string{`"a\\b"`}},
	{name: "string-that-looks-like-code", text: `"(tr 'kq 1)"`, show: []string{`"(tr 'kq 1)"`}},
	{name: "keyword-inside-a-list", text: "(:a 1 :b)", show: []string{"(:a 1 :b)"}, compound: true},
	{name: "symbol-with-package-prefix", text: "cl:car", show: []string{"car", "cl:car", "common-lisp:car"}},
	{name: "symbol-with-internal-package-prefix", text: "cl-user::foo", show: []string{"foo", "cl-user::foo", "common-lisp-user::foo"}},
	{name: "keyword-with-package-prefix", text: "keyword:key", show: []string{":key", "keyword:key"}},
	{name: "symbol-with-escaped-space", text: "|a b|", show: []string{"a b"}},
	{name: "symbols-named-like-special-operators", text: "(quote function lambda let nil t)", show: []string{"(quote function lambda let nil t)"}, compound: true,
		probes: []qprobe{{"(length X)", "6"}}},
}

// A quote context: the program around the quoted form Q and what its value
// must be, given the rendering S of the datum.
type qctx struct {
	name  string
	prog  string // Q = the quoted form, NAME = a unique function name
	want  string // S = rendering of the datum
	twice bool
	// round 8: what the context checks. "" = the value is the datum (want); "identity" = want is a list of
	// flags over two evaluations of ONE quote form (eq eql), demanded as (t t) or - numbers and characters -
	// (? t); "truth" = the datum as a test; "nil" = only for the empty list: it is the object nil
	kind string
}

var quoteCtxs = []qctx{
	{name: "top-level", prog: "Q", want: "S"},
	{name: "argument", prog: "(list Q 7 Q)", want: "(S 7 S)"},
	{name: "let-init", prog: "(let ((x Q)) x)", want: "S"},
	{name: "lambda-argument", prog: "(funcall (lambda (a) a) Q)", want: "S"},
	{name: "if-branch", prog: "(if nil 1 Q)", want: "S"},
	{name: "function-body-called-twice", prog: "(progn (defun NAME () Q) (list (NAME) (NAME)))", want: "(S S)", twice: true},
	{name: "loop-body-run-twice", prog: "(let ((r nil)) (dotimes (i 2) (setq r (cons Q r))) r)", want: "(S S)", twice: true},
	// round 8
	{name: "let*-binding-returned-from-a-function", prog: "(progn (defun NAME () (let* ((x Q) (y x)) y)) (NAME))", want: "S"},
	{name: "passed-through-a-named-identity-function", prog: "(progn (defun NAME (a) a) (list (funcall #'NAME Q) (apply 'NAME (list Q))))", want: "(S S)"},
	{name: "value-of-progn-cond-and-or", prog: "(list (progn 1 Q) (cond (nil 1) (t Q)) (and t Q) (or nil Q))", want: "(S S S S)"},
	{name: "lambda-body-mapped-over-two-elements", prog: "(mapcar (lambda (a) Q) (list 1 2))", want: "(S S)", twice: true},
	{name: "third-evaluation-after-two", prog: "(progn (defun NAME () Q) (NAME) (NAME) (NAME))", want: "S", twice: true},
	{name: "same-object-on-every-evaluation-of-a-function-body", prog: "(progn (defun NAME () Q) (let ((a (NAME)) (b (NAME))) (list (eq a b) (eql a b))))", kind: "identity", twice: true},
	{name: "same-object-on-every-evaluation-of-a-loop-body", prog: "(let ((r nil)) (dotimes (i 2) (setq r (cons Q r))) (list (eq (car r) (car (cdr r))) (eql (car r) (car (cdr r)))))", kind: "identity", twice: true},
	{name: "same-object-through-a-closure-called-twice", prog: "(let ((g (lambda () Q))) (let ((a (funcall g)) (b (funcall g))) (list (eq a b) (eql a b))))", kind: "identity", twice: true},
	{name: "used-as-a-test", prog: "(list (if Q 1 2) (when Q 1) (unless Q 2) (and Q 1) (or Q 2) (cond (Q 1) (t 2)) (not Q) (null Q))", kind: "truth"},
	{name: "the-empty-list-is-nil", prog: "(list (eq Q nil) (eq nil Q) (eql Q nil) (eq Q Q) (listp Q) (length Q))", kind: "nil"},
}

func quoteBound() string {
	n := 0
	for ci := range quoteCtxs {
		for di := range datums {
			if quoteApplies(&quoteCtxs[ci], &datums[di]) {
				n += 2
			}
		}
	}
	probes := 0
	for di := range datums {
		probes += 2 * len(datums[di].probes)
	}
	return fmt.Sprintf("quote: %d data (every reader syntax that denotes a datum) x %d contexts x 2 notations = %d cases, plus %d take-apart probes",
		len(datums), len(quoteCtxs), n, probes)
}

func quoteApplies(c *qctx, d *qdatum) bool {
	if c.kind == "nil" {
		return d.isNil
	}
	return true
}

func enumerateQuotes(emit func(string)) {
	for ci := range quoteCtxs {
		for _, via := range []string{"quote", "'"} {
			for di := range datums {
				if quoteApplies(&quoteCtxs[ci], &datums[di]) {
					emit(fmt.Sprintf("q|%s|%s|%s", quoteCtxs[ci].name, via, datums[di].name))
				}
			}
		}
	}
	for _, via := range []string{"quote", "'"} {
		for di := range datums {
			for pi := range datums[di].probes {
				emit(fmt.Sprintf("q|probe:%d|%s|%s", pi, via, datums[di].name))
			}
		}
	}
}

func findQuote(ctx, dat string) (*qctx, *qdatum) {
	var c *qctx
	var d *qdatum
	for i := range quoteCtxs {
		if quoteCtxs[i].name == ctx {
			c = &quoteCtxs[i]
		}
	}
	for i := range datums {
		if datums[i].name == dat {
			d = &datums[i]
		}
	}
	if d != nil && strings.HasPrefix(ctx, "probe:") {
		var pi int
		if _, err := fmt.Sscanf(ctx, "probe:%d", &pi); err == nil && 0 <= pi && pi < len(d.probes) {
			c = &qctx{name: "taken-apart", prog: strings.ReplaceAll(d.probes[pi].expr, "X", "Q"), want: d.probes[pi].want, kind: "probe"}
		}
	}
	return c, d
}

type qverdict struct {
	ok   bool
	kind string
	text string
	want []string
	got  observation
}

func (d *qdatum) renderings() []string {
	if 0 < len(d.show) {
		return d.show
	}
	var out []string
	for _, w := range d.want {
		out = append(out, lisp.Show(w))
	}
	return out
}

func judgeQuote(c *qctx, via string, d *qdatum, prefix string) (v qverdict) {
	q := "(quote " + d.text + ")"
	if via == "'" {
		q = "'" + d.text
	}
	v.text = strings.ReplaceAll(strings.ReplaceAll(c.prog, "NAME", prefix), "Q", q)
	fail := "not-the-datum"
	switch c.kind {
	case "":
		for _, w := range d.renderings() {
			v.want = append(v.want, strings.ReplaceAll(c.want, "S", w))
		}
	case "probe":
		v.want = []string{c.want}
		fail = "taken-apart-differs"
	case "identity":
		fail = "not-the-same-object-on-the-next-evaluation"
		if d.value {
			v.want = []string{"(t t)", "(nil t)"}
		} else {
			v.want = []string{"(t t)"}
		}
	case "truth":
		fail = "wrong-as-a-test"
		if d.isNil {
			v.want = []string{"(2 nil 2 nil 2 2 t t)"}
		} else {
			for _, w := range d.renderings() {
				v.want = append(v.want, strings.ReplaceAll("(1 1 nil 1 S 1 nil nil)", "S", w))
			}
		}
	case "nil":
		fail = "empty-list-is-not-nil"
		v.want = []string{"(t t t t t 0)"}
	}
	v.got = runSlip(v.text, 100000)
	if strings.Contains(c.prog, "NAME") {
		slip.VerifForgetFunction(slip.CurrentPackage, prefix)
	}
	switch {
	case v.got.runaway:
		v.kind = "runaway"
	case v.got.err != nil && v.got.err.GoFault:
		v.kind = "go-fault"
	case 0 < len(v.got.trace):
		v.kind = "datum-was-evaluated"
	case d.weak && c.kind != "identity":
		// the language definition does not say which object a backquote form denotes: whatever it is, it is
		// not evaluated (checked above), quoting it signals nothing, and every evaluation gives the same
		switch {
		case v.got.err != nil:
			v.kind = "error:" + v.got.err.Class
		case c.twice && c.kind == "" && c.want == "(S S)" && !sameHalves(v.got.val):
			v.kind = "differs-on-the-next-evaluation"
		default:
			v.ok = true
		}
	default:
		v.kind = fail
		if v.got.err == nil {
			for _, w := range v.want {
				v.ok = v.ok || w == v.got.val
			}
		} else if c.kind != "" {
			v.kind = "error:" + v.got.err.Class
		}
	}
	return
}

// sameHalves: the rendering of a two-element list whose elements render alike.
func sameHalves(s string) bool {
	if len(s) < 2 || s[0] != '(' || s[len(s)-1] != ')' {
		return false
	}
	in := s[1 : len(s)-1]
	if len(in)%2 != 1 {
		return false
	}
	h := len(in) / 2
	return in[h] == ' ' && in[:h] == in[h+1:]
}

func (v *qverdict) describe() string {
	got := v.got.val
	if v.got.err != nil {
		got = "signals " + v.got.err.String()
	}
	if 0 < len(v.got.trace) {
		got += " with trace [" + clip(v.got.trace) + "]"
	}
	return fmt.Sprintf("%s => slip: %s; the language definition gives: %s", v.text, got, strings.Join(v.want, " or "))
}

func execQuote(spec string) (res engine.Result) {
	parts := strings.SplitN(spec, "|", 4)
	if len(parts) != 4 {
		res.Fail("harness:bad-spec", spec)
		return
	}
	c, d := findQuote(parts[1], parts[3])
	via := parts[2]
	if c == nil || d == nil || (via != "'" && via != "quote") {
		res.Fail("harness:bad-spec", spec)
		return
	}
	prefix := fmt.Sprintf("c01q%x", engine.Hash64(spec))
	v := judgeQuote(c, via, d, prefix)
	res.Nontrivial = c.name != "top-level"
	if d.compound {
		res.Hit("quote-compound")
	}
	if c.twice {
		res.Hit("quote-evaluated-twice")
	}
	switch c.kind {
	case "identity":
		res.Hit("quote-same-object-on-the-next-evaluation")
	case "probe":
		res.Hit("quote-datum-taken-apart")
	case "nil":
		res.Hit("quote-empty-list-is-nil")
	case "truth":
		res.Hit("quote-datum-as-a-test")
	}
	if d.weak {
		res.Hit("quote-datum-not-fixed-by-the-language-definition")
	}
	if strings.Contains(d.text, "'") && !strings.HasPrefix(d.text, `"`) {
		res.Hit("quote-shorthand-inside-quoted-data")
	}
	if v.got.err != nil {
		res.Outcome = "err:" + v.got.err.Class
	} else {
		res.Outcome = v.got.val
	}
	if v.ok {
		return
	}
	// The context and the notation are part of the signature only when the failure needs them: the same
	// datum at top level is fine / the same datum in the other notation is fine.
	notation := via
	other := "quote"
	if via == "quote" {
		other = "'"
	}
	if ov := judgeQuote(c, other, d, prefix+"o"); !ov.ok && ov.kind == v.kind {
		notation = "any"
	}
	sig := fmt.Sprintf("quote notation=%s datum=%s kind=%s", notation, d.name, v.kind)
	detail := v.describe()
	if c.name != "top-level" {
		top := judgeQuote(&quoteCtxs[0], via, d, prefix+"t")
		if top.ok {
			sig = fmt.Sprintf("quote notation=%s datum=%s context=%s kind=%s", notation, d.name, c.name, v.kind)
		} else {
			if ov := judgeQuote(&quoteCtxs[0], other, d, prefix+"p"); !ov.ok && ov.kind == top.kind {
				notation = "any"
			} else {
				notation = via
			}
			sig = fmt.Sprintf("quote notation=%s datum=%s kind=%s", notation, d.name, top.kind)
			detail += " [already at top level: " + top.describe() + "]"
		}
	}
	res.Fail(sig, detail)
	return
}
