//go:build verif

package c17

import (
	"fmt"
	"sort"
	"strings"
)

// Round 8: the clause "the interpreter's own shared tables (packages, generic caches, printer state) are never
// corrupted" beyond defvar / pretty printing / defmethod: one scenario per process-global table, lazily filled
// structure or check-then-act sequence of the interpreter that a Lisp program reaches from two routines
// (/repo/package.go, function.go, lambda.go, clpkg.go, printer.go, pkg/cl, pkg/clos, pkg/flavors, pkg/generic).
// Every scenario states what every serial execution gives; the differential oracle (outcome of some non-preemptive
// execution) runs as well. Code that both routines evaluate is evaluated once before the routines start where the
// first evaluation is not the subject ("warm"): the lazily compiled argument forms of shared code are a listed
// finding of their own (race@slip.(*Function).Eval|slip.(*Function).Eval).

func oneOf(what string, vals ...string) func(o *obs) []string {
	return func(o *obs) []string {
		if o.err != nil {
			return []string{"error: " + o.err.String()}
		}
		for _, v := range vals {
			if o.val == v {
				return nil
			}
		}
		return []string{fmt.Sprintf("%s: got %s, every serial execution gives one of %v (trace %v)", what, o.val, vals, o.trace)}
	}
}

// allDistinct: the value is a list of n items, no two equal.
func allDistinct(n int) func(o *obs) []string {
	return func(o *obs) []string {
		if o.err != nil {
			return []string{"error: " + o.err.String()}
		}
		items := strings.Fields(strings.Trim(o.val, "()"))
		seen := map[string]bool{}
		for _, it := range items {
			if seen[it] {
				return []string{fmt.Sprintf("duplicate-name: %s was handed out twice: %s", it, o.val)}
			}
			seen[it] = true
		}
		if len(items) != n {
			return []string{fmt.Sprintf("final-value: %d items expected, got %s", n, o.val)}
		}
		return nil
	}
}

func traceIs(what string, traces ...string) func(o *obs) []string {
	return func(o *obs) []string {
		t := strings.Join(o.trace, " ")
		for _, w := range traces {
			if t == w {
				return nil
			}
		}
		return []string{fmt.Sprintf("%s: trace %q, every serial execution gives one of %q", what, t, traces)}
	}
}

func completed(o *obs) string {
	if o.err != nil {
		return "error:" + o.err.Class
	}
	return "completed"
}

// countDistinct: canonical form for name generators (the names themselves depend on the counter).
func countDistinct(o *obs) string {
	if o.err != nil {
		return "error:" + o.err.Class
	}
	items := strings.Fields(strings.Trim(o.val, "()"))
	seen := map[string]bool{}
	for _, it := range items {
		seen[it] = true
	}
	return fmt.Sprintf("%d names, %d distinct", len(items), len(seen))
}

func sortedItems(o *obs) string {
	if o.err != nil {
		return "error:" + o.err.Class
	}
	f := strings.Fields(strings.NewReplacer("(", " ", ")", " ").Replace(o.val))
	sort.Strings(f)
	return strings.Join(f, " ")
}

var scenariosR8 = []*scenario{
	// ---- (a) three routines: two producers with three items each, one consumer (the main routine)
	{name: "a11-two-producers-three-items-cap1", group: "a", quick: 2, thorough: 3,
		src: `(let ((c (make-channel 1)) (out nil))
  (run (progn (channel-push c 'a1) (channel-push c 'a2) (channel-push c 'a3)))
  (run (progn (channel-push c 'b1) (channel-push c 'b2) (channel-push c 'b3)))
  (dotimes (i 6) (setq out (add out (channel-pop c))))
  out)`,
		check: multisetFIFO([]string{"a1", "a2", "a3", "b1", "b2", "b3"}, map[string][]string{"a": {"a1", "a2", "a3"}, "b": {"b1", "b2", "b3"}}), canon: sortedVal},
	{name: "a12-two-producers-three-items-unbuffered", group: "a", quick: 2, thorough: 3, shards: 8,
		src: `(let ((c (make-channel 0)) (out nil))
  (run (progn (channel-push c 'a1) (channel-push c 'a2) (channel-push c 'a3)))
  (run (progn (channel-push c 'b1) (channel-push c 'b2) (channel-push c 'b3)))
  (dotimes (i 6) (setq out (add out (channel-pop c))))
  out)`,
		check: multisetFIFO([]string{"a1", "a2", "a3", "b1", "b2", "b3"}, map[string][]string{"a": {"a1", "a2", "a3"}, "b": {"b1", "b2", "b3"}}), canon: sortedVal},

	// ---- (b) a GLOBAL variable updated under one mutex by three routines
	{name: "b8-global-incf-push-under-mutex-3", group: "b", quick: 2, thorough: 3, shards: 8,
		src: `(progn
  (defvar @V 0)
  (defvar @W nil)
  (let ((d (make-channel 2)))
    (run (progn (with-mutex-lock the-mutex (incf @V) (push 'r1 @W)) (channel-push d t)))
    (run (progn (with-mutex-lock the-mutex (incf @V) (push 'r2 @W)) (channel-push d t)))
    (with-mutex-lock the-mutex (incf @V) (push 'r0 @W))
    (channel-pop d) (channel-pop d)
    (list @V (length @W) @W)))`,
		check: all(func(o *obs) []string {
			if o.err != nil {
				return []string{"error: " + o.err.String()}
			}
			if sortedItems(o) != "3 3 r0 r1 r2" {
				return []string{"final-value: got " + o.val + "; every serial execution gives 3, 3 and a permutation of (r0 r1 r2)"}
			}
			return nil
		}, mutexFree), canon: sortedItems},

	// ---- (c) a plain hash table: two routines store two DIFFERENT keys under ONE mutex
	{name: "c7-hash-two-keys-one-mutex", group: "c", quick: 4, thorough: -1,
		src: `(let ((h (make-hash-table)) (d (make-channel 2)))
  (run (progn (with-mutex-lock the-mutex (setf (gethash 'k1 h) 1)) (channel-push d t)))
  (with-mutex-lock the-mutex (setf (gethash 'k2 h) 2))
  (channel-pop d)
  (list (hash-table-count h) (+ 0 (gethash 'k1 h)) (+ 0 (gethash 'k2 h))))`,
		check: all(expectVal("(2 1 2)"), mutexFree), canon: rawVal},

	// ---- (d) the interpreter's own tables
	// name generator: *gensym-counter* is read and then set
	{name: "d9-gensym-two-routines", group: "d", quick: 2, thorough: 3,
		src: `(let ((r (make-channel 4)) (out nil))
  (run (progn (channel-push r (symbol-name (gensym))) (channel-push r (symbol-name (gensym)))))
  (setq out (add out (symbol-name (gensym))))
  (setq out (add out (channel-pop r)))
  (setq out (add out (channel-pop r)))
  out)`,
		check: allDistinct(3), canon: countDistinct},
	// function table: two routines define two different functions and call them
	{name: "d10-defun-two-names", group: "d", yield: true, quick: 2, thorough: 4,
		src: `(let ((d (make-channel 2)) (r1 nil))
  (run (progn (defun @F () 'f-result) (channel-push d (@F))))
  (defun @H () 'h-result)
  (setq r1 (@H))
  (list r1 (channel-pop d) (@F) (@H)))`,
		check: all(expectVal("(h-result f-result f-result h-result)")), canon: rawVal},
	// a function is defined again while another routine calls it: old or new body, afterwards the new one
	{name: "d11-redefine-function-while-called", group: "d", yield: true, quick: 2, thorough: 4,
		src: `(progn
  (defun @F () 'old)
  (@F)
  (let ((d (make-channel 2)) (r1 nil))
    (run (progn (defun @F () 'new) (channel-push d t)))
    (setq r1 (@F))
    (channel-pop d)
    (list r1 (@F))))`,
		check: oneOf("stale-definition", "(old new)", "(new new)"), canon: completed},
	// variable table: the same new symbol interned by two routines - exactly one of them creates it
	{name: "d12-intern-same-symbol", group: "d", quick: 3, thorough: 5,
		src: `(progn
  (defpackage '@P (:use cl))
  (let ((d (make-channel 2)) (r1 nil) (r2 nil))
    (run (progn (setq r2 (cadr (multiple-value-list (intern "@S" '@P)))) (channel-push d t)))
    (setq r1 (cadr (multiple-value-list (intern "@S" '@P))))
    (channel-pop d)
    (list r1 r2 (cadr (multiple-value-list (find-symbol "@S" '@P))))))`,
		check: oneOf("interned-twice", "(nil :internal :internal)", "(:internal nil :internal)"), canon: rawVal},
	// export in one routine while another resolves the names through a package that uses the exporting one
	{name: "d13-export-vs-resolve-in-user-package", group: "d", yield: true, quick: 2, thorough: 4,
		src: `(progn
  (defpackage '@P (:use cl))
  (defpackage '@Q (:use cl))
  (use-package '@P '@Q)
  (defun @P::fa () 'fa-result)
  (defvar @P::va 5)
  (let ((d (make-channel 2)) (r1 nil))
    (run (progn (export 'fa '@P) (export 'va '@P) (channel-push d t)))
    (setq r1 (list (fboundp '@Q::fa) (boundp '@Q::va)))
    (channel-pop d)
    (list r1 (fboundp '@Q::fa) (boundp '@Q::va) (@Q::fa) @Q::va)))`,
		check: oneOf("export-visibility", "((nil nil) t t fa-result 5)", "((t nil) t t fa-result 5)", "((nil t) t t fa-result 5)", "((t t) t t fa-result 5)"), canon: completed},
	// use-package in one routine while another resolves names in the using package
	{name: "d14-use-package-vs-resolve", group: "d", yield: true, quick: 2, thorough: 4,
		src: `(progn
  (defpackage '@P (:use cl))
  (defpackage '@Q (:use cl))
  (defun @P::fa () 'fa-result)
  (defvar @P::va 5)
  (export 'fa '@P) (export 'va '@P)
  (let ((d (make-channel 2)) (r1 nil))
    (run (progn (use-package '@P '@Q) (channel-push d t)))
    (setq r1 (list (fboundp '@Q::fa) (boundp '@Q::va)))
    (channel-pop d)
    (list r1 (fboundp '@Q::fa) (boundp '@Q::va) (@Q::fa) @Q::va)))`,
		// (use-package makes both names visible in one step and the function is probed first: (t nil) is impossible)
		check: oneOf("use-visibility", "((nil nil) t t fa-result 5)", "((nil t) t t fa-result 5)", "((t t) t t fa-result 5)"), canon: completed},
	// package list: a package is created while another routine resolves a qualified name
	{name: "d15-defpackage-vs-qualified-name", group: "d", quick: 3, thorough: 5,
		src: `(progn
  (defpackage '@P (:use cl))
  (defvar @P::va 5)
  (let ((d (make-channel 2)) (r1 nil))
    (run (progn (defpackage '@Q (:use cl)) (channel-push d t)))
    (setq r1 @P::va)
    (channel-pop d)
    (list r1 (package-name (find-package '@Q)))))`,
		check: func(o *obs) []string {
			if o.err != nil {
				return []string{"error: " + o.err.String()}
			}
			if !strings.HasPrefix(o.val, "(5 \"c17-q") {
				return []string{"final-value: got " + o.val}
			}
			return nil
		}, canon: completed},
	// an exported variable is assigned (owner's table, then the users' tables) while the user stops using the package
	{name: "d16-setq-exported-vs-unuse-package", group: "d", yield: true, quick: 2, thorough: 3,
		src: `(progn
  (defpackage '@P (:use cl))
  (defpackage '@Q (:use cl))
  (defvar @P::va 5)
  (export 'va '@P)
  (use-package '@P '@Q)
  (let ((d (make-channel 2)))
    (run (progn (unuse-package '@P '@Q) (channel-push d t)))
    (setq @P:va 6)
    (channel-pop d)
    (list @P:va (boundp '@Q::va))))`,
		check: all(expectVal("(6 nil)")), canon: rawVal},
	// the same variable defined by two routines: the first definition stays (defvar does not assign a bound variable)
	{name: "d17-defvar-same-name", group: "d", quick: 3, thorough: 4,
		src: `(let ((d (make-channel 2)) (r1 nil) (r2 nil))
  (run (progn (defvar @V 'second) (setq r2 @V) (channel-push d t)))
  (defvar @V 'first)
  (setq r1 @V)
  (channel-pop d)
  (list r1 r2 @V))`,
		check: oneOf("defvar-overwrites", "(first first first)", "(second second second)"), canon: rawVal},
	// class table: first make-instance of one class in two routines
	{name: "d18-first-make-instance-two-routines", group: "d", yield: true, quick: 2, thorough: 4,
		src: `(progn
  (defclass @C () ((a :initform 1 :initarg :a)))
  (let ((d (make-channel 2)) (r1 nil) (r2 nil))
    (run (progn (setq r2 (slot-value (make-instance '@C :a 2) 'a)) (channel-push d t)))
    (setq r1 (slot-value (make-instance '@C) 'a))
    (channel-pop d)
    (list r1 r2)))`,
		check: all(expectVal("(1 2)")), canon: rawVal},
	// a class is defined again while another routine makes an instance: old or new definition, afterwards the new one
	{name: "d19-defclass-again-vs-make-instance", group: "d", yield: true, quick: 2, thorough: 4,
		src: `(progn
  (defclass @C () ((a :initform 'old)))
  (let ((d (make-channel 2)) (r1 nil))
    (run (progn (defclass @C () ((a :initform 'new))) (channel-push d t)))
    (setq r1 (slot-value (make-instance '@C) 'a))
    (channel-pop d)
    (list r1 (slot-value (make-instance '@C) 'a))))`,
		check: oneOf("stale-class", "(old new)", "(new new)"), canon: completed},
	// the superclass is defined again (the subclass is re-merged) while another routine instantiates the subclass
	{name: "d20-superclass-again-vs-make-instance-of-subclass", group: "d", yield: true, quick: 2, thorough: 4,
		src: `(progn
  (defclass @C () ((a :initform 'old)))
  (defclass @K (@C) ((b :initform 'kb)))
  (let ((d (make-channel 2)) (r1 nil))
    (run (progn (defclass @C () ((a :initform 'new))) (channel-push d t)))
    (setq r1 (let ((i (make-instance '@K))) (list (slot-value i 'a) (slot-value i 'b))))
    (channel-pop d)
    (list r1 (let ((i (make-instance '@K))) (list (slot-value i 'a) (slot-value i 'b))))))`,
		check: oneOf("stale-class", "((old kb) (new kb))", "((new kb) (new kb))"), canon: completed},
	// another class is defined while a routine looks one up (the package's class table)
	{name: "d21-defclass-other-vs-make-instance", group: "d", yield: true, quick: 2, thorough: 4,
		src: `(progn
  (defclass @C () ((a :initform 1)))
  (let ((d (make-channel 2)) (r1 nil))
    (run (progn (defclass @K () ((b :initform 2))) (channel-push d t)))
    (setq r1 (slot-value (make-instance '@C) 'a))
    (channel-pop d)
    (list r1 (slot-value (make-instance '@K) 'b))))`,
		check: all(expectVal("(1 2)")), canon: rawVal},
	// flavors: the FIRST send of a message, by two routines at once, to two instances
	{name: "d22-flavor-first-send-two-routines", group: "d", yield: true, quick: 2, thorough: 4,
		src: `(progn
  (defflavor @L ((x 0)) () :gettable-instance-variables :initable-instance-variables)
  (defmethod (@L :probe) () x)
  (let ((i1 (make-instance '@L :x 1)) (i2 (make-instance '@L :x 2)) (d (make-channel 2)) (r1 nil) (r2 nil))
    (run (progn (setq r2 (send i2 :probe)) (channel-push d t)))
    (setq r1 (send i1 :probe))
    (channel-pop d)
    (list r1 r2 (send i1 :x) (send i2 :x))))`,
		check: all(expectVal("(1 2 1 2)")), canon: rawVal},
	// flavors: a :before daemon is added while another routine sends: with or without it, afterwards with it
	{name: "d23-flavor-daemon-added-vs-send", group: "d", yield: true, quick: 2, thorough: 4,
		src: `(progn
  (defflavor @L ((x 0)) () :gettable-instance-variables)
  (defmethod (@L :probe) () (tr 'primary) 'p)
  (let ((inst (make-instance '@L)) (d (make-channel 2)) (r1 nil))
    (send inst :probe)
    (tr 'warm)
    (run (progn (defmethod (@L :before :probe) () (tr 'before)) (channel-push d t)))
    (setq r1 (send inst :probe))
    (channel-pop d)
    (tr 'joined)
    (list r1 (send inst :probe))))`,
		check: all(expectVal("(p p)"), traceIs("stale-method-table",
			"primary warm primary joined before primary", "primary warm before primary joined before primary")), canon: completed},
	// flavors: a whopper is added while another routine sends
	{name: "d24-flavor-whopper-added-vs-send", group: "d", yield: true, quick: 2, thorough: 4,
		src: `(progn
  (defflavor @L ((x 7)) () :gettable-instance-variables)
  (defmethod (@L :probe) () 'p)
  (let ((inst (make-instance '@L)) (d (make-channel 2)) (r1 nil))
    (send inst :probe)
    (run (progn (defwhopper (@L :probe) () (list 'w (continue-whopper))) (channel-push d t)))
    (setq r1 (send inst :probe))
    (channel-pop d)
    (list r1 (send inst :probe))))`,
		check: oneOf("stale-method-table", "(p (w p))", "((w p) (w p))"), canon: completed},
	// flavors: one whopper, two instances, two routines: each send must run the whopper with its OWN instance
	{name: "d25-flavor-whopper-two-instances", group: "d", yield: true, quick: 2, thorough: 3,
		src: `(progn
  (defflavor @L ((x 0)) () :gettable-instance-variables :initable-instance-variables)
  (defmethod (@L :get) () x)
  (defwhopper (@L :get) () (list x (continue-whopper)))
  (let ((i1 (make-instance '@L :x 1)) (i2 (make-instance '@L :x 2)) (d (make-channel 2)) (r1 nil) (r2 nil))
    (send i1 :get)
    (run (progn (setq r2 (send i2 :get)) (channel-push d t)))
    (setq r1 (send i1 :get))
    (channel-pop d)
    (list r1 r2)))`,
		check: all(expectVal("((1 1) (2 2))")), canon: rawVal},
	// generic function with an :around method called by two routines with different arguments
	{name: "d26-generic-around-two-callers", group: "d", yield: true, quick: 2, thorough: 3,
		src: `(progn
  (defgeneric @G (a))
  (defmethod @G ((a fixnum)) (list 'primary a))
  (defmethod @G :around ((a fixnum)) (list 'around a (call-next-method)))
  (@G 0)
  (let ((d (make-channel 2)) (r1 nil) (r2 nil))
    (run (progn (setq r2 (@G 2)) (channel-push d t)))
    (setq r1 (@G 1))
    (channel-pop d)
    (list r1 r2)))`,
		check: all(expectVal("((around 1 (primary 1)) (around 2 (primary 2)))")), canon: rawVal},
	// flavor table: a flavor is defined while another routine instantiates a different one
	{name: "d27-defflavor-other-vs-make-instance", group: "d", yield: true, quick: 2, thorough: 4,
		src: `(progn
  (defflavor @L ((x 1)) () :gettable-instance-variables)
  (let ((d (make-channel 2)) (r1 nil))
    (run (progn (defflavor @K ((y 2)) () :gettable-instance-variables) (channel-push d t)))
    (setq r1 (send (make-instance '@L) :x))
    (channel-pop d)
    (list r1 (send (make-instance '@K) :y))))`,
		check: all(expectVal("(1 2)")), canon: rawVal},
	// defclass instances answer send through the caller's scope: two routines, two objects
	{name: "d28-defclass-send-two-objects", group: "d", yield: true, quick: 2, thorough: 3,
		src: `(progn
  (defclass @C () ((a :initform 0 :initarg :a :gettable t :settable t)))
  (let ((i1 (make-instance '@C :a 1)) (i2 (make-instance '@C :a 2)) (d (make-channel 2)) (r1 nil) (r2 nil))
    (send i1 :a)
    (run (progn (send i2 :set-a 20) (setq r2 (send i2 :a)) (channel-push d t)))
    (send i1 :set-a 10)
    (setq r1 (send i1 :a))
    (channel-pop d)
    (list r1 r2 (send i1 :a) (send i2 :a))))`,
		check: all(expectVal("(10 20 10 20)")), canon: rawVal},
	// dynamic printer state: each routine prints inside its own binding of *print-base*; the global value stays
	{name: "d29-print-base-bound-in-two-routines", group: "d", quick: 1, thorough: 2,
		src: `(let ((d (make-channel 2)) (r1 nil) (r2 nil))
  (run (progn (setq r2 (let ((*print-base* 2)) (list (princ-to-string 5) (princ-to-string 6)))) (channel-push d t)))
  (setq r1 (let ((*print-base* 16)) (list (princ-to-string 255) (princ-to-string 254))))
  (channel-pop d)
  (list r1 r2 *print-base* (princ-to-string 10)))`,
		check: all(expectVal(`(("ff" "fe") ("101" "110") 10 "10")`)), canon: rawVal},
	// one string output stream written with format and princ by two routines under ONE mutex: no torn or lost text
	{name: "d30-string-stream-under-mutex", group: "d", quick: 2, thorough: 3,
		src: `(let ((s (make-string-output-stream)) (d (make-channel 2)))
  (run (progn (with-mutex-lock the-mutex (format s "<~A-~A>" 'a 1) (princ 'x s)) (channel-push d t)))
  (with-mutex-lock the-mutex (format s "<~A-~A>" 'b 2) (princ 'y s))
  (channel-pop d)
  (get-output-stream-string s))`,
		check: all(oneOf("torn-text", `"<a-1>x<b-2>y"`, `"<b-2>y<a-1>x"`), mutexFree), canon: rawVal},
	// generic function table: two routines add a method to a generic function that does not exist yet
	{name: "d31-defmethod-creates-generic-in-two-routines", group: "d", yield: true, quick: 2, thorough: 4,
		src: `(let ((d (make-channel 2)))
  (run (progn (defmethod @G ((a fixnum)) 'fix) (channel-push d t)))
  (defmethod @G ((a string)) 'str)
  (channel-pop d)
  (list (@G 1) (@G "s")))`,
		check: all(expectVal("(fix str)")), canon: rawVal},
	// flavors: two routines define two different messages of one flavor
	{name: "d32-flavor-two-defmethods", group: "d", yield: true, quick: 2, thorough: 4,
		src: `(progn
  (defflavor @L ((x 0)) () :gettable-instance-variables)
  (let ((inst (make-instance '@L)) (d (make-channel 2)))
    (run (progn (defmethod (@L :m1) () 1) (channel-push d t)))
    (defmethod (@L :m2) () 2)
    (channel-pop d)
    (list (send inst :m1) (send inst :m2) (send inst :x))))`,
		check: all(expectVal("(1 2 0)")), canon: rawVal},
	// conditions: two routines signal and handle an error at the same time, outside any lock
	{name: "d33-errors-in-two-routines", group: "d", quick: 2, thorough: 4,
		src: `(let ((d (make-channel 2)) (r1 nil) (r2 nil))
  (run (progn (setq r2 (type-of (cadr (multiple-value-list (ignore-errors (/ 7 0)))))) (channel-push d t)))
  (setq r1 (type-of (cadr (multiple-value-list (ignore-errors (car 5))))))
  (channel-pop d)
  (list r1 r2))`,
		check: all(expectVal("(type-error division-by-zero)")), canon: rawVal},
}

// negative control of the fatal-error path (isolate.go): the PROGRAM switches synchronization of an instance off and
// on again while a routine uses it - its own fault, the statement does not cover it -, so some schedule lets the routine
// lock the old mutex and unlock the new one: "fatal error: sync: unlock of unlocked mutex", the process dies. Every run
// must report that death as a failure of this scenario (counter negative-control-fatal-detected), else the machinery
// that attributes a process death to a scenario and a schedule is broken.
var fatalControl = &scenario{name: "e2-synchronization-switched-off-and-on-while-in-use", group: "e", negative: true,
	quick: 2, thorough: 2, shards: 1, shardsThorough: 1,
	src: `(progn
  (defclass @C () ((a :initform 0)))
  (let ((inst (make-instance '@C)) (d (make-channel 2)) (g (make-channel 1)))
    (set-synchronized inst t)
    (run (progn (channel-push g t) (setf (slot-value inst 'a) 1) (channel-push d t)))
    (channel-pop g)
    (set-synchronized inst nil)
    (set-synchronized inst t)
    (channel-pop d)
    (slot-value inst 'a)))`,
	check: all(expectVal("1")), canon: rawVal}

func init() {
	// the round-8 scenarios of groups c and d are small (tens to a few hundred schedules at the quick bound)
	for _, sc := range scenariosR8 {
		if sc.shards == 0 && (sc.group == "c" || sc.group == "d") {
			sc.shards, sc.shardsThorough = 2, 8
		}
	}
	// the negative control stays last
	var neg []*scenario
	var pos []*scenario
	for _, sc := range scenarios {
		if sc.negative {
			neg = append(neg, sc)
		} else {
			pos = append(pos, sc)
		}
	}
	scenarios = append(append(append(append(pos, scenariosR8...), printScenarios()...), neg...), fatalControl)
}
