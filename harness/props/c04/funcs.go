package c04

import (
	"sort"
	"sync"

	"github.com/ohler55/slip"
)

type fnEntry struct {
	pkg  string
	name string
	fi   *slip.FuncInfo
}

var (
	funcsOnce sync.Once
	funcsList []*fnEntry
)

// allFuncs snapshots (once per process, before any case has run) every function of every package,
// attributed to its defining package, sorted by package:name.
func allFuncs() []*fnEntry {
	funcsOnce.Do(func() {
		seen := map[*slip.FuncInfo]bool{}
		for _, p := range slip.AllPackages() {
			p.EachFuncInfo(func(fi *slip.FuncInfo) {
				if seen[fi] || fi.Pkg == nil || fi.Doc == nil {
					return
				}
				seen[fi] = true
				if fi.Pkg == &slip.UserPkg && (fi.Name == "tr" || fi.Name == "c04rec" || fi.Name == "c04enter") { // the harness' own functions
					return
				}
				funcsList = append(funcsList, &fnEntry{pkg: fi.Pkg.Name, name: fi.Name, fi: fi})
			})
		}
		sort.Slice(funcsList, func(i, j int) bool {
			a, b := funcsList[i], funcsList[j]
			if a.pkg != b.pkg {
				return a.pkg < b.pkg
			}
			return a.name < b.name
		})
	})
	return funcsList
}
