package c08

// mutdata.go: family "mutdata" - code held in data that is CHANGED IN PLACE between two evaluations at the SAME eval
// call site. A list built at run time (so that it may be modified) is evaluated by an (eval d) that sits inside a
// function, a compiled function, a lambda, a loop body or a top-level Code object (plain / compiled) - one call site
// that lives across the evaluations; between the evaluations the list is modified in place WITHOUT changing its length
// (the operator, an argument, an element of a nested sub-list, a nested sub-list replaced). Model-free, differential:
// every evaluation must give what a fresh copy of the list as it is now gives at a fresh call site.

import (
	"fmt"
	"strconv"
	"strings"

	"github.com/ohler55/slip"
	"verif/engine"
	"verif/lisp"
)

type mutForm struct {
	id    string
	build string   // builds the list
	muts  []string // in-place changes of the list held in the variable %s
}

var mutForms = []mutForm{
	{"arith", "(list '+ 1 (list '* 2 3))", []string{
		"(setf (car %s) '-)", "(setf (nth 1 %s) 10)", "(rplaca (cdr %s) 20)", "(setf (nth 1 (nth 2 %s)) 7)", "(setf (car (nth 2 %s)) '+)", "(setf (nth 2 %s) 5)"}},
	{"if", "(list 'if (list '> 2 1) (list '+ 1 2) (list '- 5 1))", []string{
		"(setf (nth 1 (nth 1 %s)) 0)", "(setf (car (nth 1 %s)) '<)", "(setf (nth 2 %s) 100)", "(setf (nth 1 (nth 3 %s)) 9)", "(setf (car %s) 'list)", "(rplaca (cdr (nth 2 %s)) 50)"}},
	{"let", "(list 'let (list (list 'a 2)) (list '* 'a 3))", []string{
		"(setf (nth 1 (car (nth 1 %s))) 5)", "(setf (nth 2 (nth 2 %s)) 4)", "(setf (car (nth 2 %s)) '+)", "(setf (nth 2 %s) (list '- 'a 1))"}},
	{"call", "(list 'list (list 'car (list 'quote (list 1 2))) (list 'length (list 'quote (list 1 2 3))))", []string{
		"(setf (car (nth 1 %s)) 'cdr)", "(setf (car (nth 2 %s)) 'reverse)", "(setf (nth 1 %s) 0)", "(setf (car %s) 'vector)"}},
}

// ((funcall #'eval d) is not a site: funcall evaluates d and eval, which evaluates its own argument, evaluates the result
// again - the same at every evaluation and in every mode, not this property's business)
var mutSites = []string{"defun", "compdefun", "lambda", "loop", "code", "compcode"}

func mutFormByID(id string) *mutForm {
	for i := range mutForms {
		if mutForms[i].id == id {
			return &mutForms[i]
		}
	}
	return nil
}

func enumMutdata(tier string, emit func(string)) {
	for _, f := range mutForms {
		for _, site := range mutSites {
			for i := range f.muts {
				emit(fmt.Sprintf("mutdata|%s|%s|%d", f.id, site, i))
			}
			for i := range f.muts {
				for j := range f.muts {
					if i != j {
						emit(fmt.Sprintf("mutdata|%s|%s|%d.%d", f.id, site, i, j))
					}
				}
			}
		}
	}
}

func execMutdata(spec string) (res engine.Result) {
	parts := strings.Split(spec, "|")
	var f *mutForm
	if len(parts) == 4 {
		f = mutFormByID(parts[1])
	}
	if f == nil {
		res.Fail("harness:bad-spec", spec)
		return
	}
	site := parts[2]
	var seq []int
	for _, d := range strings.Split(parts[3], ".") {
		k, err := strconv.Atoi(d)
		if err != nil || k < 0 || len(f.muts) <= k {
			res.Fail("harness:bad-spec", spec)
			return
		}
		seq = append(seq, k)
	}
	prefix := uniqPrefix(spec)
	uniq := func(s string) string { return strings.ReplaceAll(s, "@", prefix) }
	fail := func(kind, detail string) {
		res.Fail(fmt.Sprintf("mutdata form=%s site=%s kind=%s", f.id, site, kind), spec+": "+detail)
	}
	scope := slip.NewScope()
	run := func(src string) reOut { return reRun(scope, uniq(src)) }
	mut := func(k int, v string) string { return fmt.Sprintf(f.muts[k], v) }
	// expected: the same changes applied to a second list; every evaluation is a fresh copy at a fresh call site
	var want []reOut
	if o := run("(setq @e " + f.build + ")"); o.err != nil {
		fail("setup-error", o.String())
		return
	}
	want = append(want, run("(eval (copy-tree @e))"))
	for _, k := range seq {
		if o := run(mut(k, "@e")); o.err != nil {
			res.Hit("mutdata-change-not-applicable")
			res.Outcome = "not applicable: " + o.String()
			return
		}
		want = append(want, run("(eval (copy-tree @e))"))
	}
	for _, w := range want {
		if w.err != nil && site == "loop" {
			res.Hit("mutdata-change-not-applicable")
			res.Outcome = "not applicable in a loop: " + w.String()
			return
		}
	}
	// observed: ONE call site
	if o := run("(setq @d " + f.build + ")"); o.err != nil {
		fail("setup-error", o.String())
		return
	}
	var got []reOut
	evalCode := func(code slip.Code) (o reOut) {
		defer func() {
			if rec := recover(); rec != nil {
				o = reOut{err: lisp.ErrFromRecovered(rec)}
			}
		}()
		return reOut{val: lisp.Show(primary(code.Eval(scope, nil)))}
	}
	var again func() reOut
	switch site {
	case "defun", "compdefun":
		body := "(eval @d)"
		def := slip.ReadString(uniq("(defun @ev () "+body+")"), scope)
		if site == "compdefun" {
			def.Compile()
		}
		if o := evalCode(def); o.err != nil {
			fail("setup-error", o.String())
			return
		}
		again = func() reOut { return run("(@ev)") }
	case "lambda":
		if o := run("(setq @fv (lambda () (eval @d)))"); o.err != nil {
			fail("setup-error", o.String())
			return
		}
		again = func() reOut { return run("(funcall @fv)") }
	case "code", "compcode":
		code := slip.ReadString(uniq("(eval @d)"), scope)
		if site == "compcode" {
			code.Compile()
		}
		again = func() reOut { return evalCode(code) }
	case "loop":
		thunks := []string{"(lambda () nil)"}
		for _, k := range seq {
			thunks = append(thunks, "(lambda () "+mut(k, "@d")+")")
		}
		obj, err := lisp.EvalIn(scope, uniq("(let ((r nil)) (dolist (m (list "+strings.Join(thunks, " ")+")) (funcall m) (setq r (cons (eval @d) r))) (reverse r))"))
		if err != nil {
			got = append(got, reOut{err: err})
		} else if l, ok := obj.(slip.List); ok {
			for _, e := range l {
				got = append(got, reOut{val: lisp.Show(e)})
			}
		}
	default:
		res.Fail("harness:bad-spec", spec)
		return
	}
	if again != nil {
		got = append(got, again())
		for _, k := range seq {
			if o := run(mut(k, "@d")); o.err != nil {
				fail("change-fails-on-the-evaluated-list", fmt.Sprintf("%s => %s; the same change of a list that was never evaluated succeeds", mut(k, "d"), o.String()))
				return
			}
			got = append(got, again())
		}
	}
	var obs, exp []string
	for _, g := range got {
		obs = append(obs, g.String())
	}
	for _, w := range want {
		exp = append(exp, w.String())
	}
	res.Outcome = strings.Join(obs, " ; ")
	res.Nontrivial = true
	res.Hit("mutdata-cases")
	res.Hit("mutdata-site-" + site)
	if len(got) != len(want) {
		fail("wrong-count", fmt.Sprintf("%d results for %d evaluations: %s (expected %s)", len(got), len(want), res.Outcome, strings.Join(exp, " ; ")))
		return
	}
	changed := false
	for i := range want {
		g, w := got[i], want[i]
		if 0 < i && w.String() != want[i-1].String() {
			changed = true
		}
		switch {
		case g.err != nil && g.err.GoFault:
			fail("go-fault", fmt.Sprintf("evaluation #%d => %s", i+1, g.String()))
			return
		case (g.err == nil) != (w.err == nil) || (g.err != nil && g.err.Class != w.err.Class) || (g.err == nil && g.val != w.val):
			kind := "differs-from-fresh-copy"
			if 0 < i && g.String() == got[i-1].String() && w.String() != want[i-1].String() {
				kind = "stale-after-in-place-change"
			}
			changes := make([]string, len(seq))
			for k, m := range seq {
				changes[k] = mut(m, "d")
			}
			fail(kind, fmt.Sprintf("d = %s, evaluated by one (eval d) call site (%s), changes %s: evaluation #%d => %s; a fresh copy of the list as it is then, at a fresh call site => %s (all: %s ; expected: %s)",
				f.build, site, strings.Join(changes, " then "), i+1, g.String(), w.String(), res.Outcome, strings.Join(exp, " ; ")))
			return
		}
	}
	if changed {
		res.Hit("mutdata-change-alters-the-result")
	}
	return
}
