//go:build verif

package c16

import (
	"fmt"
	"sort"
	"strings"

	"github.com/ohler55/slip"

	"verif/engine"
	"verif/lisp"
)

// tri is the observed answer of a predicate: true, false or "did not answer".
type tri struct {
	v   int8   // 1 = t, 0 = nil, -1 = no answer
	why string // for v == -1: "go-fault" or "error:<condition class>"
	msg string
}

func (t tri) String() string {
	switch t.v {
	case 1:
		return "t"
	case 0:
		return "nil"
	}
	return t.why
}

var preds = []string{"eq", "eql", "equal", "equalp"}

// relSys is what the relation oracle looks at: the real slip or a model.
type relSys interface {
	pred(p, x, y string) tri // x, y: element names
	hash(x string) (code string, bad tri)
	kind(x string) (moderate, fine string)
}

// ------------------------------------------------------------------ real

type realRel struct {
	objs map[string]slip.Object
	errs map[string]*lisp.Err
}

func newRealRel(names ...string) *realRel {
	r := &realRel{objs: map[string]slip.Object{}, errs: map[string]*lisp.Err{}}
	for _, n := range names {
		if _, has := r.objs[n]; has {
			continue
		}
		e := elemByName[n]
		if e == nil {
			r.errs[n] = &lisp.Err{Message: "unknown element " + n}
			continue
		}
		o, err := e.build()
		if err != nil {
			r.errs[n] = err
		}
		r.objs[n] = o
	}
	return r
}

func errTri(err *lisp.Err) tri {
	if err.GoFault {
		return tri{v: -1, why: "go-fault", msg: err.String()}
	}
	return tri{v: -1, why: "error:" + err.Class, msg: err.String()}
}

func (r *realRel) pred(p, x, y string) tri {
	scope := slip.NewScope()
	scope.Let("x_", r.objs[x])
	scope.Let("y_", r.objs[y])
	val, err := lisp.EvalIn(scope, "("+p+" x_ y_)")
	if err != nil {
		return errTri(err)
	}
	if lisp.Truthy(val) {
		return tri{v: 1}
	}
	return tri{v: 0}
}

func (r *realRel) hash(x string) (string, tri) {
	scope := slip.NewScope()
	scope.Let("x_", r.objs[x])
	val, err := lisp.EvalIn(scope, "(sxhash x_)")
	if err != nil {
		return "", errTri(err)
	}
	return lisp.Show(val), tri{v: 1}
}

func (r *realRel) kind(x string) (string, string) {
	f := fineKind(r.objs[x])
	return kindOf(f), f
}

// ------------------------------------------------------------------ oracle

type verdict struct {
	fails      []engine.Failure
	outcome    string
	nontrivial bool
	hits       []string
}

func (v *verdict) fail(sig, detail string) {
	v.fails = append(v.fails, engine.Failure{Sig: sig, Detail: detail})
}

func (v *verdict) into(res *engine.Result) {
	res.Failures = append(res.Failures, v.fails...)
	res.Outcome = v.outcome
	res.Nontrivial = v.nontrivial
	for _, h := range v.hits {
		res.Hit(h)
	}
}

func sorted2(a, b string) string {
	if b < a {
		a, b = b, a
	}
	return a + "," + b
}

// relY classifies y relative to x for the "predicate did not answer" signatures.
func relY(kx, ky string) string {
	switch {
	case kx == ky:
		return "same-kind"
	case isNumberKind(kx) && isNumberKind(ky):
		return "number"
	case isNumberKind(ky):
		return "number"
	}
	return "other-kind"
}

// checkPair decides, for the unordered pair {x, y} (x may be y: the same
// object): every predicate answers with a boolean in both orders; reflexivity
// (x is y); symmetry; eq => eql => equal => equalp; equal => same sxhash.
func checkPair(sys relSys, x, y string, srcX, srcY string) (v verdict) {
	kx, fx := sys.kind(x)
	ky, fy := sys.kind(y)
	same := x == y
	res := map[string][2]tri{}
	var out []string
	desc := func(p string, swapped bool) string {
		a, b, fa, fb := srcX, srcY, fx, fy
		if swapped {
			a, b, fa, fb = b, a, fb, fa
		}
		return fmt.Sprintf("(%s x y) with x = %s [%s], y = %s [%s]%s", p, a, fa, b, fb, map[bool]string{true: " (x and y are the same object)", false: " (separately built objects)"}[same])
	}
	anyTrue := false
	for _, p := range preds {
		a := sys.pred(p, x, y)
		b := sys.pred(p, y, x)
		res[p] = [2]tri{a, b}
		out = append(out, p+"="+a.String()+"/"+b.String())
		for i, r := range []tri{a, b} {
			if r.v == -1 {
				k1, k2 := kx, ky
				if i == 1 {
					k1, k2 = ky, kx
				}
				v.fail(fmt.Sprintf("rel=%s result=%s x=%s y=%s", p, r.why, k1, relY(k1, k2)),
					desc(p, i == 1)+" => "+r.msg+"; a predicate must answer t or nil")
				v.hits = append(v.hits, "pred-no-answer")
			}
			if r.v == 1 {
				anyTrue = true
			}
		}
		if same && a.v == 0 {
			v.fail(fmt.Sprintf("rel=%s law=reflexive x=%s", p, kx), desc(p, false)+" => nil; expected t")
		}
		if a.v != -1 && b.v != -1 && a.v != b.v {
			v.fail(fmt.Sprintf("rel=%s law=symmetric kinds=%s", p, sorted2(kx, ky)),
				fmt.Sprintf("%s => %s but with the arguments swapped => %s", desc(p, false), a, b))
		}
	}
	if same {
		v.hits = append(v.hits, "reflexive-checked")
	}
	// implication chain, both orders
	for i := 0; i+1 < len(preds); i++ {
		p, q := preds[i], preds[i+1]
		for o := 0; o < 2; o++ {
			if res[p][o].v == 1 {
				v.hits = append(v.hits, "chain-antecedent-true")
				if res[q][o].v == 0 {
					v.fail(fmt.Sprintf("law=implies rel=%s=>%s kinds=%s", p, q, sorted2(kx, ky)),
						fmt.Sprintf("%s => t but %s => nil", desc(p, o == 1), desc(q, o == 1)))
				}
			}
		}
	}
	// sxhash
	hx, bx := sys.hash(x)
	hy, by := sys.hash(y)
	if bx.v == -1 {
		v.fail(fmt.Sprintf("fn=sxhash result=%s x=%s", bx.why, kx), fmt.Sprintf("(sxhash x) with x = %s [%s] => %s", srcX, fx, bx.msg))
	}
	if by.v == -1 && !same {
		v.fail(fmt.Sprintf("fn=sxhash result=%s x=%s", by.why, ky), fmt.Sprintf("(sxhash x) with x = %s [%s] => %s", srcY, fy, by.msg))
	}
	out = append(out, "h="+hx+"/"+hy)
	if bx.v == 1 && by.v == 1 && (res["equal"][0].v == 1 || res["equal"][1].v == 1) {
		v.hits = append(v.hits, "sxhash-on-equal-pair")
		if !same {
			v.hits = append(v.hits, "sxhash-on-equal-distinct-objects")
		}
		if hx != hy {
			fs := []string{fx, fy}
			sort.Strings(fs)
			v.fail(fmt.Sprintf("fn=sxhash law=equal-implies-same-code kinds=%s", strings.Join(fs, ",")),
				fmt.Sprintf("%s => t but (sxhash x) => %s and (sxhash y) => %s", desc("equal", res["equal"][0].v != 1), hx, hy))
		}
	}
	v.outcome = strings.Join(out, " ")
	v.nontrivial = !same && anyTrue || same
	if !same && anyTrue {
		v.hits = append(v.hits, "distinct-objects-related")
	}
	if fx != fy && isNumberKind(kx) && isNumberKind(ky) && anyTrue {
		v.hits = append(v.hits, "cross-representation-numbers-related")
	}
	return
}

// checkTriple decides transitivity of every predicate on the ordered triple
// (x, y, z): p(x,y) and p(y,z) => p(x,z). Predicates that do not answer are
// reported by checkPair, not here.
func checkTriple(sys relSys, x, y, z string, src [3]string) (v verdict) {
	kx, fx := sys.kind(x)
	ky, fy := sys.kind(y)
	kz, fz := sys.kind(z)
	var out []string
	for _, p := range preds {
		a := sys.pred(p, x, y)
		if a.v != 1 {
			out = append(out, p+":"+a.String())
			continue
		}
		b := sys.pred(p, y, z)
		if b.v != 1 {
			out = append(out, p+":t,"+b.String())
			continue
		}
		c := sys.pred(p, x, z)
		out = append(out, p+":t,t,"+c.String())
		v.nontrivial = true
		v.hits = append(v.hits, "transitive-antecedent-true")
		if fx != fy || fy != fz {
			v.hits = append(v.hits, "transitive-mixed-representations")
		}
		if c.v == 0 {
			v.fail(fmt.Sprintf("rel=%s law=transitive kinds=%s,%s,%s", p, kx, ky, kz),
				fmt.Sprintf("(%s x y) => t and (%s y z) => t but (%s x z) => nil, with x = %s [%s], y = %s [%s], z = %s [%s]",
					p, p, p, src[0], fx, src[1], fy, src[2], fz))
		}
	}
	v.outcome = strings.Join(out, " ")
	return
}

func execPair(parts []string) (res engine.Result) {
	if len(parts) != 3 || elemByName[parts[1]] == nil || elemByName[parts[2]] == nil {
		res.Fail("harness:bad-spec", strings.Join(parts, "|"))
		return
	}
	x, y := parts[1], parts[2]
	sys := newRealRel(x, y)
	if len(sys.errs) != 0 {
		for n, e := range sys.errs {
			res.Fail("harness:cannot-build-element", n+": "+e.String())
		}
		return
	}
	v := checkPair(sys, x, y, elemByName[x].src, elemByName[y].src)
	v.into(&res)
	return
}

func execTriple(parts []string) (res engine.Result) {
	if len(parts) != 4 || elemByName[parts[1]] == nil || elemByName[parts[2]] == nil || elemByName[parts[3]] == nil {
		res.Fail("harness:bad-spec", strings.Join(parts, "|"))
		return
	}
	x, y, z := parts[1], parts[2], parts[3]
	sys := newRealRel(x, y, z)
	if len(sys.errs) != 0 {
		for n, e := range sys.errs {
			res.Fail("harness:cannot-build-element", n+": "+e.String())
		}
		return
	}
	v := checkTriple(sys, x, y, z, [3]string{elemByName[x].src, elemByName[y].src, elemByName[z].src})
	v.into(&res)
	return
}
