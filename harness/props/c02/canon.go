package c02

import (
	"fmt"
	"math/big"
	"strconv"
	"strings"
	"time"

	"github.com/ohler55/slip"
)

// cv is the harness' own value tree. Objects read by slip are converted to it
// by a Go type switch (never through slip's printer or slip's Equal); the
// denotations of the generator and the reference reader are built in the same
// form, so comparison is plain structural equality of two trees.
type cv struct {
	k    string // kind: nil t fix big ratio sf df lf str sym chr list vec arr bits cpx time fn tail ?
	s    string // payload of a leaf (decimal text, raw string content, ...)
	kids []*cv
}

func leaf(k, s string) *cv { return &cv{k: k, s: s} }

func (v *cv) String() string {
	var b strings.Builder
	v.write(&b)
	return b.String()
}

func (v *cv) write(b *strings.Builder) {
	switch v.k {
	case "nil", "t":
		b.WriteString(v.k)
	case "str", "sym":
		b.WriteString(v.k)
		b.WriteByte(':')
		b.WriteString(strconv.Quote(v.s))
	case "list", "vec", "arr", "cpx", "fn":
		switch v.k {
		case "list":
			b.WriteByte('(')
		case "vec":
			b.WriteString("#(")
		case "arr":
			b.WriteString("#A" + v.s + "(")
		case "cpx":
			b.WriteString("#C(")
		case "fn":
			b.WriteString("{" + v.s)
			if 0 < len(v.kids) {
				b.WriteByte(' ')
			}
		}
		for i, k := range v.kids {
			if 0 < i {
				b.WriteByte(' ')
			}
			k.write(b)
		}
		if v.k == "fn" {
			b.WriteByte('}')
		} else {
			b.WriteByte(')')
		}
	case "tail":
		b.WriteString(". ")
		v.kids[0].write(b)
	default:
		b.WriteString(v.k)
		b.WriteByte(':')
		b.WriteString(v.s)
	}
}

func cvInt(n *big.Int) *cv {
	if n.IsInt64() {
		return leaf("fix", n.String())
	}
	return leaf("big", n.String())
}

func cvList(kids ...*cv) *cv {
	if len(kids) == 0 {
		return leaf("nil", "")
	}
	return &cv{k: "list", kids: kids}
}

func fmtF(f float64, bits int) string { return strconv.FormatFloat(f, 'g', -1, bits) }

// canon converts an object read by slip.
func canon(obj slip.Object, depth int) *cv {
	if 60 < depth {
		return leaf("?", "deep")
	}
	switch v := obj.(type) {
	case nil:
		return leaf("nil", "")
	case slip.Fixnum:
		return leaf("fix", strconv.FormatInt(int64(v), 10))
	case *slip.Bignum:
		return leaf("big", (*big.Int)(v).String())
	case *slip.Ratio:
		r := (*big.Rat)(v)
		return leaf("ratio", r.Num().String()+"/"+r.Denom().String())
	case slip.SingleFloat:
		return leaf("sf", fmtF(float64(v), 32))
	case slip.DoubleFloat:
		return leaf("df", fmtF(float64(v), 64))
	case *slip.LongFloat:
		return leaf("lf", (*big.Float)(v).Text('g', 18))
	case slip.Complex:
		return &cv{k: "cpx", kids: []*cv{leaf("df", fmtF(real(complex128(v)), 64)), leaf("df", fmtF(imag(complex128(v)), 64))}}
	case slip.String:
		return leaf("str", string(v))
	case slip.Symbol:
		return leaf("sym", string(v))
	case slip.Character:
		return leaf("chr", fmt.Sprintf("U+%04X", rune(v)))
	case slip.Time:
		return leaf("time", time.Time(v).UTC().Format(time.RFC3339Nano))
	case slip.List:
		if len(v) == 0 {
			return leaf("nil", "")
		}
		// 'x and #'x inside quoted data: since /repo a97a921 the reader gives the LIST (quote x) / (function x) there, where
		// it gave a function object before. Both are the object the text denotes (the statement is about the text denoting one
		// sequence of objects whatever the delivery, not about which of the two representations of a quote form is used), so
		// the list is brought to the form the denotations use.
		if sym, ok := v[0].(slip.Symbol); ok && len(v) == 2 && (strings.EqualFold(string(sym), "quote") || strings.EqualFold(string(sym), "function")) {
			return &cv{k: "fn", s: strings.ToLower(string(sym)), kids: []*cv{canon(v[1], depth+1)}}
		}
		out := &cv{k: "list"}
		for _, e := range v {
			out.kids = append(out.kids, canon(e, depth+1))
		}
		return out
	case slip.Tail:
		return &cv{k: "tail", kids: []*cv{canon(v.Value, depth+1)}}
	case *slip.Vector:
		out := &cv{k: "vec"}
		for _, e := range v.AsList() {
			out.kids = append(out.kids, canon(e, depth+1))
		}
		return out
	case *slip.Array:
		out := &cv{k: "arr", s: fmt.Sprint(v.Dimensions())}
		for _, e := range v.AsList() {
			out.kids = append(out.kids, canon(e, depth+1))
		}
		return out
	case *slip.BitVector:
		var sb strings.Builder
		for i := uint(0); i < v.Len; i++ {
			if int(i/8) < len(v.Bytes) && v.Bytes[i/8]&(0x80>>(i%8)) != 0 {
				sb.WriteByte('1')
			} else {
				sb.WriteByte('0')
			}
		}
		return leaf("bits", sb.String())
	case slip.Funky:
		// named by Go type: the reader builds *cl.Quote, *cl.Function, *cl.Backquote, *cl.Comma, *cl.CommaAt
		out := &cv{k: "fn", s: strings.ToLower(strings.TrimPrefix(fmt.Sprintf("%T", obj), "*cl."))}
		for _, e := range v.GetArgs() {
			out.kids = append(out.kids, canon(e, depth+1))
		}
		return out
	}
	if obj == slip.True {
		return leaf("t", "")
	}
	return leaf("?", fmt.Sprintf("%T:%s", obj, obj.String()))
}

// diff finds the first difference between two trees (pre-order). shape is one
// of "" (equal), "structure", "extra-prefix", "lost-prefix", "other"; path is
// the list of child indexes leading to the differing node.
func diff(want, got *cv) (shape string, w, g *cv) {
	shape, w, g, _ = diffPath(want, got, nil)
	return
}

func diffPath(want, got *cv, path []int) (shape string, w, g *cv, at []int) {
	if len(want.kids) == 0 && len(got.kids) == 0 {
		if want.k == got.k && want.s == got.s {
			return "", nil, nil, nil
		}
		return leafShape(want, got), want, got, path
	}
	if want.k != got.k || want.s != got.s {
		return "structure", want, got, path
	}
	n := len(want.kids)
	if len(got.kids) < n {
		n = len(got.kids)
	}
	for i := 0; i < n; i++ {
		if s, w2, g2, p2 := diffPath(want.kids[i], got.kids[i], append(append([]int{}, path...), i)); s != "" {
			return s, w2, g2, p2
		}
	}
	if len(want.kids) != len(got.kids) {
		return "structure", want, got, append(append([]int{}, path...), n)
	}
	return "", nil, nil, nil
}

func leafText(v *cv) string {
	switch v.k {
	case "nil":
		return "nil"
	case "t":
		return "t"
	case "ratio":
		return v.s
	}
	return v.s
}

func leafShape(want, got *cv) string {
	w, g := leafText(want), leafText(got)
	switch {
	case len(w) < len(g) && strings.HasSuffix(g, w):
		return "extra-prefix"
	case len(g) < len(w) && strings.HasSuffix(w, g):
		return "lost-prefix"
	}
	return "other"
}

func seqString(vs []*cv) string {
	var parts []string
	for _, v := range vs {
		parts = append(parts, v.String())
	}
	return "[" + strings.Join(parts, " ; ") + "]"
}
