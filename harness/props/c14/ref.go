package c14

import (
	"fmt"
	"sort"
	"strconv"
	"strings"
	"unicode"
)

// The reference: every function written from the language definition (CLHS
// chapters 14 and 17) on Go slices of el. A mutation number != 0 switches on
// one deliberately wrong rule (oracle-sensitivity self-test, S6).

const (
	mutNone              = iota
	mutFromEndCountFront // :from-end with :count removes/substitutes from the front
	mutEndInclusive      // :end treated as inclusive
	mutStableUnstable    // stable-sort reverses runs of equal keys
	mutKeyNotOnString    // :key not applied on strings (position/find/count)
	mutSearchFromEndLeft // search :from-end returns the leftmost match
	mutMergeSecondFirst  // merge takes from sequence-2 on ties
	mutCountVisits       // :count counts visited elements instead of matches
	mutDupsKeepFirst     // remove-duplicates keeps the first instead of the last
	mutReduceFromEndArgs // reduce :from-end calls (f acc x) instead of (f x acc)
	mutLast
)

var mutNames = map[int]string{
	mutFromEndCountFront: ":from-end with :count works from the front (remove/substitute family)",
	mutEndInclusive:      ":end treated as inclusive (item family)",
	mutStableUnstable:    "stable-sort does not keep equal elements in input order",
	mutKeyNotOnString:    ":key not applied to string elements (find/position/count)",
	mutSearchFromEndLeft: "search :from-end returns the leftmost match",
	mutMergeSecondFirst:  "merge prefers sequence-2 on ties",
	mutCountVisits:       ":count counts visited elements, not matches (substitute family)",
	mutDupsKeepFirst:     "remove-duplicates keeps the first duplicate without :from-end",
	mutReduceFromEndArgs: "reduce :from-end passes the accumulator first",
}

// want is what the statement demands of one call.
type want struct {
	show   string                                // exact rendering (lisp.Show) demanded, when check == nil and truthy == nil
	truthy *bool                                 // only the truth value is demanded
	check  func(got string, dec *decoded) string // custom acceptance: "" = accepted, else the reason
	orErr  bool                                  // a Lisp error is acceptable as well (undocumented keyword)
	desc   string                                // human description of what is demanded
}

func exact(s string) want { return want{show: s, desc: s} }
func truth(b bool) want {
	return want{truthy: &b, desc: map[bool]string{true: "a true value", false: "nil"}[b]}
}

// keyOf applies the call's :key to an element.
func (c *call) keyOf(e el, mut int) rune {
	if c.key && c.shape(0) == 'c' {
		if mut == mutKeyNotOnString {
			return e.ch
		}
		return unicode.ToLower(e.ch)
	}
	return e.ch // car of (sym . id) is the symbol; identity otherwise
}

// matchItem: does (test item key) hold.
func (c *call) matchItem(item, k rune) bool {
	switch c.test {
	case "lam":
		return item < k
	case "not":
		return item != k
	}
	return item == k
}

func (c *call) matchPred(k rune) bool {
	switch c.pred {
	case "eq":
		return k == 'b'
	case "gt":
		return 'b' < k
	}
	panic("bad pred")
}

// satisfies: the element test of the item / -if families.
func (c *call) satisfies(e el, mut int) bool {
	k := c.keyOf(e, mut)
	switch family(c.fn) {
	case famIf, famSubstIf:
		m := c.matchPred(k)
		if c.fn == "assoc-if-not" {
			return !m
		}
		return m
	}
	return c.matchItem(rune(c.item[0]), k)
}

func (c *call) bounds(n int, mut int) (s, e int) {
	s, e = 0, n
	if c.hasStart {
		s = c.start
	}
	if c.hasEnd && !c.endNil {
		e = c.end
		if mut == mutEndInclusive && e < n {
			e++
		}
	}
	return
}

func (c *call) bounds2(n int) (s, e int) {
	s, e = 0, n
	if c.hasStart2 {
		s = c.start2
	}
	if c.hasEnd2 && !c.endNil2 {
		e = c.end2
	}
	return
}

func (c *call) limit() int {
	switch c.count {
	case "", "nil":
		return 1 << 30
	}
	n, _ := strconv.Atoi(c.count)
	if n < 0 {
		n = 0
	}
	return n
}

// scan returns the indices of [s,e) in scan order.
func scan(s, e int, fromEnd bool) []int {
	var idx []int
	if fromEnd {
		for i := e - 1; s <= i; i-- {
			idx = append(idx, i)
		}
	} else {
		for i := s; i < e; i++ {
			idx = append(idx, i)
		}
	}
	return idx
}

func boolp(b bool) *bool { return &b }

// expect computes what the language defines for the call.
func expect(c *call, mut int) want {
	switch family(c.fn) {
	case famItem, famIf, famSubst, famSubstIf:
		return expectItem(c, mut)
	case famDups:
		return expectDups(c, mut)
	case famRev:
		els := c.els(0)
		out := make([]el, len(els))
		for i, e := range els {
			out[len(els)-1-i] = e
		}
		return exact(showSeq(c.typs[0], c.shape(0), out))
	case famTwo:
		return expectTwo(c, mut)
	case famSubseq:
		els := c.els(0)
		e := len(els)
		if c.subEnd != "" && c.subEnd != "nil" {
			e, _ = strconv.Atoi(c.subEnd)
		}
		return exact(showSeq(c.typs[0], c.shape(0), els[c.start:e]))
	case famFill:
		els := append([]el(nil), c.els(0)...)
		s, e := c.bounds(len(els), mut)
		for i := s; i < e; i++ {
			els[i] = newEl
		}
		return exact(showSeq(c.typs[0], c.shape(0), els))
	case famSort:
		return expectSort(c, mut)
	case famMerge:
		return expectMerge(c, mut)
	case famSet:
		return expectSet(c, mut)
	case famQuant:
		return expectQuant(c, mut)
	case famMap:
		return expectMap(c, mut)
	case famReduce:
		return expectReduce(c, mut)
	case famConcat:
		var b []string
		for i := range c.seqs {
			for _, e := range c.els(i) {
				b = append(b, showEl(c.shape(i), e))
			}
		}
		return exact(showList(c.rtype, b, c, 0))
	}
	panic("no reference for " + c.fn)
}

// showList renders already rendered elements as a sequence of the named
// result type (string results are built from the character elements).
func showList(rtype string, parts []string, c *call, _ int) string {
	switch rtype {
	case "string":
		var b strings.Builder
		for _, p := range parts {
			// p is #\'x'
			r, _ := strconv.Unquote(p[2:])
			b.WriteString(r)
		}
		return strconv.Quote(b.String())
	case "vector":
		return "#(" + strings.Join(parts, " ") + ")"
	}
	if len(parts) == 0 {
		return "nil"
	}
	return "(" + strings.Join(parts, " ") + ")"
}

func expectItem(c *call, mut int) want {
	els := c.els(0)
	sh := c.shape(0)
	typ := c.typs[0]
	s, e := c.bounds(len(els), mut)
	order := scan(s, e, c.fromEnd)
	op := c.fn
	for _, suf := range []string{"-if-not", "-if"} {
		op = strings.TrimSuffix(op, suf)
	}
	switch op {
	case "find", "position", "member", "assoc", "rassoc":
		for _, i := range order {
			if c.satisfies(els[i], mut) {
				switch op {
				case "position":
					return exact(strconv.Itoa(i))
				case "member":
					return exact(showSeq('L', sh, els[i:]))
				}
				return exact(showEl(sh, els[i]))
			}
		}
		return exact("nil")
	case "count":
		n := 0
		for _, i := range order {
			if c.satisfies(els[i], mut) {
				n++
			}
		}
		return exact(strconv.Itoa(n))
	case "remove", "delete", "substitute", "nsubstitute":
		limit := c.limit()
		if mut == mutFromEndCountFront && c.fromEnd && c.count != "" {
			order = scan(s, e, false)
		}
		chosen := map[int]bool{}
		visits := 0
		for _, i := range order {
			if limit <= len(chosen) {
				break
			}
			if mut == mutCountVisits && c.count != "" && (op == "substitute" || op == "nsubstitute") {
				if limit <= visits {
					break
				}
				visits++
			}
			if c.satisfies(els[i], mut) {
				chosen[i] = true
			}
		}
		var out []el
		for i, x := range els {
			switch {
			case !chosen[i]:
				out = append(out, x)
			case op == "substitute" || op == "nsubstitute":
				out = append(out, newEl)
			}
		}
		w := exact(showSeq(typ, sh, out))
		if c.count == "nil" {
			// slip documents :count as a fixnum whose default is nil; passing nil explicitly may be rejected
			w.orErr = true
		}
		if c.test == "not" {
			w.orErr = true
		}
		return w
	}
	panic("no item reference for " + c.fn)
}

func expectDups(c *call, mut int) want {
	els := c.els(0)
	s, e := c.bounds(len(els), mut)
	removed := map[int]bool{}
	fromEnd := c.fromEnd
	if mut == mutDupsKeepFirst {
		fromEnd = true
	}
	for i := s; i < e; i++ {
		for j := i + 1; j < e; j++ {
			if c.keyOf(els[i], mut) == c.keyOf(els[j], mut) {
				if fromEnd {
					removed[j] = true
				} else {
					removed[i] = true
				}
			}
		}
	}
	var out []el
	for i, x := range els {
		if !removed[i] {
			out = append(out, x)
		}
	}
	return exact(showSeq(c.typs[0], c.shape(0), out))
}

func (c *call) match2(a, b el, mut int) bool {
	ka, kb := c.keyOf(a, mut), c.keyOf(b, mut)
	if c.test == "lam" {
		return ka < kb
	}
	return ka == kb
}

func expectTwo(c *call, mut int) want {
	a, b := c.els(0), c.els(1)
	s1, e1 := c.bounds(len(a), mut)
	s2, e2 := c.bounds2(len(b))
	switch c.fn {
	case "search":
		n := e1 - s1
		var found []int
		for p := s2; p+n <= e2; p++ {
			ok := true
			for i := 0; i < n; i++ {
				if !c.match2(a[s1+i], b[p+i], mut) {
					ok = false
					break
				}
			}
			if ok {
				found = append(found, p)
			}
		}
		if len(found) == 0 {
			return exact("nil")
		}
		if n == 0 && c.fromEnd && mut == mutNone {
			// an empty pattern matches everywhere; with :from-end the rightmost match is at end2, but
			// implementations that answer start2 exist: both are accepted
			lo, hi := strconv.Itoa(s2), strconv.Itoa(e2)
			w := want{desc: hi + " (or " + lo + ")"}
			w.check = func(got string, _ *decoded) string {
				if got == lo || got == hi {
					return ""
				}
				return "neither start2 nor end2"
			}
			return w
		}
		if c.fromEnd && mut != mutSearchFromEndLeft {
			return exact(strconv.Itoa(found[len(found)-1]))
		}
		return exact(strconv.Itoa(found[0]))
	case "mismatch":
		n1, n2 := e1-s1, e2-s2
		if c.fromEnd {
			for j := 0; ; j++ {
				if n1 <= j && n2 <= j {
					return exact("nil")
				}
				if n1 <= j || n2 <= j || !c.match2(a[e1-1-j], b[e2-1-j], mut) {
					return exact(strconv.Itoa(e1 - j))
				}
			}
		}
		for j := 0; ; j++ {
			if n1 <= j && n2 <= j {
				return exact("nil")
			}
			if n1 <= j || n2 <= j || !c.match2(a[s1+j], b[s2+j], mut) {
				return exact(strconv.Itoa(s1 + j))
			}
		}
	case "replace":
		out := append([]el(nil), a...)
		for i := 0; s1+i < e1 && s2+i < e2; i++ {
			out[s1+i] = b[s2+i]
		}
		return exact(showSeq(c.typs[0], c.shape(0), out))
	}
	panic("no two-sequence reference for " + c.fn)
}

// less: the sort predicate on keys.
func (c *call) less(a, b el, mut int) bool {
	ka, kb := c.keyOf(a, mut), c.keyOf(b, mut)
	if c.pred == "gtp" {
		return kb < ka
	}
	return ka < kb
}

func expectSort(c *call, mut int) want {
	els := append([]el(nil), c.els(0)...)
	typ, sh := c.typs[0], c.shape(0)
	sort.SliceStable(els, func(i, j int) bool { return c.less(els[i], els[j], mut) })
	if c.fn == "stable-sort" {
		if mut == mutStableUnstable {
			// reverse every run of equal keys
			for i := 0; i < len(els); {
				j := i
				for j < len(els) && !c.less(els[i], els[j], mut) && !c.less(els[j], els[i], mut) {
					j++
				}
				for a, b := i, j-1; a < b; a, b = a+1, b-1 {
					els[a], els[b] = els[b], els[a]
				}
				i = j
			}
		}
		return exact(showSeq(typ, sh, els))
	}
	// sort: any permutation of the input that is ordered by the predicate
	in := c.els(0)
	w := want{desc: "a permutation of the input ordered by the predicate, e.g. " + showSeq(typ, sh, els)}
	w.check = func(got string, dec *decoded) string {
		if dec == nil || dec.typ != normTyp(typ) {
			return "result is not a " + typName(typ)
		}
		if !sameMultiset(dec.els, in, sh) {
			return "result is not a permutation of the input"
		}
		for i := 0; i+1 < len(dec.els); i++ {
			if c.less(dec.els[i+1], dec.els[i], mutNone) {
				return fmt.Sprintf("elements %d and %d are out of order", i, i+1)
			}
		}
		return ""
	}
	return w
}

func expectMerge(c *call, mut int) want {
	a, b := c.els(0), c.els(1)
	var out []el
	for 0 < len(a) || 0 < len(b) {
		switch {
		case len(a) == 0:
			out = append(out, b...)
			b = nil
		case len(b) == 0:
			out = append(out, a...)
			a = nil
		default:
			takeB := c.less(b[0], a[0], mut)
			if mut == mutMergeSecondFirst {
				takeB = !c.less(a[0], b[0], mut)
			}
			if takeB {
				out = append(out, b[0])
				b = b[1:]
			} else {
				out = append(out, a[0])
				a = a[1:]
			}
		}
	}
	parts := make([]string, len(out))
	for i, e := range out {
		parts[i] = showEl(c.shape(0), e)
	}
	return exact(showList(c.rtype, parts, c, 0))
}

// sorted says whether els is ordered by the call's predicate (merge inputs).
func (c *call) sorted(els []el) bool {
	for i := 0; i+1 < len(els); i++ {
		if c.less(els[i+1], els[i], mutNone) {
			return false
		}
	}
	return true
}

func expectSet(c *call, mut int) want {
	a, b := c.els(0), c.els(1)
	sh := c.shape(0)
	has := func(k rune, in []el) bool {
		for _, e := range in {
			if c.keyOf(e, mut) == k {
				return true
			}
		}
		return false
	}
	if c.fn == "subsetp" {
		for _, x := range a {
			ok := false
			for _, y := range b {
				if c.match2(x, y, mut) {
					ok = true
				}
			}
			if !ok {
				return truth(false)
			}
		}
		return truth(true)
	}
	// which keys must be present, and from which pool the elements may come
	var pool []el
	need := map[rune]bool{}
	switch c.fn {
	case "union", "nunion":
		pool = append(append(pool, a...), b...)
		for _, e := range pool {
			need[c.keyOf(e, mut)] = true
		}
	case "intersection", "nintersection":
		pool = append(append(pool, a...), b...)
		for _, e := range a {
			if has(c.keyOf(e, mut), b) {
				need[c.keyOf(e, mut)] = true
			}
		}
	case "set-difference", "nset-difference":
		if c.test == "lam" {
			// asymmetric test: elements of list-1 for which no element of list-2 satisfies (test k1 k2)
			var out []el
			for _, x := range a {
				hit := false
				for _, y := range b {
					if c.match2(x, y, mut) {
						hit = true
					}
				}
				if !hit {
					out = append(out, x)
				}
			}
			exp := out
			w := want{desc: "the elements of list-1 matching no element of list-2 (any order): " + showSeq('L', sh, exp)}
			w.check = func(got string, dec *decoded) string {
				if dec == nil || dec.typ != 'L' {
					return "result is not a list"
				}
				if !sameMultiset(dec.els, exp, sh) {
					return "wrong elements"
				}
				return ""
			}
			return w
		}
		pool = a
		for _, e := range a {
			if !has(c.keyOf(e, mut), b) {
				need[c.keyOf(e, mut)] = true
			}
		}
	}
	noDups := func(in []el) bool {
		seen := map[rune]bool{}
		for _, e := range in {
			k := c.keyOf(e, mut)
			if seen[k] {
				return false
			}
			seen[k] = true
		}
		return true
	}
	strict := noDups(a) && noDups(b)
	var keys []string
	for k := range need {
		keys = append(keys, string(k))
	}
	sort.Strings(keys)
	w := want{desc: fmt.Sprintf("a list (any order) whose keys are exactly {%s}, elements taken from the arguments", strings.Join(keys, " "))}
	w.check = func(got string, dec *decoded) string {
		if dec == nil || dec.typ != 'L' {
			return "result is not a list"
		}
		gotKeys := map[rune]int{}
		avail := map[el]int{}
		for _, e := range pool {
			avail[normEl(e, sh)]++
		}
		for _, e := range dec.els {
			ne := normEl(e, sh)
			if avail[ne] == 0 {
				return "element " + showEl(sh, e) + " occurs more often than in the arguments"
			}
			avail[ne]--
			gotKeys[c.keyOf(e, mutNone)]++
		}
		for k := range need {
			if gotKeys[k] == 0 {
				return "no element with key " + string(k)
			}
		}
		for k, n := range gotKeys {
			if !need[k] {
				return "unexpected element with key " + string(k)
			}
			if strict && 1 < n {
				return "key " + string(k) + " occurs more than once although neither argument has duplicates"
			}
		}
		return ""
	}
	return w
}

// normEl drops the identity where the shape cannot show it.
func normEl(e el, sh byte) el {
	if sh == 'y' || sh == 'c' {
		e.id = 0
	}
	return e
}

func sameMultiset(a, b []el, sh byte) bool {
	if len(a) != len(b) {
		return false
	}
	m := map[el]int{}
	for _, e := range a {
		m[normEl(e, sh)]++
	}
	for _, e := range b {
		m[normEl(e, sh)]--
	}
	for _, n := range m {
		if n != 0 {
			return false
		}
	}
	return true
}

func expectQuant(c *call, mut int) want {
	n := -1
	for i := range c.seqs {
		if n < 0 || len(c.seqs[i]) < n {
			n = len(c.seqs[i])
		}
	}
	holds := func(i int) bool {
		switch c.pred {
		case "eq", "gt":
			return c.matchPred(c.els(0)[i].ch)
		case "eq2":
			return c.els(0)[i].ch == c.els(1)[i].ch
		case "lt2":
			return c.els(0)[i].ch < c.els(1)[i].ch
		}
		panic("bad quantifier predicate")
	}
	all, any := true, false
	for i := 0; i < n; i++ {
		if holds(i) {
			any = true
		} else {
			all = false
		}
	}
	switch c.fn {
	case "every":
		return truth(all)
	case "some":
		return truth(any)
	case "notany":
		return truth(!any)
	case "notevery":
		return truth(!all)
	}
	panic("bad quantifier")
}

func expectMap(c *call, mut int) want {
	n := -1
	for i := range c.seqs {
		if n < 0 || len(c.seqs[i]) < n {
			n = len(c.seqs[i])
		}
	}
	var parts []string
	for i := 0; i < n; i++ {
		switch c.pred {
		case "wrap":
			parts = append(parts, "("+showEl(c.shape(0), c.els(0)[i])+")")
		case "up":
			e := c.els(0)[i]
			e.ch = unicode.ToUpper(e.ch)
			parts = append(parts, showEl('c', e))
		case "pair2":
			parts = append(parts, "("+showEl(c.shape(0), c.els(0)[i])+" "+showEl(c.shape(1), c.els(1)[i])+")")
		case "second2":
			parts = append(parts, showEl(c.shape(1), c.els(1)[i]))
		}
	}
	if c.fn == "map" && c.rtype == "nil" {
		return exact("nil")
	}
	rt := c.rtype
	if c.fn == "mapcar" {
		rt = "list"
	}
	return exact(showList(rt, parts, c, 0))
}

func expectReduce(c *call, mut int) want {
	els := c.els(0)
	s, e := c.bounds(len(els), mut)
	var vals []string
	for _, x := range els[s:e] {
		k := c.keyOf(x, mut)
		if c.shape(0) == 'c' {
			vals = append(vals, showEl('c', el{ch: k}))
		} else if c.key {
			vals = append(vals, string(k))
		} else {
			vals = append(vals, showEl(c.shape(0), x))
		}
	}
	pair := func(a, b string) string { return "(" + a + " " + b + ")" }
	if c.fromEnd {
		var acc string
		if c.init {
			acc = "i"
		} else {
			if len(vals) == 0 {
				return exact("zero")
			}
			acc = vals[len(vals)-1]
			vals = vals[:len(vals)-1]
		}
		for i := len(vals) - 1; 0 <= i; i-- {
			if mut == mutReduceFromEndArgs {
				acc = pair(acc, vals[i])
			} else {
				acc = pair(vals[i], acc)
			}
		}
		return exact(acc)
	}
	var acc string
	if c.init {
		acc = "i"
	} else {
		if len(vals) == 0 {
			return exact("zero")
		}
		acc = vals[0]
		vals = vals[1:]
	}
	for _, v := range vals {
		acc = pair(acc, v)
	}
	return exact(acc)
}

func normTyp(t byte) byte {
	if t == 'N' {
		return 'L'
	}
	return t
}

func typName(t byte) string {
	switch t {
	case 'L':
		return "list"
	case 'N':
		return "nil"
	case 'V':
		return "vector"
	case 'S':
		return "string"
	}
	return "?"
}
