package c09

// bare.go: the same question asked from a package that does not use common-lisp: texts are read and evaluated while
// the current package is a package made by (defpackage "c09-bare") without a :use option. Raising a condition needs
// its class, the reader needs its control variables - both must be found from there too. Every form must still end
// in a value or a Lisp condition.
//
// spec: b|<k>

import (
	"fmt"
	"strconv"
	"strings"

	"github.com/ohler55/slip"

	"verif/engine"
)

var bareForms = []string{
	`(cl:car 5)`, `(cl:+ 1 2)`, `(nosuchfn 1)`, `nosuchvar`, `"a string"`, `42`, `:key`, `'(a b)`,
	`(cl:list 1 (cl:quote x))`, `(cl:let ((x 1)) (cl:+ x nosuch))`, `(cl:funcall (cl:lambda (z) (cl:/ z 0)) 1)`,
	`(cl:format cl:nil "~D" 12)`, `(cl:read-from-string "(1 2")`, `(cl:make-instance 'nosuchclass)`,
	`(cl:defun bf (x) x)`, `(cl:error "boom")`, `(cl:in-package :common-lisp-user)`, `#x1F`, `1.5`, `(cl:coerce 1 'cl:float)`,
}

func enumBare(emit func(string)) {
	for i := range bareForms {
		emit("b|" + strconv.Itoa(i))
	}
}

func execBare(spec string) (res engine.Result) {
	k, err := strconv.Atoi(strings.TrimPrefix(spec, "b|"))
	if err != nil || k < 0 || len(bareForms) <= k {
		res.Fail("harness:bad-spec", spec)
		return
	}
	src := bareForms[k]
	saved := slip.CurrentPackage
	defer func() { slip.CurrentPackage = saved }()
	scope := slip.NewScope()
	if slip.FindPackage("c09-bare") == nil {
		setup := observe(func() slip.Object {
			_ = slip.ReadString(`(defpackage "c09-bare")`, scope).Eval(scope, nil)
			return nil
		})
		if setup.kind != "value" {
			res.Fail("harness:setup-failed", "defpackage c09-bare: "+setup.describe())
			return
		}
	}
	bare := slip.FindPackage("c09-bare")
	if bare == nil {
		res.Fail("harness:setup-failed", "package c09-bare not found")
		return
	}
	slip.CurrentPackage = bare
	o := observe(func() slip.Object { return slip.ReadString(src, scope).Eval(scope, nil) })
	slip.CurrentPackage = saved
	res.Hit("bare-package-cases")
	judgeCall(&res, o, &realClassifier, fmt.Sprintf("bare-package form=%d", k), "in a package that uses nothing: "+src)
	return
}
