// Package zz is the engine's own smoke test: a 2-counter toy explored by BFS.
package zz

import (
	"fmt"

	"verif/engine"
)

func init() {
	engine.Register(&engine.Prop{
		ID: "ZZ", Level: "model_checking", Rule: "toy",
		Exec: func(spec string) (r engine.Result) {
			h, _ := engine.ParseBFSSpec(spec)
			a, b := 0, 0
			for _, op := range h {
				switch op {
				case "a+":
					a = (a + 1) % 4
				case "b+":
					b = (b + 1) % 3
				case "swap":
					if a == b {
						return // inapplicable
					}
					a, b = b%4, a%3
				}
			}
			if a == 3 && b == 2 {
				r.Fail("toy:a3b2", "reached")
			}
			r.Key = fmt.Sprint(a, b)
			r.Nontrivial = true
			r.Outcome = r.Key
			return
		},
		BFS: &engine.BFS{
			Ops:      func(string) []string { return []string{"a+", "b+", "swap"} },
			MaxDepth: func(string) int { return 10 },
			NoDedupDepth: func(string) int { return 2 },
		},
	})
}
