// Package c15: format renders every documented directive as defined, for all
// parameters and arguments. Exhaustive enumeration of control strings x
// arguments; every case runs the real (format dest control args...) for the
// three kinds of destination and is compared with an independent renderer
// (ref.go, english.go) written from the directive definitions.
package c15

import (
	"fmt"

	"verif/engine"
)

func init() {
	engine.Register(&engine.Prop{
		ID:    "C15",
		Level: "exploration",
		Rule: "every control string of the families listed in bound_completed x every listed argument tuple; each case calls the real " +
			"(format nil|t|string-stream control args...) through ReadString+Eval with the control string and the arguments bound to " +
			"variables, and compares the text with an independent Go renderer written from the directive definitions (own English " +
			"speller, Roman writer, math/big digits + own sign/grouping/padding, own argument-pointer and block interpreter); ~A/~S/~@C " +
			"are compared with princ/prin1 of the same object written to a string stream (metamorphic). A failing case is reduced (directives, " +
			"parameters, modifiers, arguments removed while exactly the same kind of failure persists) and the signature names the reduced " +
			"shape, or the syntactic trigger when a causal re-run (same case with a space inserted / parameter removed) passes. A case is non-trivial when the reference defines its text and the control has a prefix parameter, a modifier, a " +
			"block directive or at least two directives, or a bignum argument, or a ~R argument beyond +-20",
		Assumptions: []string{
			"princ / prin1 (written to a string stream) are the printer oracle for ~A ~S ~@C (the printer itself is property C03)",
			"only the directives named in the statement are rendered (~A ~S ~D ~B ~O ~X ~R ~C ~% ~& ~~ ~T ~* ~? ~( ~[ ~{ ~P ~;); " +
				"~^ ~$ ~E ~F ~G ~W ~< ~/ ~= ~| ~I ~newline are outside the statement",
			"calls whose text the definitions do not determine (wrong argument type, too few arguments, pointer moved outside the " +
				"arguments, an iteration whose body consumes nothing, colinc 0, English beyond 10^66, Roman outside 1..3999, a bignum or " +
				"negative-parameter ~[ index, a word starting with a digit under ~:( ~@() are counted as undefined-by-the-definitions and " +
				"slip is not run on them",
			"accepted readings (S2): ~& at the very start of the output may or may not emit a newline; ~colnum,colincT may follow CL or " +
				"slip's documented 'column number x column width'; ~T with the cursor exactly at colnum may output nothing; bare ~@* may go " +
				"to 0 or 1; digits above 9 in either case; 'twenty one' or 'twenty-one'; 'negative' or 'minus'; ~:C of a non-graphic " +
				"character other than Space is the name prin1 prints after #\\",
		},
		Enumerate: enumerate,
		Exec:      exec,
		Required: []string{
			"dir:~A", "dir:~S", "dir:~D", "dir:~B", "dir:~O", "dir:~X", "dir:~R", "dir:~C", "dir:~%", "dir:~&", "dir:~~", "dir:~T",
			"dir:~*", "dir:~?", "dir:~(", "dir:~[", "dir:~{", "dir:~P",
			"param:v", "param:#", "param:quoted-char", "param:#-after-v-in-one-directive", "param:#-after-v-inside-a-block", "block-inside-block", "argument-pointer-moved-back-or-absolute",
			"recursive-control", "grouping-with-parameters", "bignum-argument", "composition", "three-destinations-agree",
			"family:english", "family:roman", "family:composition", "family:nest",
		},
		Bound:    bound,
		Selftest: selftest,
	})
}

func bound(tier string) string {
	n := 0
	enumerate(tier, func(string) { n++ })
	if tier == engine.Thorough {
		return fmt.Sprintf("%d cases: ", n) + ("~D ~B ~O ~X x mincol{-,0,1,5,12,27,40} x padchar{-,'0,'.} x commachar{-,'_} x interval{-,1,2,3,4,7} x 4 modifier sets x 29 integers " +
			"(0 .. +-10^30, both sides of 2^63); ~nR for 9 radixes x mincol x padchar x commachar x interval x modifiers; v/# parameter forms; every parameter slot of ~D ~B ~O ~X ~A ~S ~nR drawn from {omitted, literal, v, #} (with 1 and 3 further arguments, and inside ~{ ~}); every printable ASCII " +
			"character as a quoted parameter; ~A ~S x mincol x colinc x minpad x padchar x modifiers x 22 objects; ~R and ~:R for every n in -20000..400000 and 15 " +
			"multiples of every 10^k below 10^66; ~@R ~:@R for every n in 1..4999; ~C x 15 characters x 4 forms; ~% ~& ~~ counts 0..3 after 5 prefixes; ~T " +
			"absolute/relative x colnum x colinc x 5 prefixes; ~* (21 forms) at 4 positions; ~P; ~[ (index -1..4, ~:;, #, v, ~:[, ~@[, nested); ~{ (4 forms x max " +
			"count x lists 0..4 x nested lists, ~:}); ~( (4 forms, nested); ~? ~@?; all compositions of <= 4 items over a 20-item menu; 16 block wrappers around " +
			"every 1 and 2 items and around every wrapped item (blocks inside blocks)")
	}
	return fmt.Sprintf("%d cases: ", n) + ("~D ~B ~O ~X x mincol{-,0,5,12} x padchar{-,'0,'.} x commachar{-,'_} x interval{-,1,3,4} x 4 modifier sets x 15 integers (0 .. +-10^20, " +
		"both sides of 2^63); ~nR for 6 radixes x mincol x padchar x commachar x interval x modifiers; v/# parameter forms; every parameter slot of ~D ~B ~O ~X ~A ~S ~nR drawn from {omitted, literal, v, #} (with 1 and 3 further arguments, and inside ~{ ~}); every printable ASCII character as a " +
		"quoted parameter; ~A ~S x mincol x colinc x minpad x padchar x modifiers x 22 objects; ~R and ~:R for every n in -1000..20000 and 6 multiples of every " +
		"10^k below 10^66; ~@R ~:@R for every n in 1..4999; ~C x 15 characters x 4 forms; ~% ~& ~~ counts 0..3 after 5 prefixes; ~T absolute/relative x colnum " +
		"x colinc x 5 prefixes; ~* (21 forms) at 4 positions; ~P; ~[ (index -1..4, ~:;, #, v, ~:[, ~@[, nested); ~{ (4 forms x max count x lists 0..4 x nested " +
		"lists, ~:}); ~( (4 forms, nested); ~? ~@?; all compositions of <= 4 items over a 14-item menu; 16 block wrappers around every 1 and 2 items and around " +
		"every wrapped item (blocks inside blocks)")
}
