// Package c06: lists keep value semantics although they are stored as shared
// Go slices. Explicit-state exploration of operation histories over a pool of
// three list variables; every step is executed on the real interpreter and
// judged by frame / independence / value rules derived from the cons-cell
// semantics of the language (see oracle.go, models.go).
package c06

import (
	"fmt"
	"os"
	"strings"

	"github.com/ohler55/slip"

	"verif/engine"
	"verif/lisp"
)

func init() {
	engine.Register(&engine.Prop{
		ID:    "C06",
		Level: "model_checking",
		Rule: "histories of list operations on the variables a, b, c starting from a=(1 2 3 4), b=c=nil; every step is one Lisp form " +
			"((setq V (f ...)) or a destructive call) read and evaluated by the real interpreter in a fresh scope; new elements are " +
			"fresh fixnums (1 + the largest element alive); after the LAST step the three variables are read through the Go API " +
			"(type switch, unsafe.SliceData/len/cap) and compared with what the step must do to the OBSERVED pre-state: frame (a " +
			"function not documented as destructive changes no other variable), independence (a destructive function changes no " +
			"variable that cannot share structure with its operands by the language rules), value (the result equals the cons-cell " +
			"reference result). A case is non-trivial when that comparison covers at least one non-empty list held by a variable " +
			"other than the one assigned. A history containing a step that has no defined outcome in the reference semantics (empty " +
			"operand, index out of range, splice that would build a cycle) or that starts with an operation on c is counted as " +
			"executed but judges nothing (hit counter 'judged' = histories actually judged)",
		Assumptions: []string{
			"sharing by the language rules is tracked as equivalence classes (two proper lists share iff they have a common tail); " +
				"destructive cuts (rplacd, delete) never split a class, which only makes the oracle more permissive",
			"add is documented by slip as 'potentially modifying the list': it is treated as destructive, its result may share with its argument",
			"elements are fixnums only; no nested lists, no dotted pairs are created by the alphabet",
			"histories that would build a circular list in a cons-cell Lisp (nconc/rplacd of a list onto a list it shares with) are not explored",
			"a history whose first step mentions c is skipped: at the root b and c are both nil, so it is the b<->c mirror image of an explored one",
		},
		Enumerate: enumerate,
		Exec:      exec,
		BFS: &engine.BFS{
			Ops: func(tier string) []string {
				if tier == engine.Thorough {
					return alphabet("core")
				}
				return alphabet(engine.Quick)
			},
			MaxDepth: func(tier string) int {
				if tier == engine.Thorough {
					return 5 // the fifth step is restricted to the small alphabet core5 (policy.go)
				}
				return 3
			},
			NoDedupDepth: func(string) int { return 2 },
			StateCap: func(tier string) int {
				if tier == engine.Thorough {
					return 30000000
				}
				return 0
			},
		},
		Required: requiredCounters(),
		Bound:    bound,
		Selftest: selftest,
	})
}

func bound(tier string) string {
	q, oq, all, core, c5, nw := alphabet(engine.Quick), alphabet("old-quick"), alphabet("all"), alphabet("core"), alphabet("core5"), alphabet("new")
	if tier == engine.Thorough {
		return fmt.Sprintf("static phase: (1) every history of length 1..3 over the first-generation alphabet of %d instantiated operations (%d families), "+
			"no deduplication, first step restricted to the operations applicable at the root that do not mention c (mirror symmetry); "+
			"(2) second generation (%d operations, %d families: keyword variants, functions new to the alphabet, containers, call sites): every history of "+
			"length <= 2 over both generations, and the histories of length 3 [q c n], [c n m], [n c m], [n n' m], [n m n'] with q in the first-generation quick "+
			"alphabet (%d), c in the reduced alphabet (%d), n a second-generation operation, n' a related one (same family, same producer at another call "+
			"site, same container), m a first-generation quick operation that modifies or extends a list; "+
			"BFS phase: histories of length <= 4 over the reduced alphabet of %d operations (%s), no deduplication up to length 2, state-key deduplication beyond, "+
			"then a fifth step from every state reached, restricted to the %d operations of the small alphabet (one per sharing class: %s); state cap 30000000 (see notes if hit)",
			len(all), len(strings.Fields(families(all))), len(nw), len(strings.Fields(families(nw))), len(oq), len(core),
			len(core), families(core), len(c5), strings.Join(c5, " "))
	}
	return fmt.Sprintf("BFS over the quick alphabet of %d instantiated operations (%d first generation in %d families, %d second generation in %d families: %s): "+
		"every history of length <= 2; length 3: every history over the first generation (as in the earlier rounds), [c c n], [c n m'], [n c m'], [n n' m'] "+
		"with c in the reduced alphabet (%d), n second generation, n' related to n (same family, same producer at another call site, same container), "+
		"m' a modifying operation of the reduced alphabet or an operation related to n; no deduplication up to length 2, state-key deduplication at length 3; "+
		"histories starting with an operation on c are skipped (mirror symmetry)",
		len(q), len(oq), len(strings.Fields(families(oq))), len(q)-len(oq), len(strings.Fields(families(q)))-len(strings.Fields(families(oq))), families(alphabetOfGroup(q)), len(core))
}

// alphabetOfGroup keeps the second-generation operations of a list.
func alphabetOfGroup(codes []string) []string {
	var out []string
	for _, c := range codes {
		if opIndex[c].group != "" {
			out = append(out, c)
		}
	}
	return out
}

// enumerate: thorough only - the static phase described in bound().
func enumerate(tier string, emit func(string)) {
	if tier != engine.Thorough || os.Getenv("VERIF_C06_BFS_ONLY") != "" { // the variable: development aid, measures the BFS phase of the thorough tier alone
		// the quick tier is the BFS alone; one static case keeps the engine's "no case executed" guard quiet
		emit(engine.BFSSpec(nil))
		return
	}
	all := alphabet("all")
	m := newSliceModel(mutNone)
	m.reset(nil)
	st := m.observe()
	t := newTrack()
	atRoot := func(codes []string) (first []string) {
		for _, c := range codes {
			o := opIndex[c]
			if !mentions(o, 2) && applicable(o, &st, t) {
				first = append(first, c)
			}
		}
		return
	}
	first := atRoot(all)
	emit(engine.BFSSpec(nil))
	for _, a := range first {
		emit(engine.BFSSpec([]string{a}))
	}
	for _, a := range first {
		for _, b := range all {
			emit(engine.BFSSpec([]string{a, b}))
		}
	}
	for _, a := range first {
		for _, b := range all {
			for _, c := range all {
				emit(engine.BFSSpec([]string{a, b, c}))
			}
		}
	}
	// ---- second generation
	nw, oq, core := alphabet("new"), alphabet("old-quick"), alphabet("core")
	var mq []string // first-generation quick operations that modify or extend a list
	for _, c := range oq {
		if o := opIndex[c]; o.destr || o.ext || o.name == "pop" {
			mq = append(mq, c)
		}
	}
	firstNew, firstQ, firstCore := atRoot(nw), atRoot(oq), atRoot(core)
	for _, a := range firstNew {
		emit(engine.BFSSpec([]string{a}))
		for _, b := range all {
			emit(engine.BFSSpec([]string{a, b}))
		}
		for _, b := range nw {
			emit(engine.BFSSpec([]string{a, b}))
		}
	}
	for _, a := range first {
		for _, b := range nw {
			emit(engine.BFSSpec([]string{a, b}))
		}
	}
	for _, a := range firstQ { // [q c n]
		for _, b := range core {
			for _, c := range nw {
				emit(engine.BFSSpec([]string{a, b, c}))
			}
		}
	}
	for _, a := range firstCore { // [c n m]
		for _, b := range nw {
			for _, c := range mq {
				emit(engine.BFSSpec([]string{a, b, c}))
			}
		}
	}
	for _, a := range firstNew {
		for _, b := range core { // [n c m]
			for _, c := range mq {
				emit(engine.BFSSpec([]string{a, b, c}))
			}
		}
		for _, b := range sameFamily(opIndex[a]) { // [n n' m], [n m n']
			for _, c := range mq {
				emit(engine.BFSSpec([]string{a, b, c}))
				emit(engine.BFSSpec([]string{a, c, b}))
			}
		}
	}
}

func exec(spec string) (res engine.Result) {
	if strings.HasPrefix(spec, "lisp:") {
		return probe(spec[5:])
	}
	if strings.HasPrefix(spec, "selftest:") {
		k, n, notes := selftest(spec[9:])
		res.Outcome = fmt.Sprintf("\nkilled %d of %d\n%s", k, n, strings.Join(notes, "\n"))
		return
	}
	if strings.HasPrefix(spec, "classes:") {
		return classes(spec[8:])
	}
	if strings.HasPrefix(spec, "dev:") {
		return devSweep(spec[4:])
	}
	if strings.HasPrefix(spec, "funcs:") {
		return inventory(spec[6:])
	}
	codes, ok := engine.ParseBFSSpec(spec)
	if !ok {
		res.Fail("harness:bad-spec", spec)
		return
	}
	hist, err := parseHist(codes)
	if err != nil {
		res.Fail("harness:bad-spec", err.Error())
		return
	}
	if 0 < len(hist) && mentions(hist[0], 2) {
		res.Outcome = "mirror"
		return
	}
	return runHistory(&slipImpl{}, hist, true)
}

// probe evaluates arbitrary forms with a, b, c bound (development aid:
// vcheck-C06 exec C06 --spec 'lisp:(setq b (subseq a 0 2)) (add b 9)').
func probe(src string) (res engine.Result) {
	m := &slipImpl{}
	m.reset(nil)
	val, err := lisp.EvalIn(m.scope, src)
	st := m.observe()
	res.Outcome = fmt.Sprintf("value=%s err=%s | %s | %s", lisp.Show(val), err.String(), showState(&st), stateKey(&st))
	for _, v := range varNames {
		res.Outcome += fmt.Sprintf(" | %s=%s", v, lisp.Show(m.scope.Get(slip.Symbol(v))))
	}
	return
}
