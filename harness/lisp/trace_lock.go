//go:build !race

package lisp

import "sync"

var traceMu sync.Mutex

func traceLock()   { traceMu.Lock() }
func traceUnlock() { traceMu.Unlock() }
