//go:build verif

package c19

// Option-value worlds: ONE definition with ONE option, the option given every
// value of a small value alphabet - among them the values that also mean "not
// given" to a careless writer (nil, the empty list, the empty string, 0, t) -
// next to the twin world in which the option is absent. A writer that decides
// "is the option there?" by looking at the VALUE (nil, "", 0) loses the option
// exactly when the value is one of those.
//
// Every world is used twice, like the inheritance worlds: as an A1 case
// (lf|ov:...: load form pretty printed at every margin, read, evaluated under
// fresh names) and as an A2 session (snap|ov:...: snapshot, fresh process,
// load, snapshot). The probe table is evaluated AFTER the reload and makes a
// FRESH instance / a fresh call (it never looks at an object that existed
// before the save): every slot / variable / default is read, bound-ness
// included.

import (
	"strings"

	"verif/engine"
)

type ovValue struct {
	name string
	src  string
}

// the value alphabet (source text in an evaluated position)
var ovValues = []ovValue{
	{"nil", "nil"},
	{"t", "t"},
	{"zero", "0"},
	{"empty-string", `""`},
	{"empty-list", "'()"},
	{"keyword", ":kw"},
	{"quoted-list", "'(a b)"},
	{"quoted-symbol", "'sym"},
	{"number", "7"},
	{"string", `"str"`},
}

var ovDocValues = []ovValue{{"empty-string", `""`}, {"string", `"Doc text."`}}

type ovTemplate struct {
	kind   string // signature: kind of definition
	option string // signature: the option that is given a value
	// form: the defining forms, %V = the value, $ = unique prefix
	form string
	// absent: the forms without the option ("" = there is no such twin)
	absent string
	vals   []ovValue
	tvals  []ovValue // thorough only
	defs   []string  // A1: expressions giving the load forms
	obj    string    // A1 data flow (lambda)
	probes [][2]string
	noLF   bool // A2 only
	noSnap bool // A1 only
}

func ovEvery() []ovValue { return ovValues }

// classProbes: a fresh instance made after the reload, every slot read.
func ovClassProbes(mk string) [][2]string {
	return [][2]string{
		{"bound-s-of-new-instance", "(slot-boundp (" + mk + " '$c) 's)"},
		{"value-of-s-of-new-instance", "(slot-value (" + mk + " '$c) 's)"},
		{"value-of-s-given", "(slot-value (" + mk + " '$c :s 5) 's)"},
		{"value-of-other-slot", "(slot-value (" + mk + " '$c) 'u)"},
	}
}

var ovTemplates = []*ovTemplate{
	// ------------------------------------------------------------- defclass
	{kind: "class", option: "initform",
		form:   `(defclass $c () ((s :initform %V :initarg :s) (u :initform 1)))`,
		absent: `(defclass $c () ((s :initarg :s) (u :initform 1)))`,
		vals:   ovEvery(), defs: []string{"(make-load-form '$c)"}, probes: ovClassProbes("make-instance")},
	{kind: "class", option: "initform-with-accessor",
		form:   `(defclass $c () ((s :initform %V :initarg :s :accessor $c-s) (u :initform 1)))`,
		absent: `(defclass $c () ((s :initarg :s :accessor $c-s) (u :initform 1)))`,
		vals:   []ovValue{ovValues[0], ovValues[1], ovValues[2]}, tvals: ovValues[3:], defs: []string{"(make-load-form '$c)"},
		probes: append(ovClassProbes("make-instance"), [2]string{"accessor-of-new-instance", "($c-s (make-instance '$c))"})},
	{kind: "class", option: "initarg",
		form:   `(defclass $c () ((s :initarg %V :initform 1) (u :initform 1)))`,
		absent: `(defclass $c () ((s :initform 1) (u :initform 1)))`,
		vals:   []ovValue{{"keyword", ":kw"}, {"plain-symbol", "kw"}, {"t", "t"}, {"nil", "nil"}},
		defs:   []string{"(make-load-form '$c)"},
		probes: [][2]string{{"value-of-s-of-new-instance", "(slot-value (make-instance '$c) 's)"},
			{"accepts-initarg", "(slot-value (make-instance '$c :kw 5) 's)"}, {"accepts-initarg", "(slot-value (make-instance '$c 'kw 5) 's)"},
			{"accepts-initarg", "(slot-value (make-instance '$c t 5) 's)"}, {"accepts-initarg", "(slot-value (make-instance '$c nil 5) 's)"}}},
	{kind: "class", option: "type",
		form:   `(defclass $c () ((s :type %V :initarg :s) (u :initform 1)))`,
		absent: `(defclass $c () ((s :initarg :s) (u :initform 1)))`,
		vals:   []ovValue{{"t", "t"}, {"nil", "nil"}, {"fixnum", "fixnum"}, {"null", "null"}, {"list", "list"}, {"or-list", "(or null fixnum)"}, {"symbol", "symbol"}},
		defs:   []string{"(make-load-form '$c)"},
		probes: [][2]string{{"bound-s-of-new-instance", "(slot-boundp (make-instance '$c) 's)"}, {"typed-slot-given-nil", "(slot-value (make-instance '$c :s nil) 's)"},
			{"typed-slot-given-fixnum", "(slot-value (make-instance '$c :s 5) 's)"}, {"typed-slot-given-string", `(slot-value (make-instance '$c :s "x") 's)`},
			{"typed-slot-given-symbol", "(slot-value (make-instance '$c :s 'q) 's)"}}},
	{kind: "class", option: "slot-documentation",
		form:   `(defclass $c () ((s :documentation %V :initform 3 :initarg :s) (u :initform 1)))`,
		absent: `(defclass $c () ((s :initform 3 :initarg :s) (u :initform 1)))`,
		vals:   ovDocValues, defs: []string{"(make-load-form '$c)"}, probes: ovClassProbes("make-instance")},
	{kind: "class", option: "allocation",
		form:   `(defclass $c () ((s :allocation %V :initform 3 :initarg :s) (u :initform 1)))`,
		absent: `(defclass $c () ((s :initform 3 :initarg :s) (u :initform 1)))`,
		vals:   []ovValue{{"class", ":class"}, {"instance", ":instance"}}, defs: []string{"(make-load-form '$c)"},
		probes: append(ovClassProbes("make-instance"), [2]string{"shared-slot",
			"(let ((i (make-instance '$c)) (j (make-instance '$c))) (setf (slot-value i 's) 9) (slot-value j 's))"})},
	{kind: "class", option: "documentation",
		form:   `(defclass $c () ((s :initform 3 :initarg :s) (u :initform 1)) (:documentation %V))`,
		absent: `(defclass $c () ((s :initform 3 :initarg :s) (u :initform 1)))`,
		vals:   ovDocValues, defs: []string{"(make-load-form '$c)"},
		probes: append(ovClassProbes("make-instance"), [2]string{"documentation", "(documentation '$c 'type)"})},
	{kind: "class", option: "default-initargs",
		form:   `(defclass $c () ((s :initform 3 :initarg :s) (u :initform 1)) (:default-initargs :s %V))`,
		absent: `(defclass $c () ((s :initform 3 :initarg :s) (u :initform 1)))`,
		vals:   ovEvery(), defs: []string{"(make-load-form '$c)"}, probes: ovClassProbes("make-instance")},
	// ----------------------------------------------------- define-condition
	{kind: "condition", option: "initform",
		form:   `(define-condition $c (error) ((s :initform %V :initarg :s) (u :initform 1)))`,
		absent: `(define-condition $c (error) ((s :initarg :s) (u :initform 1)))`,
		vals:   ovEvery(), defs: []string{"(make-load-form '$c)"}, probes: ovClassProbes("make-condition")},
	{kind: "condition", option: "documentation",
		form:   `(define-condition $c (error) ((s :initform 3 :initarg :s) (u :initform 1)) (:documentation %V))`,
		absent: `(define-condition $c (error) ((s :initform 3 :initarg :s) (u :initform 1)))`,
		vals:   ovDocValues, defs: []string{"(make-load-form '$c)"},
		probes: append(ovClassProbes("make-condition"), [2]string{"documentation", "(documentation '$c 'type)"})},
	{kind: "condition", option: "default-initargs",
		form:   `(define-condition $c (error) ((s :initform 3 :initarg :s) (u :initform 1)) (:default-initargs :s %V))`,
		absent: `(define-condition $c (error) ((s :initform 3 :initarg :s) (u :initform 1)))`,
		vals:   []ovValue{ovValues[0], ovValues[1], ovValues[2], ovValues[3]}, tvals: ovValues[4:], defs: []string{"(make-load-form '$c)"}, probes: ovClassProbes("make-condition")},
	// ------------------------------------------------------------ defflavor
	{kind: "flavor", option: "default",
		form:   `(defflavor $c ((s %V) (u 1)) () :gettable-instance-variables :inittable-instance-variables)`,
		absent: `(defflavor $c (s (u 1)) () :gettable-instance-variables :inittable-instance-variables)`,
		vals:   ovEvery(), defs: []string{"(make-load-form '$c)"},
		probes: append(ovClassProbes("make-instance"), [2]string{"getter-of-new-instance", "(send (make-instance '$c) :s)"})},
	{kind: "flavor", option: "default-init-plist",
		form:   `(defflavor $c ((s 3) (u 1)) () :gettable-instance-variables :inittable-instance-variables (:default-init-plist (:s %V)))`,
		absent: `(defflavor $c ((s 3) (u 1)) () :gettable-instance-variables :inittable-instance-variables)`,
		vals:   ovEvery(), defs: []string{"(make-load-form '$c)"}, probes: ovClassProbes("make-instance")},
	{kind: "flavor", option: "documentation",
		form:   `(defflavor $c ((s 3) (u 1)) () :inittable-instance-variables (:documentation %V))`,
		absent: `(defflavor $c ((s 3) (u 1)) () :inittable-instance-variables)`,
		vals:   ovDocValues, defs: []string{"(make-load-form '$c)"},
		probes: append(ovClassProbes("make-instance"), [2]string{"documentation", "(documentation '$c 'type)"})},
	{kind: "flavor", option: "method-default",
		form:   `(defflavor $c ((s 3) (u 1)) () :inittable-instance-variables) (defmethod ($c :m) (a &optional (b %V)) (list a b s))`,
		absent: `(defflavor $c ((s 3) (u 1)) () :inittable-instance-variables) (defmethod ($c :m) (a &optional b) (list a b s))`,
		vals:   []ovValue{ovValues[0], ovValues[1], ovValues[2], ovValues[6]}, tvals: []ovValue{ovValues[3], ovValues[4], ovValues[5], ovValues[7], ovValues[8], ovValues[9]},
		defs: []string{"(make-load-form '$c)", "method:$c:primary:m"},
		probes: [][2]string{{"method-default", "(send (make-instance '$c) :m 1)"}, {"method-argument-given", "(send (make-instance '$c) :m 1 2)"}}},
	// ------------------------------------------------------------ defstruct
	{kind: "struct", option: "default", noSnap: true,
		form:   `(defstruct $c (s %V) (u 1))`,
		absent: `(defstruct $c s (u 1))`,
		vals:   ovEvery(), defs: []string{"(make-load-form '$c)"},
		probes: [][2]string{{"value-of-s-of-new-structure", "($c-s (make-$c))"}, {"value-of-s-given", "($c-s (make-$c :s 5))"}, {"value-of-other-slot", "($c-u (make-$c))"}}},
	// ---------------------------------------------------------------- defun
	{kind: "defun", option: "optional-default",
		form:   `(defun $f (a &optional (x %V)) (list a x))`,
		absent: `(defun $f (a &optional x) (list a x))`,
		vals:   ovEvery(), defs: []string{"(make-load-form '$f)"},
		probes: [][2]string{{"default-of-optional", "($f 1)"}, {"optional-given", "($f 1 2)"}}},
	{kind: "defun", option: "key-default",
		form:   `(defun $f (a &key (k %V) (j 2)) (list a k j))`,
		absent: `(defun $f (a &key k (j 2)) (list a k j))`,
		vals:   ovEvery(), defs: []string{"(make-load-form '$f)"},
		probes: [][2]string{{"default-of-key", "($f 1)"}, {"key-given", "($f 1 :k 2)"}, {"other-key-given", "($f 1 :j 3)"}}},
	{kind: "defun", option: "aux-value",
		form:   `(defun $f (a &aux (b %V)) (list a b))`,
		absent: `(defun $f (a &aux b) (list a b))`,
		vals:   []ovValue{ovValues[0], ovValues[1], ovValues[6]}, tvals: []ovValue{ovValues[2], ovValues[3], ovValues[4], ovValues[5], ovValues[7], ovValues[8], ovValues[9]},
		defs: []string{"(make-load-form '$f)"}, probes: [][2]string{{"value-of-aux", "($f 1)"}}},
	{kind: "defun", option: "docstring",
		form:   `(defun $f (a) %V (list a))`,
		absent: `(defun $f (a) (list a))`,
		vals:   []ovValue{{"empty-string", `""`}, {"string", `"Doc text."`}, {"blank", `" "`}}, defs: []string{"(make-load-form '$f)"},
		probes: [][2]string{{"result", "($f 1)"}, {"documentation", "(documentation '$f 'function)"}}},
	{kind: "defun", option: "body-value",
		form:   `(defun $f () %V)`,
		absent: `(defun $f ())`,
		vals:   ovEvery(), defs: []string{"(make-load-form '$f)"},
		probes: [][2]string{{"result", "($f)"}}},
	{kind: "defun", option: "last-body-form",
		form:   `(defun $f (a) (list a) %V)`,
		absent: `(defun $f (a) (list a))`,
		vals:   []ovValue{ovValues[0], ovValues[1], ovValues[3], ovValues[6]}, defs: []string{"(make-load-form '$f)"},
		probes: [][2]string{{"result", "($f 1)"}}},
	// ------------------------------------------------------------- defmacro
	{kind: "defmacro", option: "optional-default",
		form:   `(defmacro $f (a &optional (b %V)) (list 'list a (list 'quote b)))`,
		absent: `(defmacro $f (a &optional b) (list 'list a (list 'quote b)))`,
		vals:   ovEvery(), defs: []string{"(make-load-form '$f)"},
		probes: [][2]string{{"default-of-optional", "($f 1)"}, {"optional-given", "($f 1 2)"}}},
	{kind: "defmacro", option: "docstring",
		form:   `(defmacro $f (a) %V (list 'list a))`,
		absent: `(defmacro $f (a) (list 'list a))`,
		vals:   ovDocValues, defs: []string{"(make-load-form '$f)"},
		probes: [][2]string{{"result", "($f 1)"}, {"documentation", "(documentation '$f 'function)"}}},
	// --------------------------------------------------------------- lambda
	{kind: "lambda", option: "optional-default", noSnap: true,
		obj:  `(lambda (a &optional (x %V)) (list a x))`,
		vals: ovEvery(), probes: [][2]string{{"default-of-optional", "(funcall f 1)"}, {"optional-given", "(funcall f 1 2)"}}},
	{kind: "lambda", option: "key-default", noSnap: true,
		obj:  `(lambda (a &key (k %V)) (list a k))`,
		vals: ovEvery(), probes: [][2]string{{"default-of-key", "(funcall f 1)"}, {"key-given", "(funcall f 1 :k 2)"}}},
	{kind: "lambda", option: "body-value", noSnap: true,
		obj:  `(lambda () %V)`,
		vals: ovEvery(), probes: [][2]string{{"result", "(funcall f)"}}},
	// ----------------------------------------------------- generic function
	{kind: "generic", option: "optional-default",
		form:   `(defgeneric $f (a &optional b)) (defmethod $f ((a fixnum) &optional (b %V)) (list a b))`,
		absent: `(defgeneric $f (a &optional b)) (defmethod $f ((a fixnum) &optional b) (list a b))`,
		vals:   ovEvery(), defs: []string{"(make-load-form '$f)"},
		probes: [][2]string{{"default-of-optional", "($f 1)"}, {"optional-given", "($f 1 2)"}}},
	{kind: "generic", option: "key-default",
		form:   `(defgeneric $f (a &key k)) (defmethod $f ((a fixnum) &key (k %V)) (list a k))`,
		absent: `(defgeneric $f (a &key k)) (defmethod $f ((a fixnum) &key k) (list a k))`,
		vals:   ovEvery(), defs: []string{"(make-load-form '$f)"},
		probes: [][2]string{{"default-of-key", "($f 1)"}, {"key-given", "($f 1 :k 2)"}}},
	{kind: "generic", option: "documentation",
		form:   `(defgeneric $f (a) (:documentation %V)) (defmethod $f ((a fixnum)) (list a))`,
		absent: `(defgeneric $f (a)) (defmethod $f ((a fixnum)) (list a))`,
		vals:   ovDocValues, defs: []string{"(make-load-form '$f)"},
		probes: [][2]string{{"result", "($f 1)"}, {"documentation", "(documentation '$f 'function)"}}},
	{kind: "generic", option: "method-body-value",
		form:   `(defgeneric $f (a)) (defmethod $f ((a fixnum)) %V)`,
		absent: `(defgeneric $f (a)) (defmethod $f ((a fixnum)))`,
		vals:   []ovValue{ovValues[0], ovValues[1], ovValues[2], ovValues[6]}, tvals: []ovValue{ovValues[3], ovValues[4], ovValues[5], ovValues[7], ovValues[8], ovValues[9]},
		defs: []string{"(make-load-form '$f)"}, probes: [][2]string{{"result", "($f 1)"}}},
	// ------------------------------------------------------------ variables (snapshot only)
	{kind: "defvar", option: "value", noLF: true,
		form:   `(defvar *$v* %V)`,
		absent: `(defvar *$v*)`,
		vals:   ovEvery(), probes: [][2]string{{"bound", "(boundp '*$v*)"}, {"value", "(if (boundp '*$v*) *$v* 'is-unbound)"}}},
	{kind: "defvar", option: "documentation", noLF: true,
		form:   `(defvar *$v* nil %V)`,
		absent: `(defvar *$v* nil)`,
		vals:   ovDocValues, probes: [][2]string{{"value", "*$v*"}, {"documentation", "(documentation '*$v* 'variable)"}}},
	{kind: "defparameter", option: "value", noLF: true,
		form: `(defparameter *$v* %V)`,
		vals: ovEvery(), probes: [][2]string{{"bound", "(boundp '*$v*)"}, {"value", "*$v*"}}},
	{kind: "defconstant", option: "value", noLF: true,
		form: `(defconstant +$k+ %V)`,
		vals: ovEvery(), probes: [][2]string{{"value", "+$k+"}, {"still-constant", "(setq +$k+ 8)"}}},
	{kind: "defconstant", option: "documentation", noLF: true,
		form:   `(defconstant +$k+ nil %V)`,
		absent: `(defconstant +$k+ nil)`,
		vals:   ovDocValues, probes: [][2]string{{"value", "+$k+"}, {"documentation", "(documentation '+$k+ 'variable)"}}},
	{kind: "setq", option: "value-after-defvar", noLF: true,
		form: `(defvar *$v* 5) (setq *$v* %V)`,
		vals: []ovValue{ovValues[0], ovValues[1], ovValues[3], ovValues[6]}, tvals: []ovValue{ovValues[2], ovValues[4], ovValues[5], ovValues[7], ovValues[8], ovValues[9]},
		probes: [][2]string{{"value", "*$v*"}}},
	// ------------------------------------------------------------- packages
	{kind: "package", option: "documentation",
		form:   `(defpackage :$p (:use :cl) (:documentation %V))`,
		absent: `(defpackage :$p (:use :cl))`,
		vals:   ovDocValues, defs: []string{"(make-load-form (find-package '$p))"},
		probes: ovPackageProbes},
	{kind: "package", option: "empty-option",
		form:   `(defpackage :$p %V)`,
		absent: `(defpackage :$p)`,
		vals:   []ovValue{{"use", "(:use)"}, {"nicknames", "(:nicknames)"}, {"export", "(:export)"}},
		defs:   []string{"(make-load-form (find-package '$p))"}, probes: ovPackageProbes},
}

var ovPackageProbes = [][2]string{
	{"package-exists", "(package-name (find-package '$p))"},
	{"use-list", "(mapcar 'package-name (package-use-list (find-package '$p)))"},
	{"nicknames", "(package-nicknames (find-package '$p))"},
	{"documentation", "(documentation (find-package '$p) t)"},
}

type ovSpec struct {
	tmpl   *ovTemplate
	val    *ovValue // nil = the twin without the option
	thorgh bool
}

func (sp *ovSpec) valName() string {
	if sp.val == nil {
		return "absent"
	}
	return sp.val.name
}

func (sp *ovSpec) label() string {
	return "ov:" + sp.tmpl.kind + ":" + sp.tmpl.option + ":" + sp.valName()
}

func (sp *ovSpec) feat() string {
	return "optval-" + sp.tmpl.option + "/" + sp.valName()
}

func (sp *ovSpec) source() string {
	src := sp.tmpl.form
	if sp.tmpl.obj != "" {
		src = sp.tmpl.obj
	}
	if sp.val == nil {
		return sp.tmpl.absent
	}
	return strings.ReplaceAll(src, "%V", sp.val.src)
}

var ovSpecs []*ovSpec
var ovIndex = map[string]*ovSpec{}

func init() {
	for _, t := range ovTemplates {
		add := func(v *ovValue, th bool) {
			sp := &ovSpec{tmpl: t, val: v, thorgh: th}
			if _, dup := ovIndex[sp.label()]; dup {
				panic("duplicate option-value world " + sp.label())
			}
			ovIndex[sp.label()] = sp
			ovSpecs = append(ovSpecs, sp)
		}
		if t.absent != "" {
			add(nil, false)
		}
		for i := range t.vals {
			add(&t.vals[i], false)
		}
		for i := range t.tvals {
			add(&t.tvals[i], true)
		}
	}
}

// splitTop cuts source text into its top level forms.
func splitTop(src string) []string { return splitForms(src) }

// ovCase: the world as an A1 case.
func ovCase(label string) *lfCase {
	sp := ovIndex[label]
	if sp == nil || sp.tmpl.noLF {
		return nil
	}
	t := sp.tmpl
	c := &lfCase{label: label, kind: t.kind, feat: sp.feat(), optional: true, ov: sp}
	if sp.thorgh {
		c.tier = engine.Thorough
	}
	if t.kind == "condition" {
		c.kind = "class"
	}
	for _, p := range t.probes {
		c.pnames = append(c.pnames, p[0])
		c.probes = append(c.probes, p[1])
	}
	if t.obj != "" {
		c.obj = sp.source()
		return c
	}
	c.setup = sp.source()
	c.defs = t.defs
	for _, d := range t.defs {
		if strings.HasPrefix(d, "(make-load-form") {
			c.probes = append(c.probes, d)
			c.pnames = append(c.pnames, "")
		}
	}
	return c
}

// ovItem: the world as a session of its own.
func ovItem(id string) *item {
	sp := ovIndex[id]
	if sp == nil || sp.tmpl.noSnap {
		return nil
	}
	ren := func(s string) string { return strings.ReplaceAll(s, "$", "ov-") }
	it := &item{id: id}
	it.src = splitTop(ren(sp.source()))
	var pnames []string
	for _, p := range sp.tmpl.probes {
		it.probes = append(it.probes, ren(p[1]))
		pnames = append(pnames, p[0])
	}
	if itemMetas[id] == nil {
		kind := sp.tmpl.kind
		itemMetas[id] = &itemMeta{sig: kind + ":" + sp.feat(), pnames: pnames, ov: sp, optional: true}
		if kind == "defvar" && sp.val == nil {
			// (defvar name) without a value: nothing to save, nothing observable is lost when it is left out
			itemMetas[id].mayOmit = []string{"*ov-v*"}
		}
	}
	return it
}

func enumerateOvLF(tier string, emit func(string)) {
	for _, sp := range ovSpecs {
		if sp.tmpl.noLF || (sp.thorgh && tier != engine.Thorough) {
			continue
		}
		emit("lf|" + sp.label())
	}
}

func enumerateOvSnap(tier string, out func(ids []string)) {
	for _, sp := range ovSpecs {
		if sp.tmpl.noSnap || (sp.thorgh && tier != engine.Thorough) {
			continue
		}
		out([]string{sp.label()})
	}
}

func ovCount(tier string) (worlds, lf, sessions int) {
	for _, sp := range ovSpecs {
		if sp.thorgh && tier != engine.Thorough {
			continue
		}
		worlds++
		if !sp.tmpl.noLF {
			lf++
		}
		if !sp.tmpl.noSnap {
			sessions++
		}
	}
	return
}

// ovCritical: the value is one of those that also mean "nothing" somewhere in Go or Lisp.
func (sp *ovSpec) critical() bool {
	if sp.val == nil {
		return false
	}
	switch sp.val.name {
	case "nil", "empty-list", "empty-string", "zero", "t":
		return true
	}
	return false
}
