//go:build verif

// Package vsync stands in for package sync in the interpreter packages when
// they are built for the schedule explorer (import rewritten by
// tools/instrument). Mutex has the method set of sync.Mutex, is a struct (so
// `type Mutex sync.Mutex`, `(*sync.Mutex)(m)`, `&sync.Mutex{}` and
// `.(*sync.Mutex)` keep compiling), wraps a real sync.Mutex, and announces
// Lock to the scheduler first: the thread is only released when the
// scheduler's model says the mutex is free, so the real Lock never blocks.
// Everything else is the real sync type (not modelled; the scenario alphabet
// does not reach them).
package vsync

import (
	"sync"

	"github.com/ohler55/slip/vsched"
)

type (
	Locker    = sync.Locker
	RWMutex   = sync.RWMutex
	WaitGroup = sync.WaitGroup
	Once      = sync.Once
	Map       = sync.Map
	Pool      = sync.Pool
	Cond      = sync.Cond
)

// NewCond is sync.NewCond.
func NewCond(l Locker) *Cond { return sync.NewCond(l) }

// OnceFunc is sync.OnceFunc.
func OnceFunc(f func()) func() { return sync.OnceFunc(f) }

// Mutex is the scheduled mutex.
type Mutex struct {
	mu sync.Mutex
}

// Lock parks at a scheduling point until the model says the mutex is free.
func (m *Mutex) Lock() {
	vsched.BeforeLock(m)
	m.mu.Lock()
}

// Unlock releases the real mutex and tells the model.
func (m *Mutex) Unlock() {
	m.mu.Unlock()
	vsched.AfterUnlock(m)
}

// TryLock is a scheduling point followed by the real TryLock.
func (m *Mutex) TryLock() bool {
	vsched.Yield()
	ok := m.mu.TryLock()
	vsched.AfterTryLock(m, ok)
	return ok
}
