//go:build verif

package c16

import (
	"math/big"
	"strings"
	"sync"

	"github.com/ohler55/slip"

	"verif/lisp"
)

// elem is one object of the generated universe. The object is built afresh
// (ReadString+Eval of src in a fresh scope) every time a case needs it, so
// two elements with the same src are two separately built objects.
type elem struct {
	name  string // unique, used in specs
	src   string // Lisp source building the object
	quick bool   // member of the quick-tier relation universe (every element is in the thorough one and in the type universe)
	m     *mv    // model value for the oracle-sensitivity self-test (nil: not part of the self-test universe)
}

// mv is a model value: the reference semantics of the four predicates and
// sxhash are defined on it in selftest.go.
type mv struct {
	k    string   // int ratio float complex str sym char nil t list vec table inst fn
	r    *big.Rat // numbers: exact value
	s    string   // str/sym/char text
	kids []*mv
}

func mint(s string) *mv {
	r, _ := new(big.Rat).SetString(s)
	return &mv{k: "int", r: r}
}
func mflt(s string) *mv {
	r, _ := new(big.Rat).SetString(s)
	return &mv{k: "float", r: r}
}
func mrat(s string) *mv {
	r, _ := new(big.Rat).SetString(s)
	return &mv{k: "ratio", r: r}
}

const (
	two64  = "18446744073709551616"
	two64p = "18446744073709551617"
	two53  = "9007199254740992"
	two53p = "9007199254740993"
)

var universe = []*elem{
	// ---- numbers: equal values in different representations and identities
	{name: "i0", src: "0", quick: true},
	{name: "i1", src: "1", quick: true, m: mint("1")},
	{name: "i2", src: "2"},
	{name: "i1000a", src: "1000", quick: true},
	{name: "i1000b", src: "1000", quick: true},
	{name: "d1", src: "1.0d0", quick: true, m: mflt("1")},
	{name: "f1", src: "1.0f0", quick: true, m: mflt("1")},
	{name: "l1", src: "1.0l0", quick: true},
	{name: "l1b", src: "1.0l0"},
	{name: "c1", src: "#C(1 0)", quick: true},
	{name: "c12a", src: "#C(1 2)"},
	{name: "c12b", src: "#C(1 2)"},
	{name: "d0", src: "0.0d0"},
	{name: "dm0", src: "-0.0d0"},
	{name: "big64a", src: two64, quick: true, m: mint(two64)},
	{name: "big64b", src: two64, quick: true, m: mint(two64)},
	{name: "big64p", src: two64p, quick: true, m: mint(two64p)},
	{name: "d64", src: two64 + ".0d0", quick: true, m: mflt(two64)},
	{name: "l64", src: two64 + ".0l0"},
	{name: "i53", src: two53, quick: true, m: mint(two53)},
	{name: "i53p", src: two53p, quick: true, m: mint(two53p)},
	{name: "d53", src: two53 + ".0d0", quick: true, m: mflt(two53)},
	// the precision edge of each float format: an integer the format cannot hold next to the float of the rounded value
	// (a comparison that goes through the float type calls them equal and breaks transitivity / sxhash agreement)
	{name: "i24", src: "16777216", quick: true, m: mint("16777216")},
	{name: "i24p", src: "16777217", quick: true, m: mint("16777217")},
	{name: "f24", src: "(coerce 16777216 'single-float)", quick: true, m: mflt("16777216")},
	{name: "d24p", src: "16777217.0d0", quick: true, m: mflt("16777217")},
	{name: "i32p", src: "4294967297"},
	{name: "f32", src: "(coerce 4294967296 'single-float)"},
	{name: "l53p", src: two53p + ".0l0", quick: true},
	{name: "im24p", src: "-16777217"},
	{name: "fm24", src: "(coerce -16777216 'single-float)"},
	{name: "r12a", src: "1/2", quick: true, m: mrat("1/2")},
	{name: "r12b", src: "1/2", quick: true, m: mrat("1/2")},
	{name: "d05", src: "0.5d0", quick: true, m: mflt("1/2")},
	{name: "f05", src: "0.5f0"},
	{name: "r13", src: "1/3"},
	{name: "d13", src: "0.3333333333333333d0"},
	{name: "r13x", src: "6004799503160661/18014398509481984"}, // the exact value of the double nearest 1/3
	{name: "oct1", src: "(coerce 1 'octet)"},
	// ---- strings, symbols, characters
	{name: "sabc_a", src: `"abc"`, quick: true, m: &mv{k: "str", s: "abc"}},
	{name: "sabc_b", src: `(copy-seq "abc")`, quick: true, m: &mv{k: "str", s: "abc"}},
	{name: "SABC", src: `"ABC"`, quick: true, m: &mv{k: "str", s: "ABC"}},
	{name: "sabd", src: `"abd"`},
	{name: "sa", src: `"a"`, quick: true},
	{name: "sempty", src: `""`},
	{name: "yabc", src: "'abc", quick: true, m: &mv{k: "sym", s: "abc"}},
	{name: "yABC", src: `(car (list (intern "ABC")))`, quick: true, m: &mv{k: "sym", s: "ABC"}},
	{name: "yabd", src: "'abd"},
	{name: "kabc", src: ":abc", quick: true, m: &mv{k: "sym", s: ":abc"}},
	{name: "ca", src: `#\a`, quick: true, m: &mv{k: "char", s: "a"}},
	{name: "cA", src: `#\A`, quick: true, m: &mv{k: "char", s: "A"}},
	{name: "cb", src: `#\b`},
	// non-ASCII letters in both cases: equalp folds case, equal and sxhash must stay coherent with it
	{name: "se_lo", src: "(coerce (list (code-char 233) #\\x) 'string)", quick: true},
	{name: "se_up", src: "(coerce (list (code-char 201) #\\X) 'string)", quick: true},
	{name: "se_lo2", src: "(coerce (list (code-char 233) #\\x) 'string)"},
	{name: "ce_lo", src: "(code-char 233)", quick: true},
	{name: "ce_up", src: "(code-char 201)", quick: true},
	{name: "lse_lo", src: "(list (coerce (list (code-char 233)) 'string))"},
	{name: "lse_up", src: "(list (coerce (list (code-char 201)) 'string))"},
	{name: "nil", src: "nil", quick: true, m: &mv{k: "nil"}},
	{name: "empty", src: "'()", quick: true},
	{name: "t", src: "t", quick: true, m: &mv{k: "t"}},
	// ---- lists and vectors (nested, differing in case / number representation)
	{name: "l12a", src: "(list 1 2)", quick: true, m: &mv{k: "list", kids: []*mv{mint("1"), mint("2")}}},
	{name: "l12b", src: "(list 1 2)", quick: true, m: &mv{k: "list", kids: []*mv{mint("1"), mint("2")}}},
	{name: "l12d", src: "(list 1 2.0d0)", quick: true, m: &mv{k: "list", kids: []*mv{mint("1"), mflt("2")}}},
	{name: "lsa", src: `(list "a")`, quick: true, m: &mv{k: "list", kids: []*mv{{k: "str", s: "a"}}}},
	{name: "lsA", src: `(list "A")`, quick: true, m: &mv{k: "list", kids: []*mv{{k: "str", s: "A"}}}},
	{name: "lca", src: `(list #\a)`, quick: true},
	{name: "lcA", src: `(list #\A)`, quick: true},
	{name: "lnest_a", src: "(list 1 (list 2 3))"},
	{name: "lnest_b", src: "(list 1 (list 2 3))"},
	{name: "lbig_a", src: "(list " + two64 + ")"},
	{name: "lbig_b", src: "(list " + two64 + ")"},
	{name: "dot_a", src: "'(1 . 2)", quick: true},
	{name: "dot_b", src: "'(1 . 2)", quick: true},
	{name: "dotc_a", src: `'(1 . #\a)`},
	{name: "dotc_A", src: `'(1 . #\A)`},
	{name: "v12a", src: "(vector 1 2)", quick: true, m: &mv{k: "vec", kids: []*mv{mint("1"), mint("2")}}},
	{name: "v12b", src: "(vector 1 2)", quick: true, m: &mv{k: "vec", kids: []*mv{mint("1"), mint("2")}}},
	{name: "v12d", src: "(vector 1 2.0d0)", quick: true},
	{name: "vsa", src: `(vector "a")`, quick: true},
	{name: "vsA", src: `(vector "A")`, quick: true},
	// the same elements in vectors of another make (element type, adjustability, fill pointer, octets) and vectors
	// holding case-differing strings inside other containers: equal and equalp walk containers with different code
	{name: "v12fix", src: "(make-array 2 :element-type 'fixnum :initial-contents '(1 2))", quick: true},
	{name: "v12nadj", src: "(make-array 2 :adjustable nil :initial-contents '(1 2))", quick: true},
	{name: "v12fp", src: "(let ((v (make-array 3 :fill-pointer 2 :initial-element 0))) (setf (aref v 0) 1) (setf (aref v 1) 2) v)", quick: true},
	{name: "lvsa", src: `(list (vector "a"))`, quick: true},
	{name: "lvsA", src: `(list (vector "A"))`, quick: true},
	{name: "vvsa", src: `(vector (vector "a") 1)`},
	{name: "vvsA", src: `(vector (vector "A") 1)`},
	{name: "vca", src: `(vector #\a)`},
	{name: "vcA", src: `(vector #\A)`},
	{name: "arr_a", src: "(make-array '(2 2) :initial-contents '((1 2) (3 4)))", quick: true},
	{name: "arr_b", src: "(make-array '(2 2) :initial-contents '((1 2) (3 4)))", quick: true},
	{name: "bv_a", src: "#*101"},
	{name: "bv_b", src: "#*101"},
	{name: "oc_a", src: "(coerce '(1 2) 'octets)", quick: true},
	{name: "oc_b", src: "(coerce '(1 2) 'octets)"},
	// ---- tables, instances, functions
	{name: "h0a", src: "(make-hash-table)", quick: true, m: &mv{k: "table"}},
	{name: "h0b", src: "(make-hash-table)", quick: true, m: &mv{k: "table"}},
	{name: "h1a", src: "(let ((h (make-hash-table))) (setf (gethash 'k h) 1) h)", quick: true},
	{name: "h1b", src: "(let ((h (make-hash-table))) (setf (gethash 'k h) 1) h)", quick: true},
	{name: "h1d", src: "(let ((h (make-hash-table))) (setf (gethash 'k h) 1.0d0) h)"},
	{name: "fl1a", src: "(make-instance 'c16-fl :a 1)", quick: true, m: &mv{k: "inst", s: "c16-fl", kids: []*mv{mint("1")}}},
	{name: "fl1b", src: "(make-instance 'c16-fl :a 1)", quick: true, m: &mv{k: "inst", s: "c16-fl", kids: []*mv{mint("1")}}},
	{name: "fl2", src: "(make-instance 'c16-fl :a 2)", quick: true},
	{name: "cl1a", src: "(make-instance 'c16-cl :x 1)"},
	{name: "cl1b", src: "(make-instance 'c16-cl :x 1)"},
	{name: "fcar", src: "#'car", quick: true},
	{name: "lam_a", src: "(lambda (x) x)"},
	{name: "lam_b", src: "(lambda (x) x)"},
	// ---- further kinds (types / coerce; relations in thorough)
	{name: "pkg", src: "*package*"},
	{name: "sstrm", src: "(make-string-output-stream)"},
	{name: "ostrm", src: "*standard-output*"},
	{name: "tm", src: "@2022-04-01T00:00:00Z"},
	{name: "chan", src: "(make-channel 1)"},
	{name: "cond", src: "(make-condition 'simple-error)"},
	{name: "tcond", src: "(make-condition 'simple-type-error)"},
	{name: "rcond", src: "(make-condition 'reader-error)"},
	{name: "cls", src: "(find-class 'fixnum)"},
	{name: "fcls", src: "(find-class 'vanilla-flavor)"},
	{name: "ccls", src: "(find-class 'error)"},
	{name: "sb3", src: "(coerce 3 'signed-byte)"},
	{name: "ub3", src: "(coerce 3 'unsigned-byte)"},
	{name: "bit1", src: "(coerce 1 'bit)"},
	{name: "vfl", src: "(make-instance 'vanilla-flavor)"},
	{name: "bagi", src: "(make-instance 'bag-flavor)"},
}

var elemByName = func() map[string]*elem {
	m := map[string]*elem{}
	for _, e := range universe {
		if m[e.name] != nil {
			panic("duplicate universe element " + e.name)
		}
		m[e.name] = e
	}
	return m
}()

func relUniverse(tier string) (u []*elem) {
	for _, e := range universe {
		if e.quick || tier == "thorough" {
			u = append(u, e)
		}
	}
	return
}

var prepOnce sync.Once

// prep defines the flavor and the class the instance elements need. The
// definitions are constants (same text in every process), nothing else in this
// harness touches a process-global table.
func prep() {
	prepOnce.Do(func() {
		_, _ = lisp.Eval("(defflavor c16-fl ((a 1)) () :settable-instance-variables :initable-instance-variables)")
		_, _ = lisp.Eval("(defclass c16-cl () ((x :initarg :x)))")
	})
}

// build evaluates the element's source in a fresh scope.
func (e *elem) build() (slip.Object, *lisp.Err) {
	prep()
	return lisp.Eval(e.src)
}

// fineKind names the representation of an object (Go type switch, never slip's own type-of).
func fineKind(o slip.Object) string {
	switch v := o.(type) {
	case nil:
		return "nil"
	case slip.Fixnum:
		return "fixnum"
	case *slip.Bignum:
		return "bignum"
	case *slip.Ratio:
		return "ratio"
	case slip.SingleFloat:
		return "single-float"
	case slip.DoubleFloat:
		return "double-float"
	case *slip.LongFloat:
		return "long-float"
	case slip.Complex:
		return "complex"
	case slip.Octet:
		return "octet"
	case *slip.SignedByte:
		return "signed-byte"
	case *slip.UnsignedByte:
		return "unsigned-byte"
	case slip.Bit:
		return "bit"
	case slip.String:
		return "string"
	case slip.Symbol:
		if strings.HasPrefix(string(v), ":") {
			return "keyword"
		}
		return "symbol"
	case slip.Character:
		return "character"
	case slip.List:
		if len(v) == 0 {
			return "empty-list"
		}
		if _, ok := v[len(v)-1].(slip.Tail); ok {
			return "dotted-list"
		}
		return "list"
	case *slip.Vector:
		return "vector"
	case slip.Octets:
		return "octets"
	case *slip.BitVector:
		return "bit-vector"
	case *slip.Array:
		return "array"
	case slip.HashTable:
		return "hash-table"
	case *slip.Lambda:
		return "lambda"
	case *slip.FuncInfo:
		return "function"
	case slip.Values:
		return "values"
	}
	if o == slip.True {
		return "t"
	}
	if _, ok := o.(slip.Class); ok {
		return "class"
	}
	if _, ok := o.(slip.Instance); ok {
		return "instance"
	}
	if h := o.Hierarchy(); 0 < len(h) {
		return "other:" + string(h[0])
	}
	return "other"
}

// kindOf is the moderate granularity used in relation signatures.
func kindOf(fine string) string {
	switch fine {
	case "fixnum", "bignum", "octet", "signed-byte", "unsigned-byte", "bit":
		return "integer"
	case "single-float", "double-float", "long-float":
		return "float"
	case "keyword":
		return "symbol"
	case "dotted-list":
		return "list"
	case "empty-list":
		return "nil"
	case "octets", "bit-vector":
		return "vector"
	case "lambda":
		return "function"
	}
	if strings.HasPrefix(fine, "other") {
		return "other"
	}
	return fine
}

func isNumberKind(k string) bool {
	return k == "integer" || k == "ratio" || k == "float" || k == "complex"
}
