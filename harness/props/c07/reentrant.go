package c07

// reentrant.go: exits that are re-entered while an earlier exit from the same form is still on its way to its
// target. The function's cleanup form calls the function again (directly or through a helper), so the same
// return-from / return / go form runs again between the moment the outer exit left the protected form and the
// moment it reaches its block, loop or tagbody. Each activation must still yield ITS value and land on ITS tag.
// The function is called once before (a "warm" call that completes), because slip keeps the compiled forms of a
// function body after the first call: whatever is cached per call site is shared from then on.
//
// spec: re|<exit>|<via>|<warm>|<depth>

import (
	"fmt"
	"os"
	"strconv"
	"strings"

	"github.com/ohler55/slip"

	"verif/engine"
	"verif/lisp"
	"verif/ref/eval"
)

var reExits = []string{"return-from-block", "return-from-function", "return-dolist", "return-dotimes", "return-do", "go", "error-handled"}

func enumReentrant(tier string, emit func(string)) {
	depths := []int{1, 2}
	if tier == engine.Thorough {
		depths = []int{1, 2, 3, 4}
	}
	for _, e := range reExits {
		for _, via := range []string{"direct", "helper"} {
			for _, warm := range []int{1, 0} {
				for _, d := range depths {
					emit(fmt.Sprintf("re|%s|%s|%d|%d", e, via, warm, d))
				}
			}
		}
	}
}

func reentrantForms(exit, via string, warm, depth int, unique string) (forms []eval.Node, names []string) {
	S := func(s string) eval.Sym { return eval.Sym(s) }
	fn := "c07re-" + unique
	helper := "c07reh-" + unique
	names = []string{fn, helper}
	tr := func(k int) eval.Node { return form("tr", form("+", eval.Int(k), S("n"))) }
	callee := fn
	if via == "helper" {
		callee = helper
	}
	clean := []eval.Node{tr(3000), form("when", form("<", eval.Int(0), S("n")), form(callee, form("-", S("n"), eval.Int(1)))), tr(4000)}
	value := form("+", eval.Int(500), S("n"))
	protect := func(body ...eval.Node) eval.Node {
		up := eval.List{S("unwind-protect"), append(eval.List{S("progn"), tr(2000)}, body...)}
		return append(up, clean...)
	}
	var wrap eval.Node
	switch exit {
	case "return-from-block":
		wrap = form("block", S("b"), protect(form("return-from", S("b"), value), tr(6000)), tr(7000), eval.Q(S("fell")))
	case "return-from-function":
		wrap = form("progn", protect(form("return-from", S(fn), value), tr(6000)), tr(7000), eval.Q(S("fell")))
	case "return-dolist":
		wrap = form("dolist", form("i", eval.Q(eval.L(eval.Int(1), eval.Int(2))), eval.Q(S("done"))), protect(form("return", value), tr(6000)), tr(7000))
	case "return-dotimes":
		wrap = form("dotimes", form("i", eval.Int(2), eval.Q(S("done"))), protect(form("return", value), tr(6000)), tr(7000))
	case "return-do":
		wrap = form("do", eval.L(form("i", eval.Int(0), form("+", S("i"), eval.Int(1)))), eval.L(form("<=", eval.Int(2), S("i")), eval.Q(S("done"))),
			protect(form("return", value), tr(6000)), tr(7000))
	case "go":
		wrap = form("let", eval.L(form("r", eval.Int(0))),
			form("tagbody", protect(form("setq", S("r"), value), form("go", S("out")), tr(6000)), tr(7000), form("setq", S("r"), eval.Q(S("fell"))),
				S("out"), tr(8000)),
			S("r"))
	case "error-handled":
		// the error leaves the protected form, the cleanup recurses, the handler outside receives it afterwards
		wrap = form("progn", form("ignore-errors", protect(form("error", eval.Str("c07")), tr(6000)), tr(7000)), value)
	}
	// the exit sits in a body position of every form around it (the statement's scope): the wrapped form is the
	// last body form of the function
	forms = append(forms, form("defun", S(fn), form("n"), tr(1000), wrap))
	if via == "helper" {
		forms = append(forms, form("defun", S(helper), form("m"), form(fn, S("m"))))
	}
	main := eval.List{S("list")}
	if warm == 1 {
		main = append(main, form(fn, eval.Int(0)))
	}
	main = append(main, form(fn, eval.Int(int64(depth))), form(fn, eval.Int(1)))
	forms = append(forms, main)
	return
}

func execReentrant(spec string) (res engine.Result) {
	parts := strings.Split(spec, "|")
	if len(parts) != 5 {
		res.Fail("harness:bad-spec", spec)
		return
	}
	warm, _ := strconv.Atoi(parts[3])
	depth, _ := strconv.Atoi(parts[4])
	unique := fmt.Sprintf("%d-%d", os.Getpid(), caseCounter.Add(1))
	forms, names := reentrantForms(parts[1], parts[2], warm, depth, unique)
	in := eval.New(eval.Mutations{})
	out := in.Run(forms)
	if out.Budget || out.Deadlock || out.ErrClass != "" {
		res.Fail("harness:reference-did-not-finish", spec+": "+out.ErrClass+" "+out.ErrMsg)
		return
	}
	src := eval.RenderAll(forms)
	defer func() {
		for _, name := range names {
			_, _ = lisp.Eval("(fmakunbound '" + name + ")")
		}
	}()
	lisp.ResetTrace()
	val, err := lisp.EvalIn(slip.NewScope(), src)
	trace := strings.Join(lisp.Trace(), ",")
	res.Nontrivial = true
	res.Hit("reentrant-exit-in-flight")
	expVal, expTrace := eval.Show(out.Value), strings.Join(out.Trace, ",")
	sig := func(kind string) string {
		return fmt.Sprintf("reentrant exit=%s via=%s kind=%s", parts[1], parts[2], kind)
	}
	detail := fmt.Sprintf("%s\n=> slip: %s %v trace [%s]\n   language: %s trace [%s]", src, lisp.Show(val), err, trace, expVal, expTrace)
	switch {
	case err != nil && err.GoFault:
		res.Fail(sig("go-fault"), detail)
	case err != nil:
		res.Fail(sig("error:"+err.Class), detail)
	case lisp.Show(val) != expVal:
		res.Fail(sig("wrong-value"), detail)
	case trace != expTrace:
		res.Fail(sig("wrong-trace"), detail)
	default:
		res.Hit("nontrivial-passed")
	}
	res.Outcome = lisp.Show(val) + "|" + trace
	return
}
