package c09

// keyed.go: family k - every pool object (pool complete by construction, cover.go) as the KEY of a hash table of
// every test and as an element handed to the built-ins that hash or compare objects. x is the pool object, y a
// second object built the same way.
//
// spec: k|<op>|<pool name>

import (
	"fmt"
	"strings"
	"sync/atomic"

	"github.com/ohler55/slip"

	"verif/engine"
)

type keyedOp struct{ name, form string }

var keyedOps = buildKeyedOps()

func buildKeyedOps() (out []keyedOp) {
	add := func(name, form string) { out = append(out, keyedOp{name, form}) }
	for _, t := range []string{"eq", "eql", "equal", "equalp"} {
		add("gethash-"+t, "(gethash x (make-hash-table :test '"+t+"))")
		add("setf-gethash-"+t, "(let ((h (make-hash-table :test '"+t+"))) (setf (gethash x h) 1) (setf (gethash y h) 2) (list (gethash x h) (gethash y h) (hash-table-count h)))")
		add("remhash-"+t, "(let ((h (make-hash-table :test '"+t+"))) (setf (gethash x h) 1) (remhash y h) (remhash x h) (hash-table-count h))")
		add("hash-value-"+t, "(let ((h (make-hash-table :test '"+t+")) (n 0)) (setf (gethash 1 h) x) (maphash (lambda (k v) (setq n (+ n 1))) h) n)")
	}
	add("sxhash", "(integerp (sxhash x))")
	add("sxhash-twin", "(= (sxhash x) (sxhash y))")
	for _, f := range []string{"eq", "eql", "equal", "equalp"} {
		add(f+"-twin", "("+f+" x y)")
		add(f+"-self", "("+f+" x x)")
		add(f+"-fixnum", "(list ("+f+" x 1) ("+f+" 1 x) ("+f+" x nil) ("+f+` x "abc") (`+f+" (list x) (list y)) ("+f+" (vector x) (vector y)))")
	}
	for _, t := range []string{"", " :test #'eq", " :test #'equal", " :test #'equalp"} {
		n := strings.TrimPrefix(t, " :test #'")
		if n == "" {
			n = "default"
		}
		add("member-"+n, "(null (member x (list 1 y)"+t+"))")
		add("assoc-"+n, "(null (assoc x (list (cons 1 2) (cons y 1))"+t+"))")
		add("rassoc-"+n, "(null (rassoc x (list (cons 1 2) (cons 1 y))"+t+"))")
		add("remove-duplicates-"+n, "(length (remove-duplicates (list x 1 y x)"+t+"))")
		add("delete-duplicates-vector-"+n, "(length (delete-duplicates (vector x 1 y x)"+t+"))")
		add("union-"+n, "(length (union (list x 1) (list y 2)"+t+"))")
		add("intersection-"+n, "(length (intersection (list x 1) (list y 1)"+t+"))")
		add("set-difference-"+n, "(length (set-difference (list x 1) (list y 2)"+t+"))")
		add("set-exclusive-or-"+n, "(length (set-exclusive-or (list x 1) (list y 2)"+t+"))")
		add("subsetp-"+n, "(subsetp (list x) (list 1 y)"+t+")")
		add("adjoin-"+n, "(length (adjoin x (list 1 y)"+t+"))")
		add("find-"+n, "(null (find x (vector 1 y)"+t+"))")
		add("position-"+n, "(position x (list 1 y)"+t+")")
		add("count-"+n, "(count x (vector 1 y x)"+t+")")
		add("remove-"+n, "(length (remove x (list 1 y x)"+t+"))")
		add("substitute-"+n, "(length (substitute 0 x (vector 1 y x)"+t+"))")
		add("search-"+n, "(search (list x) (list 1 y)"+t+")")
		add("mismatch-"+n, "(mismatch (list 1 x) (list 1 y)"+t+")")
		add("tree-equal-"+n, "(tree-equal (list 1 (list x)) (list 1 (list y))"+t+")")
		add("subst-"+n, "(length (subst 0 x (list 1 (list y))"+t+"))")
		add("sublis-"+n, "(length (sublis (list (cons x 0)) (list 1 (list y))"+t+"))")
	}
	add("case", "(case x (1 'one) ((a b) 'sym) (t 'other))")
	add("typecase", "(typecase x (fixnum 'fixnum) (string 'string) (list 'list) (t 'other))")
	add("sort-by-sxhash", "(length (sort (list x y 1) #'< :key #'sxhash))")
	add("pushnew", "(let ((l (list 1 y))) (pushnew x l) (pushnew x l :test #'equal) (length l))")
	add("getf", "(getf (list 1 2 y 3) x)")
	add("get-properties", "(null (get-properties (list 1 2 y 3) (list x)))")
	add("remf", "(let ((l (list 1 2 y 3))) (remf l x) (length l))")
	return
}

func enumKeyed(tier string, emit func(string)) {
	for _, op := range keyedOps {
		for i := range fullPool {
			emit("k|" + op.name + "|" + fullPool[i].name)
		}
	}
}

func execKeyed(spec string) (res engine.Result) {
	parts := strings.SplitN(spec, "|", 3)
	var op *keyedOp
	if len(parts) == 3 {
		for i := range keyedOps {
			if keyedOps[i].name == parts[1] {
				op = &keyedOps[i]
			}
		}
	}
	if op == nil || poolByName[parts[2]] == nil {
		res.Fail("harness:bad-spec", spec)
		return
	}
	res.Hit("keyed-cases")
	leave := enter(false)
	defer leave()
	w := &world{scope: slip.NewScope()}
	defer w.done()
	id := atomic.AddInt64(&nameCounter, 1)
	if !setup(func() {
		w.scope.Let(slip.Symbol("x"), w.build(parts[2]))
		w.scope.Let(slip.Symbol("y"), w.build(parts[2]))
	}) {
		tainted = true
		res.Fail("harness:setup-failed", spec)
		return
	}
	_ = id
	o := observe(func() slip.Object { return slip.ReadString(op.form, w.scope).Eval(w.scope, nil) })
	res.Outcome = o.outcome()
	res.Nontrivial = true
	switch o.kind {
	case "value":
		res.Hit("keyed-value")
	case "condition":
		res.Hit("keyed-condition")
	}
	if o.catchAll {
		res.Hit("catch-all-conversions")
	}
	what := op.form + " with x, y = " + parts[2] + " (" + poolByName[parts[2]].what + ")"
	if fc := realClassifier.classify(o); fc != "" {
		res.Hit("faults")
		res.Fail(fmt.Sprintf("keyed op=%s fault=%s at=%s", op.name, fc, o.site), what+" => "+o.describe())
	} else if o.catchAll {
		res.Hit("catch-all-accepted")
		logAccepted("keyed op="+op.name, o)
	}
	return
}
