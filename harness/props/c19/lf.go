//go:build verif

package c19

// A1: load-form round trips through the code pretty printer at every right
// margin 20..120.

import (
	"fmt"
	"sort"
	"strings"

	"github.com/ohler55/slip"
	"github.com/ohler55/slip/pp"

	"verif/engine"
	"verif/lisp"
)

const (
	minMargin = 20
	maxMargin = 120
)

// lfCase is one object (or one small world of named definitions) whose load
// form is round tripped.
type lfCase struct {
	label string
	kind  string // signature: kind of object
	feat  string // signature: the feature of the object this case is about
	// support is plain source evaluated before setup in the original world
	// and again (renamed) in every copy world: things the load forms under
	// test refer to but that are not themselves under test.
	support string
	// setup is source evaluated once ('$' = unique prefix).
	setup string
	// obj is an expression yielding the object (data flow).
	obj string
	// funky: obj is source of a function call; the object is the compiled call.
	funky bool
	// defs are expressions yielding LOAD FORMS of named definitions, in
	// definition order (world flow). "method:<flavor>:<daemon>:<name>" asks the
	// flavor for the method's defining list.
	defs []string
	// probes are expressions evaluated in the original and the reloaded world
	// ('$' = prefix; for lambdas the variable f holds the function).
	probes []string
	tier   string // "" = both, "thorough" = thorough only
	// parts: labels of the single-feature cases this combination is made of.
	// A failure the combination shares with one of its parts is attributed to
	// that part (same signature), so that only a genuine interaction gets a
	// signature of its own.
	parts []string
	// pnames (parallel to probes, optional): what each probe observes; a differing probe is then reported as
	// probe-differs:<name> and all probes are compared (without names: the first differing probe only).
	pnames []string
	// inh: the inheritance world this case was generated from (inherit.go)
	inh *inhWorld
	// ov: the option-value world this case was generated from (optval.go)
	ov *ovSpec
	// optional: slip may reject the defining form (an option value it does not take); that is an outcome, not a failure
	optional bool
}

var partWhats = map[string]map[string]bool{}

func whatsOf(label string) map[string]bool {
	if m, has := partWhats[label]; has {
		return m
	}
	m := map[string]bool{}
	partWhats[label] = m
	if c := lfIndex[label]; c != nil {
		var r engine.Result
		var fails []*lfFail
		if 0 < len(c.defs) {
			fails, _, _ = runWorld(c, &r)
		} else {
			fails, _, _ = runData(c, &r)
		}
		for _, f := range fails {
			m[f.what] = true
		}
	}
	return m
}

var seq int

func fresh() string {
	seq++
	s := strings.ToLower(fmt.Sprintf("%04s", strconvBase36(seq)))
	return "zq" + strings.ReplaceAll(s, " ", "0")
}

func strconvBase36(n int) string {
	const digits = "0123456789abcdefghijklmnopqrstuvwxyz"
	if n == 0 {
		return "0"
	}
	var b []byte
	for 0 < n {
		b = append([]byte{digits[n%36]}, b...)
		n /= 36
	}
	return string(b)
}

// textMutator, when set (self-test only), rewrites the pretty printed text
// before it is read back: it simulates a defect in LoadForm / the pretty
// printer.
var textMutator func(kind, text string) string

func marginBand(m int) string {
	switch {
	case m < 40:
		return "20-39"
	case m < 80:
		return "40-79"
	}
	return "80-120"
}

// evalObserve evaluates src and renders value or error class.
func evalObserve(scope *slip.Scope, src string) string {
	v, err := lisp.EvalIn(scope, src)
	if err != nil {
		if err.GoFault {
			return "GOFAULT " + err.Message
		}
		return "ERR " + err.Class
	}
	return show(v)
}

// show is lisp.Show extended with compiled code: function call objects are
// rendered as (name args...), lambdas by their load form, so that code stored
// in load forms is compared structurally.
func show(v slip.Object) string {
	var b strings.Builder
	showTo(&b, v, 0)
	return b.String()
}

func showTo(b *strings.Builder, v slip.Object, depth int) {
	if 60 < depth {
		b.WriteString("<deep>")
		return
	}
	switch tv := v.(type) {
	case *slip.Lambda:
		b.WriteString("#lambda")
		showTo(b, safeLoadForm(tv), depth+1)
	case slip.List:
		if len(tv) == 0 {
			b.WriteString("nil")
			return
		}
		b.WriteByte('(')
		for i, e := range tv {
			if 0 < i {
				b.WriteByte(' ')
			}
			if t, ok := e.(slip.Tail); ok {
				b.WriteString(". ")
				showTo(b, t.Value, depth+1)
			} else {
				showTo(b, e, depth+1)
			}
		}
		b.WriteByte(')')
	case slip.Funky:
		b.WriteString("#call(")
		if name := tv.GetName(); name != "" {
			b.WriteString(strings.ToLower(name))
		} else if c, ok := tv.Caller().(*slip.Lambda); ok {
			showTo(b, c, depth+1)
		} else {
			b.WriteString("<anonymous>")
		}
		for _, a := range tv.GetArgs() {
			b.WriteByte(' ')
			showTo(b, a, depth+1)
		}
		b.WriteByte(')')
	default:
		b.WriteString(lisp.Show(v))
	}
}

func safeLoadForm(lf slip.LoadFormer) (form slip.Object) {
	defer func() {
		if rec := recover(); rec != nil {
			form = slip.String("LOADFORM-PANIC " + lisp.ErrFromRecovered(rec).String())
		}
	}()
	return lf.LoadForm()
}

// normDocs collapses white space inside rendered strings that are documentation
// (by harness convention every documentation string starts with "Doc").
// The pretty printer deliberately re-flows documentation strings.
func normDocs(s string) string {
	s = sortOption(s, "(:inittable-instance-variables ")
	var b strings.Builder
	i := 0
	for i < len(s) {
		j := strings.Index(s[i:], `"Doc`)
		if j < 0 {
			b.WriteString(s[i:])
			break
		}
		j += i
		b.WriteString(s[i:j])
		// find the closing quote of the Go-quoted string
		k := j + 1
		for k < len(s) && s[k] != '"' {
			if s[k] == '\\' {
				k++
			}
			k++
		}
		if len(s) <= k {
			b.WriteString(s[j:])
			break
		}
		doc := s[j : k+1]
		doc = strings.ReplaceAll(doc, `\n`, " ")
		doc = strings.ReplaceAll(doc, `\t`, " ")
		doc = strings.Join(strings.Fields(doc), " ")
		b.WriteString(doc)
		i = k + 1
	}
	return b.String()
}

type ppText struct {
	text    string
	margins []int
}

// ppAll pretty prints the forms at every margin and groups equal texts.
func ppAll(forms []slip.Object) (texts []*ppText, fault string, faultMargin int) {
	index := map[string]*ppText{}
	for m := minMargin; m <= maxMargin; m++ {
		scope := slip.NewScope()
		scope.Let(slip.Symbol("*print-right-margin*"), slip.Fixnum(m))
		var b []byte
		func() {
			defer func() {
				if rec := recover(); rec != nil {
					fault = lisp.ErrFromRecovered(rec).String()
					faultMargin = m
				}
			}()
			for _, f := range forms {
				b = pp.Append(b, scope, f)
			}
		}()
		if fault != "" {
			return
		}
		t := index[string(b)]
		if t == nil {
			t = &ppText{text: string(b)}
			index[t.text] = t
			texts = append(texts, t)
		}
		t.margins = append(t.margins, m)
	}
	return
}

type lfFail struct {
	what   string
	detail string
	margin int
}

func execLF(c *lfCase, res *engine.Result) {
	res.Hit("lf-case")
	res.Hit("lf-kind:" + c.kind)
	if c.inh != nil {
		res.Hit("lf-inherit-world")
		res.Hit("lf-inherit-world:" + c.inh.fam.lang)
		if c.inh.repeats {
			res.Hit("lf-inherit-leaf-repeats-distant")
		}
		if c.inh.restates {
			res.Hit("lf-inherit-leaf-restates-nearer")
		}
	}
	if c.ov != nil {
		res.Hit("lf-optval-world")
		res.Hit("lf-optval-world:" + c.ov.tmpl.kind)
		if c.ov.critical() {
			res.Hit("lf-optval-critical-value")
		}
		if c.ov.val == nil {
			res.Hit("lf-optval-absent-twin")
		}
	}
	var fails []*lfFail
	var ntexts int
	var outcome string
	if 0 < len(c.defs) {
		fails, ntexts, outcome = runWorld(c, res)
	} else {
		fails, ntexts, outcome = runData(c, res)
	}
	res.Outcome = c.label + " => " + outcome
	if 1 < ntexts {
		res.Nontrivial = true
		res.Hit("lf-wrapped-layouts")
	}
	// group failures by what; margins=all when every distinct text fails that way
	byWhat := map[string][]*lfFail{}
	var order []string
	for _, f := range fails {
		if _, has := byWhat[f.what]; !has {
			order = append(order, f.what)
		}
		byWhat[f.what] = append(byWhat[f.what], f)
	}
	for _, what := range order {
		fs := byWhat[what]
		margins := "all"
		if len(fs) < ntexts {
			min := fs[0].margin
			for _, f := range fs {
				if f.margin < min {
					min = f.margin
				}
			}
			margins = "some:" + marginBand(min)
		}
		feat := c.feat
		for _, pl := range c.parts {
			if whatsOf(pl)[what] {
				feat = lfIndex[pl].feat
				break
			}
		}
		res.Fail(fmt.Sprintf("lf kind=%s feat=%s fail=%s margins=%s", c.kind, feat, what, margins),
			fmt.Sprintf("case %s: %s (failing at %d of %d distinct layouts)", c.label, fs[0].detail, len(fs), ntexts))
	}
}

func errWhat(prefix string, err *lisp.Err) string {
	if err.GoFault {
		return prefix + ":go-fault"
	}
	return prefix + ":" + err.Class
}

// runData: object -> LoadForm -> pp at every margin -> read -> eval -> Equal.
func runData(c *lfCase, res *engine.Result) (fails []*lfFail, ntexts int, outcome string) {
	prefix := fresh()
	ren := func(s string) string { return strings.ReplaceAll(s, "$", prefix) }
	scope := slip.NewScope()
	if c.support != "" {
		if _, err := lisp.EvalIn(scope, ren(c.support)); err != nil {
			res.Fail("harness:lf-support-failed", c.label+": "+err.String())
			return
		}
	}
	if c.setup != "" {
		if _, err := lisp.EvalIn(scope, ren(c.setup)); err != nil {
			res.Fail("harness:lf-setup-failed", c.label+": "+err.String())
			return
		}
	}
	var obj slip.Object
	if c.funky {
		var err *lisp.Err
		func() {
			defer func() {
				if rec := recover(); rec != nil {
					err = lisp.ErrFromRecovered(rec)
				}
			}()
			code := slip.ReadString(ren(c.obj), scope)
			code.Compile()
			obj = code[0]
		}()
		if err != nil {
			res.Fail("harness:lf-obj-failed", c.label+": "+err.String())
			return
		}
		if _, ok := obj.(slip.Funky); !ok {
			res.Fail("harness:lf-obj-not-funky", c.label+": "+lisp.Show(obj))
			return
		}
	} else if strings.HasPrefix(c.obj, "go-symbol:") {
		obj = slip.Symbol(c.obj[len("go-symbol:"):])
	} else {
		var err *lisp.Err
		if obj, err = lisp.EvalIn(scope, ren(c.obj)); err != nil {
			if c.optional {
				res.Hit("lf-optval-rejected-by-slip")
				outcome = "rejected-by-slip " + err.Class
				return
			}
			res.Fail("harness:lf-obj-failed", c.label+": "+err.String())
			return
		}
	}
	lf, ok := obj.(slip.LoadFormer)
	if !ok {
		// the statement speaks of objects that offer a load form
		outcome = "no-load-form"
		res.Hit("lf-not-offered")
		return
	}
	var form slip.Object
	var lfErr *lisp.Err
	func() {
		defer func() {
			if rec := recover(); rec != nil {
				lfErr = lisp.ErrFromRecovered(rec)
			}
		}()
		form = lf.LoadForm()
	}()
	if lfErr != nil {
		fails = append(fails, &lfFail{what: errWhat("loadform-panic", lfErr), detail: "LoadForm() of " + show(obj) + " => " + lfErr.String(), margin: minMargin})
		ntexts = 1
		outcome = "loadform-panic"
		return
	}
	// the load form is a function of the content: asking again, and asking a second object built the same way, gives
	// the same form (a table's form must not depend on the iteration order of the map behind it)
	if !c.funky && !strings.HasPrefix(c.obj, "go-symbol:") && (c.kind == "hash-table" || c.kind == "list" || c.kind == "vector" || c.kind == "array") {
		base := lisp.Show(form)
		same := true
		func() {
			defer func() { _ = recover() }()
			for i := 0; i < 8 && same; i++ {
				same = lisp.Show(lf.LoadForm()) == base
			}
			if obj2, err := lisp.EvalIn(slip.NewScope(), ren(c.obj)); err == nil && same {
				if lf2, ok2 := obj2.(slip.LoadFormer); ok2 {
					same = lisp.Show(lf2.LoadForm()) == base
				}
			}
		}()
		res.Hit("lf-determinism-checked")
		if !same {
			fails = append(fails, &lfFail{what: "loadform-not-a-function-of-the-content", detail: "LoadForm() of " + show(obj) + " gives different forms when asked again / for a second object built the same way; first: " + base, margin: minMargin})
			ntexts = 1
			outcome = "loadform-nondeterministic"
			return
		}
	}
	texts, fault, fm := ppAll([]slip.Object{form})
	if fault != "" {
		fails = append(fails, &lfFail{what: "pp-panic", detail: fmt.Sprintf("pp.Append at margin %d of %s => %s", fm, lisp.Show(form), fault), margin: fm})
		ntexts = maxMargin - minMargin + 1
		outcome = "pp-panic"
		return
	}
	ntexts = len(texts)
	origShow := show(obj)
	_, isLambda := obj.(*slip.Lambda)
	var origProbes []string
	if isLambda {
		scope.Let(slip.Symbol("f"), obj)
		for _, p := range c.probes {
			origProbes = append(origProbes, evalObserve(scope, ren(p)))
		}
		res.Hit("lf-behaviour-probes")
	}
	var origVal string
	if c.funky {
		origVal = evalObserve(scope, ren(c.obj))
	}
	outcome = fmt.Sprintf("%s layouts=%d", origShow, ntexts)
	for _, t := range texts {
		text := t.text
		if textMutator != nil {
			text = textMutator(c.kind, text)
		}
		m := t.margins[0]
		fail := func(what, detail string) {
			fails = append(fails, &lfFail{what: what, margin: m,
				detail: fmt.Sprintf("margin %d: %s; object %s; text %q", m, detail, origShow, text)})
		}
		var code slip.Code
		var err *lisp.Err
		func() {
			defer func() {
				if rec := recover(); rec != nil {
					err = lisp.ErrFromRecovered(rec)
				}
			}()
			code = slip.ReadString(text, scope)
		}()
		if err != nil {
			fail(errWhat("read-error", err), "reading the text => "+err.String())
			continue
		}
		if len(code) != 1 {
			fail("form-count", fmt.Sprintf("the text reads as %d forms", len(code)))
			continue
		}
		var o2 slip.Object
		func() {
			defer func() {
				if rec := recover(); rec != nil {
					err = lisp.ErrFromRecovered(rec)
				}
			}()
			o2 = code[0]
			if list, ok := o2.(slip.List); ok {
				if c.funky {
					// compiled exactly like the original was
					code.Compile()
					o2 = code[0]
				} else {
					o2 = list.Eval(scope, 0)
				}
			} else if _, isSym := o2.(slip.Symbol); !isSym && o2 != nil {
				// self evaluating atoms: evaluating is the identity; symbols are
				// taken as read (slip's own sliptest.LoadForm protocol)
				o2 = o2.Eval(scope, 0)
			}
		}()
		if err != nil {
			fail(errWhat("eval-error", err), "evaluating the text => "+err.String())
			continue
		}
		res.Hit("lf-roundtrips")
		if isLambda {
			l2, ok := o2.(*slip.Lambda)
			if !ok {
				fail("type-differs", "reloaded object is "+show(o2))
				continue
			}
			if s2 := normDocs(show(l2)); s2 != normDocs(origShow) {
				fail("loadform-differs", "reloaded lambda has load form "+s2)
				continue
			}
			s2 := slip.NewScope()
			s2.Let(slip.Symbol("f"), l2)
			for i, p := range c.probes {
				if c.ov != nil {
					res.Hit("lf-optval-probes-compared")
				}
				if got := evalObserve(s2, ren(p)); got != origProbes[i] {
					what := "probe-differs"
					if i < len(c.pnames) && c.pnames[i] != "" {
						what += ":" + c.pnames[i]
					}
					fail(what, fmt.Sprintf("%s => %s, original %s", p, got, origProbes[i]))
					break
				}
			}
			continue
		}
		var h1, h2 slip.Symbol
		if obj != nil {
			h1 = obj.Hierarchy()[0]
		}
		if o2 != nil {
			h2 = o2.Hierarchy()[0]
		}
		if h1 != h2 {
			fail("type-differs", fmt.Sprintf("reloaded object is %s of type %s, original type %s", show(o2), h2, h1))
			continue
		}
		var eq bool
		func() {
			defer func() {
				if rec := recover(); rec != nil {
					err = lisp.ErrFromRecovered(rec)
				}
			}()
			eq = slip.ObjectEqual(obj, o2)
		}()
		if err != nil {
			fail("equal-panic", "Equal => "+err.String())
			continue
		}
		if !eq && c.funky {
			// a literal argument (a vector) is replaced by its constructor call:
			// accepted when the load form of the reloaded call is the same
			if f2, ok := o2.(slip.LoadFormer); ok && show(safeLoadForm(f2)) == show(form) {
				eq = true
				res.Hit("lf-call-equal-by-loadform")
			}
		}
		if !eq {
			fail("not-equal", "reloaded object "+show(o2)+" is not Equal to the original")
			continue
		}
		if c.funky {
			// same call => same value
			if v2 := evalObserve(scope, text); v2 != origVal {
				fail("value-differs", fmt.Sprintf("evaluating the reloaded call gives %s, the original %s", v2, origVal))
			}
			continue
		}
		if s2 := showDeep(o2); s2 != showDeep(obj) {
			fail("show-differs", "reloaded object renders as "+s2+", original "+showDeep(obj))
		}
	}
	return
}

// showDeep renders instances by slot so that Equal's blind spots are covered.
func showDeep(v slip.Object) string {
	if inst, ok := v.(slip.Instance); ok {
		names := inst.SlotNames()
		sort.Strings(names)
		var b strings.Builder
		b.WriteString("#inst<" + inst.Class().Name())
		for _, n := range names {
			if n == "self" {
				continue
			}
			sv, _ := inst.SlotValue(slip.Symbol(n))
			if sv == slip.Unbound {
				b.WriteString(" " + n + "=<unbound>")
			} else {
				b.WriteString(" " + n + "=" + show(sv))
			}
		}
		b.WriteString(">")
		return b.String()
	}
	return show(v)
}

type defMethodLister interface {
	DefMethodList(method, daemon string, inherited bool) slip.List
}

// runWorld: named definitions. The load forms of the definitions are pretty
// printed, the unique prefix is replaced by a fresh one of the same length
// (so the layout is unchanged) and the text is evaluated: that defines a copy
// of every definition next to the original. Probes are evaluated against
// both and must agree (after renaming back).
func runWorld(c *lfCase, res *engine.Result) (fails []*lfFail, ntexts int, outcome string) {
	prefix := fresh()
	ren := func(s, p string) string { return strings.ReplaceAll(s, "$", p) }
	scope := slip.NewScope()
	if c.support != "" {
		if _, err := lisp.EvalIn(scope, ren(c.support, prefix)); err != nil {
			res.Fail("harness:lf-support-failed", c.label+": "+err.String())
			return
		}
	}
	if _, err := lisp.EvalIn(scope, ren(c.setup, prefix)); err != nil {
		if c.optional {
			res.Hit("lf-optval-rejected-by-slip")
			outcome = "rejected-by-slip " + err.Class
			return
		}
		res.Fail("harness:lf-setup-failed", c.label+": "+err.String())
		return
	}
	var forms []slip.Object
	for _, d := range c.defs {
		if strings.HasPrefix(d, "method:") {
			parts := strings.Split(ren(d, prefix), ":")
			cl := slip.FindClass(parts[1])
			dml, ok := cl.(defMethodLister)
			if !ok {
				res.Fail("harness:lf-def-failed", c.label+": "+d+": not a flavor")
				return
			}
			var list slip.List
			var err *lisp.Err
			func() {
				defer func() {
					if rec := recover(); rec != nil {
						err = lisp.ErrFromRecovered(rec)
					}
				}()
				list = dml.DefMethodList(":"+parts[3], ":"+parts[2], false)
			}()
			if err != nil || len(list) == 0 {
				fails = append(fails, &lfFail{what: "method-loadform-missing", margin: minMargin,
					detail: fmt.Sprintf("DefMethodList(%s) => %v %s", d, list, err.String())})
				ntexts = 1
				return
			}
			forms = append(forms, list)
			continue
		}
		f, err := lisp.EvalIn(scope, ren(d, prefix))
		if err != nil {
			fails = append(fails, &lfFail{what: errWhat("loadform-panic", err), margin: minMargin,
				detail: ren(d, prefix) + " => " + err.String()})
			ntexts = 1
			outcome = "loadform-panic"
			return
		}
		forms = append(forms, f)
	}
	texts, fault, fm := ppAll(forms)
	if fault != "" {
		fails = append(fails, &lfFail{what: "pp-panic", detail: fmt.Sprintf("pp.Append at margin %d => %s", fm, fault), margin: fm})
		ntexts = maxMargin - minMargin + 1
		outcome = "pp-panic"
		return
	}
	ntexts = len(texts)
	var orig []string
	for _, p := range c.probes {
		orig = append(orig, normDocs(evalObserve(scope, ren(p, prefix))))
	}
	res.Hit("lf-behaviour-probes")
	outcome = fmt.Sprintf("%s layouts=%d", strings.ReplaceAll(strings.Join(orig, " ; "), prefix, "$"), ntexts)
	for _, t := range texts {
		text := t.text
		if textMutator != nil {
			text = textMutator(c.kind, text)
		}
		m := t.margins[0]
		copyPrefix := fresh()
		fail := func(what, detail string) {
			fails = append(fails, &lfFail{what: what, margin: m,
				detail: fmt.Sprintf("margin %d: %s; text %q", m, detail, strings.ReplaceAll(text, prefix, "$"))})
		}
		text2 := strings.ReplaceAll(text, prefix, copyPrefix)
		var s2 *slip.Scope
		failed := false
		degraded := ""
		var deferred func()
		for pass := 0; ; pass++ {
			s2 = slip.NewScope()
			if c.support != "" {
				if _, err := lisp.EvalIn(s2, ren(c.support, copyPrefix)); err != nil {
					res.Fail("harness:lf-support-failed", c.label+": copy: "+err.String())
					return
				}
			}
			var code slip.Code
			var err *lisp.Err
			func() {
				defer func() {
					if rec := recover(); rec != nil {
						err = lisp.ErrFromRecovered(rec)
					}
				}()
				code = slip.ReadString(text2, s2)
			}()
			if err != nil {
				fail(errWhat("read-error", err), "reading the text => "+err.String())
				failed = true
				break
			}
			if len(code) != len(forms) {
				fail("form-count", fmt.Sprintf("the text reads as %d forms, %d were printed", len(code), len(forms)))
				failed = true
				break
			}
			at := 0
			for i, form := range code {
				func() {
					defer func() {
						if rec := recover(); rec != nil {
							err = lisp.ErrFromRecovered(rec)
						}
					}()
					one := slip.Code{form}
					one.Eval(s2, nil)
				}()
				if err != nil {
					at = i + 1
					break
				}
			}
			if err == nil {
				break
			}
			// S9: step around a listed finding so that the rest of the form is still compared: the text is changed the
			// way the finding's repair would have written it and evaluated again under another fresh prefix
			if pass == 0 {
				if text3, tag := stepAround(c, err, text, prefix); tag != "" {
					what := errWhat("eval-error", err)
					detail := fmt.Sprintf("evaluating form %d of the text => %s", at, err.String())
					if c.inh != nil && 0 < len(c.parts) {
						// a generated world: the listed finding is reported by the table case of its own (c.parts); here it
						// is reported only when stepping around it does not help
						deferred = func() { fail(what, detail) }
						res.Hit("lf-listed-finding-stepped-around")
					} else {
						fail(what, detail)
					}
					degraded = tag
					copyPrefix = fresh()
					text2 = strings.ReplaceAll(text3, prefix, copyPrefix)
					res.Hit("lf-degraded-reload")
					continue
				}
			}
			if deferred != nil {
				deferred()
			}
			fail(errWhat("eval-error", err), fmt.Sprintf("evaluating form %d of the text => %s", at, err.String()))
			failed = true
			break
		}
		if failed {
			continue
		}
		res.Hit("lf-roundtrips")
		reported := map[string]bool{}
		for i, p := range c.probes {
			got := normDocs(strings.ReplaceAll(evalObserve(s2, ren(p, copyPrefix)), copyPrefix, prefix))
			if c.inh != nil {
				res.Hit("lf-inherit-probes-compared")
			}
			if c.ov != nil {
				res.Hit("lf-optval-probes-compared")
			}
			if got != orig[i] {
				what := "probe-differs"
				if strings.HasPrefix(p, "(make-load-form") {
					what = "loadform-differs"
				}
				if i < len(c.pnames) && c.pnames[i] != "" {
					what += ":" + c.pnames[i]
				}
				what += degraded
				if !reported[what] {
					reported[what] = true
					fail(what, fmt.Sprintf("%s => %s in the reloaded world, %s in the original", p,
						strings.ReplaceAll(got, prefix, "$"), strings.ReplaceAll(orig[i], prefix, "$")))
				}
				if c.pnames == nil {
					break
				}
			}
		}
	}
	return
}

// stepAround rewrites a pretty printed text that could not be evaluated because of a listed finding the way the
// finding's repair would have written it ("" tag: no step around applies).
func stepAround(c *lfCase, err *lisp.Err, text, prefix string) (string, string) {
	switch {
	case c.kind == "package" && err.Class == "unbound-variable":
		// (defpackage name ...) evaluates its name; the load form gives a bare symbol: quote every bare name of the case
		return strings.ReplaceAll(text, " "+prefix, " :"+prefix), " degraded=names-quoted"
	case c.kind == "class" && err.Class == "type-error" && strings.Contains(text, "(defclass") &&
		(strings.Contains(text, ":readers") || strings.Contains(text, ":writers") || strings.Contains(text, ":accessors")):
		// SlotDef.LoadForm writes :readers / :writers / :accessors, defclass takes :reader / :writer / :accessor
		return slotOptionsSingular(text), " degraded=slot-options-singular"
	}
	return text, ""
}

func slotOptionsSingular(text string) string {
	return strings.NewReplacer(":readers", ":reader", ":writers", ":writer", ":accessors", ":accessor").Replace(text)
}

// sortOption sorts the symbols of a flat option list: Flavor.LoadForm emits
// the inittable variables in Go map order, which does not change the flavor.
func sortOption(s, head string) string {
	i := strings.Index(s, head)
	if i < 0 {
		return s
	}
	j := strings.IndexByte(s[i:], ')')
	if j < 0 {
		return s
	}
	j += i
	fields := strings.Fields(s[i+len(head) : j])
	sort.Strings(fields)
	return s[:i] + head + strings.Join(fields, " ") + sortOption(s[j:], head)
}
