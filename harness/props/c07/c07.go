// Package c07: non-local exits reach their target and run every cleanup
// exactly once. Exhaustive enumeration of nestings of context forms with one
// exit placed at every body position, executed on slip and compared with the
// independent reference evaluator verif/ref/eval.
package c07

import (
	"errors"
	"fmt"
	"os"
	"path/filepath"
	"strconv"
	"strings"
	"sync"
	"sync/atomic"

	"github.com/ohler55/slip"
	"github.com/ohler55/slip/pkg/gi"

	"verif/engine"
	"verif/lisp"
	"verif/ref/eval"
)

func init() {
	engine.Register(&engine.Prop{
		ID:    "C07",
		Level: "exploration",
		Rule: "every nesting (outermost first) of context forms up to the tier's depth, the innermost body slot filled with one exit " +
			"(fall through / return-from each visible block / return / return-from the enclosing named function / go forward and backward to each " +
			"visible tagbody or prog / error of four classes), the slot placed at every body position (first, middle, last; loops also on the 2nd " +
			"iteration; the selected clause of case/ecase/typecase/etypecase/cond; each argument place of and/or/prog1/prog2/multiple-value-prog1; " +
			"the middle one of three cleanup forms of an unwind-protect whose protected form ends normally, signals an error, returns from a block " +
			"around it or goes to a tag behind it); the context forms are all forms of pkg/cl, pkg/gi, pkg/clos, pkg/flavors and pkg/generic that " +
			"evaluate a list of body forms (listed in Bound; the exclusions with reasons in newkinds.go); trace markers before and after every slot, in every cleanup, handler, loop result form and unselected branch, and as the " +
			"value form of every return; program text is rendered by the harness writer, run through ReadString+Eval in a fresh scope, and value, " +
			"ordered trace, condition class, mutex state (TryLock from Go) and stream state (os.File closed, from Go) are compared with ref/eval; " +
			"a failing case is re-run on the shorter nesting [target, sub-chain below the blamed form] so that its signature names the smallest " +
			"nesting that shows the failure, and a lost return-from / return / go that crosses several forms is re-run on [target, one crossed form] " +
			"for each of them so that the signature names the form that loses it (through=...); a case is non-trivial when a non-normal exit crosses at least one intervening form on the way to its target. " +
			"Round 8 (r8kinds.go, kinds of the same nestings, enumerated under spec prefixes of their own): hof| the slot in the body of a function that is called by a built-in caller " +
			"(mapcar ... sort, maphash, format ~/fn/, funcall / apply of #'mapcar) or by a function / method body that is not lexically around it, as a lambda on the 1st / 2nd / 3rd call or as a named function passed as #'name: " +
			"the exit must reach the lexically matching block or tag, no call is made after it, every cleanup in between runs once (how often and in which order a caller calls when nothing leaves is not compared: C14). " +
			"val| the slot in a position that is NOT a body position (value form of the / time / nth-value / multiple-value-list, -call, -setq / values / setq / setf, the 2nd of three arguments or init forms, a test or key form, the header forms of dolist / dotimes / do / do*, the value form of a return-from, the acquiring forms of with- forms): " +
			"the statement speaks of body positions, so these are judged ONLY for: no host fault, every cleanup exactly once and in order, control reaches the target and nothing the exit abandons runs (forms evaluated in front of the slot in the same form are left out of the comparison). " +
			"rel| with-open-file :output / :io with every :if-exists mode slip implements, the stream kept and written to before and behind the slot; after the program: file closed (os.File, from Go), open-stream-p nil, a later write fails and changes nothing, the file holds exactly what was written while the stream was open; with-mutex-lock: TryLock from Go succeeds. " +
			"cls| 16 further error classes (8 the interpreter signals itself, 8 the program signals with make-condition + panic incl. two define-condition classes of its own) and warn: class AND whole hierarchy at the top equal those of the bare form. " +
			"rt| an exit evaluated in another routine (run): no host fault, the starting routine's block is not left, the routine's cleanup runs once",
		Assumptions: []string{
			"ref/eval is the oracle (lexical targets by construction; exits as Go panics)",
			"chains of the earlier rounds: exits (return-from / return / go) are placed in body positions only (the val| family of round 8 has the argument, test, binding-init and header positions); the cleanup forms of unwind-protect are body positions (positions cn/ce/cr/cg); errors are also placed inside cleanup forms (positions pe/pd/pu/pt)",
			"an exit that leaves a cleanup form takes the place of whatever the protected form had started (an error, a return-from, a go): the newer exit reaches its target, the error or older exit is dropped, the cleanups further out still run once each (Common Lisp 5.2; the target of the newer exit is always outside of the abandoned one); the cleanup forms behind the exit do not run",
			"a defun is not spliced in front of the slot where every form is a test or a value (and, or, prog1, prog2, multiple-value-prog1) nor into a loop body (slip resolves the forms of a loop before the first pass; definition order is C08's subject)",
			"the body of a flavors method has no block of its own (none is documented); the body of a method of a generic function is in a block of the function's name (Common Lisp), which return-from-function uses",
			"(and ... (ignore-errors ...)) and friends: as a test the result of an ignore-errors that caught an error counts as nil (its documented primary value)",
			"when a cleanup form signals an error while another error is in flight either class may surface (the trace is still demanded exactly)",
			"the primary value of ignore-errors after it caught an error is not pinned down (wild)",
			"the 'original condition class' of an error form is the class slip itself reports when that form is evaluated alone at top level",
			"tagbody tags are integers in the main alphabet; symbol tags are the separate kind tagbody-sym, used only in the complete depths, and while the build under test evaluates a fallen-through symbol tag (probed once per process) programs holding one get coarse signatures (ctx=tagbody-sym ...)",
			"a defun context is defined at top level (a lexical boundary: outer blocks and tags are not visible in it); defun-in is defined inside its parent's body and lambda is called in place, so both see the enclosing blocks and tags",
			"the kind lambda of the first rounds takes one dummy argument ((funcall f) without one was rejected by slip then, a C04 finding repaired since); the closure kinds funcall-lambda, lambda-form, apply-lambda and let-lambda (round 6) are anonymous functions called in place by funcall / as the head of the form / by apply / through a let variable; all of them are transparent: every block, tag and function block around the call is visible in the body",
			"round 8: the body of a function is a body position whoever calls the function: an exit there must reach the lexically matching block or tag also when a built-in (mapcar, every, reduce, sort, maphash, format ~/fn/ ...) made the call; what a caller returns and how often / in which order it calls when nothing leaves it is C14's subject (the calling form is followed by a marker that gives the value; calls after the one that ran the slot are compared only when the caller is abandoned)",
			"round 8: release is demanded for what the statement names (with-mutex-lock, with-open-file in every direction / :if-exists mode); with-open-stream, with-output-to-string, with-input-from-string, with-input-from-octets, with-zip-reader, with-zip-writer, with-slots, with-standard-io-syntax, recover are checked for control flow only: slip documents no release for them (with-open-stream does not close its stream on any path; with-zip-writer finishes the gzip stream on every path but an error; with-zip-reader closes by defer)",
			"round 8: a (return) in a header form of dolist / dotimes / do / do* / prog (list, count, init, step, end-test, result, binding) is not enumerated across that form: which nil block it belongs to is not this property's question; return-from a named block and go are",
			"round 8: a return-from out of a named function that mapcan / mapcon called is not enumerated (they need a list as the function's value)",
			"round 8: slip has no handler-bind / handler-case / signal / flet / labels / with-output-to-octets; error takes a format string only, so conditions of a chosen class are signalled with (panic (make-condition 'class ...)); run evaluates one form in another goroutine and documents nothing about exits",
			"re-entrant exits (reentrant.go): 7 exit kinds x recursion from the cleanup form (direct / through a helper) x with and without a completed warm-up call x recursion depth 1..2 (1..4 thorough): the same exit form runs again while the outer activation's exit is still in flight",
		},
		Enumerate: enumerate,
		Exec:      exec,
		Required: append([]string{
			"exit-crossed>=1-form", "exit-crossed>=2-forms", "cleanup-on-return", "cleanup-on-go", "cleanup-on-error",
			"mutex-on-exit-path", "stream-on-exit-path", "go-backward", "go-forward", "return-shadowed-block",
			"error-handled", "error-unhandled", "exit-on-later-iteration", "exit-through-function", "cleanup-nested>=2",
			"mutex-checked", "stream-checked", "nontrivial-passed",
			"cleanup-fails-on-normal-exit", "cleanup-fails-on-return", "cleanup-fails-on-go", "cleanup-fails-on-error",
			"cleanup-error-handled", "cleanup-error-unhandled", "cleanup-error-through-outer-cleanup", "reentrant-exit-in-flight", "go-to-a-tag-of-a-loop-body",
		}, append(requiredNew(), requiredR8()...)...),
		Bound:         func(tier string) string { return bound(tier) + boundR8(tier) },
		Selftest:      selftestAll,
		CaseDeadlineS: 8,
	})
}

// ---------------------------------------------------------------- alphabet

type kindInfo struct {
	name      string
	sig       string   // name used in signatures
	positions []string // slot positions
}

var bodyPos = []string{"f", "m", "l"}
var loopPos = []string{"f", "m", "l", "m2", "l2"}

var oldKinds = []kindInfo{
	{"block-a", "block", bodyPos},
	{"block-b", "block", bodyPos},
	{"block-nil", "block", bodyPos},
	{"tagbody", "tagbody", bodyPos},
	// p: two cleanup markers; pe/pd/pu/pt: the cleanup forms are [marker, ERROR of that class, marker]
	// cn/ce/cr/cg: the SLOT is a cleanup form ([marker, SLOT, marker]) and the protected form ends normally / signals an
	// error / returns from a block around this unwind-protect / goes to a tag after it (newkinds.go)
	{"unwind-protect", "unwind-protect", []string{"p", "pe", "pd", "pu", "pt", "cn", "ce", "cr", "cg"}},
	{"let", "let", bodyPos},
	{"let*", "let*", bodyPos},
	{"progn", "progn", bodyPos},
	{"when", "when", bodyPos},
	{"unless", "unless", bodyPos},
	{"cond", "cond", bodyPos},
	{"if", "if", []string{"t", "e"}},
	{"dolist", "dolist", loopPos},
	{"dotimes", "dotimes", loopPos},
	{"do", "do", loopPos},
	{"defun", "defun", bodyPos},
	{"lambda", "lambda", bodyPos},
	{"defun-in", "defun-in", bodyPos}, // (defun f () BODY) (f) spliced into the parent's body: a named function that is lexically inside
	{"with-mutex-lock", "with-mutex-lock", bodyPos},
	{"ignore-errors", "ignore-errors", bodyPos},
	{"recover", "recover", bodyPos},
	{"with-open-file", "with-open-file", bodyPos},
	{"tagbody-sym", "tagbody-sym", bodyPos},
}

// kinds: the alphabet of the first rounds followed by the forms added in round 6 (newkinds.go)
var kinds = append(append(append([]kindInfo(nil), oldKinds...), newKinds...), r8Kinds...)

var kindByName = func() map[string]*kindInfo {
	m := map[string]*kindInfo{}
	for i := range kinds {
		m[kinds[i].name] = &kinds[i]
	}
	return m
}()

// canonical slot position of a kind (used for the outer levels of restricted depths)
func canonPos(k *kindInfo) string {
	if c := r8Canon[k.name]; c != "" {
		return c
	}
	switch k.positions[0] {
	case "p":
		return "p"
	case "t":
		return "t"
	}
	return "m"
}

// outerPositions: the positions used where a tier does not take every position:
// the canonical one, and for unwind-protect also one failing cleanup.
func outerPositions(k *kindInfo) []string {
	if k.name == "unwind-protect" {
		return []string{"p", "pe"}
	}
	return []string{canonPos(k)}
}

type ctx struct {
	kind *kindInfo
	pos  string
}

type program struct {
	ctxs []ctx
	exit string
	fam  string // spec prefix of the round-8 families (hof val rel cls), "" for the chains of the earlier rounds
}

var errorExits = []string{"err-error", "err-div", "err-unbound", "err-type"}

func isLoop(k *kindInfo) bool {
	switch k.name {
	case "dolist", "dotimes", "do", "do*", "loop", "dovector", "do-symbols", "do-external-symbols":
		return true
	}
	return false
}
func isProg(k *kindInfo) bool { return k.name == "prog" || k.name == "prog*" }

// isNilBlock: the forms (return) leaves.
func isNilBlock(k *kindInfo) bool { return k.name == "block-nil" || isLoop(k) || isProg(k) }
func isTagbody(k *kindInfo) bool {
	return k.name == "tagbody" || k.name == "tagbody-sym" || isProg(k)
}

// isBoundary: function bodies defined at top level (outer blocks and tags are not visible inside).
func isBoundary(k *kindInfo) bool {
	switch k.name {
	case "defun", "flavor-method", "whopper", "generic-method":
		return true
	}
	return false
}

// hasFnBlock: function bodies that are in a block of the function's name.
func hasFnBlock(k *kindInfo) bool {
	return k.name == "defun" || k.name == "defun-in" || k.name == "generic-method" || isNamedHOF(k)
}

// cleanupErrors maps the position of an unwind-protect to the error exit its cleanup signals.
var cleanupErrors = map[string]string{"pe": "err-error", "pd": "err-div", "pu": "err-unbound", "pt": "err-type"}

func failingCleanup(c ctx) bool { return c.kind.name == "unwind-protect" && cleanupErrors[c.pos] != "" }

// cleanupSlot: the slot of this unwind-protect is one of its cleanup forms.
func cleanupSlot(c ctx) bool { return c.kind.name == "unwind-protect" && c.pos[0] == 'c' }

func isHandler(k *kindInfo) bool { return k.name == "ignore-errors" || k.name == "recover" }

// effectiveTarget: where control finally goes for the purpose of signatures.
// Without a failing cleanup this is target(p). With one, the first failing
// cleanup that is reached (the innermost unwind-protect on the exit's way to
// its target, else the innermost one around the target) signals an error that
// replaces the exit and travels to the nearest handler above it.
func effectiveTarget(p *program) (idx int, sig string, cleanupErr bool) {
	for _, c := range p.ctxs {
		if cleanupSlot(c) {
			return flowTarget(p)
		}
	}
	idx, sig = target(p)
	first := -1
	for i := len(p.ctxs) - 1; 0 <= i; i-- {
		if failingCleanup(p.ctxs[i]) && (sig == "normal" || idx < i) {
			first = i
			break
		}
	}
	if first < 0 && 0 <= idx {
		for i := idx - 1; 0 <= i; i-- {
			if failingCleanup(p.ctxs[i]) {
				first = i
				break
			}
		}
	}
	if first < 0 {
		return idx, sig, false
	}
	h := -1
	for i := first - 1; 0 <= i; i-- {
		if isHandler(p.ctxs[i].kind) {
			h = i
			break
		}
	}
	return h, sig + "+cleanup-error", true
}

// boundary returns the index of the innermost defun (lexical boundary), -1 if none.
func boundary(ctxs []ctx) int {
	for i := len(ctxs) - 1; 0 <= i; i-- {
		if isBoundary(ctxs[i].kind) {
			return i
		}
	}
	return -1
}

// fnIndex returns the innermost named function whose block the slot can see, -1 if none.
func fnIndex(ctxs []ctx) int {
	b := boundary(ctxs)
	for i := len(ctxs) - 1; 0 <= i && b <= i; i-- {
		if hasFnBlock(ctxs[i].kind) {
			return i
		}
	}
	return -1
}

// validNesting: a defun-in needs a parent with a statement body to be spliced into.
func validNesting(ctxs []ctx) bool {
	for i, c := range ctxs {
		if c.kind.name != "defun-in" && !isNamedHOF(c.kind) {
			continue
		}
		if i == 0 {
			if isNamedHOF(c.kind) {
				continue // defined at top level in front of the main form
			}
			return false
		}
		par := ctxs[i-1]
		if isHOF(par.kind) || isValueKind(par.kind) {
			continue // the definition goes in front of the slot inside the called function / into a progn around the slot
		}
		if par.pos != "f" && par.pos != "m" && par.pos != "l" {
			return false
		}
		if noSplice[par.kind.name] {
			return false // every form of these is a value or a test: no place for the definition
		}
	}
	return true
}

// validExits lists every exit kind that is lexically valid in the innermost slot.
func validExits(ctxs []ctx, errs []string) (out []string) {
	out = append(out, "norm")
	b := boundary(ctxs)
	seenA, seenB, seenNil := false, false, false
	for i := len(ctxs) - 1; b < i; i-- {
		switch n := ctxs[i].kind.name; {
		case n == "block-a" && !seenA:
			seenA = true
		case n == "block-b" && !seenB:
			seenB = true
		case isNilBlock(ctxs[i].kind) && !seenNil:
			seenNil = true
		}
	}
	if seenA {
		out = append(out, "rf-a")
	}
	if seenB {
		out = append(out, "rf-b")
	}
	if seenNil {
		out = append(out, "ret")
	}
	if 0 <= fnIndex(ctxs) {
		out = append(out, "rf-fn")
	}
	for i := len(ctxs) - 1; b < i; i-- {
		if isTagbody(ctxs[i].kind) {
			out = append(out, fmt.Sprintf("go-%df", i), fmt.Sprintf("go-%db", i))
		}
	}
	out = append(out, errs...)
	return
}

// target returns the index of the context the exit must transfer control to
// (-1 = top level for an unhandled error, -2 = no transfer) and the exit's
// signature name.
func target(p *program) (idx int, sig string) {
	b := boundary(p.ctxs)
	find := func(pred func(k *kindInfo) bool, lo int) int {
		for i := len(p.ctxs) - 1; lo < i; i-- {
			if pred(p.ctxs[i].kind) {
				return i
			}
		}
		return -3
	}
	switch {
	case p.exit == "norm" || p.exit == "warn":
		return -2, "normal"
	case p.exit == "rf-a":
		return find(func(k *kindInfo) bool { return k.name == "block-a" }, b), "return-from"
	case p.exit == "rf-b":
		return find(func(k *kindInfo) bool { return k.name == "block-b" }, b), "return-from"
	case p.exit == "ret":
		return find(isNilBlock, b), "return"
	case p.exit == "rf-fn":
		if fi := fnIndex(p.ctxs); 0 <= fi {
			return fi, "return-from-fn"
		}
		return -3, ""
	case strings.HasPrefix(p.exit, "go-"):
		body := p.exit[3:]
		dir := body[len(body)-1]
		n, err := strconv.Atoi(body[:len(body)-1])
		if err != nil || n <= b || len(p.ctxs) <= n || !isTagbody(p.ctxs[n].kind) || (dir != 'f' && dir != 'b') {
			return -3, ""
		}
		if dir == 'f' {
			return n, "go-forward"
		}
		return n, "go-backward"
	case strings.HasPrefix(p.exit, "err-"):
		if abstractClass[p.exit] == "" {
			return -3, ""
		}
		i := find(func(k *kindInfo) bool { return k.name == "ignore-errors" || k.name == "recover" }, -1)
		if i == -3 {
			i = -1
		}
		return i, "error"
	}
	return -3, ""
}

func (p *program) spec() string {
	var b strings.Builder
	if p.fam != "" {
		b.WriteString(p.fam)
		b.WriteByte('|')
	}
	for i, c := range p.ctxs {
		if 0 < i {
			b.WriteByte('/')
		}
		b.WriteString(c.kind.name)
		b.WriteByte('.')
		b.WriteString(c.pos)
	}
	b.WriteByte('!')
	b.WriteString(p.exit)
	return b.String()
}

func parseSpec(spec string) (*program, error) {
	bang := strings.LastIndexByte(spec, '!')
	if bang < 0 {
		return nil, fmt.Errorf("no exit in spec")
	}
	p := &program{exit: spec[bang+1:]}
	if bar := strings.IndexByte(spec, '|'); 0 <= bar && bar < bang {
		p.fam = spec[:bar]
		spec, bang = spec[bar+1:], bang-bar-1
	}
	if 0 < bang {
		for _, part := range strings.Split(spec[:bang], "/") {
			dot := strings.LastIndexByte(part, '.')
			if dot < 0 {
				return nil, fmt.Errorf("bad context %q", part)
			}
			k := kindByName[part[:dot]]
			if k == nil {
				return nil, fmt.Errorf("unknown kind %q", part[:dot])
			}
			okPos := false
			for _, ps := range k.positions {
				okPos = okPos || ps == part[dot+1:]
			}
			if !okPos {
				return nil, fmt.Errorf("bad position %q for %s", part[dot+1:], k.name)
			}
			p.ctxs = append(p.ctxs, ctx{k, part[dot+1:]})
		}
	}
	if !validNesting(p.ctxs) {
		return nil, fmt.Errorf("defun-in needs a parent with a statement body")
	}
	if t, _ := target(p); t == -3 {
		return nil, fmt.Errorf("exit %q is not valid here", p.exit)
	}
	return p, nil
}

// ---------------------------------------------------------------- enumeration

type tierCfg struct {
	// chains of the kinds of the first rounds (oldKinds, unwind-protect without the cleanup-slot positions)
	fullDepth  int      // every position at every level
	innerDepth int      // up to this depth: outer levels at the canonical position, innermost level at every position
	spineDepth int      // up to this depth: every level at the canonical position, pairwise different kinds
	deepErrs   []string // error classes used beyond fullDepth
	spineKinds []string // kinds used in spines ("" = all)
	// chains that hold at least one of the kinds of newkinds.go or an unwind-protect with the slot in a cleanup form
	newFullDepth    int      // every position at every level
	newInnerDepth   int      // outer levels canonical, innermost level at every position
	newInnerEnders  bool     // ... and the outermost level is a form that can end a transfer (ender)
	newInnerErrs    []string // error classes used there
	newInnerReact   bool     // ... only where a level reacts to an error (unwind-protect, handler, with-mutex-lock, with-open-file)
	newSpineDepth   int      // pairwise different kinds, canonical positions, the two outermost levels enders
	outerCleanupPos []string // positions of an unwind-protect at an outer level beyond the complete depths
}

func cfg(tier string) tierCfg {
	if tier == engine.Thorough {
		return tierCfg{fullDepth: 3, innerDepth: 4, spineDepth: 5, deepErrs: []string{"err-error", "err-div"},
			spineKinds: []string{"block-a", "block-nil", "tagbody", "unwind-protect", "let", "when", "cond", "dolist", "do", "defun", "lambda",
				"with-mutex-lock", "ignore-errors", "recover", "with-open-file"},
			newFullDepth: 2, newInnerDepth: 3, newInnerErrs: errorExits, newSpineDepth: 4, outerCleanupPos: []string{"p", "pe", "cn", "ce"}}
	}
	return tierCfg{fullDepth: 2, innerDepth: 3, spineDepth: 0, deepErrs: []string{"err-error", "err-div"},
		newFullDepth: 2, newInnerDepth: 3, newInnerEnders: true, newInnerErrs: []string{"err-error"}, newInnerReact: true, outerCleanupPos: []string{"p", "pe"}}
}

// isEnder: a form that can end a transfer of control (the target of a return-from, return or go, a function body,
// a handler of errors) or an unwind-protect. The kinds that are not enders merely pass an exit on.
func isEnder(k *kindInfo) bool {
	return strings.HasPrefix(k.name, "block-") || isTagbody(k) || isLoop(k) || isBoundary(k) || hasFnBlock(k) || isHandler(k) ||
		k.name == "lambda" || k.name == "unwind-protect"
	// (the closure kinds of round 6 are not enders: nothing ends at the call of an anonymous function)
}

// reactsToError: one of the levels has something to do when an error passes (a cleanup, a handler, a mutex or a stream
// to release); through every other form an error is a Go panic that the form never sees.
func reactsToError(ctxs []ctx) bool {
	for _, c := range ctxs {
		switch c.kind.name {
		case "unwind-protect", "ignore-errors", "recover", "with-mutex-lock", "with-open-file":
			return true
		}
	}
	return false
}

func enumerate(tier string, emit func(string)) {
	if only := os.Getenv("C07_DEV_ONLY"); only != "" {
		// development aid (never set by the registered commands): only the families with these spec prefixes
		all := emit
		emit = func(spec string) {
			for _, pre := range strings.Split(only, ",") {
				if strings.HasPrefix(spec, pre+"|") {
					all(spec)
					return
				}
			}
		}
	}
	enumReentrant(tier, emit)
	enumLoopTags(emit)
	enumRoutines(emit)
	enumPrograms(tier, func(p *program) { emit(p.spec()) })
	enumR8(tier, func(p *program) { emit(p.spec()) })
}

func enumPrograms(tier string, emit func(*program)) {
	c := cfg(tier)
	// depth 0: the bare exit at top level
	for _, e := range validExits(nil, errorExits) {
		emit(&program{exit: e})
	}
	// rec enumerates the chains of one depth in one mode; withNew = false: the alphabet of the first rounds only,
	// withNew = true: all kinds and positions, keeping the chains that hold something new
	var rec func(ctxs []ctx, depth int, mode string, withNew bool)
	rec = func(ctxs []ctx, depth int, mode string, withNew bool) {
		if len(ctxs) == depth {
			if withNew && !hasNewKind(ctxs) {
				return
			}
			errs := errorExits
			switch {
			case mode == "full":
			case withNew && mode == "inner":
				errs = c.newInnerErrs
				if c.newInnerReact && !reactsToError(ctxs) {
					errs = nil
				}
			default:
				errs = c.deepErrs
			}
			for _, e := range validExits(ctxs, errs) {
				emit(&program{ctxs: append([]ctx(nil), ctxs...), exit: e})
			}
			return
		}
		level := len(ctxs)
		for i := range kinds {
			k := &kinds[i]
			positions := k.positions
			if k.name == "tagbody-sym" && mode != "full" {
				continue // symbol tags: only in the complete depths (see S9 note in judge)
			}
			if !withNew && newKindSet[k.name] {
				continue
			}
			if r8KindSet[k.name] {
				continue // the kinds of round 8 have an enumeration of their own (r8enum.go)
			}
			outer := outerPositions(k)
			if withNew && k.name == "unwind-protect" {
				outer = c.outerCleanupPos
			}
			switch mode {
			case "inner":
				if level < depth-1 {
					positions = outer
				}
				if withNew && c.newInnerEnders && level == 0 && 1 < depth && !isEnder(k) {
					continue
				}
			case "spine":
				positions = outer
				use := withNew || len(c.spineKinds) == 0
				for _, n := range c.spineKinds {
					use = use || n == k.name
				}
				for _, prev := range ctxs {
					use = use && prev.kind != k
				}
				if withNew && level < 2 && !isEnder(k) {
					use = false
				}
				if !use {
					continue
				}
			}
			for _, ps := range positions {
				if !withNew && ps[0] == 'c' && k.name == "unwind-protect" {
					continue
				}
				next := append(ctxs, ctx{k, ps})
				if validNesting(next) {
					rec(next, depth, mode, withNew)
				}
			}
		}
	}
	// simplest first: by depth; the engine drops specs already emitted by a wider mode
	maxDepth := 0
	for _, d := range []int{c.fullDepth, c.innerDepth, c.spineDepth, c.newFullDepth, c.newInnerDepth, c.newSpineDepth} {
		if maxDepth < d {
			maxDepth = d
		}
	}
	for d := 1; d <= maxDepth; d++ {
		switch {
		case d <= c.fullDepth:
			rec(nil, d, "full", false)
		case d <= c.innerDepth:
			rec(nil, d, "inner", false)
		case d <= c.spineDepth:
			rec(nil, d, "spine", false)
		}
		switch {
		case d <= c.newFullDepth:
			rec(nil, d, "full", true)
		case d <= c.newInnerDepth:
			rec(nil, d, "inner", true)
		case d <= c.newSpineDepth:
			rec(nil, d, "spine", true)
		}
	}
}

func bound(tier string) string {
	c := cfg(tier)
	s := fmt.Sprintf("%d context kinds of the first rounds (%s): complete to nesting depth %d with the slot at every position of every level and all exit kinds "+
		"(normal, return-from a/b, return, return-from function, go forward/backward to every visible tagbody, 4 error classes); every unwind-protect with its plain cleanup (two markers) and with a cleanup [marker, error of each of the 4 classes, marker]",
		len(oldKinds), kindNamesOf(oldKinds), c.fullDepth)
	if c.fullDepth+1 == c.innerDepth {
		s += fmt.Sprintf("; depth %d with the outer levels at their canonical position (middle / protected form with plain cleanup and with a cleanup that signals (error ..) / then-branch), the innermost level at every position, error classes %v; symbol-tag tagbodies only in the complete depths",
			c.innerDepth, c.deepErrs)
	} else if c.fullDepth < c.innerDepth {
		s += fmt.Sprintf("; depth %d..%d with the outer levels at their canonical position (middle / protected form / then-branch), the innermost level at every position, error classes %v",
			c.fullDepth+1, c.innerDepth, c.deepErrs)
	}
	if c.innerDepth < c.spineDepth {
		s += fmt.Sprintf("; depth %d..%d for spines of pairwise different kinds out of %d kinds, all levels at the canonical position",
			c.innerDepth+1, c.spineDepth, len(c.spineKinds))
	}
	s += fmt.Sprintf(". Nestings that hold at least one of the %d further kinds (%s) or an unwind-protect with the slot as the middle one of three cleanup forms "+
		"(protected form ends normally / signals an error / returns from a block around the unwind-protect / goes to a tag behind it), over all %d kinds: complete to depth %d",
		len(newKinds), kindNamesOf(newKinds), len(kinds), c.newFullDepth)
	if c.newFullDepth < c.newInnerDepth {
		s += fmt.Sprintf("; depth %d with the outer levels at their canonical position (unwind-protect: %v), the innermost level at every position, error classes %v",
			c.newInnerDepth, c.outerCleanupPos, c.newInnerErrs)
		if c.newInnerReact {
			s += " (errors only in nestings with an unwind-protect, a handler, with-mutex-lock or with-open-file)"
		}
		if c.newInnerEnders {
			s += ", the outermost level one of the forms that can end a transfer (block, tagbody, prog, loop, function or method body, handler) or an unwind-protect"
		}
	}
	if c.newInnerDepth < c.newSpineDepth {
		s += fmt.Sprintf("; depth %d..%d for spines of pairwise different kinds, canonical positions, the two outermost levels forms that can end a transfer or unwind-protect, error classes %v",
			c.newInnerDepth+1, c.newSpineDepth, c.deepErrs)
	}
	return s
}

func kindNamesOf(l []kindInfo) string {
	var n []string
	for _, k := range l {
		n = append(n, k.name)
	}
	return strings.Join(n, " ")
}

func kindNames() string { return kindNamesOf(kinds) }

// ---------------------------------------------------------------- program construction

type marker struct {
	owner int    // context index; len(ctxs) = the exit itself
	role  string // pre post cleanup1 cleanup2 handler result other head tail skip x-normal x-after-loop
}

type built struct {
	p        *program
	forms    []eval.Node // top-level forms (defuns first, main form last)
	markers  []marker    // by id
	fnNames  []string
	pending  []eval.Node // statements a child wants spliced in front of its slot
	exitForm eval.Node
	usesFile bool
	path     string
	unique   string

	flavors     []string // flavors defined by the program (removed afterwards)
	usesGeneric bool
}

const exitValue = 9001

// stepBudget: function evaluations granted to one program on slip.
const stepBudget = 20000

func (b *built) mark(owner int, role string, withValue bool) eval.Node {
	id := len(b.markers)
	b.markers = append(b.markers, marker{owner, role})
	if withValue {
		return eval.L(eval.Sym("tr"), eval.Int(id), eval.Int(1000+id))
	}
	return eval.L(eval.Sym("tr"), eval.Int(id))
}

func lv(prefix string, level int) eval.Sym { return eval.Sym(prefix + strconv.Itoa(level+1)) }

func tagOf(k *kindInfo, level int, second bool) eval.Node {
	n := 10*(level+1) + 1
	if second {
		n++
	}
	if k.name == "tagbody-sym" {
		return eval.Sym("tg" + strconv.Itoa(n))
	}
	return eval.Int(n)
}

// errorForm renders the error of one class; abstractClass is what ref/eval calls it.
func errorForm(e string) eval.Node {
	switch e {
	case "err-error":
		return eval.L(eval.Sym("error"), eval.Str("boom"))
	case "err-div":
		return eval.L(eval.Sym("/"), eval.Int(1), eval.Int(0))
	case "err-unbound":
		return eval.L(eval.Sym("list"), eval.Sym("c07-never-bound"))
	case "err-type":
		return eval.L(eval.Sym("car"), eval.Int(5))
	}
	if f := r8ErrorForm(e); f != nil {
		return f
	}
	panic("unknown error exit " + e)
}

var abstractClass = func() map[string]string {
	m := map[string]string{"err-error": "error", "err-div": "division-by-zero", "err-unbound": "unbound-variable", "err-type": "type-error"}
	for _, e := range r8Errors {
		m[e.name] = e.class
	}
	return m
}()

var (
	origOnce    sync.Once
	origClasses map[string]string // abstract class -> the class slip gives the bare error form at top level
	origHiers   map[string]string // ... and the whole class hierarchy the top level sees
	origProblem string
)

// originalClass: the "original condition class" of each error form is what
// slip itself reports when the form is evaluated alone at top level (probed
// once per process; a pure function of the build under test).
func originalClass(abstract string) (string, string) {
	origOnce.Do(func() {
		origClasses, origHiers = map[string]string{}, map[string]string{}
		if origProblem = prepareProcess(); origProblem != "" {
			return
		}
		for _, e := range allErrorExits() {
			_, berr := lisp.Eval(eval.Render(errorForm(e)))
			if berr == nil || berr.Class == "" || berr.GoFault {
				origProblem = fmt.Sprintf("%s alone gave %v", eval.Render(errorForm(e)), berr)
				return
			}
			a := abstractClass[e]
			if prev, seen := origClasses[a]; seen && (prev != berr.Class || origHiers[a] != strings.Join(berr.Hier, ">")) {
				origProblem = fmt.Sprintf("two error forms of the abstract class %s surface differently: %s and %s", a, prev, berr.Class)
				return
			}
			origClasses[a], origHiers[a] = berr.Class, strings.Join(berr.Hier, ">")
		}
	})
	return origClasses[abstract], origProblem
}

func (b *built) exitNode() eval.Node {
	p := b.p
	n := len(p.ctxs)
	switch p.exit {
	case "norm":
		return b.mark(n, "x-normal", true)
	case "warn": // (warn ..) writes a warning and returns: control carries on
		return eval.L(eval.Sym("progn"), eval.L(eval.Sym("warn"), eval.Str("c07 ~a"), eval.Int(1)), b.mark(n, "x-normal", true))
	case "rf-a":
		return eval.L(eval.Sym("return-from"), eval.Sym("a"), b.exitValueForm())
	case "rf-b":
		return eval.L(eval.Sym("return-from"), eval.Sym("b"), b.exitValueForm())
	case "ret":
		return eval.L(eval.Sym("return"), b.exitValueForm())
	case "rf-fn":
		return eval.L(eval.Sym("return-from"), eval.Sym(b.fnName(fnIndex(p.ctxs))), b.exitValueForm())
	}
	if abstractClass[p.exit] != "" {
		return errorForm(p.exit)
	}
	t, sig := target(p)
	k := p.ctxs[t].kind
	if sig == "go-forward" {
		return eval.L(eval.Sym("go"), tagOf(k, t, true))
	}
	// backward: bounded by the pass counter of the target tagbody
	return eval.L(eval.Sym("if"), eval.L(eval.Sym("<"), lv("n", t), eval.Int(2)),
		eval.L(eval.Sym("go"), tagOf(k, t, false)),
		b.mark(n, "x-after-loop", true))
}

// exitValueForm is the value form of a return: a trace leaf, so that the
// trace also shows that it is evaluated exactly once.
func (b *built) exitValueForm() eval.Node {
	id := len(b.markers)
	b.markers = append(b.markers, marker{len(b.p.ctxs), "x-value"})
	return eval.L(eval.Sym("tr"), eval.Int(id), eval.Int(exitValue))
}

func (b *built) fnName(level int) string {
	return fmt.Sprintf("c07fn-%s-%d", b.unique, level+1)
}

// body lays out the statements of a body around the slot of context `level`.
func (b *built) body(level int) []eval.Node {
	c := b.p.ctxs[level]
	var stmts []eval.Node
	pos := c.pos
	later := strings.HasSuffix(pos, "2")
	if later {
		pos = pos[:1]
	}
	if pos != "f" {
		stmts = append(stmts, b.mark(level, "pre", preValued[c.kind.name]))
	}
	if later {
		// build the slot before the skip marker so that ids follow the text
		slot := b.build(level + 1)
		stmts = append(stmts, eval.L(eval.Sym("if"), laterTest(c.kind, level), slot, b.mark(level, "skip", true)))
	} else {
		slot := b.build(level + 1)
		stmts = append(stmts, b.pending...) // a defun-in child: its definition goes right before the call
		b.pending = nil
		stmts = append(stmts, slot)
	}
	if pos != "l" {
		stmts = append(stmts, b.mark(level, "post", true))
	}
	return stmts
}

func form(head string, rest ...eval.Node) eval.List {
	return append(eval.List{eval.Sym(head)}, rest...)
}

// build returns the form of context `level` (or the exit when past the last).
func (b *built) build(level int) eval.Node {
	if level == len(b.p.ctxs) {
		b.exitForm = b.exitNode()
		return b.exitForm
	}
	c := b.p.ctxs[level]
	switch c.kind.name {
	case "block-a":
		return form("block", append([]eval.Node{eval.Sym("a")}, b.body(level)...)...)
	case "block-b":
		return form("block", append([]eval.Node{eval.Sym("b")}, b.body(level)...)...)
	case "block-nil":
		return form("block", append([]eval.Node{nil}, b.body(level)...)...)
	case "tagbody", "tagbody-sym":
		stmts := []eval.Node{b.mark(level, "head", false), tagOf(c.kind, level, false),
			eval.L(eval.Sym("setq"), lv("n", level), eval.L(eval.Sym("+"), lv("n", level), eval.Int(1)))}
		stmts = append(stmts, b.body(level)...)
		stmts = append(stmts, tagOf(c.kind, level, true), b.mark(level, "tail", false))
		return form("tagbody", stmts...)
	case "unwind-protect":
		if cleanupSlot(c) {
			return b.buildCleanupSlot(level)
		}
		slot := b.build(level + 1)
		if ee, fails := cleanupErrors[c.pos]; fails {
			return form("unwind-protect", slot, b.mark(level, "cleanup1", false), errorForm(ee), b.mark(level, "cleanup2", false))
		}
		return form("unwind-protect", slot, b.mark(level, "cleanup1", false), b.mark(level, "cleanup2", false))
	case "let":
		return form("let", append([]eval.Node{eval.L(eval.L(lv("v", level), eval.Int(1)))}, b.body(level)...)...)
	case "let*":
		return form("let*", append([]eval.Node{eval.L(eval.L(lv("v", level), eval.Int(1)), eval.L(lv("w", level), lv("v", level)))}, b.body(level)...)...)
	case "progn":
		return form("progn", b.body(level)...)
	case "when":
		return form("when", append([]eval.Node{eval.Sym("t")}, b.body(level)...)...)
	case "unless":
		return form("unless", append([]eval.Node{nil}, b.body(level)...)...)
	case "cond":
		first := eval.L(nil, b.mark(level, "other", true))
		second := append(eval.List{eval.Sym("t")}, b.body(level)...)
		third := eval.L(eval.Sym("t"), b.mark(level, "other", true))
		return form("cond", first, second, third)
	case "if":
		if c.pos == "t" {
			slot := b.build(level + 1)
			return form("if", eval.Sym("t"), slot, b.mark(level, "other", true))
		}
		other := b.mark(level, "other", true)
		return form("if", nil, other, b.build(level+1))
	case "dolist":
		body := b.body(level)
		head := eval.L(lv("i", level), eval.Q(eval.L(eval.Int(1), eval.Int(2))), b.mark(level, "result", true))
		return form("dolist", append([]eval.Node{head}, body...)...)
	case "dotimes":
		body := b.body(level)
		head := eval.L(lv("i", level), eval.Int(2), b.mark(level, "result", true))
		return form("dotimes", append([]eval.Node{head}, body...)...)
	case "do":
		body := b.body(level)
		vars := eval.L(eval.L(lv("i", level), eval.Int(0), eval.L(eval.Sym("+"), lv("i", level), eval.Int(1))))
		end := eval.L(eval.L(eval.Sym(">="), lv("i", level), eval.Int(2)), b.mark(level, "result", true))
		return form("do", append([]eval.Node{vars, end}, body...)...)
	case "defun":
		name := b.fnName(level)
		b.fnNames = append(b.fnNames, name)
		def := form("defun", append([]eval.Node{eval.Sym(name), nil}, b.body(level)...)...)
		b.forms = append(b.forms, def)
		return eval.L(eval.Sym(name))
	case "defun-in":
		name := b.fnName(level)
		b.fnNames = append(b.fnNames, name)
		def := form("defun", append([]eval.Node{eval.Sym(name), nil}, b.body(level)...)...)
		b.pending = append(b.pending, def)
		return eval.L(eval.Sym(name))
	case "lambda":
		lam := form("lambda", append([]eval.Node{eval.L(lv("z", level))}, b.body(level)...)...)
		return eval.L(eval.Sym("funcall"), lam, eval.Int(0))
	case "with-mutex-lock":
		return form("with-mutex-lock", append([]eval.Node{lv("mx", level)}, b.body(level)...)...)
	case "ignore-errors":
		return form("ignore-errors", b.body(level)...)
	case "recover":
		h := b.mark(level, "handler", true)
		return form("recover", append([]eval.Node{lv("rc", level), h}, b.body(level)...)...)
	case "with-open-file":
		b.usesFile = true
		head := eval.L(lv("fs", level), eval.Str(b.path), eval.Sym(":direction"), eval.Sym(":input"))
		keep := eval.L(eval.Sym("setq"), lv("keep", level), lv("fs", level))
		return form("with-open-file", append([]eval.Node{head, keep}, b.body(level)...)...)
	}
	if n := b.buildNew(level); n != nil {
		return n
	}
	if n := b.buildR8(level); n != nil {
		return n
	}
	panic("unknown kind " + c.kind.name)
}

var (
	caseCounter atomic.Int64
	scratchOnce sync.Once
	scratchDir  string
)

func scratch() string {
	scratchOnce.Do(func() {
		scratchDir = filepath.Join(engine.ScratchDir, "C07", strconv.Itoa(os.Getpid()))
	})
	return scratchDir
}

func buildProgram(p *program, unique string) *built {
	b := &built{p: p, unique: unique, path: filepath.Join(scratch(), "in.txt")}
	main := b.build(0)
	b.forms = append(b.forms, b.pending...) // a named function passed to a caller at the outermost level
	b.pending = nil
	b.forms = append(b.forms, main)
	return b
}

// ---------------------------------------------------------------- reference run

type expectation struct {
	out         eval.Outcome
	mutexHeld   []bool // per level
	streamOpen  bool
	streamMade  map[string]bool // with-open-file variables whose body was entered
	streams     map[string][]*eval.Stream
	streamOrder []*eval.Stream
}

func runRef(b *built, m eval.Mutations) expectation {
	in := eval.New(m)
	n := len(b.p.ctxs)
	mx := make([]*eval.Mutex, n)
	for i := 0; i < n; i++ {
		in.SetGlobal(string(lv("n", i)), int64(0))
		in.SetGlobal(string(lv("keep", i)), nil)
		mx[i] = in.NewMutex(string(lv("mx", i)))
		in.SetGlobal(string(lv("mx", i)), mx[i])
	}
	setupRef(in, b.p)
	setupRefR8(in, b.p)
	ex := expectation{out: in.Run(b.forms), mutexHeld: make([]bool, n)}
	for i := range mx {
		ex.mutexHeld[i] = mx[i].Locked
	}
	ex.streamMade = map[string]bool{}
	ex.streams = map[string][]*eval.Stream{}
	for _, s := range in.Streams {
		ex.streamOpen = ex.streamOpen || s.Open
		ex.streamMade[s.Name] = true
		ex.streams[s.Name] = append(ex.streams[s.Name], s) // in the order they were opened
		ex.streamOrder = append(ex.streamOrder, s)
	}
	return ex
}

func (ex *expectation) digest() string {
	written := ""
	for _, l := range ex.streamOrder {
		if l.Written != "" {
			written += l.Name + "=" + l.Written + ";"
		}
	}
	return fmt.Sprintf("%s|%s|%s|%v|%v|%s", eval.Show(ex.out.Value), ex.out.ErrClass, strings.Join(ex.out.Trace, ","), ex.mutexHeld, ex.streamOpen, written)
}

// ---------------------------------------------------------------- exec

func exec(spec string) (res engine.Result) {
	if strings.HasPrefix(spec, "raw:") { // development aid: run Lisp text as is
		v, tr, err := lisp.Run(spec[4:])
		res.Outcome = "val=" + v + " trace=" + strings.Join(tr, ",") + " err=" + err.String()
		return
	}
	if strings.HasPrefix(spec, "re|") {
		return execReentrant(spec)
	}
	if strings.HasPrefix(spec, "lt|") {
		return execLoopTags(spec)
	}
	if strings.HasPrefix(spec, "rt|") {
		return execRoutine(spec)
	}
	p, perr := parseSpec(spec)
	if perr != nil {
		res.Fail("harness:bad-spec", spec+": "+perr.Error())
		return
	}
	res = execProgram(p, true, true)
	if p.fam != "" {
		coarsenR8(p.fam, &res)
	}
	return
}

// execProgram runs one program on slip and judges it. With reduce set, a
// "continues" verdict that names a form which merely *contains* the sub-chain
// holding the exit is re-examined on the shorter program [target, sub-chain]:
// if that one fails too, the defect sits below the named form and the shorter
// program's verdict is reported instead (so a signature names the smallest
// nesting that shows the failure).
func execProgram(p *program, reduce, resources bool) (res engine.Result) {
	spec := p.spec()
	unique := fmt.Sprintf("%d-%d", os.Getpid(), caseCounter.Add(1))
	b := buildProgram(p, unique)
	ex := runRef(b, eval.Mutations{})
	if ex.out.Budget || ex.out.Deadlock {
		res.Fail("harness:reference-did-not-finish", spec)
		return
	}
	src := eval.RenderAll(b.forms)
	otgt, oexitSig := target(p) // the exit's own target: counters and the non-triviality rule
	tgt, exitSig := otgt, oexitSig
	n := len(p.ctxs)

	// vacuity counters and the non-triviality rule
	crossed := 0
	if p.exit != "norm" && p.exit != "warn" {
		crossed = n - 1 - tgt // contexts strictly inside the target
		if tgt == -1 {
			crossed = n
		}
	}
	if p.exit == "warn" {
		res.Hit("warn-carries-on")
	}
	if 1 <= crossed {
		res.Nontrivial = true
		res.Hit("exit-crossed>=1-form")
	}
	if 2 <= crossed {
		res.Hit("exit-crossed>=2-forms")
	}
	if p.exit != "norm" && p.exit != "warn" {
		ups := 0
		for i := n - 1; tgt < i && 0 <= i; i-- {
			switch p.ctxs[i].kind.name {
			case "unwind-protect":
				ups++
				switch exitSig {
				case "return-from", "return", "return-from-fn":
					res.Hit("cleanup-on-return")
				case "go-forward", "go-backward":
					res.Hit("cleanup-on-go")
				case "error":
					res.Hit("cleanup-on-error")
				}
			case "with-mutex-lock":
				res.Hit("mutex-on-exit-path")
			case "with-open-file":
				res.Hit("stream-on-exit-path")
			case "defun", "lambda", "defun-in", "flavor-method", "whopper", "generic-method", "funcall-lambda", "lambda-form", "apply-lambda", "let-lambda":
				res.Hit("exit-through-function")
			}
			if strings.HasSuffix(p.ctxs[i].pos, "2") {
				res.Hit("exit-on-later-iteration")
			}
		}
		if 2 <= ups {
			res.Hit("cleanup-nested>=2")
		}
		countNew(&res, p, tgt, exitSig)
		countR8(&res, p, tgt, exitSig)
		switch exitSig {
		case "go-forward":
			res.Hit("go-forward")
		case "go-backward":
			res.Hit("go-backward")
		case "error":
			if tgt == -1 {
				res.Hit("error-unhandled")
			} else {
				res.Hit("error-handled")
			}
		case "return-from", "return":
			for i := tgt - 1; 0 <= i; i-- {
				same := p.ctxs[i].kind.name == p.ctxs[tgt].kind.name
				if exitSig == "return" {
					same = isNilBlock(p.ctxs[i].kind)
				}
				if same {
					res.Hit("return-shadowed-block")
					break
				}
			}
		}
	}

	// failing cleanup forms: which way out meets the first one, where its error goes
	var cleanupErr bool
	tgt, exitSig, cleanupErr = effectiveTarget(p)
	if cleanupErr {
		res.Nontrivial = true
		switch oexitSig {
		case "normal":
			res.Hit("cleanup-fails-on-normal-exit")
		case "return-from", "return", "return-from-fn":
			res.Hit("cleanup-fails-on-return")
		case "go-forward", "go-backward":
			res.Hit("cleanup-fails-on-go")
		case "error":
			res.Hit("cleanup-fails-on-error")
		}
		if 0 <= tgt {
			res.Hit("cleanup-error-handled")
		} else {
			res.Hit("cleanup-error-unhandled")
		}
		inner := -1
		for i := n - 1; tgt < i && 0 <= i; i-- {
			if p.ctxs[i].kind.name != "unwind-protect" {
				continue
			}
			if inner < 0 && failingCleanup(p.ctxs[i]) {
				inner = i
			} else if 0 <= inner {
				res.Hit("cleanup-error-through-outer-cleanup")
				break
			}
		}
	}

	// the classes slip itself gives the bare error forms: the expected class of an unhandled
	// error, plus (S2) the classes of errors that were in flight when a cleanup form failed
	var okClasses []string
	if ex.out.ErrClass != "" {
		for _, a := range append([]string{ex.out.ErrClass}, ex.out.ErrAlt...) {
			c, problem := originalClass(a)
			if problem != "" || c == "" {
				res.Fail("harness:bare-error-form", problem+" (class "+a+")")
				return
			}
			okClasses = append(okClasses, c)
		}
	}

	// environment
	scope := slip.NewScope()
	for i := 0; i < n; i++ {
		scope.Let(slip.Symbol(lv("n", i)), slip.Fixnum(0))
		scope.Let(slip.Symbol(lv("keep", i)), nil)
		scope.Let(slip.Symbol(lv("mx", i)), (*gi.Mutex)(&sync.Mutex{}))
	}
	if problem := setupSlip(scope, p); problem != "" {
		res.Fail("harness:environment", problem)
		return
	}
	if problem := setupSlipR8(scope, b); problem != "" {
		res.Fail("harness:environment", problem)
		return
	}
	// a program that does not come to an end (an exit dropped inside a loop) is stopped by a step budget: the
	// reference needs a few hundred evaluations for the largest program of the thorough tier
	steps := 0
	scope.InterruptCheck = func() {
		if steps++; stepBudget < steps {
			panic(fmt.Sprintf("c07: more than %d evaluations", stepBudget))
		}
	}
	if b.usesFile {
		_ = os.MkdirAll(scratch(), 0o755)
		if err := os.WriteFile(b.path, []byte("c07\n"), 0o644); err != nil {
			res.Fail("harness:scratch-file", err.Error())
			return
		}
		defer os.RemoveAll(scratch())
	}
	defer func() {
		for _, name := range b.fnNames {
			_, _ = lisp.Eval("(fmakunbound '" + name + ")")
		}
		for _, name := range b.flavors {
			_, _ = lisp.Eval("(undefflavor '" + name + ")")
		}
	}()

	lisp.ResetTrace()
	val, err := lisp.EvalIn(scope, src)
	trace := lisp.Trace()

	o := &observation{val: val, err: err, trace: trace}
	blamed := judge(&res, b, &ex, o, tgt, exitSig, okClasses, src)
	// the resources are examined before a failing case is re-run on shorter nestings (those runs use the same files)
	var rres engine.Result
	if resources {
		judgeFailed := 0 < len(res.Failures)
		// resources, whatever happened above
		for i := 0; i < n; i++ {
			switch p.ctxs[i].kind.name {
			case "with-mutex-lock", "v-mutex-form":
				m, _ := scope.Get(slip.Symbol(lv("mx", i))).(*gi.Mutex)
				if m == nil {
					rres.Fail("harness:mutex-variable-lost", src)
					continue
				}
				rres.Hit("mutex-checked")
				free := (*sync.Mutex)(m).TryLock()
				if free {
					(*sync.Mutex)(m).Unlock()
				}
				if free == ex.mutexHeld[i] {
					rres.Fail(resourceSig(p, exitSig, tgt, "mutex-held"),
						fmt.Sprintf("%s\nmutex of with-mutex-lock at level %d: free=%v, the reference says held=%v", src, i+1, free, ex.mutexHeld[i]))
				} else if free {
					rres.Hit("mutex-can-be-taken-again")
				}
			case "with-open-file", "v-wof-path", "wof-supersede", "wof-append", "wof-overwrite", "wof-rename", "wof-create", "wof-io":
				fs, _ := scope.Get(slip.Symbol(lv("keep", i))).(*slip.FileStream)
				if fs == nil {
					// the body was never entered (that is compared through the trace); if the trace
					// agreed with the reference and the reference did enter it, the capture is broken
					if ex.streamMade[string(lv("fs", i))] && !judgeFailed && !coarseSig(p) {
						rres.Fail("harness:stream-not-captured", src)
					}
					continue
				}
				rres.Hit("stream-checked")
				_, serr := (*os.File)(fs).Stat()
				closed := serr != nil && errors.Is(serr, os.ErrClosed)
				checkRelease(&rres, b, &ex, scope, i, fs, closed, exitSig, tgt, src)
				if !closed {
					_ = (*os.File)(fs).Close()
					if !ex.streamOpen {
						rres.Fail(resourceSig(p, exitSig, tgt, "stream-open"),
							fmt.Sprintf("%s\nstream of %s at level %d is still open after the program", src, p.ctxs[i].kind.name, i+1))
					}
				}
			}
		}
	}
	if reduce && 0 < len(res.Failures) {
		// Name the smallest nesting that shows the failure: (a) a "continues" verdict on a form
		// that merely contains the sub-chain holding the exit is retried without that form and
		// everything above it; (b) any other verdict is retried without the contexts around the
		// target (which only decide what comes *after* the transfer). If the shorter program fails
		// too, its verdict is reported; if it passes, the longer program's own verdict stands.
		if sf := singleCrossing(p, tgt, exitSig, blamed, spec); 0 < len(sf) {
			res.Failures = sf
			reduce = false
		}
		from := -1
		switch {
		case !reduce:
		case 0 <= blamed && blamed < n-1:
			from = blamed + 1
		case 0 < tgt:
			from = tgt + 1
		}
		if rp := reduced(p, tgt, from); rp != nil {
			rr := execProgram(rp, true, false)
			var keep []engine.Failure
			for _, f := range rr.Failures {
				if !strings.HasPrefix(f.Sig, "harness:") {
					keep = append(keep, engine.Failure{Sig: f.Sig, Detail: "reduced from " + spec + " to " + rp.spec() + "\n" + f.Detail})
				}
			}
			if 0 < len(keep) {
				res.Failures = keep
			}
		}
	}
	if !resources {
		res.Outcome = o.digest()
		return
	}
	res.Failures = append(res.Failures, rres.Failures...)
	for k, v := range rres.Counters {
		for i := 0; i < v; i++ {
			res.Hit(k)
		}
	}
	res.Outcome = o.digest()
	if res.Nontrivial && len(res.Failures) == 0 {
		res.Hit("nontrivial-passed") // S9: what is left live beside the listed findings
	}
	return
}

// crossedKinds names the forms between the target and the slot of a plain return-from / return / go ("" otherwise).
func crossedKinds(p *program, tgt int, exitSig string) string {
	if tgt < 0 || !isControl(exitSig) || strings.Contains(exitSig, "+") {
		return ""
	}
	var names []string
	for _, c := range p.ctxs[tgt+1:] {
		names = append(names, c.kind.sig)
	}
	return strings.Join(names, "+")
}

// singleCrossing: a verdict other than "a crossed form carried on" about a plain return-from / return / go that crosses
// two or more forms is retried on [target, one crossed form] for each crossed form, innermost first; the first of
// these that fails too gives the verdict, so that the signature names the one form that loses the exit.
func singleCrossing(p *program, tgt int, exitSig string, blamed int, spec string) []engine.Failure {
	n := len(p.ctxs)
	if 0 <= blamed || crossedKinds(p, tgt, exitSig) == "" || n-1-tgt < 2 {
		return nil
	}
	for i := n - 1; tgt < i; i-- {
		sp := &program{ctxs: []ctx{{p.ctxs[tgt].kind, canonPos(p.ctxs[tgt].kind)}, p.ctxs[i]}, exit: p.exit}
		if strings.HasPrefix(p.exit, "go-") {
			sp.exit = "go-0" + p.exit[len(p.exit)-1:]
		}
		if !validNesting(sp.ctxs) {
			continue
		}
		if t, _ := target(sp); t != 0 {
			continue
		}
		var keep []engine.Failure
		for _, f := range execProgram(sp, false, false).Failures {
			if !strings.HasPrefix(f.Sig, "harness:") {
				keep = append(keep, engine.Failure{Sig: f.Sig, Detail: "reduced from " + spec + " to " + sp.spec() + "\n" + f.Detail})
			}
		}
		if 0 < len(keep) {
			return keep
		}
	}
	return nil
}

func resourceSig(p *program, exitSig string, tgt int, kind string) string {
	if coarseSig(p) {
		return "ctx=tagbody-sym exit=" + exitSig + " kind=" + kind
	}
	return fmt.Sprintf("exit=%s target=%s kind=%s", exitSig, targetName(p, tgt), kind)
}

// reduced builds [target at its canonical position] + ctxs[from:] with the
// same exit (a go is re-aimed at the new root); nil if that is not shorter.
func reduced(p *program, tgt, from int) *program {
	if from < 0 {
		return nil
	}
	rp := &program{exit: p.exit}
	if 0 <= tgt {
		rp.ctxs = append(rp.ctxs, ctx{p.ctxs[tgt].kind, canonPos(p.ctxs[tgt].kind)})
	}
	root := len(rp.ctxs)
	rp.ctxs = append(rp.ctxs, p.ctxs[from:]...)
	if strings.HasPrefix(p.exit, "go-") {
		g, _ := target(p) // the tagbody the go is aimed at
		switch {
		case g == tgt:
			g = 0
		case from <= g:
			g = g - from + root
		default:
			return nil // the tagbody is not part of the shorter program
		}
		rp.exit = fmt.Sprintf("go-%d%s", g, p.exit[len(p.exit)-1:])
	}
	if len(p.ctxs) <= len(rp.ctxs) || !validNesting(rp.ctxs) {
		return nil
	}
	if t, _ := target(rp); t == -3 {
		return nil
	}
	return rp
}

type observation struct {
	val   slip.Object
	err   *lisp.Err
	trace []string
}

func (o *observation) digest() string {
	if o.err != nil {
		return "err:" + o.err.Class + "|" + shortTrace(o.trace)
	}
	return lisp.Show(o.val) + "|" + shortTrace(o.trace)
}

func targetName(p *program, tgt int) string {
	switch {
	case tgt == -2:
		return "-"
	case tgt == -1:
		return "toplevel"
	}
	return p.ctxs[tgt].kind.sig
}

// markerInfo resolves a trace key to its marker (ok=false: not one of ours).
func markerInfo(b *built, key string) (m marker, ok bool) {
	id, err := strconv.Atoi(key)
	if err != nil || id < 0 || len(b.markers) <= id {
		return marker{}, false
	}
	return b.markers[id], true
}

// relation of a marker's owner to the exit path: inner = a form the exit must
// abandon, target = the form control is transferred to, outer = around it.
func relation(b *built, m marker, tgt int) string {
	switch {
	case m.owner == len(b.p.ctxs):
		return "exit"
	case tgt == -2:
		return "-"
	case tgt < m.owner:
		return "inner"
	case tgt == m.owner:
		return "target"
	}
	return "outer"
}

func ownerName(b *built, m marker) string {
	if m.owner == len(b.p.ctxs) {
		return "exit"
	}
	return b.p.ctxs[m.owner].kind.sig
}

// where names a marker in full: <kind>.<role>/<relation>.
func where(b *built, key string, tgt int) string {
	m, ok := markerInfo(b, key)
	if !ok {
		return "unknown-marker"
	}
	return ownerName(b, m) + "." + m.role + "/" + relation(b, m, tgt)
}

// wantClass abstracts the marker that should have come next.
func wantClass(b *built, key string, tgt int) string {
	m, ok := markerInfo(b, key)
	if !ok {
		return "unknown"
	}
	switch m.role {
	case "cleanup1", "cleanup2":
		return "cleanup"
	case "handler", "result", "tail":
		return m.role
	}
	switch relation(b, m, tgt) {
	case "inner", "target", "exit":
		return "re-entry" // something inside the target runs again (after a backward go / next iteration)
	case "outer":
		return "continuation" // what follows the target
	}
	return "body"
}

func hasSymTags(p *program) bool {
	for _, c := range p.ctxs {
		if c.kind.name == "tagbody-sym" {
			return true
		}
	}
	return false
}

var (
	symTagOnce   sync.Once
	symTagBroken bool
)

// symTagDefect probes the build under test once per process: does falling
// through a symbol tag of a tagbody evaluate the tag as a variable? Only then
// are programs holding a tagbody-sym judged with the coarse signatures.
func symTagDefect() bool {
	symTagOnce.Do(func() {
		_, err := lisp.Eval("(tagbody c07-probe-tag)")
		symTagBroken = err != nil
	})
	return symTagBroken
}

// coarseSig: see the S9 note in judge.
func coarseSig(p *program) bool { return hasSymTags(p) && symTagDefect() }

// judge compares observation and expectation. It returns the index of the
// context blamed by a "continues" verdict (-1 otherwise).
func judge(res *engine.Result, b *built, ex *expectation, o *observation, tgt int, exitSig string, okClasses []string, src string) (blamed int) {
	blamed = -1
	p := b.p
	prefix := fmt.Sprintf("exit=%s target=%s ", exitSig, targetName(p, tgt))
	coarse := coarseSig(p)
	fail := func(kind, rest, detail string) {
		if coarse {
			// S9: symbol tags are a listed finding on the pinned tree (a tag reached by falling
			// through is evaluated as a variable); every other kind is covered with integer tags,
			// so programs holding a tagbody-sym get one coarse signature per (exit, kind).
			res.Fail("ctx=tagbody-sym exit="+exitSig+" kind="+kind, detail)
			return
		}
		if rest != "" {
			rest = " " + rest
		}
		// a return-from / return / go that got lost on its way without any crossed form carrying on: name the crossed forms
		if through := crossedKinds(p, tgt, exitSig); through != "" {
			rest += " through=" + through
		}
		res.Fail(prefix+"kind="+kind+rest, detail)
	}
	expTrace := shortTrace(ex.out.Trace)
	obsTrace := shortTrace(o.trace)
	expVal := eval.Show(ex.out.Value)
	detail := func(what string) string {
		expE, obsE := "-", "-"
		if ex.out.ErrClass != "" {
			expE = ex.out.ErrClass
			if 0 < len(okClasses) {
				expE = strings.Join(okClasses, " or ")
			}
		}
		if o.err != nil {
			obsE = o.err.String()
		}
		obsV := "-"
		if o.err == nil {
			obsV = lisp.Show(o.val)
		}
		ev := expVal
		if ex.out.ErrClass != "" {
			ev = "-"
		}
		return fmt.Sprintf("%s\n%s\nexpected: value %s, trace [%s], condition %s\nobserved: value %s, trace [%s], condition %s\nmarkers: %s",
			what, src, ev, expTrace, expE, obsV, obsTrace, obsE, describeMarkers(b))
	}
	if o.err != nil && o.err.GoFault {
		fail("go-fault", "", detail("Go runtime fault: "+o.err.Message))
		return
	}
	// first divergence of the traces (markers the statement does not speak about are left out of both: r8FilterTraces)
	et, ot := r8FilterTraces(b, ex.out.Trace, o.trace, tgt)
	i := 0
	for i < len(et) && i < len(ot) && et[i] == ot[i] {
		i++
	}
	if i < len(et) || i < len(ot) {
		want := "end"
		if i < len(et) {
			want = wantClass(b, et[i], tgt)
		}
		expectedErr := ex.out.ErrClass != "" && o.err != nil && oneOf(okClasses, o.err.Class)
		switch {
		case i < len(ot):
			m, ok := markerInfo(b, ot[i])
			what := fmt.Sprintf("trace diverges at position %d: marker %s ran, expected %s", i, ot[i], elemOr(et, i, "the end"))
			switch rel := relation(b, m, tgt); {
			case !ok:
				fail("trace", "got=unknown-marker", detail(what))
			case rel == "inner":
				// a form that the exit must abandon carried on (the target kind does not matter)
				blamed = m.owner
				at := ownerName(b, m) + "." + m.role
				if again := seenBefore(ot[:i], ot[i]); again {
					// an entry or cleanup marker that runs a second time: the loop around it
					// (or the loop itself) started another iteration instead of passing the exit on
					switch m.role {
					case "pre", "head", "cleanup1", "cleanup2":
						if failingCleanup(p.ctxs[m.owner]) {
							break // an error is never swallowed by a loop: this cleanup itself ran again
						}
						for l := m.owner; tgt < l && 0 <= l; l-- {
							if isLoop(p.ctxs[l].kind) && (l < m.owner || m.role == "pre") {
								blamed, at = l, p.ctxs[l].kind.sig+".next-iteration"
								break
							}
						}
					}
				}
				if coarse {
					fail("continues", "", detail(what))
				} else {
					res.Fail("exit="+exitSig+" kind=continues at="+at, detail(what))
				}
			case rel == "-":
				fail("trace", "got="+ownerName(b, m)+"."+m.role+" want="+want, detail(what))
			default:
				fail("skipped", "want="+want+" got="+rel, detail(what))
			}
		case o.err != nil && !expectedErr:
			after := "start"
			if 0 < i {
				after = where(b, ot[i-1], tgt)
			}
			fail("unexpected-error", "class="+o.err.Class+" after="+after+" want="+want,
				detail(fmt.Sprintf("the program stopped with %s after %d markers, expected marker %s next", o.err.Class, i, et[i])))
		default:
			fail("skipped", "want="+want+" got=end", detail(fmt.Sprintf("trace ends after %d markers, expected marker %s next", i, et[i])))
		}
		return
	}
	// same trace: condition
	switch {
	case ex.out.ErrClass != "" && o.err == nil:
		fail("error-lost", "", detail("an unhandled error was expected, the program returned a value"))
		return
	case ex.out.ErrClass == "" && o.err != nil:
		fail("unexpected-error", "class="+o.err.Class+" after=all-markers want=value", detail("the program signalled an error, a value was expected"))
		return
	case ex.out.ErrClass != "" && o.err != nil:
		if !oneOf(okClasses, o.err.Class) {
			fail("condition-class", "want="+strings.Join(okClasses, "|")+" got="+o.err.Class, detail("the error surfaced with another condition class"))
			return
		}
		// the whole hierarchy the top level sees is the one of the bare error form
		okHier := false
		got := strings.Join(o.err.Hier, ">")
		for _, a := range append([]string{ex.out.ErrClass}, ex.out.ErrAlt...) {
			okHier = okHier || origHiers[a] == got
		}
		if !okHier {
			fail("condition-hierarchy", "class="+o.err.Class, detail("the error surfaced with the class hierarchy "+got+", the bare error form has "+origHiers[ex.out.ErrClass]))
		}
		return
	}
	// same trace, both returned: value
	if eval.HasWild(ex.out.Value) {
		return
	}
	if got := lisp.Show(o.val); got != expVal {
		fail("value", "want="+valueClass(b, expVal, tgt)+" got="+valueClass(b, got, tgt), detail("wrong value"))
	}
	return
}

// shortTrace renders a trace for a failure detail (a runaway loop leaves thousands of entries).
func shortTrace(t []string) string {
	if 80 < len(t) {
		return strings.Join(t[:80], ",") + fmt.Sprintf(",... (%d entries)", len(t))
	}
	return strings.Join(t, ",")
}

func oneOf(l []string, s string) bool {
	for _, x := range l {
		if x == s {
			return true
		}
	}
	return false
}

func seenBefore(trace []string, key string) bool {
	for _, k := range trace {
		if k == key {
			return true
		}
	}
	return false
}

func elemOr(l []string, i int, alt string) string {
	if i < len(l) {
		return l[i]
	}
	return alt
}

// valueClass abstracts a rendered value for signatures.
func valueClass(b *built, v string, tgt int) string {
	switch {
	case v == strconv.Itoa(exitValue):
		return "exit-value"
	case v == "nil":
		return "nil"
	case v == "#<t>":
		return "exit-object" // a ReturnResult / GoTo leaked as a value
	}
	if n, err := strconv.Atoi(v); err == nil && 1000 <= n && n < 1000+len(b.markers) {
		return "value-of:" + where(b, strconv.Itoa(n-1000), tgt)
	}
	if strings.HasPrefix(v, "#values(") {
		return "multiple-values"
	}
	return "other"
}

func describeMarkers(b *built) string {
	var s []string
	for id, m := range b.markers {
		owner := "exit"
		if m.owner < len(b.p.ctxs) {
			owner = fmt.Sprintf("%s@%d", b.p.ctxs[m.owner].kind.name, m.owner+1)
		}
		s = append(s, fmt.Sprintf("%d=%s.%s", id, owner, m.role))
	}
	return strings.Join(s, " ")
}

// ---------------------------------------------------------------- self-test (S6)

func selftestAll(tier string) (killed, total int, notes []string) {
	killed, total, notes = selftest(tier)
	k2, t2, n2 := selftestR8(tier)
	return killed + k2, total + t2, append(notes, n2...)
}

func selftest(tier string) (killed, total int, notes []string) {
	type mutant struct {
		name string
		m    eval.Mutations
	}
	mutants := []mutant{
		{"when/unless/cond bodies swallow an exit and carry on", eval.Mutations{BodyIgnoresExit: true}},
		{"unwind-protect cleanup runs twice on an error", eval.Mutations{CleanupTwiceOnError: true}},
		{"unwind-protect cleanup skipped when left by go", eval.Mutations{CleanupSkippedOnGo: true}},
		{"cleanups run outermost first on return-from", eval.Mutations{CleanupOuterFirst: true}},
		{"return-from picks the outermost block of that name", eval.Mutations{OutermostBlock: true}},
		{"return out of a loop yields nil", eval.Mutations{LoopReturnNil: true}},
		{"with-mutex-lock keeps the mutex on an error", eval.Mutations{MutexKeptOnError: true}},
		{"with-open-file keeps the stream open on return-from/go", eval.Mutations{StreamKeptOnExit: true}},
		{"error class lost when unwinding through unwind-protect", eval.Mutations{ErrorClassLost: true}},
		{"backward go ends the tagbody", eval.Mutations{GoBackwardIgnored: true}},
		{"cleanup forms re-run when one of them fails after a normal exit / return-from / go", eval.Mutations{CleanupRerunOnCleanupError: true}},
		{"cleanup forms after a failing one still run", eval.Mutations{CleanupContinuesAfterError: true}},
	}
	firstNew := len(mutants) // from here on: mutants that only show in programs holding a new kind or a cleanup slot
	for _, k := range swallowKinds {
		mutants = append(mutants, mutant{k + " does not pass on a return-from / return / go and carries on with its next form", eval.Mutations{SwallowIn: k}})
	}
	for _, k := range goDropKinds {
		mutants = append(mutants, mutant{k + " drops a go to a tag of an enclosing tagbody", eval.Mutations{DropsGo: k}})
	}
	mutants = append(mutants,
		mutant{"a return-from / return / go inside a cleanup form is discarded", eval.Mutations{CleanupExitIgnored: true}},
		mutant{"the cleanup forms start again when one of them leaves by return-from / return / go", eval.Mutations{CleanupExitRerunsCleanup: true}},
		mutant{"the call of an anonymous function consumes a return to a nil block outside of it", eval.Mutations{LambdaConsumesNilReturn: true}})
	total = len(mutants)
	alive := make([]bool, total)
	for i := range alive {
		alive[i] = true
	}
	left, leftNew := total, total-firstNew
	cases := 0
	done := errors.New("done")
	func() {
		defer func() {
			if r := recover(); r != nil && r != done {
				panic(r)
			}
		}()
		enumPrograms(tier, func(p *program) {
			cases++
			isNew := hasNewKind(p.ctxs)
			if isNew && leftNew == 0 {
				return // the mutants of the first rounds are told apart by the programs of the first rounds
			}
			b := buildProgram(p, "st")
			ref := runRef(b, eval.Mutations{})
			d := ref.digest()
			for i, mu := range mutants {
				if !alive[i] || (firstNew <= i && !isNew) {
					continue
				}
				if got := runRef(b, mu.m); got.digest() != d {
					alive[i] = false
					left--
					if firstNew <= i {
						leftNew--
					}
					killed++
					notes = append(notes, fmt.Sprintf("killed: %s — first distinguishing case #%d %s", mu.name, cases, p.spec()))
				}
			}
			if left == 0 {
				panic(done)
			}
		})
	}()
	for i, mu := range mutants {
		if alive[i] {
			notes = append(notes, "SURVIVED: "+mu.name)
		}
	}
	return
}
