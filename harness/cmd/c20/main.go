// Binary for property C20 only, so that a build problem in another property's
// harness can never break this check.
package main

import (
	"verif/engine/cli"
	_ "verif/props/c20"
)

func main() { cli.Main() }
