package c12

import (
	"fmt"
	"strconv"
	"strings"
)

// simWorld is a small simulated CLOS used only by the oracle-sensitivity
// self-test: mutant == "" behaves as the statement asks; every other value
// plants one realistic bug.
type simWorld struct {
	mutant  string
	n       int
	defs    []classDef
	defined []bool
	ready   []bool
	order   []int        // definition order
	view    [][]classDef // the definitions each class was last merged against
	insts   []*simInst
	cached  map[int]string // dispatch cache (mutant stale-dispatch-cache)
}

type simInst struct {
	cls  int
	vals map[string]string // slot -> state ("unb" | "v:..")
}

var mutants = []string{
	"initform-least-specific",
	"shared-initarg-fills-one-slot",
	"redefinition-skips-indirect-subclasses",
	"ready-single-pass",
	"precedence-depth-first",
	"typep-direct-only",
	"writer-leaks-into-other-slot",
	"dispatch-in-definition-order",
	"initarg-of-shadowed-declaration-lost",
	"stale-dispatch-cache",
}

func newSim(n int, mutant string) *simWorld {
	return &simWorld{mutant: mutant, n: n, defs: make([]classDef, n), defined: make([]bool, n), ready: make([]bool, n),
		view: make([][]classDef, n), cached: map[int]string{}}
}

func (w *simWorld) closureDefined(i int) bool {
	_, ok := ancestors(w.defs, w.defined, i)
	return ok
}

func (w *simWorld) defclass(i int, d classDef) string {
	redef := w.defined[i]
	var indirect map[int]bool
	if redef && w.mutant == "redefinition-skips-indirect-subclasses" {
		indirect = map[int]bool{}
		for c := 0; c < w.n; c++ {
			if !w.defined[c] || c == i {
				continue
			}
			anc, _ := ancestors(w.defs, w.defined, c)
			direct := false
			for _, s := range w.defs[c].supers {
				if s == i {
					direct = true
				}
			}
			if anc[i] && !direct {
				indirect[c] = true
			}
		}
	}
	w.defs[i] = d
	if !redef {
		w.defined[i] = true
		w.order = append(w.order, i)
	}
	snapshot := append([]classDef(nil), w.defs...)
	if w.mutant == "ready-single-pass" {
		directReady := func(c int) bool {
			for _, s := range w.defs[c].supers {
				if !w.defined[s] || !w.ready[s] {
					return false
				}
			}
			return true
		}
		w.ready[i] = directReady(i)
		for _, c := range w.order { // one pass, definition order
			if !w.ready[c] && directReady(c) {
				w.ready[c] = true
			}
		}
	} else {
		for c := 0; c < w.n; c++ {
			w.ready[c] = w.defined[c] && w.closureDefined(c)
		}
	}
	for c := 0; c < w.n; c++ {
		if !w.defined[c] {
			continue
		}
		if indirect[c] && w.view[c] != nil {
			// keeps the old definition of class i, sees everything else
			keep := w.view[c][i]
			w.view[c] = append([]classDef(nil), snapshot...)
			w.view[c][i] = keep
			continue
		}
		w.view[c] = snapshot
	}
	return ""
}

func (w *simWorld) defmethods(i int) string { return "" }

func (w *simWorld) prec(i int) []int {
	defs := w.view[i]
	if w.mutant == "precedence-depth-first" {
		var out []int
		seen := map[int]bool{}
		var walk func(x int)
		walk = func(x int) {
			if seen[x] {
				return
			}
			seen[x] = true
			out = append(out, x)
			for _, s := range defs[x].supers {
				walk(s)
			}
		}
		walk(i)
		return out
	}
	return canonPrec(defs, i)
}

func (w *simWorld) precedence(i int) string {
	if !w.defined[i] {
		return "ERR:error"
	}
	if !w.ready[i] {
		return "nil"
	}
	return precText(w.prec(i)) + " standard-object t"
}

func (w *simWorld) make(i int, sigma []string) (int, string) {
	if !w.defined[i] || !w.ready[i] {
		return -1, "ERR:error"
	}
	defs := w.view[i]
	order := w.prec(i)
	inst := &simInst{cls: i, vals: map[string]string{}}
	// slots and initforms
	for _, sl := range slotNames {
		var decls []slotDecl
		for _, x := range order {
			if sd, ok := defs[x].slot(x, sl); ok {
				decls = append(decls, sd)
			}
		}
		if len(decls) == 0 {
			continue
		}
		inst.vals[sl] = "unb"
		pick := -1
		for k, sd := range decls {
			if sd.form != 0 {
				pick = k
				if w.mutant != "initform-least-specific" {
					break
				}
			}
		}
		if 0 <= pick {
			if decls[pick].form == 2 {
				inst.vals[sl] = "v:nil"
			} else {
				inst.vals[sl] = "v:" + strconv.Itoa(decls[pick].val)
			}
		}
	}
	// initargs, leftmost supplied wins
	filled := map[string]bool{}
	for _, a := range sigma {
		hit := false
		for _, sl := range slotNames {
			match := false
			for k, x := range order {
				_ = k
				sd, ok := defs[x].slot(x, sl)
				if !ok {
					continue
				}
				if inList(a, sd.initargs) {
					match = true
				}
				if w.mutant == "initarg-of-shadowed-declaration-lost" {
					break // only the most specific declaration of the slot counts
				}
			}
			if !match {
				continue
			}
			if hit && w.mutant == "shared-initarg-fills-one-slot" {
				continue
			}
			hit = true
			if !filled[sl] {
				inst.vals[sl] = "v:" + strconv.Itoa(argValue[a])
				filled[sl] = true
			}
		}
		if !hit {
			return -1, "ERR:error" // invalid initarg
		}
	}
	w.insts = append(w.insts, inst)
	return len(w.insts) - 1, "ok"
}

func (w *simWorld) slots(h int) []string {
	out := make([]string, len(slotNames))
	for k, sl := range slotNames {
		if v, ok := w.insts[h].vals[sl]; ok {
			out[k] = v
		} else {
			out[k] = "none"
		}
	}
	return out
}

func (w *simWorld) slotValue(h int, slot string) string {
	v, ok := w.insts[h].vals[slot]
	if !ok || v == "unb" {
		return "ERR:unbound-slot"
	}
	return v
}

func (w *simWorld) typeps(h int, n int) string {
	i := w.insts[h].cls
	in := map[int]bool{}
	if w.mutant == "typep-direct-only" {
		in[i] = true
		for _, s := range w.view[i][i].supers {
			in[s] = true
		}
	} else {
		for _, x := range w.prec(i) {
			in[x] = true
		}
	}
	var out []string
	for j := 0; j < n; j++ {
		v := "nil"
		if in[j] {
			v = "t"
		}
		out = append(out, cname(j)+"="+v)
	}
	return strings.Join(append(out, "so=t"), " ")
}

func (w *simWorld) classOf(h int, i int) string {
	return "eq=t name=" + cname(w.insts[h].cls)
}

func (w *simWorld) dispatchOf(i int) string {
	order := w.prec(i)
	if w.mutant == "dispatch-in-definition-order" {
		in := map[int]bool{}
		for _, x := range order {
			in[x] = true
		}
		order = []int{i}
		for x := 0; x < w.n; x++ {
			if in[x] && x != i {
				order = append(order, x)
			}
		}
	}
	var tr []string
	for _, x := range order {
		tr = append(tr, cname(x))
	}
	return "val=" + cname(i) + " trace=" + strings.Join(tr, ",")
}

func (w *simWorld) dispatch(h int) string {
	i := w.insts[h].cls
	if w.mutant == "stale-dispatch-cache" {
		if c, ok := w.cached[i]; ok {
			return c
		}
		w.cached[i] = w.dispatchOf(i)
	}
	return w.dispatchOf(i)
}

func (w *simWorld) accessor(hx, hy int, slot string) string {
	x, y := w.insts[hx], w.insts[hy]
	dump := func(in *simInst) string {
		var out []string
		for _, sl := range slotNames {
			if v, ok := in.vals[sl]; ok {
				out = append(out, v)
			} else {
				out = append(out, "none")
			}
		}
		return strings.Join(out, ",")
	}
	x0, y0 := dump(x), dump(y)
	read := "unb"
	if v := x.vals[slot]; strings.HasPrefix(v, "v:") {
		read = v[2:] + "," + v[2:]
	}
	x.vals[slot] = "v:901"
	x1, y1 := dump(x), dump(y)
	x.vals[slot] = "v:902"
	if w.mutant == "writer-leaks-into-other-slot" {
		for _, sl := range slotNames {
			if _, ok := x.vals[sl]; ok {
				x.vals[sl] = "v:902"
			}
		}
	}
	x2, y2 := dump(x), dump(y)
	return fmt.Sprintf("x0=%s;y0=%s;read=%s;x1=%s;y1=%s;x2=%s;y2=%s", x0, y0, read, x1, y1, x2, y2)
}

func (w *simWorld) warm(i int) {
	if w.defined[i] && w.ready[i] && w.mutant == "stale-dispatch-cache" {
		if _, ok := w.cached[i]; !ok {
			w.cached[i] = w.dispatchOf(i)
		}
	}
}

func (w *simWorld) close() {}
