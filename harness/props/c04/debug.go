package c04

import (
	"fmt"
	"runtime"
	"sort"
	"strings"
	"time"

	"github.com/ohler55/slip"
)

// dumpFuncs lists every function of every package with its documented lambda list (dev aid, spec "dump:funcs").
func dumpFuncs() string {
	var lines []string
	for _, fn := range allFuncs() {
		var parts []string
		for _, a := range fn.fi.Doc.Args {
			s := a.Name
			if a.Type != "" {
				s += "<" + a.Type + ">"
			}
			if a.Default != nil {
				s += "=" + slip.ObjectString(a.Default)
			}
			parts = append(parts, s)
		}
		lines = append(lines, fmt.Sprintf("%s:%s\t%s\t(%s)", fn.pkg, fn.name, fn.fi.Kind, strings.Join(parts, " ")))
	}
	sort.Strings(lines)
	return strings.Join(lines, "\n")
}

// leakProbe runs n Part A cases of one via and reports the live heap growth per case (dev aid, spec "leak:<via>:<n>").
func leakProbe(via string, n int) string {
	var m0, m1 runtime.MemStats
	runtime.GC()
	runtime.ReadMemStats(&m0)
	t0 := time.Now()
	for i := 0; i < n; i++ {
		execA("A|" + via + "|1|d|1|dn|1|v,v,k1,v,zz,v")
	}
	el := time.Since(t0)
	runtime.GC()
	runtime.ReadMemStats(&m1)
	return fmt.Sprintf("%s: %d bytes/case live, %d us/case", via, (int64(m1.HeapAlloc)-int64(m0.HeapAlloc))/int64(n), el.Microseconds()/int64(n))
}

// countFamilies lists the number of cases per family and route (dev aid, spec "count:<tier>").
func countFamilies(tier string) string {
	b := boundsFor(tier)
	var lines []string
	for _, fam := range families(b) {
		per := map[string]int{}
		total := 0
		fam.each(func(via string, sh *shape, args string) {
			base, env := splitVia(via)
			if strings.HasPrefix(base, "spread.") {
				base = "spread"
			}
			if env != "" {
				base += "@" + env
			}
			per[base]++
			total++
		})
		var ks []string
		for k := range per {
			ks = append(ks, k)
		}
		sort.Strings(ks)
		var p []string
		for _, k := range ks {
			p = append(p, fmt.Sprintf("%s=%d", k, per[k]))
		}
		lines = append(lines, fmt.Sprintf("%s: shapes=%d total=%d  %s", fam.name, len(fam.shapes), total, strings.Join(p, " ")))
	}
	return strings.Join(lines, "\n")
}
