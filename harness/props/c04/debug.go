package c04

import (
	"fmt"
	"runtime"
	"sort"
	"strings"

	"github.com/ohler55/slip"
)

// dumpFuncs lists every function of every package with its documented lambda list (dev aid, spec "dump:funcs").
func dumpFuncs() string {
	var lines []string
	for _, fn := range allFuncs() {
		var parts []string
		for _, a := range fn.fi.Doc.Args {
			s := a.Name
			if a.Type != "" {
				s += "<" + a.Type + ">"
			}
			if a.Default != nil {
				s += "=" + slip.ObjectString(a.Default)
			}
			parts = append(parts, s)
		}
		lines = append(lines, fmt.Sprintf("%s:%s\t%s\t(%s)", fn.pkg, fn.name, fn.fi.Kind, strings.Join(parts, " ")))
	}
	sort.Strings(lines)
	return strings.Join(lines, "\n")
}

// leakProbe runs n Part A cases of one via and reports the live heap growth per case (dev aid, spec "leak:<via>:<n>").
func leakProbe(via string, n int) string {
	var m0, m1 runtime.MemStats
	runtime.GC()
	runtime.ReadMemStats(&m0)
	for i := 0; i < n; i++ {
		execA("A|" + via + "|1|d|1|dn|1|v,v,k1,v,zz,v")
	}
	runtime.GC()
	runtime.ReadMemStats(&m1)
	return fmt.Sprintf("%s: %d bytes/case live", via, (int64(m1.HeapAlloc)-int64(m0.HeapAlloc))/int64(n))
}
