package c09

import (
	"fmt"
	"sort"
	"strings"
	"sync"

	"github.com/ohler55/slip"

	"verif/engine"
)

// Oracle-sensitivity self-test (S6). The "reference model" of this property is
// a built-in that guards every use of its arguments and raises typed
// conditions. Each mutant below is that reference with ONE realistic guard
// missing - the bug classes the property is about. They are ordinary slip
// functions written in Go, defined in a package of their own (never
// enumerated by the real run) and pushed through exactly the same case
// generator, pool, evaluation path and classifier as the real built-ins. The
// case set must make every mutant fail with the expected fault class and must
// leave the fully guarded reference clean.

type stFunc struct {
	slip.Function
	body func(s *slip.Scope, args slip.List, depth int) slip.Object
}

func (f *stFunc) Call(s *slip.Scope, args slip.List, depth int) slip.Object {
	return f.body(s, args, depth)
}

type stMutant struct {
	name   string
	family string // f | m | r
	want   string // expected fault class ("" = must stay clean)
	what   string
	body   func(f *stFunc) func(s *slip.Scope, args slip.List, depth int) slip.Object
}

// stDefine: mutants that are not plain functions (placers, macros) define their object themselves (selftest3.go).
var stDefine = map[string]func(pkg *slip.Package, name string){}

func fixnumArg(s *slip.Scope, depth int, args slip.List, i int, use string) int {
	n, ok := args[i].(slip.Fixnum)
	if !ok {
		slip.TypePanic(s, depth, use, args[i], "fixnum")
	}
	return int(n)
}

// miniFormat: a tiny (format nil ctrl args...) handling ~A and ~vA; guarded
// says whether it checks that an argument remains.
func miniFormat(guarded bool) func(f *stFunc) func(*slip.Scope, slip.List, int) slip.Object {
	return func(f *stFunc) func(*slip.Scope, slip.List, int) slip.Object {
		return func(s *slip.Scope, args slip.List, depth int) slip.Object {
			slip.CheckArgCount(s, depth, f, args, 1, -1)
			ctrl, ok := args[0].(slip.String)
			if !ok {
				slip.TypePanic(s, depth, "control", args[0], "string")
			}
			rest := args[1:]
			pos := 0
			next := func() slip.Object {
				if guarded && len(rest) <= pos {
					slip.ErrorPanic(s, depth, "no more arguments")
				}
				pos++
				return rest[pos-1]
			}
			var b []byte
			for i := 0; i < len(ctrl); i++ {
				if ctrl[i] != '~' {
					b = append(b, ctrl[i])
					continue
				}
				i++
				if len(ctrl) <= i {
					slip.ErrorPanic(s, depth, "control string ends after ~")
				}
				if ctrl[i] == 'v' {
					_ = next()
					i++
					if len(ctrl) <= i {
						slip.ErrorPanic(s, depth, "control string ends after ~v")
					}
				}
				switch ctrl[i] {
				case 'A', 'a':
					b = slip.ObjectAppend(b, next())
				default:
					slip.ErrorPanic(s, depth, "unknown directive")
				}
			}
			return slip.String(b)
		}
	}
}

// miniRead: a tiny tokenizer; guarded says whether it checks for the end of
// the text after a dispatch character.
func miniRead(guarded bool) func(f *stFunc) func(*slip.Scope, slip.List, int) slip.Object {
	return func(f *stFunc) func(*slip.Scope, slip.List, int) slip.Object {
		return func(s *slip.Scope, args slip.List, depth int) slip.Object {
			slip.CheckArgCount(s, depth, f, args, 1, 1)
			src, ok := args[0].(slip.String)
			if !ok {
				slip.TypePanic(s, depth, "text", args[0], "string")
			}
			n := 0
			for i := 0; i < len(src); i++ {
				if src[i] == '#' {
					if guarded && len(src) <= i+1 {
						slip.ErrorPanic(s, depth, "text ends after #")
					}
					if src[i+1] == '\\' {
						i++
					}
					n++
				}
			}
			return slip.Fixnum(n)
		}
	}
}

var stMutants = []stMutant{
	{"m-ok", "f", "", "reference: every argument use is guarded", func(f *stFunc) func(*slip.Scope, slip.List, int) slip.Object {
		return func(s *slip.Scope, args slip.List, depth int) slip.Object {
			slip.CheckArgCount(s, depth, f, args, 1, 2)
			n := fixnumArg(s, depth, args, 0, "n")
			if n < 0 || 1000 < n {
				slip.ErrorPanic(s, depth, "n out of range")
			}
			d := 1
			if 1 < len(args) {
				if d = fixnumArg(s, depth, args, 1, "d"); d == 0 {
					slip.ErrorPanic(s, depth, "division by zero")
				}
			}
			return slip.Fixnum(len(make(slip.List, n)) / d)
		}
	}},
	{"m-assert", "f", "interface-conversion", "unchecked type assertion on an argument", func(f *stFunc) func(*slip.Scope, slip.List, int) slip.Object {
		return func(s *slip.Scope, args slip.List, depth int) slip.Object {
			slip.CheckArgCount(s, depth, f, args, 1, 2)
			return args[0].(slip.Fixnum) + 1
		}
	}},
	{"m-index", "f", "index-out-of-range", "argument indexed before the count check", func(f *stFunc) func(*slip.Scope, slip.List, int) slip.Object {
		return func(s *slip.Scope, args slip.List, depth int) slip.Object {
			second := args[1]
			slip.CheckArgCount(s, depth, f, args, 2, 2)
			return second
		}
	}},
	{"m-hashkey", "f", "unhashable", "argument used as a Go map key without a hashability check", func(f *stFunc) func(*slip.Scope, slip.List, int) slip.Object {
		return func(s *slip.Scope, args slip.List, depth int) slip.Object {
			slip.CheckArgCount(s, depth, f, args, 1, 2)
			m := map[slip.Object]int{}
			m[args[0]]++
			return slip.Fixnum(len(m))
		}
	}},
	{"m-nilptr", "f", "nil-deref", "result of a failed lookup used without a nil check", func(f *stFunc) func(*slip.Scope, slip.List, int) slip.Object {
		return func(s *slip.Scope, args slip.List, depth int) slip.Object {
			slip.CheckArgCount(s, depth, f, args, 1, 2)
			name, ok := args[0].(slip.String)
			if !ok {
				slip.TypePanic(s, depth, "name", args[0], "string")
			}
			p := slip.FindPackage(string(name)) // nil when there is no such package
			return slip.String(p.Name)
		}
	}},
	{"m-count", "f", "makeslice", "count argument handed to make() unchecked", func(f *stFunc) func(*slip.Scope, slip.List, int) slip.Object {
		return func(s *slip.Scope, args slip.List, depth int) slip.Object {
			slip.CheckArgCount(s, depth, f, args, 1, 2)
			return slip.Fixnum(len(make(slip.List, fixnumArg(s, depth, args, 0, "n"))))
		}
	}},
	{"m-bounds", "f", "slice-bounds", "start index used to slice without a range check", func(f *stFunc) func(*slip.Scope, slip.List, int) slip.Object {
		return func(s *slip.Scope, args slip.List, depth int) slip.Object {
			slip.CheckArgCount(s, depth, f, args, 2, 2)
			str, ok := args[0].(slip.String)
			if !ok {
				slip.TypePanic(s, depth, "string", args[0], "string")
			}
			return str[fixnumArg(s, depth, args, 1, "start"):]
		}
	}},
	{"m-divide", "f", "int-divide-by-zero", "integer division without a zero check", func(f *stFunc) func(*slip.Scope, slip.List, int) slip.Object {
		return func(s *slip.Scope, args slip.List, depth int) slip.Object {
			slip.CheckArgCount(s, depth, f, args, 2, 2)
			return slip.Fixnum(fixnumArg(s, depth, args, 0, "a") / fixnumArg(s, depth, args, 1, "b"))
		}
	}},
	{"m-format-ok", "m", "", "reference: a directive checks that an argument remains", miniFormat(true)},
	{"m-format", "m", "index-out-of-range", "a directive takes the next argument without checking that one remains", miniFormat(false)},
	{"m-read-ok", "r", "", "reference: the tokenizer checks for the end of the text after #", miniRead(true)},
	{"m-read", "r", "index-out-of-range", "the tokenizer looks at the byte after # without checking the length", miniRead(false)},
}

var stOnce sync.Once

func defineSelftestFunctions() {
	stOnce.Do(func() {
		pkg := slip.DefPackage(selftestPkgName, nil, "C09 oracle self-test: reference built-ins with one guard removed")
		for i := range stMutants {
			m := &stMutants[i]
			if def := stDefine[m.name]; def != nil {
				def(pkg, m.name)
				pkg.Export(m.name)
				continue
			}
			slip.Define(
				func(args slip.List) slip.Object {
					f := stFunc{Function: slip.Function{Name: m.name, Args: args}}
					f.Self = &f
					f.body = m.body(&f)
					return &f
				},
				&slip.FuncDoc{
					Name:   m.name,
					Args:   []*slip.DocArg{{Name: "&rest"}, {Name: "args", Type: "object"}},
					Return: "object",
					Text:   m.what,
				}, pkg)
			pkg.Export(m.name)
		}
	})
}

func selftest(tier string) (killed, total int, notes []string) {
	defineSelftestFunctions()
	var cases map[string][]string = map[string][]string{}
	// the same generators as the real run, restricted to what is cheap
	for n := 0; n <= 2; n++ {
		names := poolNames()
		if n == 2 {
			names = quickPairNames
		}
		tuples(names, n, func(t []string) { cases["f"] = append(cases["f"], strings.Join(t, ",")) })
	}
	for mi, m := range stMutants {
		faults := map[string]int{}
		ncases := 0
		switch m.family {
		case "f":
			for _, t := range cases["f"] {
				r := execFunc("f|" + selftestPkgName + ":" + m.name + "|v|" + t)
				ncases++
				collectFaults(&r, faults)
			}
		case "m":
			// the real single-directive control strings x argument lists
			for _, ctrl := range []string{"~A", "~vA", "~A~A", "~a"} {
				for a := range fmtArgLists {
					r := selftestFormat(m.name, ctrl, a)
					ncases++
					collectFaults(&r, faults)
				}
			}
		case "r":
			byteStrings(syntax12, 0, 3, func(b []byte) {
				r := selftestRead(m.name, b)
				ncases++
				collectFaults(&r, faults)
			})
		default:
			ncases = selftestFamily(&stMutants[mi], faults)
		}
		var fl []string
		for k, v := range faults {
			fl = append(fl, fmt.Sprintf("%s x%d", k, v))
		}
		sort.Strings(fl)
		if m.want == "" {
			// a reference: must stay clean, not counted as a mutant
			if 0 < len(faults) {
				total++
				notes = append(notes, fmt.Sprintf("REFERENCE %s is reported faulty (%s): the oracle raises false alarms", m.name, strings.Join(fl, ", ")))
			} else {
				notes = append(notes, fmt.Sprintf("reference %s (%s): clean on %d cases", m.name, m.what, ncases))
			}
			continue
		}
		total++
		hit := false
		for _, w := range strings.Split(m.want, "|") {
			hit = hit || 0 < faults[w]
		}
		if hit {
			killed++
			notes = append(notes, fmt.Sprintf("mutant %s (%s): distinguished, %s on %d cases", m.name, m.what, strings.Join(fl, ", "), ncases))
		} else {
			notes = append(notes, fmt.Sprintf("mutant %s (%s): NOT distinguished (wanted %s, saw %v)", m.name, m.what, m.want, fl))
		}
	}
	tainted = false
	if theHelper != nil {
		theHelper.stop()
	}
	return
}

func collectFaults(r *engine.Result, faults map[string]int) {
	for _, f := range r.Failures {
		fc := "other:" + f.Sig
		if i := strings.Index(f.Sig, "fault="); 0 <= i {
			fc = f.Sig[i+6:]
			if j := strings.IndexByte(fc, ' '); 0 <= j {
				fc = fc[:j]
			}
		} else if i := strings.Index(f.Sig, "kind="); 0 <= i {
			fc = f.Sig[i+5:]
		}
		faults[fc]++
	}
}

func selftestFormat(name, ctrl string, args int) (res engine.Result) {
	leave := enter(false)
	defer leave()
	scope := slip.NewScope()
	scope.Let(slip.Symbol("c09c"), slip.String(ctrl))
	src := "(" + selftestPkgName + ":" + name + " c09c"
	for i, a := range fmtArgLists[args] {
		v := fmt.Sprintf("c09a%d", i)
		scope.Let(slip.Symbol(v), mustEval(slip.NewScope(), a))
		src += " " + v
	}
	src += ")"
	o := observe(func() slip.Object { return slip.ReadString(src, scope).Eval(scope, nil) })
	if fc := realClassifier.classify(o); fc != "" {
		res.Fail(fmt.Sprintf("format fault=%s at=%s", fc, o.site), src+" => "+o.describe())
	}
	return
}

func selftestRead(name string, text []byte) (res engine.Result) {
	scope := slip.NewScope()
	scope.Let(slip.Symbol("c09a0"), slip.String(text))
	src := "(" + selftestPkgName + ":" + name + " c09a0)"
	o := observe(func() slip.Object { return slip.ReadString(src, scope).Eval(scope, nil) })
	judgeRead(&res, o, &realClassifier, "l", text)
	return
}
