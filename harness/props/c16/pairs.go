//go:build verif

package c16

import (
	"fmt"
	"strings"

	"verif/engine"
)

// The table pair family (round 6).
//
// The BFS of table.go never held, in ONE history, two keys that slip's own
// predicate puts in one class but that have DIFFERENT representations of a
// non-integral value, stored in one order and addressed in the other. This
// family does exactly that, exhaustively:
//
//	alphabet   every class slip's eql / equal / equalp measure on numbers, in every representation that can hold the value
//	           (by value: fixnum, single, double, complex; by reference: bignum, ratio, long-float), a ratio no float
//	           equals, non-finite floats, and characters / strings / symbols differing in case or identity
//	histories  store k1; then (setf gethash) k2 or remhash k2; then a third store / removal under k1 or k2 -
//	           for every ORDERED pair (k1, k2), for each of the four table tests, on an otherwise empty table and
//	           on a table that already holds bystander entries of other classes
//	after every step: gethash of every key of the history (and of the bystanders), hash-table-count, maphash
//
// The oracle is the one of the BFS (checkStep): a finite map keyed by the classes of slip's OWN predicate measured on
// the very key objects, every item accepted under eql or under the named test, expectations computed from the
// observed pre-state.

type pairGroup struct {
	name string
	keys []string
}

// Neighbouring groups (adjacent in this list) are crossed with each other in the 3-operation histories of the quick
// tier; the 2-operation histories cross EVERY key with EVERY key.
var pairGroups = []pairGroup{
	{"one", []string{"i1", "d1"}},
	{"half", []string{"r12a", "r12b", "d05", "f05", "l05", "c05"}},
	{"quarter", []string{"r14", "d025", "l025"}},
	{"third", []string{"r13", "d13", "r13x", "f13"}},
	{"minus-seven-quarters", []string{"rm74", "dm175", "fm175", "lm175"}},
	{"two", []string{"i2", "d2", "f2", "l2", "big2", "r42", "c2"}},
	{"zero", []string{"i0", "d0", "dm0", "f0", "fm0", "l0", "c0"}},
	{"two-to-64", []string{"big64a", "big64b", "d64", "f64", "l64", "r64"}},
	{"two-to-64-plus-1", []string{"big64p", "l64p"}},
	{"infinite", []string{"dinf", "dinf_b", "finf", "linf", "dminf"}},
	{"not-a-number", []string{"dnan"}},
	{"character", []string{"ca", "cA"}},
	{"string", []string{"sabc_a", "sabc_b", "SABC"}},
	{"symbol", []string{"yabc", "yABC", "kabc", "nil", "t"}},
}

// bystanders: entries of classes no key of the alphabet belongs to (numbers held by reference among them, so that a
// search through the keys of the table has something to skip).
var pairBystanders = []string{"r15", "l075", "big65", "szz"}

var pairKeys = func() (ks []string) {
	for _, g := range pairGroups {
		ks = append(ks, g.keys...)
	}
	return
}()

var pairGroupOf = func() map[string]int {
	m := map[string]int{}
	for i, g := range pairGroups {
		for _, k := range g.keys {
			m[k] = i
		}
	}
	return m
}()

// pairNear: k1 and k2 are in the same or in neighbouring groups.
func pairNear(k1, k2 string) bool {
	d := pairGroupOf[k1] - pairGroupOf[k2]
	return -1 <= d && d <= 1
}

// A pair case is "tp|<test>|<bg>|<op>;<op>;..." with op = s:<key>:<value> | r:<key>; bg = 0 | 1.
func pairSpec(test string, bg int, ops ...string) string {
	return fmt.Sprintf("tp|%s|%d|%s", test, bg, strings.Join(ops, ";"))
}

var pairVals = []string{"a", "b", "c"}

func enumeratePairs(tier string, emit func(string)) {
	second := func(k2 string) []string { return []string{"s:" + k2 + ":b", "r:" + k2} }
	third := func(k1, k2 string) []string {
		ops := []string{"s:" + k1 + ":c", "r:" + k1}
		if k1 != k2 {
			ops = append(ops, "s:"+k2+":c", "r:"+k2)
		}
		return ops
	}
	// one store (simplest first), then every ordered pair
	for _, bg := range []int{0, 1} {
		for _, test := range tableTests {
			for _, k1 := range pairKeys {
				emit(pairSpec(test, bg, "s:"+k1+":a"))
			}
		}
	}
	for _, bg := range []int{0, 1} {
		for _, test := range tableTests {
			for _, k1 := range pairKeys {
				for _, k2 := range pairKeys {
					for _, op2 := range second(k2) {
						emit(pairSpec(test, bg, "s:"+k1+":a", op2))
					}
				}
			}
		}
	}
	// 3-operation histories: quick = pairs inside a group and across neighbouring groups on the empty table;
	// thorough = every ordered pair, with and without bystanders
	bgs := []int{0}
	if tier == engine.Thorough {
		bgs = []int{0, 1}
	}
	for _, bg := range bgs {
		for _, test := range tableTests {
			for _, k1 := range pairKeys {
				for _, k2 := range pairKeys {
					if tier != engine.Thorough && !pairNear(k1, k2) {
						continue
					}
					for _, op2 := range second(k2) {
						for _, op3 := range third(k1, k2) {
							emit(pairSpec(test, bg, "s:"+k1+":a", op2, op3))
						}
					}
				}
			}
		}
	}
	if tier != engine.Thorough {
		return
	}
	// thorough: every ordered triple of distinct keys inside a group: two stores, then a store / removal under the third
	for _, test := range tableTests {
		for _, g := range pairGroups {
			for _, k1 := range g.keys {
				for _, k2 := range g.keys {
					for _, k3 := range g.keys {
						if k1 == k2 || k2 == k3 || k1 == k3 {
							continue
						}
						for _, op2 := range second(k2) {
							emit(pairSpec(test, 0, "s:"+k1+":a", op2, "s:"+k3+":c"))
							emit(pairSpec(test, 0, "s:"+k1+":a", op2, "r:"+k3))
						}
					}
				}
			}
		}
	}
}

func pairCaseCount(tier string) (n int) {
	enumeratePairs(tier, func(string) { n++ })
	return
}

// pairOp translates the compact op of a pair spec into the op language of table.go.
func pairOp(op string) (string, bool) {
	p := strings.Split(op, ":")
	switch {
	case len(p) == 3 && p[0] == "s" && elemByName[p[1]] != nil && (p[2] == "a" || p[2] == "b" || p[2] == "c" || p[2] == "nil"):
		return "set:" + p[1] + ":" + p[2], true
	case len(p) == 2 && p[0] == "r" && elemByName[p[1]] != nil:
		return "rem:" + p[1], true
	}
	return "", false
}

func isTableKey(k string) bool {
	for _, n := range allTableKeys() {
		if n == k {
			return true
		}
	}
	return false
}

// heldByReference: the Go map behind the table compares such keys by address.
func heldByReference(fine string) bool {
	switch fine {
	case "bignum", "ratio", "long-float":
		return true
	}
	return false
}

func execPairCase(parts []string) (res engine.Result) {
	bad := func() engine.Result {
		res.Fail("harness:bad-spec", strings.Join(parts, "|"))
		return res
	}
	if len(parts) != 4 || parts[2] != "0" && parts[2] != "1" {
		return bad()
	}
	test := parts[1]
	okTest := false
	for _, t := range tableTests {
		okTest = okTest || t == test
	}
	if !okTest {
		return bad()
	}
	var ops, keys []string
	seen := map[string]bool{}
	for _, op := range strings.Split(parts[3], ";") {
		top, ok := pairOp(op)
		if !ok {
			return bad()
		}
		k := strings.Split(top, ":")[1]
		if !isTableKey(k) {
			return bad()
		}
		if !seen[k] {
			seen[k] = true
			keys = append(keys, k)
		}
		ops = append(ops, top)
	}
	keySetup()
	if keyErr != "" {
		res.Fail("harness:cannot-build-key", keyErr)
		return
	}
	tab, err := newRealTable(test)
	if err != nil {
		sig := "table test=" + test + " op=make-hash-table result=error:" + err.Class
		if err.GoFault {
			sig = "table test=" + test + " op=make-hash-table result=go-fault"
		}
		res.Fail(sig, "(make-hash-table :test '"+test+") => "+err.String())
		return
	}
	fine := func(k string) string {
		if f, has := keyFine[k]; has {
			return f
		}
		return "unknown"
	}
	all := runPairHistory(tab, test, parts[2] == "1", ops, keys, fine, func(o *tableObs, classKeys []string) []*equiv {
		return acceptFor(test, stepEquivs(o, classKeys))
	})
	all.into(&res)
	return
}

// runPairHistory replays one history of the pair family on impl (the real table or a model) and applies the step
// oracle after every operation.
func runPairHistory(tab tableImpl, test string, bg bool, ops, keys []string, fine func(string) string,
	acceptOf func(o *tableObs, classKeys []string) []*equiv) (all verdict) {
	probes := append([]string(nil), keys...)
	classKeys := append([]string(nil), keys...)
	if bg {
		classKeys = append(classKeys, pairBystanders...)
	}
	sigSeen := map[string]bool{}
	merge := func(v verdict) {
		for _, f := range v.fails {
			if !sigSeen[f.Sig] {
				sigSeen[f.Sig] = true
				all.fails = append(all.fails, f)
			}
		}
		all.hits = append(all.hits, v.hits...)
		all.nontrivial = all.nontrivial || v.nontrivial
	}
	if bg {
		for _, b := range pairBystanders {
			o := observeStep(tab, test, "set:"+b+":nil", []string{b})
			merge(checkStep(o, acceptOf(o, classKeys), fine))
			if o.opBad.v == -1 {
				return
			}
		}
		probes = append(probes, pairBystanders...)
		all.hits = append(all.hits, "pair-with-bystanders")
	}
	var outs []string
	for i, op := range ops {
		o := observeStep(tab, test, op, probes)
		accept := acceptOf(o, classKeys)
		prim := accept[0]
		v := checkStep(o, accept, fine)
		merge(v)
		outs = append(outs, v.outcome)
		if o.opBad.v == -1 {
			break
		}
		// ---- vacuity: what this step addressed
		p := strings.Split(op, ":")
		k := p[1]
		for _, en := range o.pre {
			if en.key == k || prim.cls(en.key) != prim.cls(k) {
				continue
			}
			// an entry stored under ANOTHER key object of the same class is addressed by k
			fk, fs := fine(k), fine(en.key)
			what := map[string]string{"set": "store", "rem": "remove"}[p[0]]
			all.hits = append(all.hits, "pair-"+what+"-under-equivalent-key")
			if fk != fs {
				all.hits = append(all.hits, "pair-"+what+"-under-other-representation")
				if heldByReference(fs) && !heldByReference(fk) {
					all.hits = append(all.hits, "pair-reference-held-stored-value-held-addressing")
					if nonIntegralKey[en.key] {
						all.hits = append(all.hits, "pair-nonintegral-reference-held-stored-value-held-addressing")
					}
				}
				if !heldByReference(fs) && heldByReference(fk) {
					all.hits = append(all.hits, "pair-value-held-stored-reference-held-addressing")
				}
				if nonIntegralKey[en.key] {
					all.hits = append(all.hits, "pair-nonintegral-other-representation")
				}
			}
			if fk == fs {
				all.hits = append(all.hits, "pair-"+what+"-under-same-representation-other-object")
			}
			if bg {
				all.hits = append(all.hits, "pair-equivalent-key-among-bystanders")
			}
		}
		if i == 0 {
			// the lookups after the first store are the gethash continuation of the pair
			for _, q := range probes {
				for _, en := range o.post {
					if en.key != q && prim.cls(en.key) == prim.cls(q) {
						all.hits = append(all.hits, "pair-lookup-under-equivalent-key")
						if fine(q) != fine(en.key) {
							all.hits = append(all.hits, "pair-lookup-under-other-representation")
						}
					}
				}
			}
		}
		for _, t := range accept[1:] {
			// classes of the named test that are wider than eql's (case folding): addressed too
			for _, en := range o.pre {
				if en.key != k && prim.cls(en.key) != prim.cls(k) && t.cls(en.key) == t.cls(k) {
					all.hits = append(all.hits, "pair-addresses-key-equivalent-under-the-named-test-only")
				}
			}
		}
	}
	all.outcome = strings.Join(outs, " ; ")
	return
}

// pairRequired: the interactions the family exists for (vacuity guard, part of Prop.Required).
var pairRequired = []string{"pair-lookup-under-other-representation", "pair-store-under-other-representation",
	"pair-remove-under-other-representation", "pair-reference-held-stored-value-held-addressing",
	"pair-nonintegral-reference-held-stored-value-held-addressing", "pair-value-held-stored-reference-held-addressing",
	"pair-store-under-same-representation-other-object", "pair-remove-under-same-representation-other-object",
	"pair-equivalent-key-among-bystanders", "pair-addresses-key-equivalent-under-the-named-test-only"}

// nonIntegralKey: keys whose value is not an integer (a table that normalises integral numbers to a fixnum key
// handles the integral ones by a different path).
var nonIntegralKey = map[string]bool{"r12a": true, "r12b": true, "d05": true, "f05": true, "l05": true, "c05": true,
	"r14": true, "d025": true, "l025": true, "r13": true, "d13": true, "r13x": true, "f13": true,
	"rm74": true, "dm175": true, "fm175": true, "lm175": true}

func pairAlphabetText() string {
	var gs []string
	for _, g := range pairGroups {
		var srcs []string
		for _, k := range g.keys {
			srcs = append(srcs, elemByName[k].src)
		}
		gs = append(gs, g.name+" {"+strings.Join(srcs, ", ")+"}")
	}
	return strings.Join(gs, "; ")
}
