package c09

// helper.go: the sandbox of the resource families (z, u, d, e). A case that can kill or hang the host must not run
// inside the worker; starting a process per case (runChild) costs ~10 ms, too much for 15,000 cases. The worker
// therefore keeps ONE helper process (the same binary, 3 GiB address space) and hands it one case at a time over a
// pipe. A helper that dies or does not answer within the deadline is killed, the death is attributed to the case in
// flight (with the specific signature of that case) and the next case gets a new helper. A helper is also replaced
// after every reported failure and after helperCases cases, and cases marked `fresh` get a helper of their own, so a
// verdict never depends on more than a bounded, failure-free history (and every failure is re-confirmed by the
// engine in fresh processes anyway).

import (
	"bufio"
	"bytes"
	"encoding/json"
	"fmt"
	"os"
	"os/exec"
	"runtime/debug"
	"strings"
	"syscall"
	"time"

	"verif/engine"
)

const helperCases = 64

const helperMemGiB = 3

// helperDeadline: how long the worker waits for the helper's answer. The clock that decides is the helper's own
// CPU time, not the wall: when the wall deadline expires and the helper has had less than helperCPU of processor time
// (the machine is busy with other work: the helper was starved, not spinning), the wait goes on until it has had that
// much or helperWallMax has passed. A verdict "unbounded" therefore never depends on what else runs on the machine
// (S1: no short wall-clock oracle); a case that blocks without using the processor costs helperWallMax.
const helperDeadline = 8 * time.Second
const helperCPU = 4 * time.Second
const helperWallMax = 60 * time.Second

type helper struct {
	cmd    *exec.Cmd
	in     *os.File
	lines  chan string
	errb   *bytes.Buffer
	done   chan error
	served int
}

var theHelper *helper

// helperMode: this process is a helper (it serves many cases: the per-case sandbox is kept, not rebuilt).
var helperMode bool

func startHelper() (*helper, error) {
	sandboxInit()
	self, err := os.Executable()
	if err != nil {
		return nil, err
	}
	reqR, reqW, err := os.Pipe()
	if err != nil {
		return nil, err
	}
	respR, respW, err := os.Pipe()
	if err != nil {
		return nil, err
	}
	h := &helper{errb: &bytes.Buffer{}, lines: make(chan string, 1), done: make(chan error, 1), in: reqW}
	h.cmd = exec.Command(self, "exec", "C09", "--spec", "helper|", "--mem", "3")
	h.cmd.Env = append(append([]string{}, baseEnv...), "C09_CHILD=1", "GOMAXPROCS=2")
	h.cmd.Dir = "/"
	h.cmd.Stdout = nil
	h.cmd.Stderr = h.errb
	h.cmd.ExtraFiles = []*os.File{reqR, respW} // fd 3 and 4 of the helper
	if err = h.cmd.Start(); err != nil {
		_ = reqR.Close()
		_ = reqW.Close()
		_ = respR.Close()
		_ = respW.Close()
		return nil, err
	}
	_ = reqR.Close()
	_ = respW.Close()
	go func() {
		rd := bufio.NewReaderSize(respR, 1<<16)
		for {
			line, err := rd.ReadString('\n')
			if err != nil {
				break
			}
			h.lines <- line
		}
		_ = respR.Close()
		close(h.lines)
	}()
	go func() { h.done <- h.cmd.Wait() }()
	return h, nil
}

func (h *helper) stop() {
	_ = h.in.Close()
	_ = h.cmd.Process.Kill()
	<-h.done
	if theHelper == h {
		theHelper = nil
	}
}

// runIsolated executes the spec in the helper process and returns its result, or a failure that says how the
// helper died. Running out of time, of memory and of stack are three faces of the same thing (which one is met
// first depends on the machine): one kind, `unbounded`.
func runIsolated(spec, sigPrefix, what string, fresh bool) (res engine.Result) {
	if strings.ContainsAny(spec, "\n\r") {
		res.Fail("harness:bad-spec", "newline in a helper spec")
		return
	}
	if theHelper != nil && (fresh || helperCases <= theHelper.served) {
		theHelper.stop()
	}
	if theHelper == nil {
		h, err := startHelper()
		if err != nil {
			res.Fail("harness:helper-start", err.Error())
			return
		}
		theHelper = h
		res.Hit("helper-starts")
	}
	h := theHelper
	h.served++
	if _, err := h.in.WriteString(spec + "\n"); err != nil {
		h.stop()
		res.Fail("harness:helper-write", err.Error())
		return
	}
	type answer struct {
		line string
		ok   bool
	}
	got := make(chan answer, 1)
	go func() { l, ok := <-h.lines; got <- answer{l, ok} }()
	a, back := engine.WaitBounded(h.cmd.Process.Pid, got, helperDeadline, helperCPU, helperWallMax, func() { res.Hit("helper-wait-extended") })
	switch {
	case back:
		line, ok := a.line, a.ok
		if ok {
			if jerr := json.Unmarshal([]byte(line), &res); jerr != nil {
				res = engine.Result{}
				res.Fail("harness:helper-answer", jerr.Error()+": "+head(line, 200))
			}
			if 0 < len(res.Failures) || fresh || 0 < res.Counters["world-changed"] || 0 < res.Counters["poisoned"] {
				h.stop() // (the case changed what cl-user sees: the next case gets a new helper)
			}
			res.Hit("isolated")
			return
		}
		// the helper died
		<-h.done
		h.done <- nil
		stderr := h.errb.String()
		h.stop()
		what += inFlight(stderr)
		stderr = stripInFlight(stderr)
		kind := "fatal:" + fatalClass(stderr)
		if kind == "fatal:out-of-memory" || kind == "fatal:stack-overflow" {
			kind = "unbounded"
		}
		res.Fail(sigPrefix+" kind="+kind, what+" => the process died: "+firstLines(stderr, 6))
		res.Outcome = kind
	default:
		h.stop()
		what += inFlight(h.errb.String())
		res.Fail(sigPrefix+" kind=unbounded", fmt.Sprintf("%s => no outcome within %s (and %s of processor time) in a process of its own (3 GiB address space)", what, helperDeadline, helperCPU))
		res.Outcome = "unbounded"
	}
	res.Nontrivial = true
	res.Hit("isolated")
	res.Hit("isolated-deaths")
	return
}

// serveHelper is the helper side: specs arrive on fd 3, one per line; one line of JSON per result leaves on fd 4.
func serveHelper() (res engine.Result) {
	in := os.NewFile(3, "requests")
	out := os.NewFile(4, "results")
	if in == nil || out == nil {
		res.Fail("harness:helper-pipes", "no pipes")
		return
	}
	helperMode = true
	// the engine's exec subcommand does not apply --mem: the helper limits its own address space
	lim := syscall.Rlimit{Cur: helperMemGiB << 30, Max: helperMemGiB << 30}
	_ = syscall.Setrlimit(syscall.RLIMIT_AS, &lim)
	defaultStack := debug.SetMaxStack(1_000_000_000)
	debug.SetMaxStack(defaultStack)
	rd := bufio.NewReaderSize(in, 1<<16)
	for {
		line, err := rd.ReadString('\n')
		if err != nil {
			return
		}
		spec := strings.TrimSuffix(line, "\n")
		// the parent gives up after helperDeadline; never outlive it by much (an orphan must not spin for ever)
		watchdog := time.AfterFunc(helperWallMax+helperDeadline, func() { os.Exit(3) })
		debug.SetMaxStack(defaultStack)
		r := engine.SafeExec(&engine.Prop{Exec: execCase}, spec)
		watchdog.Stop()
		b, jerr := json.Marshal(&r)
		if jerr != nil {
			b = []byte(`{"failures":[{"sig":"harness:helper-marshal","detail":"cannot encode the result"}]}`)
		}
		if _, err = out.Write(append(b, '\n')); err != nil {
			return
		}
	}
}

// inFlight: families that run many evaluations in one case (pl, sf, st) announce each on the helper's standard error
// ("INFLIGHT <text>"); when the helper dies or falls silent the last announcement names the evaluation that did it.
func inFlight(stderr string) string {
	i := strings.LastIndex(stderr, "INFLIGHT ")
	if i < 0 {
		return ""
	}
	line := stderr[i+len("INFLIGHT "):]
	if j := strings.IndexByte(line, '\n'); 0 <= j {
		line = line[:j]
	}
	return " [evaluation in flight: " + line + "]"
}

// announce writes the evaluation about to run to the helper's standard error (no-op outside a helper).
func announce(text string) {
	if helperMode {
		fmt.Fprintln(os.Stderr, "INFLIGHT "+strings.ReplaceAll(text, "\n", " "))
	}
}

func stripInFlight(stderr string) string {
	var keep []string
	for _, l := range strings.Split(stderr, "\n") {
		if !strings.HasPrefix(l, "INFLIGHT ") {
			keep = append(keep, l)
		}
	}
	return strings.Join(keep, "\n")
}
