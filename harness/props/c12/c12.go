// Package c12: CLOS classes — precedence, slot initialisation, accessors,
// redefinition and typep/class-of/dispatch agreement, decided by exhaustive
// enumeration of class DAGs x slot option sets x every order of the defclass
// forms (forward references included) x every initarg subset x one optional
// redefinition, each history executed on the real slip and judged by an
// oracle written from the property statement.
package c12

import (
	"fmt"
	"hash/fnv"
	"sort"
	"strings"

	"verif/engine"
	"verif/lisp"
)

func init() {
	engine.Register(&engine.Prop{
		ID:    "C12",
		Level: "model_checking",
		Rule: "a case = (class DAG on n classes with ordered direct superclasses, per-class options for slots s and u, optional redefinition of one class, " +
			"warm flag); Exec runs EVERY order of the n (+1) defclass forms (redefinition after the original; superclasses may be defined after their " +
			"subclasses) on fresh class/function names, checks class-precedence after every step for the classes whose ancestors are all defined, and at " +
			"the end, for every class: class-precedence, make-instance with every subset of the valid initargs + state of both slots, slot-value of an " +
			"unbound slot, typep against every class, class-of, a generic function with one :before and one primary method per class, and " +
			"reader/accessor/(setf accessor)/writer on two instances; observations are judged by the oracle and compared across orders; " +
			"histories of a redefinition with indirect subclasses are run 3x (Go map order in classChanged, S4); " +
			"a case is non-trivial when it has at least one superclass edge or a redefinition",
		Assumptions: []string{
			"writers are called slip's documented way, (writer object value)",
			"typep against t is not asked (slip reads 't as the true object, which typep rejects); t is checked in the precedence list only",
			"when two supplied initargs name the same slot either value or a Lisp error is accepted (statement silent)",
			"slot-value of an unbound slot must signal some Lisp error (the statement only says the slot stays unbound)",
			"the relative order of two indirect ancestors is not prescribed; only equality across definition orders is demanded there",
		},
		Enumerate: enumerate,
		Exec:      exec,
		Required: []string{"forward-ref-history", "forward-ref-indirect-ancestor", "diamond", "redundant-direct", "shadowed-slot", "inherited-initform",
			"shared-initarg", "two-initargs-one-slot", "redef-direct-subclass", "redef-indirect-subclass", "redef-before-superclass-defined",
			"warm-dispatch", "accessor-checked", "unbound-slot-checked", "mid-history-precedence", "explicit-nil-initarg"},
		Bound:    bound,
		Selftest: selftest,
	})
}

func bound(tier string) string {
	if tier == engine.Thorough {
		return "no redefinition: 1 class and both 2-class DAGs x full slot alphabet (32 option pairs for slots s,u); all 10 3-class DAGs x 13-pair curated alphabet; " +
			"all 160 4-class DAGs x 3-pair alphabet; initform nil: 1-3 classes x 5-pair alphabet; 10 five-class chain/diamond shapes x 2-pair alphabet; " +
			"every permutation of the defclass forms each (up to 120). " +
			"Redefinition of any one class (slot s given a new initform, all slots removed, initarg instead of initform, slot u added, superclasses reversed / first dropped / one added) " +
			"at every later point of every order: 2-class DAGs x 5-pair alphabet and 3-class DAGs x 3-pair alphabet, warm and cold dispatch cache; 3-class DAGs x {none, initform, shared initarg k on both slots} cold; " +
			"4-class DAGs with <= 2 direct superclasses, slot s with initform in every class (cold); the quick tier's top-class redefinition family on 4 four-class shapes. " +
			"All subsets of valid initargs (a, b, shared k). CUT relative to the design (time, measured on a machine shared with 10 other harness builds): 4 classes x 3-pair instead of richer alphabets; " +
			"5 classes restricted to 10 shapes x 2-pair alphabet; 4-class redefinition restricted to one slot alphabet entry and <= 2 superclasses."
	}
	return "no redefinition: 1 class x full slot alphabet (32 option pairs for slots s,u); both 2-class DAGs x 13-pair curated alphabet; all 10 3-class DAGs x 8-pair alphabet; " +
		"all 160 4-class DAGs with slot s :initform in every class; initform nil: 1-2 classes x 5-pair, 3 classes x 3-pair alphabet; every permutation of the defclass forms each. " +
		"Redefinition of any one class (7 kinds) at every later point of every order: 2-class DAGs x 3-pair alphabet, 3-class DAGs x 2-pair alphabet, warm and cold dispatch cache; " +
		"redefinition of the TOP class of 4 four-class shapes (diamond in both middle orders, diamond + direct top, chain + direct top) x 2-pair alphabet x every applicable kind x all 60 orders (cold; warm for one slot assignment). " +
		"All subsets of valid initargs. CUT relative to the design: slot alphabets smaller than in thorough; 4 classes without slot variation except in the top-redefinition family; no 5-class cases; 4-class redefinition only of the top class of 4 shapes."
}

// ---------------------------------------------------------------- running one history

type histRun struct {
	mid   []finding
	final obsMap
}

func runHistory(w world, c *caseSpec, hist []int) histRun {
	var hr histRun
	defs := make([]classDef, c.n)
	defined := make([]bool, c.n)
	for step, f := range hist {
		var e, e2 string
		cls := f
		if f == c.n {
			cls = c.redef.r
			if c.warm {
				for i := 0; i < c.n; i++ {
					if _, ok := ancestors(defs, defined, i); ok {
						w.warm(i)
					}
				}
			}
			defs[cls] = c.redef.def
			e = w.defclass(cls, c.redef.def)
		} else {
			defs[f] = c.defs[f]
			defined[f] = true
			e = w.defclass(f, c.defs[f])
			e2 = w.defmethods(f)
		}
		if e != "" {
			kind := "error"
			if isGoFault(e) {
				kind = "go-fault"
			}
			hr.mid = append(hr.mid, finding{key: fmt.Sprintf("F|%d", cls), cls: cls, aspect: "defclass", kind: kind,
				detail: fmt.Sprintf("defclass of %s %s => %s", cname(cls), supNames(defs[cls].supers), e)})
		}
		if e2 != "" {
			hr.mid = append(hr.mid, finding{key: fmt.Sprintf("G|%d", cls), cls: cls, aspect: "defmethod", kind: "error",
				detail: fmt.Sprintf("defmethod specialised on %s => %s", cname(cls), e2)})
		}
		if step == len(hist)-1 {
			break
		}
		for i := 0; i < c.n; i++ {
			if _, ok := ancestors(defs, defined, i); !ok {
				continue
			}
			obs := w.precedence(i)
			if k := checkPrec(defs, i, obs); k != "" {
				hr.mid = append(hr.mid, finding{key: fmt.Sprintf("Pm|%d", i), cls: i, aspect: "precedence-mid-history", kind: k,
					detail: fmt.Sprintf("after %d of %d forms, all ancestors of %s defined: class-precedence = %s; canonical reading %s",
						step+1, len(hist), cname(i), obs, precText(canonPrec(defs, i)))})
			}
		}
	}
	hr.final = observeFinal(w, c.finalDefs())
	return hr
}

// ---------------------------------------------------------------- verdict over all histories of a case

type sigAgg struct {
	fixed  bool // the signature carries no order class
	core   string
	aspect string
	key    string
	cls    int
	fails  map[int]int // history index -> bit set of failing repetitions
	detail string
}

func histText(c *caseSpec, h []int) string {
	var out []string
	for _, f := range h {
		if f == c.n {
			out = append(out, "redefine-"+cname(c.redef.r))
		} else {
			out = append(out, cname(f))
		}
	}
	return strings.Join(out, " ")
}

// tagOf: the order class of history h as seen from class i.
func tagOf(c *caseSpec, fin []classDef, h []int, i int) string {
	pos := map[int]int{}
	for p, f := range h {
		pos[f] = p
	}
	if c.redef != nil {
		if pos[i] < pos[c.n] {
			return "class-before-redefinition"
		}
		return "class-after-redefinition"
	}
	anc, _ := ancestors(fin, nil, i)
	for a := range anc {
		if pos[i] < pos[a] {
			return "forward-reference"
		}
	}
	return "supers-first"
}

var instanceAspects = map[string]bool{"make-instance": true, "slot-init": true, "accessor": true, "slot-unbound": true}
var shapeAspects = map[string]bool{"precedence": true, "precedence-mid-history": true, "typep": true, "dispatch": true, "class-of": true}

func judgeCase(c *caseSpec, mk func() world, reps int, res *engine.Result) (firstObs obsMap) {
	hists := c.histories()
	fin := c.finalDefs()
	aggs := map[string]*sigAgg{}
	aspectFails := map[string]map[int]bool{}
	failedKeys := map[string]bool{}
	failedClass := map[int]bool{}
	var order []string
	redef := "none"
	if c.redef != nil {
		redef = redefKind(c.defs[c.redef.r], c.redef.def)
	}
	record := func(hi, rep int, h []int, f finding, stale bool) {
		rel := ""
		if c.redef != nil {
			r := c.redef.r
			via := false // r is reached through another class (under the old or the new definitions)
			direct := false
			for _, defs := range [][]classDef{fin, c.defs} {
				anc, _ := ancestors(defs, nil, f.cls)
				for _, s := range defs[f.cls].supers {
					if s == r {
						direct = true
					}
				}
				for a := range anc {
					if a != r {
						if aa, _ := ancestors(defs, nil, a); aa[r] {
							via = true
						}
					}
				}
			}
			switch {
			case f.cls == r:
				rel = "/redefined-class"
			case via:
				rel = "/indirect-subclass"
			case direct:
				rel = "/direct-subclass"
			default:
				rel = "/unrelated-class"
			}
		}
		aspect, kind, extra := f.aspect, f.kind, f.extra
		fixed := false
		var core string
		switch {
		case f.shared:
			// the case contains the trigger "one supplied initarg names two slots" and the slot named by it was not filled
			core = "aspect=slot-init kind=shared-initarg-slot-not-filled got=" + f.got
			fixed = true
		case aspect == "dispatch" && c.redef != nil && c.warm && f.obs != "" && f.obs == dispatchUnder(c.defs, f.cls):
			// the effective method is the one computed before the redefinition
			aspect, kind, extra = "dispatch-after-redefinition", "effective-method-as-before-redefinition", ""
		case stale && instanceAspects[aspect]:
			aspect, kind, extra = "instance-state", "as-before-redefinition", ""
		case stale:
			extra = ""
		}
		if !fixed {
			core = "aspect=" + aspect + " kind=" + kind
			if extra != "" {
				core += " " + extra
			}
			if shapeAspects[aspect] {
				core += " shape=" + shape(fin, f.cls)
			}
			core += " redef=" + redef + rel
			if c.redef != nil {
				if aspect == "dispatch-after-redefinition" {
				} else if stale {
					core += " matches-old-definition=yes"
				} else {
					core += " matches-old-definition=no"
				}
				if c.warm && strings.HasPrefix(aspect, "dispatch") {
					core += " called-before-redefinition=yes"
				}
			}
		}
		id := fmt.Sprintf("%s\x00%d", core, f.cls)
		ak := fmt.Sprintf("%s\x00%d", f.aspect, f.cls)
		if aspectFails[ak] == nil {
			aspectFails[ak] = map[int]bool{}
		}
		aspectFails[ak][hi] = true
		failedKeys[f.key] = true
		if f.kind != "differs-between-definition-orders" {
			failedClass[f.cls] = true
		}
		a := aggs[id]
		if a == nil {
			a = &sigAgg{fixed: fixed, core: core, key: f.key, cls: f.cls, aspect: f.aspect, fails: map[int]int{}, detail: "order [" + histText(c, h) + "]: " + f.detail}
			aggs[id] = a
			order = append(order, id)
		}
		a.fails[hi] |= 1 << rep
	}
	finals := make([][]obsMap, len(hists))
	for hi, h := range hists {
		for rep := 0; rep < reps; rep++ {
			w := mk()
			hr := runHistory(w, c, h)
			w.close()
			finals[hi] = append(finals[hi], hr.final)
			if firstObs == nil {
				firstObs = hr.final
			}
			fs := judgeFinal(fin, hr.final)
			var oldFail map[string]bool
			if c.redef != nil && 0 < len(fs) {
				oldFail = map[string]bool{}
				for _, of := range judgeFinal(c.defs, hr.final) {
					if !of.shared { // the old definitions seen through the shared-initarg behaviour still count as "old"
						oldFail[of.key] = true
					}
				}
			}
			for _, f := range hr.mid {
				record(hi, rep, h, f, false)
			}
			for _, f := range fs {
				record(hi, rep, h, f, oldFail != nil && !oldFail[f.key])
			}
		}
	}
	// differential: the same definitions in another order must give the same observations
	var keysSorted []string
	for k := range finals[0][0] {
		keysSorted = append(keysSorted, k)
	}
	sort.Strings(keysSorted)
	aspectOf := map[byte]string{'P': "precedence", 'M': "make-instance", 'S': "slot-init", 'U': "slot-unbound", 'T': "typep", 'C': "class-of", 'D': "dispatch", 'A': "accessor"}
	for _, k := range keysSorted {
		var kc int
		fmt.Sscanf(k[2:], "%d", &kc)
		if failedKeys[k] || failedClass[kc] {
			continue // already reported against the statement (S3)
		}
		if (k[0] == 'M' || k[0] == 'S') && multiKey(fin, kc, k) {
			continue // two supplied initargs name one slot: a set of outcomes is accepted, so orders may differ (S2)
		}
		ref := finals[0][0][k]
		for hi := range hists {
			for rep, o := range finals[hi] {
				if o[k] != ref && o[k] != "" && ref != "" && !failedKeys[k] {
					failedKeys[k] = true
					var cls int
					fmt.Sscanf(k[2:], "%d", &cls)
					record(hi, rep, hists[hi], finding{key: k, cls: cls, aspect: aspectOf[k[0]], kind: "differs-between-definition-orders",
						detail: fmt.Sprintf("observation %s is %q here but %q after order [%s]", k, o[k], ref, histText(c, hists[0]))}, false)
				}
			}
		}
	}
	// order class per (signature core, observation key)
	seen := map[string]bool{}
	for _, id := range order {
		a := aggs[id]
		fails := aspectFails[fmt.Sprintf("%s\x00%d", a.aspect, a.cls)]
		tags := map[string]bool{}
		for hi, h := range hists {
			if fails[hi] {
				tags[tagOf(c, fin, h, a.cls)] = true
			}
		}
		ord := "mixed"
		switch {
		case len(hists) == 1:
			ord = "all"
		case c.redef != nil && len(tags) == 1:
			for t := range tags {
				ord = t
			}
		case c.redef != nil:
			ord = "both-sides-of-redefinition"
		case len(fails) == len(hists):
			ord = "all"
		case len(tags) == 1:
			for t := range tags {
				ord = t
			}
		}
		if strings.Contains(a.core, "kind=differs-between-definition-orders") {
			ord = "n/a"
		}
		flaky := false
		for _, n := range a.fails {
			if n != 1<<reps-1 {
				flaky = true
			}
		}
		sig := a.core + " orders=" + ord
		if a.fixed {
			sig = a.core
		}
		if seen[sig] {
			continue
		}
		seen[sig] = true
		d := a.detail + fmt.Sprintf(" [fails in %d of %d definition orders", len(a.fails), len(hists))
		if flaky {
			d += "; not in every repetition of the same order (Go map iteration order)"
		}
		d += "]"
		res.Fail(sig, d)
	}
	return
}

// multiKey: the observation key belongs to a make-instance call in which two
// supplied initargs name the same slot.
func multiKey(defs []classDef, i int, key string) bool {
	p := strings.Split(key, "|")
	if len(p) < 3 || p[2] == "-" {
		return false
	}
	sigma := strings.Split(p[2], "+")
	order := canonPrec(defs, i)
	for _, sl := range slotNames {
		if expectSlot(defs, order, sl, sigma).src == "initarg-multi" {
			return true
		}
	}
	return false
}

// dispatchUnder: the dispatch observation the canonical reading of defs gives for class i.
func dispatchUnder(defs []classDef, i int) string {
	var tr []string
	for _, x := range canonPrec(defs, i) {
		tr = append(tr, cname(x))
	}
	return "val=" + cname(i) + " trace=" + strings.Join(tr, ",")
}

// ---------------------------------------------------------------- Exec

func hasIndirectDescendant(c *caseSpec) bool {
	if c.redef == nil {
		return false
	}
	r := c.redef.r
	for _, defs := range [][]classDef{c.defs, c.finalDefs()} {
		for i := 0; i < c.n; i++ {
			anc, _ := ancestors(defs, nil, i)
			if !anc[r] {
				continue
			}
			direct := false
			for _, s := range defs[i].supers {
				if s == r {
					direct = true
				}
			}
			if !direct || 1 < len(anc) {
				// r reached through another class, or i has further ancestors whose lists may be stale
				for a := range anc {
					if a != r {
						aa, _ := ancestors(defs, nil, a)
						if aa[r] {
							return true
						}
					}
				}
			}
		}
	}
	return false
}

func exec(spec string) (res engine.Result) {
	if strings.HasPrefix(spec, "lisp:") { // development probe
		val, tr, err := lisp.Run(spec[5:])
		res.Outcome = val + " trace=" + strings.Join(tr, ",") + " err=" + err.String()
		return
	}
	if strings.HasPrefix(spec, "nilarg|") {
		return execNilarg(spec)
	}
	c, err := parseCase(spec)
	if err != nil {
		res.Fail("harness:bad-spec", spec+": "+err.Error())
		return
	}
	reps := 1
	if hasIndirectDescendant(c) {
		reps = 3
	}
	first := judgeCase(c, func() world { return newRealWorld(c.n) }, reps, &res)
	counters(c, &res)
	h := fnv.New64a()
	var ks []string
	for k, v := range first {
		ks = append(ks, k+"="+v)
	}
	sort.Strings(ks)
	for _, k := range ks {
		h.Write([]byte(k))
		h.Write([]byte{0})
	}
	res.Outcome = fmt.Sprintf("%s #%x", first[fmt.Sprintf("P|%d", c.n-1)], h.Sum64())
	return
}

func counters(c *caseSpec, res *engine.Result) {
	fin := c.finalDefs()
	edges := 0
	for _, sets := range [][]classDef{c.defs, fin} {
		for i := 0; i < c.n; i++ {
			edges += len(sets[i].supers)
			switch shape(sets, i) {
			case "diamond":
				res.Hit("diamond")
			case "redundant-direct":
				res.Hit("redundant-direct")
			case "fork":
				res.Hit("fork")
			}
			for _, sl := range slotNames {
				if declRel(sets, i, sl) == "shadowed" {
					res.Hit("shadowed-slot")
				}
				if _, own := sets[i].slot(i, sl); !own || func() bool { sd, _ := sets[i].slot(i, sl); return sd.form == 0 }() {
					if w := expectSlot(sets, canonPrec(sets, i), sl, nil); w.src == "initform" {
						res.Hit("inherited-initform")
					}
				}
				if slotExists(sets, i, sl) {
					res.Hit("accessor-checked")
					if w := expectSlot(sets, canonPrec(sets, i), sl, nil); w.src == "unbound" {
						res.Hit("unbound-slot-checked")
					}
				}
			}
			va := validArgs(sets, i)
			for _, a := range va {
				if 1 < len(argSlots(sets, i, a)) {
					res.Hit("shared-initarg")
				}
			}
			for _, sl := range slotNames {
				if w := expectSlot(sets, canonPrec(sets, i), sl, va); w.src == "initarg-multi" {
					res.Hit("two-initargs-one-slot")
				}
			}
		}
	}
	if 0 < edges || c.redef != nil {
		res.Nontrivial = true
	}
	for _, h := range c.histories() {
		pos := map[int]int{}
		for p, f := range h {
			pos[f] = p
		}
		fwd, fwdInd := false, false
		for i := 0; i < c.n; i++ {
			anc, _ := ancestors(fin, nil, i)
			for a := range anc {
				if pos[i] < pos[a] {
					fwd = true
					direct := false
					for _, s := range fin[i].supers {
						if s == a {
							direct = true
						}
					}
					if !direct {
						fwdInd = true
					}
				}
			}
		}
		if fwd {
			res.Hit("forward-ref-history")
		}
		if fwdInd {
			res.Hit("forward-ref-indirect-ancestor")
		}
		if 2 < len(h) {
			res.Hit("mid-history-precedence")
		}
		if c.redef != nil {
			r := c.redef.r
			for _, s := range c.redef.def.supers {
				if pos[c.n] < pos[s] {
					res.Hit("redef-before-superclass-defined")
				}
			}
			for i := 0; i < c.n; i++ {
				if i == r || pos[c.n] < pos[i] {
					continue
				}
				anc, _ := ancestors(fin, nil, i)
				if !anc[r] {
					continue
				}
				direct := false
				for _, s := range fin[i].supers {
					if s == r {
						direct = true
					}
				}
				if direct {
					res.Hit("redef-direct-subclass")
				} else {
					res.Hit("redef-indirect-subclass")
				}
			}
			if c.warm {
				res.Hit("warm-dispatch")
			}
		}
	}
}

// ---------------------------------------------------------------- oracle-sensitivity self-test (S6)

func selftest(tier string) (killed, total int, notes []string) {
	var specs []string
	enumerate(tier, func(s string) { specs = append(specs, s) })
	stride := len(specs)/1000 + 1
	alive := map[string]bool{}
	for _, m := range mutants {
		alive[m] = true
	}
	total = len(mutants)
	checked := 0
	refBad := ""
	for k := 0; k < len(specs); k += stride {
		c, err := parseCase(specs[k])
		if err != nil {
			continue
		}
		checked++
		var r engine.Result
		judgeCase(c, func() world { return newSim(c.n, "") }, 1, &r)
		if 0 < len(r.Failures) && refBad == "" {
			refBad = fmt.Sprintf("the oracle rejects the unmutated reference on %s: %s (%s)", specs[k], r.Failures[0].Sig, r.Failures[0].Detail)
		}
		for _, m := range mutants {
			if !alive[m] {
				continue
			}
			var mr engine.Result
			mm := m
			judgeCase(c, func() world { return newSim(c.n, mm) }, 1, &mr)
			if 0 < len(mr.Failures) {
				alive[m] = false
				notes = append(notes, fmt.Sprintf("%s: killed by %s (%s)", m, specs[k], mr.Failures[0].Sig))
			}
		}
	}
	for _, m := range mutants {
		if alive[m] {
			notes = append(notes, m+": NOT distinguished")
		} else {
			killed++
		}
	}
	notes = append(notes, fmt.Sprintf("unmutated reference judged on %d cases (every %d-th of %d)", checked, stride, len(specs)))
	if refBad != "" {
		notes = append(notes, refBad)
		killed = -1
	}
	return
}
