// Package c04: arguments are bound per the lambda list (Part A: every lambda-list shape x every
// argument vector against a reference binder written from CLHS 3.4.1) and every built-in accepts
// exactly the argument counts its own documented lambda list allows (Part B).
package c04

import (
	"fmt"
	"sort"
	"strconv"
	"strings"

	"verif/engine"
	"verif/lisp"
)

func init() {
	engine.Register(&engine.Prop{
		ID:    "C04",
		Level: "exploration",
		Rule: "Part A: every lambda-list shape (required x &optional with/without default x &rest x &key with/without default x &aux) " +
			"x every argument vector of the bound, through defun+call, funcall of a lambda, apply of a lambda and apply of the named function; " +
			"the body is (tr 'in) (list <all parameters>); the observed list (or error, and whether the body had started) must be in the set " +
			"the reference binder (CLHS 3.4.1) allows. Sixth round, same oracle: further call routes (apply with every split into spread arguments " +
			"and a final list incl. the empty one, multiple-value-call, mapcar/mapc/every over one-element lists, reduce with and without :initial-value, " +
			"a sort predicate, funcall of #'name / (function name) / (symbol-function 'name), a closure returned by another function, a method of a " +
			"defgeneric, a flavors method called by send, a defmacro (argument forms unevaluated), a recursive self-call with another argument count " +
			"in both directions); every route again with every parameter name being a variable around the call site / around the definition site / a " +
			"global of the current package; further lambda-list dimensions (default FORMS that log and read all earlier parameters - evaluated once, only " +
			"when absent, left to right -, &allow-other-keys and :allow-other-keys t/nil, keywords and declarations spelled in lower / UPPER / Mixed " +
			"case, supplied-p variables and ((:keyword var) default) specs - those two are refused by slip's defun and then only counted). " +
			"Part B: every function of every package x every argument count 0..max+2, arguments " +
			"chosen by documented type; error class vs the documented range; and every documented keyword of every built-in alone (must not be " +
			"rejected as a keyword or for the argument count), a documented keyword without value and an undocumented pair (error, or the value of " +
			"the call without that tail). A case is non-trivial when the lambda list has a non-required " +
			"parameter or the argument count differs from the number of required parameters (A), or when the count lies outside the " +
			"documented range or the function documents &optional/&rest/&key (B)",
		Assumptions: []string{
			"the statement is silent on: unknown keys (error or ignored, slip documents :allow-other-keys t), duplicate keys (leftmost or rightmost), whether &rest also holds the keyword arguments (CL) or stops before the first declared keyword (slip) - each is accepted; with &allow-other-keys in the lambda list or a true :allow-other-keys in the call an unknown key must not be an error",
			"default values in the plain lambda lists are literals; default FORMS are covered by a small family with one signature per kind of form (a call, a quoted symbol, a list, a bare symbol, a call without arguments; &optional, &key, &aux) and by the default-forms dimension of the sixth round",
			"supplied-p variables and ((:keyword var) default) key specs are not in the statement and slip's defun/lambda refuse them aloud (type-error 'lambda list element ...'): such a refusal is counted, any other treatment is judged by the reference binder",
			"a sort predicate may be handed the two elements in either order",
			"Part B: a non-arity error outside the documented range is inconclusive (the type check may precede the count check) and only counted",
			"Part B: functions with &key are not called with more than the documented pairs (unknown/duplicate keys are allowed by the assumption above)",
			"Part B keywords: an error that does not name the keyword itself as unacceptable is inconclusive (the value from the type table may not suit the function); an odd keyword tail / an undocumented pair may be rejected or ignored, ignored = the result renders like the one of the call without the tail (skipped when two calls without the tail do not agree)",
		},
		Enumerate:     enumerate,
		Exec:          exec,
		Required:      required,
		Bound:         bound,
		Selftest:      selftest,
		CaseDeadlineS: 10,
	})
}

func enumerate(tier string, emit func(string)) {
	allFuncs()             // snapshot the function tables before any case defines anything
	enumerateB(tier, emit) // the small part first
	enumerateK(tier, emit)
	enumerateA(tier, emit)
}

func exec(spec string) (res engine.Result) {
	switch {
	case strings.HasPrefix(spec, "A|"):
		return execA(spec)
	case strings.HasPrefix(spec, "D|"):
		return execD(spec)
	case strings.HasPrefix(spec, "B|"):
		return execB(spec)
	case strings.HasPrefix(spec, "K|"):
		return execK(spec)
	case strings.HasPrefix(spec, "lisp:"): // dev aid
		val, err := lisp.Eval(spec[5:])
		if err != nil {
			res.Outcome = "ERR " + err.String()
		} else {
			res.Outcome = lisp.Show(val)
		}
	case strings.HasPrefix(spec, "leak:"): // dev aid
		f := strings.Split(spec, ":")
		n, _ := strconv.Atoi(f[2])
		res.Outcome = leakProbe(f[1], n)
	case strings.HasPrefix(spec, "list:"): // dev aid: all specs of the quick tier with this prefix
		var out []string
		enumerate(engine.Quick, func(sp string) {
			if strings.HasPrefix(sp, spec[5:]) {
				out = append(out, sp)
			}
		})
		res.Outcome = strings.Join(out, "\n")
	case strings.HasPrefix(spec, "count:"): // dev aid
		res.Outcome = countFamilies(spec[6:])
	case spec == "dump:funcs": // dev aid
		res.Outcome = dumpFuncs()
	default:
		res.Fail("harness:bad-spec", spec)
	}
	return
}

var required = []string{
	"B:in-range", "B:below-min", "B:above-max", "B:in-range-with-keys", "B:in-range-optional-supplied", "B:out-of-range-arity-error",
	"A:valid-call", "A:redefined-with-another-lambda-list", "A:too-few", "A:too-many", "A:odd-key-tail", "A:optional-default-used", "A:key-default-used",
	"A:rest-nonempty", "A:keys-out-of-order", "A:duplicate-key", "A:unknown-key", "A:aux", "A:default-form",
	"A:keyword-as-positional-value", "A:called-twice-by-a-multi-list-mapcar",
	// sixth round: routes
	"A:route-apply-spread-arguments-and-an-empty-list", "A:route-apply-several-spread-arguments", "A:route-apply-of-the-empty-list",
	"A:route-mv.one", "A:route-mv.all", "A:route-mv.split", "A:route-mapcar1", "A:route-mapc", "A:route-every", "A:route-reduce", "A:route-reduceinit",
	"A:route-sort", "A:route-fsharp", "A:route-ffunction", "A:route-fsymfn", "A:route-closure", "A:route-generic", "A:route-flavor", "A:route-macro",
	"A:route-recout", "A:route-recin", "A:nested-activation-with-another-argument-count",
	// environments
	"A:environment-call", "A:environment-def", "A:environment-glob",
	// lambda-list dimensions
	"A:lambda-list-default-forms", "A:default-form-with-side-effect-evaluated", "A:default-form-with-side-effect-skipped-because-supplied",
	"A:lambda-list-allow-other-keys", "A:allow-other-keys-argument", "A:unknown-key-that-must-be-allowed",
	"A:lambda-list-long-names", "A:lambda-list-declared-upper-case", "A:lambda-list-declared-mixed-case", "A:keyword-spelled-with-upper-case",
	// keywords of the built-ins
	"K:documented-keyword-call", "K:documented-keyword-accepted", "K:odd-tail-call", "K:undoc-tail-call",
}

func bound(tier string) string {
	b := boundsFor(tier)
	nshapes := len(shapes(b))
	na, nb, nk := 0, 0, 0
	enumerateA(tier, func(string) { na++ })
	enumerateB(tier, func(string) { nb++ })
	enumerateK(tier, func(string) { nk++ })
	var fams []string
	n6 := 0
	for _, fam := range families(b) {
		n := 0
		fam.each(func(string, *shape, string) { n++ })
		n6 += n
		fams = append(fams, fmt.Sprintf("%s: %d shapes x vectors with <= %d pairs x {%s} = %d", fam.name, len(fam.shapes), fam.opts.maxPairs, strings.Join(fam.vias, " "), n))
	}
	patt := "every with/without-default pattern"
	if b.reduced {
		patt = "one with/without-default pattern per parameter count (forms: two)"
	}
	return fmt.Sprintf("Part A: all %d lambda-list shapes with 0-%d required x 0-%d &optional (each with/without default) x &rest x 0-%d &key "+
		"(each with/without default) x &aux; per shape every positional count 0..required+optional+2 followed by (a) every sequence of <= %d key/value "+
		"pairs over the declared keys and one unknown key (all orders, duplicates), (b) each such sequence of < %d pairs followed by a lone key, "+
		"(c) every <= 2-pair sequence containing an unknown key named like the first required / first optional / rest / aux parameter, (d) one positional "+
		"value replaced by a declared keyword; each through %s (%d calls incl. %d default-form cases and %d calls of the sixth-round families). "+
		"Sixth-round families (%s; the same vectors without (c); 'spread' = every split 0..n, reduce/sort = the vectors of length 2, mapcar1/mapc/every = length >= 1, "+
		"@call/@def/@glob = like-named variables around the call, around the definition, global): %s. Part B: %d functions of %d packages x every "+
		"argument count 0..max+2 allowed or forbidden by FuncDoc.Args (%d calls; %d functions never called, %d only called with counts outside their range, "+
		"%d with a starred parameter name not judged); keywords: every documented keyword of every built-in with &key alone, without value, and one undocumented pair (%d calls)",
		nshapes, b.maxReq, b.maxOpt, b.maxKey, b.maxPairs, b.maxPairs, strings.Join(b.vias, ", "), na, len(defaultFormCases), n6,
		patt, strings.Join(fams, "; "),
		len(allFuncs()), countPackages(), nb, len(skipAlways), len(skipInRange), countVague(), nk)
}

func countPackages() int {
	set := map[string]bool{}
	for _, fn := range allFuncs() {
		set[fn.pkg] = true
	}
	return len(set)
}

func countVague() int {
	n := 0
	for _, fn := range allFuncs() {
		if parseDoc(fn.fi.Doc, rmNone).vague {
			n++
		}
	}
	return n
}

// selftest (S6): mutated reference models. Part A: the reference binder with one seeded bug, run under
// the choices slip makes where the statement is silent; it is killed when some enumerated case gives an
// outcome outside the acceptable set of the real reference. Part B: a mutated reading of the documented
// lambda list; killed when some enumerated (function, count) is classified differently.
func selftest(tier string) (killed, total int, notes []string) {
	b := boundsFor(tier)
	slipLike := variant{slipRest: true, dupRight: true, unknownError: false}
	muts := []mutation{mMissingRequiredAccepted, mTooManyAccepted, mOptionalDefaultIgnored, mRestDropsFirst, mKeysByPosition,
		mKeywordSkipsOptional, mKeyDefaultIgnored, mUnknownKeyClobbersParam, mExplicitNilIsAbsent}
	alive := map[mutation]bool{}
	for _, m := range muts {
		alive[m] = true
	}
	total = len(muts)
	for _, sh := range shapes(b) {
		if len(alive) == 0 {
			break
		}
		argVectors(sh, vecOpts{maxPairs: b.maxPairs}, func(as string) {
			if len(alive) == 0 {
				return
			}
			args := parseArgs(as)
			var exp *expectation
			for m := range alive {
				o := bind(sh, args, slipLike, m)
				if exp == nil {
					exp = acceptable(sh, args)
				}
				if !exp.set[o.String()] {
					delete(alive, m)
					killed++
					notes = append(notes, fmt.Sprintf("A: '%s' distinguished by %s %s: mutant gives %s, allowed: %s",
						mutationNames[m], sh.lambdaList(), "("+strings.Join(argTexts(args), " ")+")", o.String(), exp.describe()))
				}
			}
		})
	}
	for m := range alive {
		notes = append(notes, "A: NOT distinguished: "+mutationNames[m])
	}
	k6, t6, n6 := selftestRoutes(b, slipLike)
	killed, total, notes = killed+k6, total+t6, append(notes, n6...)
	rms := map[rangeMutation]string{
		rmOptionalIsRequired: "&optional parameters counted as required",
		rmRestIgnored:        "&rest ignored (finite maximum)",
		rmMaxOffByOne:        "maximum one too large",
	}
	for _, rm := range []rangeMutation{rmOptionalIsRequired, rmRestIgnored, rmMaxOffByOne} {
		total++
		found := ""
		for _, fn := range allFuncs() {
			real, mut := parseDoc(fn.fi.Doc, rmNone), parseDoc(fn.fi.Doc, rm)
			if real.vague {
				continue
			}
			in, out := real.counts()
			for _, n := range append(in, out...) {
				if real.inRange(n) != mut.inRange(n) {
					found = fmt.Sprintf("%s:%s n=%d", fn.pkg, fn.name, n)
					break
				}
			}
			if found != "" {
				break
			}
		}
		if found != "" {
			killed++
			notes = append(notes, "B: '"+rms[rm]+"' distinguished by "+found)
		} else {
			notes = append(notes, "B: NOT distinguished: "+rms[rm])
		}
	}
	sort.Strings(notes)
	return
}
