//go:build verif && !race

package vsched

import "time"

// gate (plain build): a counting hand-off cell backed by a buffered channel.
type gate struct{ ch chan struct{} }

func newGate() *gate { return &gate{ch: make(chan struct{}, 256)} }

func (g *gate) signal() { g.ch <- struct{}{} }

// wait blocks until signalled; false on timeout.
func (g *gate) wait(d time.Duration) bool {
	if d <= 0 {
		<-g.ch
		return true
	}
	select {
	case <-g.ch:
		return true
	case <-time.After(d):
		return false
	}
}

// RaceBuild reports whether this is the race-detector variant.
const RaceBuild = false
