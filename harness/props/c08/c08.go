// Package c08: meaning does not depend on definition order, compilation or
// re-evaluation.
package c08

import (
	"fmt"
	"strings"

	"verif/engine"
)

func init() {
	engine.Register(&engine.Prop{
		ID:        "C08",
		Level:     "exploration",
		Enumerate: func(tier string, emit func(string)) {},
		Exec:      exec,
	})
}

func exec(spec string) (res engine.Result) {
	if strings.HasPrefix(spec, "raw|") {
		m := newMachine()
		var out []string
		for i, st := range parseRaw(spec[4:]) {
			if o, seen := m.do(st); seen {
				out = append(out, fmt.Sprintf("#%d %c%d: %s", i, st.op, st.slot, o.String()))
			}
		}
		res.Outcome = strings.Join(out, "\n")
		return
	}
	return
}
