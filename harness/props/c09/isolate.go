package c09

// Calls that are known to kill or hang the process on the pinned tree; they are
// run in a child process so that each gets a specific signature (see isolate()).
// Filled from observation; the table never decides a verdict.

func init() {
}

// isolateDirective: format directives known to die/hang with a huge parameter.
func isolateDirective(d string) bool {
	return false
}
